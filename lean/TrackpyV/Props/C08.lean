import TrackpyV.Proofs.LocatePost
/-!
# C08 — locate's output obeys its documented filters and bounds

Theorems about `Model/LocatePost.lean` (mirror of `trackpy/feature.py:400-459`, the part of
`trackpy/find.py: where_close` it calls and `trackpy/uncertainty.py: _static_error`), for **all**
refined feature tables `l`, separations, scale factors, noise measurements `N` and **all** filter
triples `F = (minmass, maxsize, topn)`; exact arithmetic over `Rat`, IEEE specials as `XR`.

* `post_from_input`, `post_inside_image` — every returned row is a row of `refine_com`'s table
  (mass, signal rescaled; everything else carried) with its ep cells; so it lies inside the image
  whenever the refined positions do (that hypothesis is C07's subject).
* `post_mass_gt`, `post_size_lt` — mass above `minmass`, size below `maxsize` (strict, NaN fails).
* `post_separated` — no two returned rows are closer than `separation` (per-axis metric).
* `topn_length_le`, `topn_length_eq`, `topn_are_heaviest`, `topn_alone_heaviest_of_unrestricted` —
  at most `n` rows, and they are `n` heaviest of the table `topn` is applied to (up to ties).
* `filters_only_remove`, `filters_only_remove_values` — for every triple the result is a
  sub-multiset of the unrestricted result, every kept row being equal to its unrestricted
  counterpart in every field, ep included.
* `filters_monotone`, `topn_monotone` — raising minmass / lowering maxsize / lowering topn (≥ 2)
  yields a sub-multiset.
* `ep_nonneg_or_nan`, `ep_value` — every ep cell is NaN, +∞ or a non-negative number, and when
  finite it is `noise / (raw_mass − N·black) · noise_size · cm`.
* `ep_negative_witness`, `aniso_filter_misaligned_witness` — the two behaviours of the unrepaired
  code (negative ep; ep cells attached by index label), on concrete inputs.
-/
namespace TrackpyV.LocatePost
open List

variable (N : Noise) (sep : List Rat) (scale : Rat)

/-! ## what a returned row is -/

/-- The driver evaluates stages 1-2 once per table and stages 3-5 once per filter triple: that is
`locatePost` itself. -/
theorem locatePost_eq (F : Filt) (l : List Feat) :
    locatePost N sep scale F l = (select F (stage12 sep scale l)).map (withEp N) := rfl

/-- Every returned row is `withEp N (rescale scale f)` for a row `f` of `refine_com`'s table that
survived the duplicate removal: position, size, raw_mass and all other columns are carried
unchanged, mass and signal are divided by the scale factor. -/
theorem post_from_input (F : Filt) (l : List Feat) (o : Out)
    (h : o ∈ locatePost N sep scale F l) :
    ∃ f, f ∈ l ∧ f ∈ dedupe sep l ∧ o = withEp N (rescale scale f) ∧
      keep F.minmass F.maxsize (rescale scale f) = true := by
  unfold locatePost select at h
  rw [mem_map] at h
  obtain ⟨g, hg, rfl⟩ := h
  have hg' := topnSel_subset hg
  rw [mem_massSizeFilter] at hg'
  obtain ⟨f, hf, rfl⟩ := mem_stage12 hg'.1
  exact ⟨f, (dedupe_sublist sep l).subset hf, hf, rfl, hg'.2⟩

/-- Clause "lies inside the image": positions are carried unchanged, so any predicate that holds
for every refined position (e.g. `0 ≤ x_k ≤ shape_k − 1`, supplied by C07) holds for every
returned row. -/
theorem post_inside_image (F : Filt) (l : List Feat) (inside : List Rat → Prop)
    (hin : ∀ f ∈ l, inside f.pos) :
    ∀ o ∈ locatePost N sep scale F l, inside o.feat.pos := by
  intro o ho
  obtain ⟨f, hf, _, rfl, _⟩ := post_from_input N sep scale F l o ho
  exact hin f hf

/-! ## mass and size filters -/

/-- Clause "every feature returned has mass above minmass" (strict). -/
theorem post_mass_gt (F : Filt) (l : List Feat) :
    ∀ o ∈ locatePost N sep scale F l, F.minmass < o.feat.mass := by
  intro o ho
  obtain ⟨f, _, _, rfl, hk⟩ := post_from_input N sep scale F l o ho
  unfold keep at hk
  rw [Bool.and_eq_true] at hk
  simpa [withEp] using hk.1

/-- Clause "size below maxsize when given" (strict; a NaN size is rejected). -/
theorem post_size_lt (F : Filt) (l : List Feat) (s : Rat) (hs : F.maxsize = some s) :
    ∀ o ∈ locatePost N sep scale F l, ∃ z, o.feat.size = some z ∧ z < s := by
  intro o ho
  obtain ⟨f, _, _, rfl, hk⟩ := post_from_input N sep scale F l o ho
  unfold keep at hk
  rw [Bool.and_eq_true, hs] at hk
  have h2 := hk.2
  unfold sizeOk at h2
  simp only [withEp, rescale_size] at h2 ⊢
  cases hz : f.size with
  | none => simp [hz] at h2
  | some z => exact ⟨z, rfl, by simpa [hz] using h2⟩

/-! ## separation -/

/-- Clause "no two returned features are closer than separation": for any two returned rows the
distance in the per-axis metric `Σ ((x_k − y_k)/sep_k)²` is at least 1.  (`tag` = row number in
`refine_com`'s table; rows are compared in that order, `post_separated_symm` removes the order.) -/
theorem post_separated (F : Filt) (l : List Feat) (hs : ∀ s ∈ sep, 0 < s) :
    ∀ o ∈ locatePost N sep scale F l, ∀ o' ∈ locatePost N sep scale F l,
      o.feat.tag < o'.feat.tag → 1 ≤ dist2 sep o.feat.pos o'.feat.pos := by
  intro o ho o' ho' ht
  obtain ⟨f, _, hf, rfl, _⟩ := post_from_input N sep scale F l o ho
  obtain ⟨f', _, hf', rfl, _⟩ := post_from_input N sep scale F l o' ho'
  have hs' : sep.all (fun s => decide (0 < s)) = true := by
    rw [all_eq_true]; intro s h; simpa using hs s h
  have := dedupe_separated hs' hf hf' ht
  unfold close at this
  simpa [withEp] using this

/-- the same for any two distinct rows, in either order -/
theorem post_separated_symm (F : Filt) (l : List Feat) (hs : ∀ s ∈ sep, 0 < s) :
    ∀ o ∈ locatePost N sep scale F l, ∀ o' ∈ locatePost N sep scale F l,
      o.feat.tag ≠ o'.feat.tag → 1 ≤ dist2 sep o.feat.pos o'.feat.pos := by
  intro o ho o' ho' hne
  rcases Nat.lt_or_gt_of_ne hne with h | h
  · exact post_separated N sep scale F l hs o ho o' ho' h
  · rw [dist2_comm]
    exact post_separated N sep scale F l hs o' ho' o ho h

/-! ## topn -/

/-- Clause "with topn = n at most n features are returned" (n ≥ 1; see `topnSel` for n = 0). -/
theorem topn_length_le (mm : Rat) (ms : Option Rat) (n : Nat) (hn : 1 ≤ n) (l : List Feat) :
    (locatePost N sep scale ⟨mm, ms, some n⟩ l).length ≤ n := by
  unfold locatePost select
  rw [length_map]
  exact topnSel_length_le n hn _

/-- … and exactly `min n (number of rows passing the mass/size filter)`. -/
theorem topn_length_eq (mm : Rat) (ms : Option Rat) (n : Nat) (hn : 1 ≤ n) (l : List Feat) :
    (locatePost N sep scale ⟨mm, ms, some n⟩ l).length
      = min n (locatePost N sep scale ⟨mm, ms, none⟩ l).length := by
  unfold locatePost select
  rw [length_map, length_map]
  exact topnSel_length_eq n hn _

/-- Clause "they are the n most massive": the result with `topn = n` together with a list
`dropped` is (a permutation of) the result without topn, and no dropped row is heavier than a kept
one.  Stated up to ties: which of several rows of equal mass at the cut is kept is not fixed. -/
theorem topn_are_heaviest (mm : Rat) (ms : Option Rat) (n : Nat) (hn : 1 ≤ n) (l : List Feat) :
    ∃ dropped, (locatePost N sep scale ⟨mm, ms, some n⟩ l ++ dropped).Perm
        (locatePost N sep scale ⟨mm, ms, none⟩ l) ∧
      ∀ o ∈ locatePost N sep scale ⟨mm, ms, some n⟩ l, ∀ d ∈ dropped,
        d.feat.mass ≤ o.feat.mass := by
  unfold locatePost select
  obtain ⟨d, hd, hmax⟩ := topnSel_split (some n) (massSizeFilter mm ms (stage12 sep scale l))
  refine ⟨d.map (withEp N), ?_, ?_⟩
  · rw [← map_append]
    simpa [topnSel] using hd.map (withEp N)
  · intro o ho d' hd'
    rw [mem_map] at ho hd'
    obtain ⟨x, hx, rfl⟩ := ho
    obtain ⟨y, hy, rfl⟩ := hd'
    exact hmax ⟨n, rfl, hn⟩ x hx y hy

/-- The statement's wording: with `topn = n` alone (same minmass, no maxsize) the rows are `n`
most massive rows "of the unrestricted result". -/
theorem topn_alone_heaviest_of_unrestricted (mm : Rat) (n : Nat) (hn : 1 ≤ n) (l : List Feat) :
    (locatePost N sep scale ⟨mm, none, some n⟩ l).length
        = min n (locatePost N sep scale ⟨mm, none, none⟩ l).length ∧
    ∃ dropped, (locatePost N sep scale ⟨mm, none, some n⟩ l ++ dropped).Perm
        (locatePost N sep scale ⟨mm, none, none⟩ l) ∧
      ∀ o ∈ locatePost N sep scale ⟨mm, none, some n⟩ l, ∀ d ∈ dropped,
        d.feat.mass ≤ o.feat.mass :=
  ⟨topn_length_eq N sep scale mm none n hn l, topn_are_heaviest N sep scale mm none n hn l⟩

/-! ## filters only remove rows -/

/-- Clause "raising minmass, lowering maxsize or setting topn only removes rows from the
unrestricted result and changes no value in the rows kept": for **every** triple
`(minmass, maxsize, topn)` and every unrestricted call with `minmass₀ ≤ minmass` (no maxsize, no
topn) the result is a sub-multiset (`<+~`) of the unrestricted result.  Rows are complete records
(`Out` = all columns and the ep cells), so membership *is* field-for-field equality. -/
theorem filters_only_remove (F : Filt) (mm0 : Rat) (h0 : mm0 ≤ F.minmass) (l : List Feat) :
    (locatePost N sep scale F l).Subperm (locatePost N sep scale ⟨mm0, none, none⟩ l) := by
  unfold locatePost select
  have h1 := topnSel_subperm F.topn (massSizeFilter F.minmass F.maxsize (stage12 sep scale l))
  have h2 : (massSizeFilter F.minmass F.maxsize (stage12 sep scale l)).Sublist
      (massSizeFilter mm0 none (stage12 sep scale l)) :=
    filter_sublist_of_imp (fun a ha => keep_mono h0 (by simp [sizeLe]) a ha) _
  have h3 := h1.trans h2.subperm
  obtain ⟨s, hs1, hs2⟩ := h3
  exact ⟨s.map (withEp N), hs1.map _, by simpa [topnSel] using hs2.map (withEp N)⟩

/-- The same, row by row: each returned row occurs in the unrestricted result, identical in every
field: tag, position, mass, size, signal, raw_mass, other columns and ep. -/
theorem filters_only_remove_values (F : Filt) (mm0 : Rat) (h0 : mm0 ≤ F.minmass) (l : List Feat) :
    ∀ o ∈ locatePost N sep scale F l, ∃ u ∈ locatePost N sep scale ⟨mm0, none, none⟩ l,
      u.feat.tag = o.feat.tag ∧ u.feat.pos = o.feat.pos ∧ u.feat.mass = o.feat.mass ∧
      u.feat.size = o.feat.size ∧ u.feat.signal = o.feat.signal ∧
      u.feat.rawMass = o.feat.rawMass ∧ u.feat.extra = o.feat.extra ∧ u.ep = o.ep := by
  intro o ho
  exact ⟨o, (filters_only_remove N sep scale F mm0 h0 l).subset ho, rfl, rfl, rfl, rfl, rfl, rfl,
    rfl, rfl⟩

/-- Raising minmass and/or lowering maxsize (same topn = none) yields a sub-table (order kept). -/
theorem filters_monotone (mm mm' : Rat) (ms ms' : Option Rat) (hm : mm ≤ mm')
    (hs : sizeLe ms' ms) (l : List Feat) :
    (locatePost N sep scale ⟨mm', ms', none⟩ l).Sublist (locatePost N sep scale ⟨mm, ms, none⟩ l) := by
  unfold locatePost select
  simp only [topnSel]
  exact (filter_sublist_of_imp (fun a ha => keep_mono hm hs a ha) _).map _

/-- Lowering topn (down to 2) yields a sub-multiset.  For `topn = 1` the code uses `argmax`
(first maximal row) instead of `argsort` (last rows), so with tied maximal masses the single row
need not be among the rows kept for a larger `topn`; `topn_are_heaviest` still applies. -/
theorem topn_monotone (mm : Rat) (ms : Option Rat) (n n' : Nat) (h2 : 2 ≤ n') (hle : n' ≤ n)
    (l : List Feat) :
    (locatePost N sep scale ⟨mm, ms, some n'⟩ l).Subperm
      (locatePost N sep scale ⟨mm, ms, some n⟩ l) := by
  unfold locatePost select
  obtain ⟨s, hs1, hs2⟩ := topnSel_mono h2 hle (massSizeFilter mm ms (stage12 sep scale l))
  exact ⟨s.map (withEp N), hs1.map _, hs2.map _⟩

/-! ## static error -/

theorem clampNeg_ok (e : XR) :
    clampNeg e = .nan ∨ clampNeg e = .pinf ∨ ∃ q, clampNeg e = .fin q ∧ 0 ≤ q := by
  cases e with
  | nan => exact Or.inl rfl
  | pinf => exact Or.inr (Or.inl rfl)
  | ninf => exact Or.inl rfl
  | fin q =>
    unfold clampNeg
    by_cases h : q < 0
    · simp [h]
    · simp only [h, if_false]
      exact Or.inr (Or.inr ⟨q, rfl, not_lt.1 h⟩)

/-- Clause "the reported static error ep is never negative: it is a positive number or NaN".
Every ep cell of every returned row is NaN, +∞ (raw_mass = N·black exactly, noise > 0) or a
rational `≥ 0` — for every noise measurement, noise size and moment factor, no hypothesis. -/
theorem ep_nonneg_or_nan (F : Filt) (l : List Feat) :
    ∀ o ∈ locatePost N sep scale F l, ∀ e ∈ o.ep,
      e = .nan ∨ e = .pinf ∨ ∃ q, e = .fin q ∧ 0 ≤ q := by
  intro o ho e he
  obtain ⟨f, _, _, rfl, _⟩ := post_from_input N sep scale F l o ho
  simp only [withEp, epOf, mem_map] at he
  obtain ⟨r, _, rfl⟩ := he
  exact clampNeg_ok r

/-- The value: isotropic case, background and noise measured, `raw_mass ≠ N·black`: the ep cell is
`noise / (raw_mass − N·black) · noise_size · cm` if that is `≥ 0`, NaN otherwise. -/
theorem ep_value (F : Filt) (l : List Feat) (b s : Rat) (hb : N.black = some b)
    (hn : N.noise = some s) (hiso : N.iso = true) :
    ∀ o ∈ locatePost N sep scale F l, o.feat.rawMass - N.npx * b ≠ 0 →
      let v := s / (o.feat.rawMass - N.npx * b) * N.nsz.getD 0 0 * N.cm.getD 0 0
      o.ep = [if v < 0 then .nan else .fin v] := by
  intro o ho hne
  obtain ⟨f, _, _, rfl, _⟩ := post_from_input N sep scale F l o ho
  simp only [withEp, rescale_rawMass] at hne ⊢
  simp [epOf, epRaw, hiso, nsRatio, hb, hn, xdiv, hne, xmul, clampNeg]

/-! ## non-vacuity and witnesses -/

section Examples

/-- four refined rows: 0 and 1 are a duplicate pair (1 is heavier), 2 is heavy and large,
3 is dark (raw_mass below N·black) -/
def exTable : List Feat :=
  [ ⟨0, [10, 10], 200, some 2, some 20, 900, [some (1/10)]⟩,
    ⟨1, [11, 10], 300, some 2, some 30, 1000, [some (1/10)]⟩,
    ⟨2, [30, 12], 800, some 3, some 60, 2000, [some (2/10)]⟩,
    ⟨3, [40, 40], 100, some (3/2), some 9, 300, [none]⟩ ]

def exNoise : Noise := ⟨some 5, some 2, 100, true, [1, 1], [3, 3]⟩
def exNoiseAniso : Noise := ⟨some 5, some 2, 100, false, [1, 1], [3, 4]⟩

/-- unrestricted: the duplicate 0 is gone, mass and signal are halved, ep of the dark row is NaN -/
example : locatePost exNoise [8, 8] 2 ⟨0, none, none⟩ exTable =
    [ ⟨⟨1, [11, 10], 150, some 2, some 15, 1000, [some (1/10)]⟩, [.fin (6/500)]⟩,
      ⟨⟨2, [30, 12], 400, some 3, some 30, 2000, [some (2/10)]⟩, [.fin (6/1500)]⟩,
      ⟨⟨3, [40, 40], 50, some (3/2), some (9/2), 300, [none]⟩, [.nan]⟩ ] := by decide +kernel

/-- minmass 60 removes row 3; maxsize 5/2 removes row 2; topn 1 keeps the heaviest -/
example : (locatePost exNoise [8, 8] 2 ⟨60, none, none⟩ exTable).map (·.feat.tag) = [1, 2] := by
  decide +kernel
example : (locatePost exNoise [8, 8] 2 ⟨0, some (5/2), none⟩ exTable).map (·.feat.tag) = [1, 3] := by
  decide +kernel
example : (locatePost exNoise [8, 8] 2 ⟨0, none, some 1⟩ exTable).map (·.feat.tag) = [2] := by
  decide +kernel
example : (locatePost exNoise [8, 8] 2 ⟨0, none, some 2⟩ exTable).map (·.feat.tag) = [1, 2] := by
  decide +kernel
/-- the hypotheses of `post_separated` / `ep_value` are satisfiable -/
example : (∀ s ∈ ([8, 8] : List Rat), 0 < s) := by decide +kernel
example : exNoise.black = some 5 ∧ exNoise.noise = some 2 ∧ exNoise.iso = true := by decide +kernel

/-- DEFECT (unrepaired code), replayed on the real code by corpus/C08/02_*: without the
negative -> NaN mapping the dark row's ep is negative. -/
theorem ep_negative_witness :
    epRaw exNoise ⟨3, [40, 40], 50, some (3/2), some (9/2), 300, [none]⟩ = [.fin (-3/100)] ∧
    epOf exNoise ⟨3, [40, 40], 50, some (3/2), some (9/2), 300, [none]⟩ = [.nan] := by decide +kernel

/-- DEFECT (unrepaired code), replayed on the real code by corpus/C08/01_*: anisotropic ep,
minmass 60 keeps the rows labelled 0 and 1 … here we take minmass 200 which keeps only the row
labelled 1 (tag 2): attaching the ep cells by label gives that row NO ep (position 1 does not
exist) and creates a phantom row that carries the ep cells of the kept row. -/
theorem aniso_filter_misaligned_witness :
    misalignedEp exNoiseAniso [(1, ⟨2, [30, 12], 400, some 3, some 30, 2000, [some (2/10)]⟩)] =
      [ (some ⟨2, [30, 12], 400, some 3, some 30, 2000, [some (2/10)]⟩, none),
        (none, some [.fin (6/1500), .fin (8/1500)]) ] ∧
    (locatePost exNoiseAniso [8, 8] 2 ⟨200, none, none⟩ exTable).map (fun o => (o.feat.tag, o.ep)) =
      [(2, [.fin (6/1500), .fin (8/1500)])] := by decide +kernel

end Examples

end TrackpyV.LocatePost
