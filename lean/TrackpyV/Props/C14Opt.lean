import TrackpyV.Props.C14Algo
import TrackpyV.Proofs.FindLinkOpt
/-!
# C14 — the FindLinker step model and the monitor in OPTIMALITY mode

`Props/C14Algo.lean` proves that the monitor's step relation `flStep` accepts the step model
`flAlgoStep` in validity mode (`cfg.noOpt = true`, the mode of op FLRUN) and keeps the optimality
mode as `-- FULL (not proved)`.  This file settles it:

* `flAlgo_opt_witness`, `flAlgo_cross_witness`   the FULL statement is FALSE of the model as it
      mirrors the code: `merge_lost_subnets` (subnet.py:440-477) merges around LOST sources only
      (sources of a sub-net that had a shortage before merging), but `add_dest_points`
      (subnet.py:383-424) admits a relocated feature within range of ANY source of the merged
      sub-net.  A feature admitted through a non-lost member can be within range of a source of
      ANOTHER sub-net, which never gets it as a candidate.  Concrete step (three sources, two
      detections, one relocated feature): the model links source 2 to a detection at squared
      distance 68 although the added feature is at 64 and stays unclaimed; `flStep` in optimality
      mode rejects the model's own output.  Replayed on the real `trackpy.find_link`:
      `design-notes/c14_opt_witness.py` (same coordinates, same links).  C14 does not claim
      optimality of the links, so this is an observation about find_link, not a violation.
* `dist2_near_of_common`, `mergeLost_joins_lost`, `flAlgo_added_local_of_lost`   lemma (a) in the
      form that IS true: a feature within range of a LOST source is out of range of the sources
      of every other sub-net (triangle inequality on the squared scale + the `2·search_range`
      rule); hence the side condition holds whenever every sub-net with a shortage consists of
      lost sources only.
* `optimal_on_parts`   lemma (b): an optimal assignment of a disjoint union of groups of sources is
      optimal on every group (`Assign.groups_compose_list` backwards).
* `flAlgo_accepted_opt_partial`, `flAlgo_run_accepted_opt_partial`   for EVERY state, level and
      oracle: `flStep` (`flRun`) accepts the model's output in optimality mode too, i.e. the links
      are a minimum-cost assignment on every connected component of the candidate graph of the
      EMITTED level, under `cfg.drop = false`, the size hypothesis of `flAlgo_accepted` and the
      decidable side condition `addedLocalB` (every added feature is seen by the sources of one
      sub-net only) that excludes the witness.  No hypothesis about `MAX_NEIGHBORS`: beyond the
      cap the monitor does not judge optimality.  `flAlgo_accepted_opt_of_lost`: the same with
      the side condition replaced by "sub-nets with a shortage consist of lost sources only".
-/
namespace TrackpyV.FindLink
open TrackpyV.Linker TrackpyV.Assign
open TrackpyV.Relocate (flStep flRun flRunFrom FLevel addedOkB)

/-! ## lemma (b) -/

/-- **optimal_on_parts.**  Sub-nets without a common destination: an assignment that is optimal
for all sources together, cut along the sub-nets, is optimal on every sub-net. -/
theorem optimal_on_parts (groups : List (List Src)) (asg : List (List Cand))
    (hd : groups.Pairwise (fun A B => ∀ x ∈ groupDests A, x ∉ groupDests B))
    (hlen : groups.length = asg.length)
    (hlens : ∀ p ∈ groups.zip asg, p.2.length = p.1.length)
    (hopt : IsOptimal groups.flatten asg.flatten) :
    ∀ p ∈ groups.zip asg, IsOptimal p.1 p.2 :=
  groups_decompose_list groups asg hd hlen hlens hopt

/-! ## lemma (a), as far as it is true -/

/-- **dist2_near_of_common.**  Two positions that both have `q` within `search_range` are within
`2·search_range` of each other (`4·B` on the squared scale), if `q` has a coordinate on every
weighted axis. -/
theorem dist2_near_of_common (w : List Nat) (B : Nat) (p q r : Pos) (hq : w.length ≤ q.length)
    (h1 : dist2 w p q ≤ B) (h2 : dist2 w r q ≤ B) : dist2 w p r ≤ 4 * B :=
  near_of_common w B p q r hq h1 h2

/-- **mergeLost_joins_lost.**  After `merge_lost_subnets`, a lost source `a` (a source of a sub-net
with a shortage BEFORE merging) and every source `b` within `2·search_range` of it are in the
same sub-net. -/
theorem mergeLost_joins_lost (cfg : Cfg) (st : State) (t : Int) (dsts : List Pos) (a b : Nat)
    (ha : a ∈ lostSources (groups1 cfg st t dsts)) (hb : b < st.srcs.length)
    (hd : dist2 cfg.w (viewOf cfg st t a) (viewOf cfg st t b) ≤ 4 * cfg.B) :
    ∃ g ∈ flGroups cfg st t dsts, a ∈ g.1 ∧ b ∈ g.1 := by
  apply mergeLost_joins cfg st t _ a b ha
  · simp only [near2, List.mem_filter, List.mem_range, decide_eq_true_eq]
    exact ⟨hb, hd⟩
  · exact sameG_self_of_mem (groups1_cover cfg st t dsts b hb)

/-- the oracle returns positions with a coordinate on every weighted axis -/
def OracleDim (cfg : Cfg) (orc : Oracle) : Prop :=
  ∀ hash pos, ∀ x ∈ orc hash pos, cfg.w.length ≤ x.1.length

theorem flAcc_dim (cfg : Cfg) (st : State) (t : Int) (orc : Oracle) (hdim : OracleDim cfg orc)
    (dsts : List Pos) :
    ∀ q ∈ (flAcc cfg st t orc dsts).lvl.drop dsts.length, cfg.w.length ≤ q.length := by
  have : ∃ extra, (flAcc cfg st t orc dsts).lvl = dsts ++ extra ∧
      ∀ q ∈ extra, cfg.w.length ≤ q.length := by
    unfold flAcc
    apply foldl_preserves (fun acc : Acc => ∃ extra, acc.lvl = dsts ++ extra ∧
      ∀ q ∈ extra, cfg.w.length ≤ q.length)
    · rintro acc g ⟨extra, hl, hall⟩
      rw [processGroup_eq]
      refine ⟨extra ++ (admOf cfg st t orc acc g).map (·.1), by simp [hl], ?_⟩
      intro q hq
      rcases List.mem_append.mp hq with hq | hq
      · exact hall q hq
      · obtain ⟨x, hx, rfl⟩ := List.mem_map.mp hq
        have hx1 := (List.mem_filter.mp hx).1
        split at hx1
        · exact hdim _ _ x (List.mem_of_mem_take hx1)
        · cases hx1
    · exact ⟨[], by simp, by simp⟩
  obtain ⟨extra, hl, hall⟩ := this
  rw [hl, List.drop_left]
  exact hall

/-- **flAlgo_added_local_of_lost.**  Lemma (a): if every sub-net with a shortage consists of lost
sources only (no sub-net without a shortage was merged into it), every added feature is seen by
the sources of ONE sub-net only — the side condition of `flAlgo_accepted_opt_partial`. -/
theorem flAlgo_added_local_of_lost (cfg : Cfg) (st : State) (t : Int) (orc : Oracle)
    (hdim : OracleDim cfg orc) (dsts : List Pos)
    (hlost : ∀ g ∈ flGroups cfg st t dsts, short g = true →
      ∀ i ∈ g.1, i ∈ lostSources (groups1 cfg st t dsts)) :
    addedLocalB cfg st t (flGroups cfg st t dsts) dsts.length (flAlgoStep cfg st t orc dsts).dsts
      = true := by
  apply addedLocalB_of
  show AddedLocal cfg st t _ ((flAcc cfg st t orc dsts).lvl.drop dsts.length)
  intro q hq
  have hqd := flAcc_dim cfg st t orc hdim dsts q hq
  have hinv := flAcc_inv cfg st t orc dsts
  have hgi := flGroups_inv cfg st t dsts
  obtain ⟨k, hk⟩ := List.getElem?_of_mem hq
  rw [List.getElem?_drop] at hk
  obtain ⟨g, hg, hshort, a, ha, s, hs, hd⟩ := hinv.added_src (dsts.length + k) q (by omega) hk
  refine ⟨g, hg, ?_⟩
  intro b hb hdb
  have hda : dist2 cfg.w (viewOf cfg st t a) q ≤ cfg.B := by
    rw [viewOf_eq cfg st t a s hs]; exact hd
  obtain ⟨g', hg', ha', hb'⟩ := mergeLost_joins_lost cfg st t dsts a b (hlost g hg hshort a ha) hb
    (dist2_near_of_common cfg.w cfg.B _ q _ hqd hda hdb)
  have := group_eq_of_common hgi.src_nodup hg hg' ha ha'
  subst this
  exact hb'

/-! ## acceptance in optimality mode -/

/-- **flAlgo_accepted_opt_partial.**  `flAlgo_accepted` WITHOUT the hypothesis `cfg.noOpt = true`:
for every state with distinct, used source tracks, every level and every oracle, the monitor's
step relation accepts what the model emits also when it judges optimality — the model's links are
a minimum-cost assignment on every connected component of the candidate graph of the EMITTED
level.  Extra hypotheses: `cfg.drop = false` (the model links with the recursive solver) and the
side condition `addedLocalB` (every added feature is seen by sources of one sub-net only), which
the driver evaluates on every step; `flAlgo_opt_witness` shows that it cannot be dropped. -/
theorem flAlgo_accepted_opt_partial (cfg : Cfg) (hdrop : cfg.drop = false) (st : State)
    (hg : Good st) (t : Int) (orc : Oracle) (dsts : List Pos)
    (hover : (oversizeB cfg (stepGroups cfg st t (flAlgoStep cfg st t orc dsts).dsts) &&
      !(cappedB cfg st t (flAlgoStep cfg st t orc dsts).dsts)) = false)
    (hloc : addedLocalB cfg st t (flGroups cfg st t dsts) dsts.length
      (flAlgoStep cfg st t orc dsts).dsts = true) :
    flStep cfg st t (flAlgoStep cfg st t orc dsts).dsts (flAlgoStep cfg st t orc dsts).labels
        (flAlgoStep cfg st t orc dsts).added =
      some (nextState cfg st t (flAlgoStep cfg st t orc dsts).dsts
        (flAlgoStep cfg st t orc dsts).labels) := by
  have hopt : optWhy cfg st t (flAlgoStep cfg st t orc dsts).dsts
      (flAlgoStep cfg st t orc dsts).labels = none :=
    flAlgo_optimal cfg hdrop st hg t orc dsts (addedLocal_of_B hloc)
  unfold flStep stepCheck
  by_cases hc : (cappedB cfg st t (flAlgoStep cfg st t orc dsts).dsts || cfg.noOpt) = true
  · simp only [hover, Bool.false_eq_true, if_false, flAlgo_valid cfg st hg t orc dsts, hc,
      if_true, flAlgo_addedOk cfg st t orc dsts]
  · simp only [hover, Bool.false_eq_true, if_false, flAlgo_valid cfg st hg t orc dsts, hc, hopt,
      if_true, flAlgo_addedOk cfg st t orc dsts]

/-- **flAlgo_accepted_opt_of_lost.**  The same with the side condition replaced by a condition on
the sub-nets alone: every sub-net with a shortage consists of lost sources only. -/
theorem flAlgo_accepted_opt_of_lost (cfg : Cfg) (hdrop : cfg.drop = false) (st : State)
    (hg : Good st) (t : Int) (orc : Oracle) (hdim : OracleDim cfg orc) (dsts : List Pos)
    (hover : (oversizeB cfg (stepGroups cfg st t (flAlgoStep cfg st t orc dsts).dsts) &&
      !(cappedB cfg st t (flAlgoStep cfg st t orc dsts).dsts)) = false)
    (hlost : ∀ g ∈ flGroups cfg st t dsts, short g = true →
      ∀ i ∈ g.1, i ∈ lostSources (groups1 cfg st t dsts)) :
    flStep cfg st t (flAlgoStep cfg st t orc dsts).dsts (flAlgoStep cfg st t orc dsts).labels
        (flAlgoStep cfg st t orc dsts).added =
      some (nextState cfg st t (flAlgoStep cfg st t orc dsts).dsts
        (flAlgoStep cfg st t orc dsts).labels) :=
  flAlgo_accepted_opt_partial cfg hdrop st hg t orc dsts hover
    (flAlgo_added_local_of_lost cfg st t orc hdim dsts hlost)

/-! ### whole movies -/

/-- every step of the movie labelled by the model keeps the side condition -/
def FlLocal (cfg : Cfg) : State → List Frame → Prop
  | _, [] => True
  | st, (t, dsts, orc) :: rest =>
    addedLocalB cfg st t (flGroups cfg st t dsts) dsts.length (flAlgoStep cfg st t orc dsts).dsts
      = true ∧
    FlLocal cfg (nextState cfg st t (flAlgoStep cfg st t orc dsts).dsts
      (flAlgoStep cfg st t orc dsts).labels) rest

theorem flAlgo_runFrom_accepted_opt (cfg : Cfg) (hdrop : cfg.drop = false) :
    ∀ (frames : List Frame) (st : State) (hist : List LLevel) (k : Nat), Inv cfg st hist →
      FlWithinCaps cfg st frames → FlLocal cfg st frames →
      flRunFrom cfg st k (flAlgoRunFrom cfg st frames) = none
  | [], _, _, _, _, _, _ => rfl
  | (t, dsts, orc) :: rest, st, hist, k, hinv, hc, hl => by
    obtain ⟨hover, hrest⟩ := hc
    obtain ⟨hloc, hlrest⟩ := hl
    have hstep := flAlgo_accepted_opt_partial cfg hdrop st (good_of_inv hinv) t orc dsts hover hloc
    have hv := flAlgo_valid cfg st (good_of_inv hinv) t orc dsts
    obtain ⟨_, hinv'⟩ := step_preserves hinv hv
    simp only [flAlgoRunFrom, flRunFrom, hstep]
    exact flAlgo_runFrom_accepted_opt cfg hdrop rest _ _ (k + 1) hinv' hrest hlrest

/-- **flAlgo_run_accepted_opt_partial.**  `flAlgo_run_accepted` without `cfg.noOpt = true`: for
every movie (any detections, any oracles) whose steps stay within the caps and keep the side
condition, the monitor `flRun` accepts the movie labelled by the model in optimality mode. -/
theorem flAlgo_run_accepted_opt_partial (cfg : Cfg) (hdrop : cfg.drop = false) (t0 : Int)
    (d0 : List Pos) (o0 : Oracle) (rest : List Frame)
    (hc : FlWithinCaps cfg (firstState t0 d0) rest) (hl : FlLocal cfg (firstState t0 d0) rest) :
    flRun cfg (flAlgoRun cfg ((t0, d0, o0) :: rest)) = none := by
  have hi : initCheck t0 d0 (List.range d0.length) =
      .ok (firstState t0 d0) 0 0 (List.range d0.length).length false := by
    unfold initCheck firstState
    simp [List.nodup_range]
  obtain ⟨_, hinv⟩ := initCheck_ok cfg hi
  simp only [flAlgoRun, flRun, hi, List.isEmpty_nil, if_true]
  exact flAlgo_runFrom_accepted_opt cfg hdrop rest _ _ 1 hinv hc hl

/-! ## the witness: the side condition cannot be dropped -/

/-- search_range 10 (B = 100), memory 0, OPTIMALITY mode -/
def wL : Cfg := { w := [1, 1], B := 100, memory := 0, maxNeighbors := 10, maxSize := 30,
                  vel := none, drop := false, noOpt := false }
/-- frame 0: features Y = (10,10), S' = (10,28), S = (10,44) — sources 0, 1, 2 -/
def wSt : State := firstState 0 [[10, 10], [10, 28], [10, 44]]
/-- the image of frame 1 has one more bright spot at (10,36), mass 2452; the oracle keeps the
contract (returns it iff it is within range of a source handed in) -/
def wOrc : Oracle := fun _ pos =>
  ([([10, 36], 2452)] : List RFeat).filter (fun x => inReach wL pos x.1)

example : Good wSt := ⟨by decide, by decide⟩
example : OracleDim wL wOrc := by
  intro hash pos x hx
  have := (List.mem_filter.mp hx).1
  simp only [List.mem_singleton] at this
  subst this
  decide

/-- frame 1: (16,28) and (18,46) are detected.  Y has no candidate and is lost; it is 18 ≤ 2·10
from S', so the two are merged: sub-net `([1, 0], [0])` with shortage 1.  S (34 from Y) keeps its
own sub-net `([2], [1])`. -/
theorem wGroups : flGroups wL wSt 1 [[16, 28], [18, 46]] = [([1, 0], [0]), ([2], [1])] := by
  decide +kernel

/-- the lost sources are `[0]` only: S' is a member of the merged sub-net but not lost -/
example : lostSources (groups1 wL wSt 1 [[16, 28], [18, 46]]) = [0] := by decide +kernel

/-- the model relocates (10,36) for the merged sub-net (it is 8 from S'), links S' → (16,28)
(cost 36), S → (18,46) (cost 68) and starts a new trajectory (label 5) at (10,36) -/
theorem wStep : flAlgoStep wL wSt 1 wOrc [[16, 28], [18, 46]] =
    { dsts := [[16, 28], [18, 46], [10, 36]], added := [2], masses := [2452],
      labels := [1, 2, 5] } := by
  unfold flAlgoStep flAcc
  rw [wGroups]
  simp [processGroup, short, viewOf, view, wSt, firstState, nextState,
    fcands, candsOf, candsOfRow, distRow, dist2, sqI, insCand, keepCand_none, keepCand_some,
    solveOrdered, go, exceeds, taken, better, wOrc, inReach, wL, labelOf, trackOf, initCfg,
    List.range, List.range.loop, List.zipIdx, List.filter_cons, addTaken, freshBase]

/-- **flAlgo_cross_witness.**  The negation of lemma (a) as `Props/C14Algo.lean` states it: the
feature added for the sub-net `([1, 0], [0])` is within `search_range` of source 2 (squared
distance 64 ≤ 100), a source of the OTHER sub-net — and closer to it than the detection the
model links it to (68).  The side condition `addedLocalB` is false on this step. -/
theorem flAlgo_cross_witness :
    flGroups wL wSt 1 [[16, 28], [18, 46]] = [([1, 0], [0]), ([2], [1])] ∧
    (flAlgoStep wL wSt 1 wOrc [[16, 28], [18, 46]]).dsts[2]? = some [10, 36] ∧
    dist2 wL.w (viewOf wL wSt 1 1) [10, 36] = 64 ∧ dist2 wL.w (viewOf wL wSt 1 2) [10, 36] = 64 ∧
    dist2 wL.w (viewOf wL wSt 1 2) [18, 46] = 68 ∧
    addedLocalB wL wSt 1 (flGroups wL wSt 1 [[16, 28], [18, 46]]) 2
      (flAlgoStep wL wSt 1 wOrc [[16, 28], [18, 46]]).dsts = false := by
  rw [wStep, wGroups]
  refine ⟨rfl, rfl, by decide, by decide, by decide, by decide +kernel⟩

/-- on the emitted level S' and S are in ONE connected component (both see (10,36)) -/
theorem wGroupsL : stepGroups wL wSt 1 [[16, 28], [18, 46], [10, 36]] = [([2, 1], [0, 2, 1])] := by
  decide +kernel

/-- … on which the model's links (36 + 68) are not a minimum-cost assignment (36 + 64) -/
theorem wOptWhy : optWhy wL wSt 1 [[16, 28], [18, 46], [10, 36]] [1, 2, 5] =
    some "links are not a minimum-cost assignment" := by
  unfold optWhy
  rw [wGroupsL]
  simp [stepCands, gSrcs, gAsg, srcOf, asgOf, chosenOf, getD', groupOkB, pairwiseDisjointB,
    groupDests, dests, wSt, firstState, nextState, candsOf, candsOfRow, distRow, dist2, sqI,
    insCand, view, solveOrdered, go, exceeds, taken, better, wL, initCfg, List.range,
    List.range.loop, List.zipIdx, addTaken, sortedB, admissibleB, cost, List.idxOf?,
    List.findIdx?, List.findIdx?.go]

/-- **flAlgo_opt_witness.**  The FULL statement of `Props/C14Algo.lean` (acceptance in optimality
mode without a side condition) is false: on this state, level and contract-keeping oracle every
other hypothesis of `flAlgo_accepted_opt_partial` holds (`drop = false`, `Good`, no oversize
sub-net, nothing capped), and `flStep` REJECTS the model's own output. -/
theorem flAlgo_opt_witness :
    wL.drop = false ∧ Good wSt ∧
    (oversizeB wL (stepGroups wL wSt 1 (flAlgoStep wL wSt 1 wOrc [[16, 28], [18, 46]]).dsts) &&
      !(cappedB wL wSt 1 (flAlgoStep wL wSt 1 wOrc [[16, 28], [18, 46]]).dsts)) = false ∧
    cappedB wL wSt 1 (flAlgoStep wL wSt 1 wOrc [[16, 28], [18, 46]]).dsts = false ∧
    flStep wL wSt 1 (flAlgoStep wL wSt 1 wOrc [[16, 28], [18, 46]]).dsts
      (flAlgoStep wL wSt 1 wOrc [[16, 28], [18, 46]]).labels
      (flAlgoStep wL wSt 1 wOrc [[16, 28], [18, 46]]).added = none := by
  rw [wStep]
  have hv : validWhy wL wSt 1 [[16, 28], [18, 46], [10, 36]] [1, 2, 5] = none := by decide +kernel
  have hc : cappedB wL wSt 1 [[16, 28], [18, 46], [10, 36]] = false := by decide +kernel
  have ho : oversizeB wL (stepGroups wL wSt 1 [[16, 28], [18, 46], [10, 36]]) = false := by
    rw [wGroupsL]; decide
  refine ⟨rfl, ⟨by decide, by decide⟩, by simp only [ho, Bool.false_and], hc, ?_⟩
  unfold flStep stepCheck
  simp only [hv, hc, ho, wOptWhy]
  simp [wL]

/-! ## non-vacuity (tests, labelled as such) -/

/-- the configuration of `Props/C14Algo.exL` in OPTIMALITY mode -/
def exLo : Cfg := { exL with noOpt := false }

theorem exGroupsO : flGroups exLo exSt 1 [[1, 0]] = [([0], [0]), ([1], [])] := by decide +kernel

/-- the step of `Props/C14Algo.exStep` (one detection, the lost source re-found at (11,1)) -/
theorem exStepO : flAlgoStep exLo exSt 1 exOrc [[1, 0]] =
    { dsts := [[1, 0], [11, 1]], added := [1], masses := [30], labels := [0, 1] } := by
  unfold flAlgoStep flAcc
  rw [exGroupsO]
  simp [processGroup, short, viewOf, view, exSt, firstState, nextState,
    fcands, candsOf, candsOfRow, distRow, dist2, sqI, insCand, keepCand_none, keepCand_some,
    solveOrdered, go, exceeds, taken, better, exOrc, inReach, exLo, exL, exF, labelOf, trackOf,
    initCfg, List.range, List.range.loop, List.zipIdx, List.filter_cons]

/-- the hypotheses of `flAlgo_accepted_opt_partial` are satisfiable with a relocated feature, and
the monitor accepts the step in optimality mode (the instance of the theorem, evaluated) -/
example : flStep exLo exSt 1 [[1, 0], [11, 1]] [0, 1] [1] =
    some (nextState exLo exSt 1 [[1, 0], [11, 1]] [0, 1]) := by
  have h := flAlgo_accepted_opt_partial exLo rfl exSt ⟨by decide, by decide⟩ 1 exOrc [[1, 0]]
    (by rw [exStepO]; decide +kernel) (by rw [exStepO, exGroupsO]; decide +kernel)
  rw [exStepO] at h
  exact h

/-- … and so are those of `flAlgo_accepted_opt_of_lost`: the sub-net with a shortage, `([1], [])`,
consists of the lost source 1 -/
example : OracleDim exLo exOrc ∧ ∀ g ∈ flGroups exLo exSt 1 [[1, 0]], short g = true →
    ∀ i ∈ g.1, i ∈ lostSources (groups1 exLo exSt 1 [[1, 0]]) := by
  constructor
  · intro hash pos x hx
    have := (List.mem_filter.mp hx).1
    simp only [List.mem_singleton] at this
    subst this
    decide
  · have hl : lostSources (groups1 exLo exSt 1 [[1, 0]]) = [1] := by decide +kernel
    rw [exGroupsO, hl]
    decide

/-- whole movie in optimality mode (the instance of `flAlgo_run_accepted_opt_partial`) -/
example : flRun exLo (flAlgoRun exLo [(0, [[0, 0], [10, 0]], exOrc), (1, [[1, 0]], exOrc)]) = none :=
  flAlgo_run_accepted_opt_partial exLo rfl 0 _ exOrc [(1, [[1, 0]], exOrc)]
    ⟨by have h := exStepO; unfold exSt at h; rw [h]; decide +kernel, trivial⟩
    ⟨by have h := exStepO; have hg := exGroupsO; unfold exSt at h hg; rw [h, hg]; decide +kernel,
      trivial⟩

/-- lemma (b) on concrete numbers: two sub-nets, `[0 → dest 0 (1) | none (9)]` and
`[1 → dest 1 (2) | none (9)]` -/
example : IsOptimal [[(some 0, 1), (none, 9)]] [(some 0, 1)] := by
  have hopt : IsOptimal ([[(some 0, 1), (none, 9)]] ++ [[(some 1, 2), (none, 9)]])
      ([(some 0, 1)] ++ [(some 1, 2)]) := by
    refine ⟨by simp [Admissible, AdmTk, dests], ?_⟩
    intro a' ha'
    obtain ⟨hp, _, _⟩ := ha'
    match a', hp with
    | [c1, c2], hp =>
      simp only [List.cons_append, List.nil_append, picks_cons_cons, List.mem_cons,
        List.not_mem_nil, or_false, picks_nil_nil, and_true] at hp
      obtain ⟨h1, h2⟩ := hp
      rcases h1 with rfl | rfl <;> rcases h2 with rfl | rfl <;> simp [cost]
  exact (isOptimal_append_split _ _ (by simp [groupDests, dests]) _ _ rfl hopt).1

end TrackpyV.FindLink
