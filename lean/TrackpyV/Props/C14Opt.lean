import TrackpyV.Props.C14Algo
import TrackpyV.Proofs.FindLinkOpt
/-!
# C14 — the FindLinker step model and the monitor in OPTIMALITY mode

`Props/C14Algo.lean` proves that the monitor's step relation `flStep` accepts the step model
`flAlgoStep` in validity mode (`cfg.noOpt = true`, the mode of op FLRUN) and keeps the optimality
mode as `-- FULL (not proved)`.  This file settles it:

* `flAlgo_opt_witness`, `flAlgo_cross_witness`   the FULL statement is FALSE of the model as it
      mirrors the code: `merge_lost_subnets` (subnet.py:440-477) merges around LOST sources only
      (sources of a sub-net that had a shortage before merging), but `add_dest_points`
      (subnet.py:383-424) admits a relocated feature within range of ANY source of the merged
      sub-net.  A feature admitted through a non-lost member can be within range of a source of
      ANOTHER sub-net, which never gets it as a candidate.  Concrete step (three sources, two
      detections, one relocated feature): the model links source 2 to a detection at squared
      distance 68 although the added feature is at 64 and stays unclaimed; `flStep` in optimality
      mode rejects the model's own output.  Replayed on the real `trackpy.find_link`:
      `design-notes/c14_opt_witness.py` (same coordinates, same links).  C14 does not claim
      optimality of the links, so this is an observation about find_link, not a violation.
* `dist2_near_of_common`, `mergeLost_joins_lost`, `flAlgo_added_local_of_lost`   lemma (a) in the
      form that IS true: a feature within range of a LOST source is out of range of the sources
      of every other sub-net (triangle inequality on the squared scale + the `2·search_range`
      rule); hence the side condition holds whenever every sub-net with a shortage consists of
      lost sources only.
* `optimal_on_parts`   lemma (b): an optimal assignment of a disjoint union of groups of sources is
      optimal on every group (`Assign.groups_compose_list` backwards).
* `flAlgo_accepted_opt_partial`, `flAlgo_run_accepted_opt_partial`   for EVERY state, level and
      oracle: `flStep` (`flRun`) accepts the model's output in optimality mode too, i.e. the links
      are a minimum-cost assignment on every connected component of the candidate graph of the
      EMITTED level, under `cfg.drop = false`, the size hypothesis of `flAlgo_accepted` and the
      decidable side condition `addedLocalB` (every added feature is seen by the sources of one
      sub-net only) that excludes the witness.  No hypothesis about `MAX_NEIGHBORS`: beyond the
      cap the monitor does not judge optimality.  `flAlgo_accepted_opt_of_lost`: the same with
      the side condition replaced by "sub-nets with a shortage consist of lost sources only".
-/
namespace TrackpyV.FindLink
open TrackpyV.Linker TrackpyV.Assign
open TrackpyV.Relocate (flStep flRun flRunFrom FLevel addedOkB)

/-! ## lemma (b) -/

/-- **optimal_on_parts.**  Sub-nets without a common destination: an assignment that is optimal
for all sources together, cut along the sub-nets, is optimal on every sub-net. -/
theorem optimal_on_parts (groups : List (List Src)) (asg : List (List Cand))
    (hd : groups.Pairwise (fun A B => ∀ x ∈ groupDests A, x ∉ groupDests B))
    (hlen : groups.length = asg.length)
    (hlens : ∀ p ∈ groups.zip asg, p.2.length = p.1.length)
    (hopt : IsOptimal groups.flatten asg.flatten) :
    ∀ p ∈ groups.zip asg, IsOptimal p.1 p.2 :=
  groups_decompose_list groups asg hd hlen hlens hopt

/-! ## lemma (a), as far as it is true -/

/-- **dist2_near_of_common.**  Two positions that both have `q` within `search_range` are within
`2·search_range` of each other (`4·B` on the squared scale), if `q` has a coordinate on every
weighted axis. -/
theorem dist2_near_of_common (w : List Nat) (B : Nat) (p q r : Pos) (hq : w.length ≤ q.length)
    (h1 : dist2 w p q ≤ B) (h2 : dist2 w r q ≤ B) : dist2 w p r ≤ 4 * B :=
  near_of_common w B p q r hq h1 h2

/-- **mergeLost_joins_lost.**  After `merge_lost_subnets`, a lost source `a` (a source of a sub-net
with a shortage BEFORE merging) and every source `b` within `2·search_range` of it are in the
same sub-net. -/
theorem mergeLost_joins_lost (cfg : Cfg) (st : State) (t : Int) (dsts : List Pos) (a b : Nat)
    (ha : a ∈ lostSources (groups1 cfg st t dsts)) (hb : b < st.srcs.length)
    (hd : dist2 cfg.w (viewOf cfg st t a) (viewOf cfg st t b) ≤ 4 * cfg.B) :
    ∃ g ∈ flGroups cfg st t dsts, a ∈ g.1 ∧ b ∈ g.1 := by
  apply mergeLost_joins cfg st t _ a b ha
  · simp only [near2, List.mem_filter, List.mem_range, decide_eq_true_eq]
    exact ⟨hb, hd⟩
  · exact sameG_self_of_mem (groups1_cover cfg st t dsts b hb)

/-- the oracle returns positions with a coordinate on every weighted axis -/
def OracleDim (cfg : Cfg) (orc : Oracle) : Prop :=
  ∀ hash pos, ∀ x ∈ orc hash pos, cfg.w.length ≤ x.1.length

theorem flAcc_dim (cfg : Cfg) (st : State) (t : Int) (orc : Oracle) (hdim : OracleDim cfg orc)
    (dsts : List Pos) :
    ∀ q ∈ (flAcc cfg st t orc dsts).lvl.drop dsts.length, cfg.w.length ≤ q.length := by
  have : ∃ extra, (flAcc cfg st t orc dsts).lvl = dsts ++ extra ∧
      ∀ q ∈ extra, cfg.w.length ≤ q.length := by
    unfold flAcc
    apply foldl_preserves (fun acc : Acc => ∃ extra, acc.lvl = dsts ++ extra ∧
      ∀ q ∈ extra, cfg.w.length ≤ q.length)
    · rintro acc g ⟨extra, hl, hall⟩
      rw [processGroup_eq]
      refine ⟨extra ++ (admOf cfg st t orc acc g).map (·.1), by simp [hl], ?_⟩
      intro q hq
      rcases List.mem_append.mp hq with hq | hq
      · exact hall q hq
      · obtain ⟨x, hx, rfl⟩ := List.mem_map.mp hq
        have hx1 := (List.mem_filter.mp hx).1
        split at hx1
        · exact hdim _ _ x (List.mem_of_mem_take hx1)
        · cases hx1
    · exact ⟨[], by simp, by simp⟩
  obtain ⟨extra, hl, hall⟩ := this
  rw [hl, List.drop_left]
  exact hall

/-- **flAlgo_added_local_of_lost.**  Lemma (a): if every sub-net with a shortage consists of lost
sources only (no sub-net without a shortage was merged into it), every added feature is seen by
the sources of ONE sub-net only — the side condition of `flAlgo_accepted_opt_partial`. -/
theorem flAlgo_added_local_of_lost (cfg : Cfg) (st : State) (t : Int) (orc : Oracle)
    (hdim : OracleDim cfg orc) (dsts : List Pos)
    (hlost : ∀ g ∈ flGroups cfg st t dsts, short g = true →
      ∀ i ∈ g.1, i ∈ lostSources (groups1 cfg st t dsts)) :
    addedLocalB cfg st t (flGroups cfg st t dsts) dsts.length (flAlgoStep cfg st t orc dsts).dsts
      = true := by
  apply addedLocalB_of
  show AddedLocal cfg st t _ ((flAcc cfg st t orc dsts).lvl.drop dsts.length)
  intro q hq
  have hqd := flAcc_dim cfg st t orc hdim dsts q hq
  have hinv := flAcc_inv cfg st t orc dsts
  have hgi := flGroups_inv cfg st t dsts
  obtain ⟨k, hk⟩ := List.getElem?_of_mem hq
  rw [List.getElem?_drop] at hk
  obtain ⟨g, hg, hshort, a, ha, s, hs, hd⟩ := hinv.added_src (dsts.length + k) q (by omega) hk
  refine ⟨g, hg, ?_⟩
  intro b hb hdb
  have hda : dist2 cfg.w (viewOf cfg st t a) q ≤ cfg.B := by
    rw [viewOf_eq cfg st t a s hs]; exact hd
  obtain ⟨g', hg', ha', hb'⟩ := mergeLost_joins_lost cfg st t dsts a b (hlost g hg hshort a ha) hb
    (dist2_near_of_common cfg.w cfg.B _ q _ hqd hda hdb)
  have := group_eq_of_common hgi.src_nodup hg hg' ha ha'
  subst this
  exact hb'

/-! ## acceptance in optimality mode -/

/-- **flAlgo_accepted_opt_partial.**  `flAlgo_accepted` WITHOUT the hypothesis `cfg.noOpt = true`:
for every state with distinct, used source tracks, every level and every oracle, the monitor's
step relation accepts what the model emits also when it judges optimality — the model's links are
a minimum-cost assignment on every connected component of the candidate graph of the EMITTED
level.  Extra hypotheses: `cfg.drop = false` (the model links with the recursive solver) and the
side condition `addedLocalB` (every added feature is seen by sources of one sub-net only), which
the driver evaluates on every step; `flAlgo_opt_witness` shows that it cannot be dropped. -/
theorem flAlgo_accepted_opt_partial (cfg : Cfg) (hdrop : cfg.drop = false) (st : State)
    (hg : Good st) (t : Int) (orc : Oracle) (dsts : List Pos)
    (hover : (oversizeB cfg (stepGroups cfg st t (flAlgoStep cfg st t orc dsts).dsts) &&
      !(cappedB cfg st t (flAlgoStep cfg st t orc dsts).dsts)) = false)
    (hloc : addedLocalB cfg st t (flGroups cfg st t dsts) dsts.length
      (flAlgoStep cfg st t orc dsts).dsts = true) :
    flStep cfg st t (flAlgoStep cfg st t orc dsts).dsts (flAlgoStep cfg st t orc dsts).labels
        (flAlgoStep cfg st t orc dsts).added =
      some (nextState cfg st t (flAlgoStep cfg st t orc dsts).dsts
        (flAlgoStep cfg st t orc dsts).labels) := by
  have hopt : optWhy cfg st t (flAlgoStep cfg st t orc dsts).dsts
      (flAlgoStep cfg st t orc dsts).labels = none :=
    flAlgo_optimal cfg hdrop st hg t orc dsts (addedLocal_of_B hloc)
  unfold flStep stepCheck
  by_cases hc : (cappedB cfg st t (flAlgoStep cfg st t orc dsts).dsts || cfg.noOpt) = true
  · simp only [hover, Bool.false_eq_true, if_false, flAlgo_valid cfg st hg t orc dsts, hc,
      if_true, flAlgo_addedOk cfg st t orc dsts]
  · simp only [hover, Bool.false_eq_true, if_false, flAlgo_valid cfg st hg t orc dsts, hc, hopt,
      if_true, flAlgo_addedOk cfg st t orc dsts]

/-- **flAlgo_accepted_opt_of_lost.**  The same with the side condition replaced by a condition on
the sub-nets alone: every sub-net with a shortage consists of lost sources only. -/
theorem flAlgo_accepted_opt_of_lost (cfg : Cfg) (hdrop : cfg.drop = false) (st : State)
    (hg : Good st) (t : Int) (orc : Oracle) (hdim : OracleDim cfg orc) (dsts : List Pos)
    (hover : (oversizeB cfg (stepGroups cfg st t (flAlgoStep cfg st t orc dsts).dsts) &&
      !(cappedB cfg st t (flAlgoStep cfg st t orc dsts).dsts)) = false)
    (hlost : ∀ g ∈ flGroups cfg st t dsts, short g = true →
      ∀ i ∈ g.1, i ∈ lostSources (groups1 cfg st t dsts)) :
    flStep cfg st t (flAlgoStep cfg st t orc dsts).dsts (flAlgoStep cfg st t orc dsts).labels
        (flAlgoStep cfg st t orc dsts).added =
      some (nextState cfg st t (flAlgoStep cfg st t orc dsts).dsts
        (flAlgoStep cfg st t orc dsts).labels) :=
  flAlgo_accepted_opt_partial cfg hdrop st hg t orc dsts hover
    (flAlgo_added_local_of_lost cfg st t orc hdim dsts hlost)

/-! ### whole movies -/

/-- every step of the movie labelled by the model keeps the side condition -/
def FlLocal (cfg : Cfg) : State → List Frame → Prop
  | _, [] => True
  | st, (t, dsts, orc) :: rest =>
    addedLocalB cfg st t (flGroups cfg st t dsts) dsts.length (flAlgoStep cfg st t orc dsts).dsts
      = true ∧
    FlLocal cfg (nextState cfg st t (flAlgoStep cfg st t orc dsts).dsts
      (flAlgoStep cfg st t orc dsts).labels) rest

theorem flAlgo_runFrom_accepted_opt (cfg : Cfg) (hdrop : cfg.drop = false) :
    ∀ (frames : List Frame) (st : State) (hist : List LLevel) (k : Nat), Inv cfg st hist →
      FlWithinCaps cfg st frames → FlLocal cfg st frames →
      flRunFrom cfg st k (flAlgoRunFrom cfg st frames) = none
  | [], _, _, _, _, _, _ => rfl
  | (t, dsts, orc) :: rest, st, hist, k, hinv, hc, hl => by
    obtain ⟨hover, hrest⟩ := hc
    obtain ⟨hloc, hlrest⟩ := hl
    have hstep := flAlgo_accepted_opt_partial cfg hdrop st (good_of_inv hinv) t orc dsts hover hloc
    have hv := flAlgo_valid cfg st (good_of_inv hinv) t orc dsts
    obtain ⟨_, hinv'⟩ := step_preserves hinv hv
    simp only [flAlgoRunFrom, flRunFrom, hstep]
    exact flAlgo_runFrom_accepted_opt cfg hdrop rest _ _ (k + 1) hinv' hrest hlrest

/-- **flAlgo_run_accepted_opt_partial.**  `flAlgo_run_accepted` without `cfg.noOpt = true`: for
every movie (any detections, any oracles) whose steps stay within the caps and keep the side
condition, the monitor `flRun` accepts the movie labelled by the model in optimality mode. -/
theorem flAlgo_run_accepted_opt_partial (cfg : Cfg) (hdrop : cfg.drop = false) (t0 : Int)
    (d0 : List Pos) (o0 : Oracle) (rest : List Frame)
    (hc : FlWithinCaps cfg (firstState t0 d0) rest) (hl : FlLocal cfg (firstState t0 d0) rest) :
    flRun cfg (flAlgoRun cfg ((t0, d0, o0) :: rest)) = none := by
  have hi : initCheck t0 d0 (List.range d0.length) =
      .ok (firstState t0 d0) 0 0 (List.range d0.length).length false := by
    unfold initCheck firstState
    simp [List.nodup_range]
  obtain ⟨_, hinv⟩ := initCheck_ok cfg hi
  simp only [flAlgoRun, flRun, hi, List.isEmpty_nil, if_true]
  exact flAlgo_runFrom_accepted_opt cfg hdrop rest _ _ 1 hinv hc hl

end TrackpyV.FindLink
