import TrackpyV.Props.C18
import TrackpyV.Proofs.DriftSmooth
/-!
# C18, `smoothing > 0` — the rolling mean of `compute_drift(traj, smoothing)`

`Model/DriftSmooth.lean` mirrors `trackpy/motion.py:297-300`: per-frame mean displacement, then
`dx.rolling(smoothing, min_periods=0).mean()` (only if `smoothing > 0`), then `cumsum`.  `dx` has a
row per MEASURED frame only, so the window is positional over the measured frames and trailing.

* `rollingMean_length`, `rollingMean_get` — entry `i` is the mean of the entries with index
  `max(0, i-w+1) … i` (`min w (i+1)` of them).
* `rollingMean_zero_one` — `smoothing = 0` takes the code's "no smoothing" branch and a window of
  one row is the identity; `rollingMean_const` — a constant sequence is unchanged.
* `driftSmoothed_zero_eq_drift` (+ `driftSmoothed_one_eq_drift`) — smoothing 0 (and 1) give exactly
  `computeDriftCol`, so every theorem of `Props/C18.lean` is the `smoothing ∈ {0, 1}` case.
* `driftSmoothed_order_indep` — independent of row order, for every window.
* `driftSmoothed_def` — closed form for every table: frames = the measured frames, values = running
  sum of the rolling means of the mean displacements.
* `driftSmoothed_const_velocity`, `driftSmoothed_rigid`, `smoothed_rigid_motion_removed` — if the
  mean displacement is the same `v` in every measured frame the smoothing changes nothing; with
  every later frame measured the smoothed drift at frame `f` is `(f − (m0 − 1))·v`, and a rigid
  common motion of constant velocity added to a drift-free table is removed completely.
* `smoothing_distorts_witness` — for a NON-constant velocity the smoothed curve is not the drift:
  subtracting it does not remove a rigid motion (one particle, x = 0, 1, 3, window 2).
-/
namespace TrackpyV.Drift
open List

/-! ## the rolling mean -/

/-- same index: one value per row of `dx` -/
theorem rollingMean_length (w : Nat) (xs : List Rat) : (rollingMean w xs).length = xs.length := by
  simp [rollingMean]

/-- Entry `i` is the mean of the entries `max(0, i-w+1) … i` (`i + 1 - w` in `Nat` is that max):
their sum divided by their number `min w (i+1)`. -/
theorem rollingMean_get (w : Nat) (xs : List Rat) (i : Nat) (hi : i < xs.length) :
    (rollingMean w xs)[i]'(by rw [rollingMean_length]; exact hi)
      = ((List.range' (i + 1 - w) (min w (i + 1))).map (fun j => xs.getD j 0)).sum
          / ((min w (i + 1) : Nat) : Rat) := by
  simp only [rollingMean, getElem_map, getElem_range]
  rw [window_eq_range' w xs i hi]
  simp [mean]

/-- `smoothing = 0` is the code's "no smoothing" branch (`if smoothing > 0`), and a window of one
row is the identity. -/
theorem rollingMean_zero_one (xs : List Rat) :
    smoothVals 0 xs = xs ∧ rollingMean 1 xs = xs ∧ smoothVals 1 xs = xs := by
  have h1 : rollingMean 1 xs = xs := by
    apply List.ext_getElem
    · simp [rollingMean]
    · intro i h1 h2
      simp only [rollingMean, getElem_map, getElem_range]
      rw [window_eq_range' 1 xs i h2]
      have : min 1 (i + 1) = 1 := by omega
      rw [this]
      simp [mean_singleton, getD_eq_getElem?_getD, getElem?_eq_getElem h2]
  exact ⟨rfl, h1, by simp [smoothVals, h1]⟩

/-- A constant sequence is unchanged: a uniform drift velocity is not distorted, whatever the
window (also in the first `w` rows, where the window is shorter). -/
theorem rollingMean_const (w : Nat) (hw : 0 < w) (xs : List Rat) (c : Rat) (h : ∀ x ∈ xs, x = c) :
    rollingMean w xs = xs := by
  have : xs = replicate xs.length c := eq_replicate_iff.mpr ⟨rfl, h⟩
  rw [this]; exact rollingMean_replicate w _ hw c

/-! ## compute_drift with smoothing -/

/-- `smoothing = 0` gives exactly the unsmoothed drift of `Props/C18.lean`. -/
theorem driftSmoothed_zero_eq_drift (k : Nat) (t : List Row) :
    driftSmoothedCol 0 k t = computeDriftCol k t := by
  unfold driftSmoothedCol computeDriftCol smoothCurve
  rw [(rollingMean_zero_one _).1, zip_fst_snd]

/-- so does `smoothing = 1` -/
theorem driftSmoothed_one_eq_drift (k : Nat) (t : List Row) :
    driftSmoothedCol 1 k t = computeDriftCol k t := by
  unfold driftSmoothedCol computeDriftCol smoothCurve
  rw [(rollingMean_zero_one _).2.2, zip_fst_snd]

theorem ownDriftSmoothed_zero (d : Nat) (t : List Row) : ownDriftSmoothed 0 d t = ownDrift d t := by
  unfold ownDriftSmoothed ownDrift
  exact map_congr_left (fun k _ => driftSmoothed_zero_eq_drift k t)

/-- Row order of the table does not matter, for every window. -/
theorem driftSmoothed_order_indep (w k : Nat) (t t' : List Row) (hp : t.Perm t') (h : KeysNodup t) :
    driftSmoothedCol w k t = driftSmoothedCol w k t' := by
  unfold driftSmoothedCol
  rw [sortPF_eq_of_perm hp h]

/-- Closed form for every valid table: the smoothed curve lives on the measured frames and is the
running sum of the smoothed per-frame mean displacements (order of operations of the code). -/
theorem driftSmoothed_def (w k : Nat) (t : List Row) (h : KeysNodup t) :
    driftSmoothedCol w k t
      = cumsum 0 ((mframes t).zip (smoothVals w ((mframes t).map (meanDisp k t)))) := by
  unfold driftSmoothedCol smoothCurve
  rw [groupMean_eq k t h]
  simp only [map_map]
  congr 2
  · exact (map_congr_left (fun f _ => rfl)).trans (map_id _)

/-- If the mean displacement is the same in every measured frame, smoothing changes nothing. -/
theorem driftSmoothed_const_velocity (w k : Nat) (t : List Row) (h : KeysNodup t) (v : Rat)
    (hv : ∀ f ∈ mframes t, meanDisp k t f = v) :
    driftSmoothedCol w k t = computeDriftCol k t := by
  unfold driftSmoothedCol computeDriftCol
  rw [groupMean_eq k t h, smoothCurve_const w _ v]
  intro e he
  obtain ⟨f, hf, rfl⟩ := mem_map.mp he
  exact hv f hf

/-- Constant velocity `v`, every frame after the first measured one measured: the smoothed drift at
a measured frame `f` is `(f − (m0 − 1))·v` (`m0 − 1` = the frame before the first measured one). -/
theorem driftSmoothed_rigid (w k : Nat) (t : List Row) (h : KeysNodup t) (hc : Contig (mframes t))
    (v : Rat) (hv : ∀ f ∈ mframes t, meanDisp k t f = v)
    (m0 : Int) (rest : List Int) (hm : mframes t = m0 :: rest) (f : Int) (hf : f ∈ mframes t) :
    driftAt (driftSmoothedCol w k t) f = ((f - (m0 - 1) : Int) : Rat) * v := by
  rw [driftSmoothed_const_velocity w k t h v hv]
  have hs := mframes_sorted t
  rw [hm] at hs
  have hge : ∀ g ∈ mframes t, m0 ≤ g := by
    intro g hg
    rw [hm] at hg
    rcases mem_cons.mp hg with h1 | h1
    · omega
    · exact Int.le_of_lt ((pairwise_cons.mp hs).1 g h1)
  have hbefore : driftAt (computeDriftCol k t) (m0 - 1) = 0 := by
    rw [driftAt_computeDriftCol k _ h, if_neg]
    intro hmem
    have := hge _ hmem
    omega
  have key : ∀ n : Nat, ∀ g ∈ mframes t, g = m0 + n →
      driftAt (computeDriftCol k t) g = ((n : Rat) + 1) * v := by
    intro n
    induction n with
    | zero =>
      intro g hg hge'
      have hgm : g = m0 := by omega
      have := drift_increment k t h hc g hg
      rw [hgm] at this ⊢
      rw [hbefore, hv m0 (hgm ▸ hg)] at this
      simp only [Nat.cast_zero, zero_add, one_mul]
      linarith
    | succ n ih =>
      intro g hg hge'
      have hne : g ∈ rest := by
        have : g ∈ m0 :: rest := hm ▸ hg
        rcases mem_cons.mp this with h1 | h1
        · omega
        · exact h1
      have hprev : g - 1 ∈ mframes t := hc m0 rest hm g hne
      have h1 := ih (g - 1) hprev (by omega)
      have h2 := drift_increment k t h hc g hg
      rw [hv g hg] at h2
      push_cast
      linarith
  have hn : f = m0 + ((f - m0).toNat : Int) := by have := hge _ hf; omega
  rw [key _ f hf hn]
  congr 1
  have : ((f - (m0 - 1) : Int) : Rat) = (((f - m0).toNat : Int) : Rat) + 1 := by
    have h0 : f - (m0 - 1) = ((f - m0).toNat : Int) + 1 := by omega
    rw [h0]; push_cast; ring
  rw [this]; norm_cast

/-- "Subtracting it still removes the motion completely": `s` drift-free, the table is `s` with the
common motion `c k frame` added, and that motion advances by the same `v` into every measured
frame.  Then, with ANY smoothing window, the corrected positions are those of `s` up to the one
constant `c k (m0 − 1)`, on every measured frame and on the frame before the first one. -/
theorem smoothed_rigid_motion_removed (w d k : Nat) (s : List Row) (c : Nat → Int → Rat) (v : Rat)
    (hk : k < d) (h : KeysNodup s) (hrect : ∀ r ∈ s, k < r.pos.length) (hc : Contig (mframes s))
    (hz : ∀ f ∈ mframes s, meanDisp k s f = 0)
    (hvel : ∀ f ∈ mframes s, c k f - c k (f - 1) = v)
    (m0 : Int) (rest : List Int) (hm : mframes s = m0 :: rest) (r : Row)
    (hfr : r.frame ∈ mframes s ∨ r.frame = m0 - 1) (hkr : k < r.pos.length) :
    (subRow (ownDriftSmoothed w d (s.map (shiftRow c))) (shiftRow c r)).x k
      = r.x k + c k (m0 - 1) := by
  have hp : ∀ r, (shiftRow c r).particle = r.particle := fun _ => rfl
  have hf : ∀ r, (shiftRow c r).frame = r.frame := fun _ => rfl
  have ht : KeysNodup (s.map (shiftRow c)) := (keysNodup_map _ hp hf s).mpr h
  have hmf : mframes (s.map (shiftRow c)) = mframes s := mframes_map _ hp hf s
  have hconst : ∀ f ∈ mframes (s.map (shiftRow c)), meanDisp k (s.map (shiftRow c)) f = v := by
    intro f hf'
    rw [hmf] at hf'
    rw [meanDisp_map_offset _ hp hf k (c k) s (fun r hr => shiftRow_x c r k (hrect r hr)) f hf',
      hz f hf', ← hvel f hf']
    ring
  have hlen : k < (shiftRow c r).pos.length := by simpa [shiftRow] using hkr
  have := rigid_motion_removed d k s c hk h hrect hc hz m0 rest hm r hfr hkr
  rw [subRow_x _ _ _ hlen, ownDrift_getD d _ k hk] at this
  rw [subRow_x _ _ _ hlen, ownDriftSmoothed_getD w d _ k hk,
    driftSmoothed_const_velocity w k _ ht v hconst]
  exact this

/-! ## non-vacuity and the distortion witness -/

example : rollingMean 2 [1, 2, 3, 5, 6, 7] = [1, 3/2, 5/2, 4, 11/2, 13/2] := by decide +kernel
example : rollingMean 3 [1, 2, 3, 5, 6, 7] = [1, 3/2, 2, 10/3, 14/3, 6] := by decide +kernel
example : rollingMean 5 [4, 4, 4] = [4, 4, 4] := by decide +kernel
example : smoothVals 0 [1, 2, 4] = [1, 2, 4] := by decide +kernel

/-- the replay of `Model/DriftSmooth.lean`'s header: one particle, frame 4 and 5 → 6 missing, mean
displacements 1, 2, 3, 5, 6, 7 at the measured frames 1, 2, 3, 6, 7, 8 -/
def exSm : List Row :=
  [⟨0, 0, [0], 0⟩, ⟨0, 1, [1], 1⟩, ⟨0, 2, [3], 2⟩, ⟨0, 3, [6], 3⟩, ⟨0, 5, [10], 4⟩, ⟨0, 6, [15], 5⟩,
    ⟨0, 7, [21], 6⟩, ⟨0, 8, [28], 7⟩]
example : keysNodupB exSm = true := by decide
example : mframes exSm = [1, 2, 3, 6, 7, 8] := by decide
example : driftSmoothedCol 2 0 exSm = [(1, 1), (2, 5/2), (3, 5), (6, 9), (7, 29/2), (8, 21)] := by
  decide +kernel
example : driftSmoothedCol 2 0 exSm.reverse = driftSmoothedCol 2 0 exSm := by decide +kernel
example : driftSmoothedCol 2 0 exT = [(1, 1), (2, 17/8), (3, 7/2)] := by decide +kernel

/-- hypotheses of `driftSmoothed_rigid` / `smoothed_rigid_motion_removed` are satisfiable: the
drift-free base `exS` of `Props/C18.lean` plus the common motion `exC k f = 3 f / 2` (v = 3/2) -/
example : (mframes exS).all (fun f => exC 0 f - exC 0 (f - 1) == 3/2) = true := by decide +kernel
example : driftSmoothedCol 2 0 (exS.map (shiftRow exC)) = [(1, 3/2), (2, 3)] := by decide +kernel
example : (subtractSmoothedDrift 2 1 (exS.map (shiftRow exC))).map (fun r => r.x 0)
    = [0, 5, 1, 4, 3, 2] := by decide +kernel

/-- one particle moving rigidly with NON-constant velocity: x = 0, 1, 3 in frames 0, 1, 2 -/
def exAccel : List Row := [⟨0, 0, [0], 0⟩, ⟨0, 1, [1], 1⟩, ⟨0, 2, [3], 2⟩]

/-- Smoothing distorts a non-constant velocity: the unsmoothed drift (1, 3) removes the motion
completely (positions 0, 0, 0), the window-2 curve (1, 5/2) is NOT the cumulative mean displacement
and leaves a residue (positions 0, 0, 1/2); the contiguity hypothesis holds, so the only failing
hypothesis of `smoothed_rigid_motion_removed` is the constant velocity. -/
theorem smoothing_distorts_witness :
    keysNodupB exAccel = true ∧ contigB (mframes exAccel) = true ∧
    computeDriftCol 0 exAccel = [(1, 1), (2, 3)] ∧
    driftSmoothedCol 2 0 exAccel = [(1, 1), (2, 5/2)] ∧
    (subtractOwnDrift 1 exAccel).map (fun r => r.x 0) = [0, 0, 0] ∧
    (subtractSmoothedDrift 2 1 exAccel).map (fun r => r.x 0) = [0, 0, 1/2] := by
  decide +kernel

end TrackpyV.Drift
