import TrackpyV.Model.JobsFindLink
import TrackpyV.Props.C04Sys
import TrackpyV.Props.C14Algo
/-!
# C04 — plain AND find_link jobs in one system (root of C04)

`Model/JobsFindLink`: a generic system `GSys σ` ("the step of job `j` reads and writes only
component `j` plus the uuid counter") and its instance with two kinds of jobs: plain
(`jobLabels`, as `Model/JobsLinker`) and find_link (`flAlgoStep` with the job's own oracles).

Generic layer (any component type, any per-job step functions):
* `gStep_other`, `gStep_own`, `gfoldl_proj`, `gsched_proj_congr` : **noninterference proved once** —
  if a projection `π` of the component is advanced by job `j`'s step as a function of `π` and the
  frame only (no uuid in sight), then `π` of job `j` after ANY schedule is a fold over `j`'s own
  frames; two runs (other schedule, other uuid mode, other counter, other step functions of the
  OTHER jobs) that give `j` the same frames agree on `π`.
* `gsched_uids_fresh`, `gsched_handed_job`, `gsched_noninterference_perLinker` : the uuids.

Instance:
* `schedFL_noninterference` : job `j`'s emitted levels (features, labels, added), raised-flag and
  linker state are those of the schedule restricted to `j`'s own operations.
* `schedFL_job_eq_run` : they are the job's whole-movie function on its own frames — `algoMovie`
  for a plain job, `flAlgoRun` (Props/C14Algo) with its own oracles for a find_link job.
* `schedFL_reproducible`, `schedFL_labels_independent_of_uid`, `schedFL_oracle_locality`.
* `schedFL_uids_fresh(_job)`, `schedFL_noninterference_perLinker`.
* `schedFL_plain_eq_sched` : on plain jobs the system is the one of `Props/C04Sys`.
-/
namespace TrackpyV.JobsFindLink
open TrackpyV.Linker TrackpyV.JobsLinker TrackpyV.FindLink
open TrackpyV.Relocate (FLevel)

/-! ## the generic layer -/

section generic
variable {σ : Type}

/-- an operation of another job leaves job `j`'s component untouched (every mode, every step) -/
theorem gStep_other (I : Iface σ) (m : UidMode) (steps : Nat → JStep σ) (s : GSys σ) (op : Op)
    (j : Nat) (h : op.job ≠ j) : (gStep I m steps s op).jobs j = s.jobs j := by
  cases op with
  | frame k t dsts =>
    simp only [Op.job] at h
    unfold gStep
    simp only
    split
    · rfl
    · simp [upd, Ne.symm h]

/-- a step of job `j` writes into component `j` the value of `j`'s step function on component `j`
and the uuids it was handed -/
theorem gStep_own (I : Iface σ) (m : UidMode) (steps : Nat → JStep σ) (s : GSys σ) (j : Nat)
    (t : Int) (dsts : List Pos) :
    (gStep I m steps s (.frame j t dsts)).jobs j =
      if I.dead (s.jobs j) then s.jobs j else
        (steps j).next (s.jobs j)
          (List.range' (gBase I m s.uid (s.jobs j)) ((steps j).need (s.jobs j) t dsts)) t dsts := by
  unfold gStep
  simp only
  split
  · rfl
  · simp [upd]

/-- **Projection principle** (generic).  If a step of job `j` acts on the projection `π` of `j`'s
component as a function `g` of that projection only, then after any schedule the projection is the
fold of `g` over `j`'s own frames. -/
theorem gfoldl_proj {β : Type} (I : Iface σ) (m : UidMode) (steps : Nat → JStep σ) (j : Nat)
    (π : σ → β) (g : β → Int × List Pos → β)
    (hown : ∀ s t dsts, π ((gStep I m steps s (.frame j t dsts)).jobs j) = g (π (s.jobs j)) (t, dsts))
    (ops : List Op) (s : GSys σ) :
    π ((ops.foldl (gStep I m steps) s).jobs j) = (framesOf ops j).foldl g (π (s.jobs j)) := by
  induction ops generalizing s with
  | nil => rfl
  | cons op ops ih =>
    simp only [List.foldl_cons, framesOf, List.filter_cons]
    by_cases hj : op.job = j
    · have hb : (op.job == j) = true := by simpa using hj
      simp only [hb, if_true, List.map_cons, List.foldl_cons]
      have := ih (gStep I m steps s op)
      simp only [framesOf] at this
      rw [this]
      cases op with
      | frame k t dsts =>
        simp only [Op.job] at hj; subst hj
        rw [hown]; rfl
    · have hb : (op.job == j) = false := by simpa using hj
      simp only [hb]
      have := ih (gStep I m steps s op)
      simp only [framesOf] at this
      rw [this, gStep_other I m steps s op j hj]
      rfl

/-- `π` is advanced by `step` as `g`, whatever uuids the step is handed -/
def UidBlind {β : Type} (I : Iface σ) (step : JStep σ) (π : σ → β) (g : β → Int × List Pos → β) :
    Prop :=
  ∀ jb us t dsts, π (if I.dead jb then jb else step.next jb us t dsts) = g (π jb) (t, dsts)

theorem gsched_proj_eq_fold {β : Type} (I : Iface σ) (m : UidMode) (steps : Nat → JStep σ)
    (init : σ) (u0 : Nat) (ops : List Op) (j : Nat) (π : σ → β) (g : β → Int × List Pos → β)
    (hb : UidBlind I (steps j) π g) :
    π ((gRun I m steps init u0 ops).jobs j) = (framesOf ops j).foldl g (π init) := by
  unfold gRun
  rw [gfoldl_proj I m steps j π g (fun s t dsts => by
    rw [gStep_own]
    exact hb (s.jobs j) (List.range' (gBase I m s.uid (s.jobs j))
      ((steps j).need (s.jobs j) t dsts)) t dsts)]
  rfl

/-- **Noninterference, once and for all** (generic).  In ANY system of this shape: if job `j`'s
step advances the projection `π` blindly to the uuids — in the system `steps` and in the system
`steps'`, by the same function `g` — then two runs that hand `j` the same frames agree on `π` of
job `j`, whatever the schedules, the other jobs' step functions, the uuid modes and the initial
values of the process-wide counter are. -/
theorem gsched_proj_congr {β : Type} (I : Iface σ) (m m' : UidMode) (steps steps' : Nat → JStep σ)
    (init : σ) (u0 u0' : Nat) (ops ops' : List Op) (j : Nat) (π : σ → β)
    (g : β → Int × List Pos → β)
    (hb : UidBlind I (steps j) π g) (hb' : UidBlind I (steps' j) π g)
    (hfr : framesOf ops j = framesOf ops' j) :
    π ((gRun I m steps init u0 ops).jobs j) = π ((gRun I m' steps' init u0' ops').jobs j) := by
  rw [gsched_proj_eq_fold I m steps init u0 ops j π g hb,
    gsched_proj_eq_fold I m' steps' init u0' ops' j π g hb', hfr]

theorem grun_inv (I : Iface σ) (m : UidMode) (steps : Nat → JStep σ) (P : GSys σ → Prop)
    (hstep : ∀ s op, P s → P (gStep I m steps s op)) (ops : List Op) (s : GSys σ) (h : P s) :
    P (ops.foldl (gStep I m steps) s) := by
  induction ops generalizing s with
  | nil => exact h
  | cons op ops ih => exact ih _ (hstep s op h)

/-- one process-wide counter that is never reset hands out `u0, u0+1, …` (generic) -/
theorem gshared_handed_eq (I : Iface σ) (steps : Nat → JStep σ) (init : σ) (u0 : Nat)
    (ops : List Op) :
    ∃ k, (gRun I .shared steps init u0 ops).uid = u0 + k ∧
      (gRun I .shared steps init u0 ops).handed.map (·.2) = List.range' u0 k := by
  refine grun_inv I .shared steps (fun s => ∃ k, s.uid = u0 + k ∧ s.handed.map (·.2) = List.range' u0 k)
    ?_ ops (GSys.init0 init u0) ⟨0, by simp [GSys.init0]⟩
  intro s op ⟨k, hu, hh⟩
  cases op with
  | frame i t dsts =>
    unfold gStep
    simp only
    split
    · exact ⟨k, hu, hh⟩
    · refine ⟨k + (steps i).need (s.jobs i) t dsts, by simp [gAfter, hu, Nat.add_assoc], ?_⟩
      simp [gBase, hu, hh, List.map_append, Function.comp_def]

/-- **A process-wide point counter is harmless** (generic): with one never-reset counter shared by
all jobs of all kinds, all uuids handed out along a schedule are pairwise distinct -/
theorem gsched_uids_fresh (I : Iface σ) (steps : Nat → JStep σ) (init : σ) (u0 : Nat)
    (ops : List Op) : ((gRun I .shared steps init u0 ops).handed.map (·.2)).Nodup := by
  obtain ⟨k, _, h⟩ := gshared_handed_eq I steps init u0 ops
  rw [h]; exact List.nodup_range'

/-- the ghost log restricted to job `j` is what `j` recorded, provided every step records the
uuids it was handed (generic, every mode) -/
theorem gsched_handed_job (I : Iface σ) (m : UidMode) (steps : Nat → JStep σ) (init : σ)
    (hinit : I.uids init = [])
    (hrec : ∀ k jb us t dsts, I.uids ((steps k).next jb us t dsts) = I.uids jb ++ [us])
    (u0 : Nat) (ops : List Op) (j : Nat) :
    (((gRun I m steps init u0 ops).handed.filter (fun x => x.1 == j)).map (·.2)) =
      (I.uids ((gRun I m steps init u0 ops).jobs j)).flatten := by
  refine grun_inv I m steps (fun s => ∀ k, ((s.handed.filter (fun x => x.1 == k)).map (·.2)) =
      (I.uids (s.jobs k)).flatten) ?_ ops (GSys.init0 init u0)
      (fun k => by simp [GSys.init0, hinit]) j
  intro s op hs k
  cases op with
  | frame i t dsts =>
    unfold gStep
    simp only
    split
    · exact hs k
    · simp only [List.filter_append, List.map_append, hs k]
      by_cases hk : k = i
      · subst hk
        simp [upd, hrec, List.filter_map, Function.comp_def]
      · have : (i == k) = false := by simpa using Ne.symm hk
        simp [upd, hk, List.filter_map, Function.comp_def, this]

/-- the step of a job whose points are numbered by the job's own counter -/
def gStepPL (I : Iface σ) (step : JStep σ) (jb : σ) (f : Int × List Pos) : σ :=
  if I.dead jb then jb else
    step.next jb (List.range' (if I.fresh jb then 0 else I.nextUid jb) (step.need jb f.1 f.2)) f.1 f.2

/-- **Per-job point counters: the WHOLE component is isolated** (generic) — whatever the
component contains (uuids included), under `perLinker` it is a fold over the job's own frames -/
theorem gsched_noninterference_perLinker (I : Iface σ) (steps steps' : Nat → JStep σ) (init : σ)
    (u0 u0' : Nat) (ops ops' : List Op) (j : Nat) (hst : steps j = steps' j)
    (hfr : framesOf ops j = framesOf ops' j) :
    (gRun I .perLinker steps init u0 ops).jobs j = (gRun I .perLinker steps' init u0' ops').jobs j := by
  unfold gRun
  have h1 := gfoldl_proj I .perLinker steps j id (gStepPL I (steps j))
    (fun s t dsts => by rw [gStep_own]; rfl) ops (GSys.init0 init u0)
  have h2 := gfoldl_proj I .perLinker steps' j id (gStepPL I (steps' j))
    (fun s t dsts => by rw [gStep_own]; rfl) ops' (GSys.init0 init u0')
  simp only [id] at h1 h2
  rw [h1, h2, hst, hfr]
  rfl

end generic

/-! ## the instance: plain and find_link jobs -/

abbrev Vis := Option State × List FLevel × Bool

/-- what one frame does to the visible part of a job of kind `k` — no uuid, no other job, no other
job's oracle in sight -/
def visStepFL (k : Kind) (cfg : Cfg) (orc : Int → Oracle) (v : Vis) (f : Int × List Pos) : Vis :=
  if v.2.2 then v else
  match v.1 with
  | none =>
    (some (Linker.firstState f.1 f.2),
      v.2.1 ++ [{ t := f.1, dsts := f.2, labels := List.range f.2.length, added := [] }], false)
  | some st =>
    match k with
    | .plain =>
      match jobLabels cfg st f.1 f.2 with
      | none => (some st, v.2.1, true)
      | some labels =>
        (some (nextState cfg st f.1 f.2 labels),
          v.2.1 ++ [{ t := f.1, dsts := f.2, labels := labels, added := [] }], false)
    | .findLink =>
      (some (nextState cfg st f.1 (flAlgoStep cfg st f.1 (orc f.1) f.2).dsts
          (flAlgoStep cfg st f.1 (orc f.1) f.2).labels),
        v.2.1 ++ [flLevel cfg st f.1 (orc f.1) f.2], false)

/-- a step of job `j` (either kind) advances `j`'s visible part as `visStepFL`, blindly to the
uuids it is handed -/
theorem jobStep_blind (kinds : Nat → Kind) (cfgs : Nat → Cfg) (orcs : Nat → Int → Oracle) (j : Nat) :
    UidBlind FJob.iface (jobStep kinds cfgs orcs j) FJob.vis
      (visStepFL (kinds j) (cfgs j) (orcs j)) := by
  intro jb us t dsts
  unfold jobStep visStepFL FJob.vis FJob.iface
  simp only
  by_cases hf : jb.failed = true
  · simp [hf]
  · have hf' : jb.failed = false := by simpa using hf
    simp only [hf', Bool.false_eq_true, if_false]
    cases hk : kinds j with
    | plain =>
      simp only [plainStep]
      cases hst : jb.st with
      | none => simp [FJob.first]
      | some st =>
        simp only
        cases hl : jobLabels (cfgs j) st t dsts <;> simp [hf']
    | findLink =>
      simp only [flStepJ]
      cases hst : jb.st with
      | none => simp [FJob.first]
      | some st => simp [hf']

theorem schedFL_vis_eq_fold (m : UidMode) (kinds : Nat → Kind) (cfgs : Nat → Cfg)
    (orcs : Nat → Int → Oracle) (u0 : Nat) (ops : List Op) (j : Nat) :
    ((runSchedFL m kinds cfgs orcs u0 ops).jobs j).vis =
      (framesOf ops j).foldl (visStepFL (kinds j) (cfgs j) (orcs j)) (none, [], false) :=
  gsched_proj_eq_fold FJob.iface m (jobStep kinds cfgs orcs) {} u0 ops j FJob.vis _
    (jobStep_blind kinds cfgs orcs j)

/-- the general form: the visible part of job `j` is a function of `j`'s kind, `j`'s cfg, `j`'s
oracles and `j`'s frames -/
theorem schedFL_vis_congr (m m' : UidMode) (kinds kinds' : Nat → Kind) (cfgs cfgs' : Nat → Cfg)
    (orcs orcs' : Nat → Int → Oracle) (u0 u0' : Nat) (ops ops' : List Op) (j : Nat)
    (hk : kinds j = kinds' j) (hcfg : cfgs j = cfgs' j) (horc : orcs j = orcs' j)
    (hfr : framesOf ops j = framesOf ops' j) :
    ((runSchedFL m kinds cfgs orcs u0 ops).jobs j).vis =
      ((runSchedFL m' kinds' cfgs' orcs' u0' ops').jobs j).vis := by
  rw [schedFL_vis_eq_fold, schedFL_vis_eq_fold, hk, hcfg, horc, hfr]

theorem visFL_fields {a b : FJob} (h : a.vis = b.vis) :
    a.out = b.out ∧ a.failed = b.failed ∧ a.st = b.st := by
  simp only [FJob.vis, Prod.mk.injEq] at h
  exact ⟨h.2.1, h.2.2, h.1⟩

/-- **Isolation (C04), plain and find_link jobs.**  For every schedule `ops` — any interleaving,
any number of jobs of either kind — and every job `j`: the levels `j` has emitted (for a find_link
job: detected AND relocated features, their labels, which ones were added), whether it died, and
its linker state are exactly those of the schedule that contains only `j`'s own operations. -/
theorem schedFL_noninterference (m : UidMode) (kinds : Nat → Kind) (cfgs : Nat → Cfg)
    (orcs : Nat → Int → Oracle) (u0 : Nat) (ops : List Op) (j : Nat) :
    ((runSchedFL m kinds cfgs orcs u0 ops).jobs j).out =
      ((runSchedFL m kinds cfgs orcs u0 (ops.filter (fun op => op.job == j))).jobs j).out ∧
    ((runSchedFL m kinds cfgs orcs u0 ops).jobs j).failed =
      ((runSchedFL m kinds cfgs orcs u0 (ops.filter (fun op => op.job == j))).jobs j).failed ∧
    ((runSchedFL m kinds cfgs orcs u0 ops).jobs j).st =
      ((runSchedFL m kinds cfgs orcs u0 (ops.filter (fun op => op.job == j))).jobs j).st :=
  visFL_fields (schedFL_vis_congr m m kinds kinds cfgs cfgs orcs orcs u0 u0 _ _ j rfl rfl rfl
    (framesOf_filter ops j).symm)

/-- **The uuids are immaterial** (either kind): neither the source of the uuids, nor the initial
value of the process-wide counter, nor how many uuids the other jobs consumed (a find_link job
consumes a data-dependent number: detected + relocated features) matters. -/
theorem schedFL_labels_independent_of_uid (m m' : UidMode) (kinds : Nat → Kind) (cfgs : Nat → Cfg)
    (orcs : Nat → Int → Oracle) (u0 u0' : Nat) (ops : List Op) (j : Nat) :
    ((runSchedFL m kinds cfgs orcs u0 ops).jobs j).out =
      ((runSchedFL m' kinds cfgs orcs u0' (ops.filter (fun op => op.job == j))).jobs j).out ∧
    ((runSchedFL m kinds cfgs orcs u0 ops).jobs j).failed =
      ((runSchedFL m' kinds cfgs orcs u0' (ops.filter (fun op => op.job == j))).jobs j).failed :=
  let h := visFL_fields (schedFL_vis_congr m m' kinds kinds cfgs cfgs orcs orcs u0 u0' _ _ j rfl rfl
    rfl (framesOf_filter ops j).symm)
  ⟨h.1, h.2.1⟩

/-- **Reproducibility** (either kind).  Two schedules — the same one run twice, or two different
interleavings, possibly with different other jobs of different kinds — that hand job `j` the same
frames in the same order give `j` the same output. -/
theorem schedFL_reproducible (m : UidMode) (kinds kinds' : Nat → Kind) (cfgs cfgs' : Nat → Cfg)
    (orcs orcs' : Nat → Int → Oracle) (u0 u0' : Nat) (ops ops' : List Op) (j : Nat)
    (hk : kinds j = kinds' j) (hcfg : cfgs j = cfgs' j) (horc : orcs j = orcs' j)
    (h : framesOf ops j = framesOf ops' j) :
    ((runSchedFL m kinds cfgs orcs u0 ops).jobs j).out =
      ((runSchedFL m kinds' cfgs' orcs' u0' ops').jobs j).out ∧
    ((runSchedFL m kinds cfgs orcs u0 ops).jobs j).failed =
      ((runSchedFL m kinds' cfgs' orcs' u0' ops').jobs j).failed :=
  let h := visFL_fields (schedFL_vis_congr m m kinds kinds' cfgs cfgs' orcs orcs' u0 u0' ops ops' j
    hk hcfg horc h)
  ⟨h.1, h.2.1⟩

/-- **Oracle locality.**  Job `j`'s output depends on the relocation oracles of job `j` only: two
oracle families that agree on `j` (and differ arbitrarily on every other job) give `j` the same
emitted levels, flag and state under the same schedule. -/
theorem schedFL_oracle_locality (m : UidMode) (kinds : Nat → Kind) (cfgs : Nat → Cfg)
    (orcs orcs' : Nat → Int → Oracle) (u0 : Nat) (ops : List Op) (j : Nat)
    (horc : orcs j = orcs' j) :
    ((runSchedFL m kinds cfgs orcs u0 ops).jobs j).out =
      ((runSchedFL m kinds cfgs orcs' u0 ops).jobs j).out ∧
    ((runSchedFL m kinds cfgs orcs u0 ops).jobs j).failed =
      ((runSchedFL m kinds cfgs orcs' u0 ops).jobs j).failed ∧
    ((runSchedFL m kinds cfgs orcs u0 ops).jobs j).st =
      ((runSchedFL m kinds cfgs orcs' u0 ops).jobs j).st :=
  visFL_fields (schedFL_vis_congr m m kinds kinds cfgs cfgs orcs orcs' u0 u0 ops ops j rfl rfl horc rfl)

/-- a plain job never looks at any oracle, not even its own -/
theorem schedFL_plain_oracle_free (m : UidMode) (kinds : Nat → Kind) (cfgs : Nat → Cfg)
    (orcs orcs' : Nat → Int → Oracle) (u0 : Nat) (ops : List Op) (j : Nat)
    (hk : kinds j = .plain) :
    ((runSchedFL m kinds cfgs orcs u0 ops).jobs j).vis =
      ((runSchedFL m kinds cfgs orcs' u0 ops).jobs j).vis := by
  rw [schedFL_vis_eq_fold, schedFL_vis_eq_fold, hk]
  rfl

/-! ### one job = its own whole-movie function -/

theorem foldlFL_failed (k : Kind) (cfg : Cfg) (orc : Int → Oracle) (x : Option State)
    (acc : List FLevel) (fr : List (Int × List Pos)) :
    fr.foldl (visStepFL k cfg orc) (x, acc, true) = (x, acc, true) := by
  induction fr with
  | nil => rfl
  | cons f fr ih =>
    simp only [List.foldl_cons]
    rw [show visStepFL k cfg orc (x, acc, true) f = (x, acc, true) from by simp [visStepFL]]
    exact ih

theorem foldlFL_plain_from (cfg : Cfg) (orc : Int → Oracle) (fr : List (Int × List Pos)) (st : State)
    (acc : List FLevel) :
    (((fr.foldl (visStepFL .plain cfg orc) (some st, acc, false)).2.1).map (·.labels),
      (fr.foldl (visStepFL .plain cfg orc) (some st, acc, false)).2.2) =
      (acc.map (·.labels) ++ (algoFrom cfg st fr).1, (algoFrom cfg st fr).2) := by
  induction fr generalizing st acc with
  | nil => simp [algoFrom]
  | cons f fr ih =>
    obtain ⟨t, dsts⟩ := f
    simp only [List.foldl_cons]
    cases hl : jobLabels cfg st t dsts with
    | none =>
      rw [show visStepFL .plain cfg orc (some st, acc, false) (t, dsts) = (some st, acc, true) from by
        simp [visStepFL, hl]]
      rw [foldlFL_failed]
      simp [algoFrom, hl]
    | some labels =>
      rw [show visStepFL .plain cfg orc (some st, acc, false) (t, dsts) =
          (some (nextState cfg st t dsts labels),
            acc ++ [{ t := t, dsts := dsts, labels := labels, added := [] }], false) from by
        simp [visStepFL, hl]]
      rw [ih]
      simp [algoFrom, hl]

theorem foldlFL_fl_from (cfg : Cfg) (orc : Int → Oracle) (fr : List (Int × List Pos)) (st : State)
    (acc : List FLevel) :
    (fr.foldl (visStepFL .findLink cfg orc) (some st, acc, false)).2 =
      (acc ++ flAlgoRunFrom cfg st (flFramesOf orc fr), false) := by
  induction fr generalizing st acc with
  | nil => simp [flAlgoRunFrom, flFramesOf]
  | cons f fr ih =>
    obtain ⟨t, dsts⟩ := f
    simp only [List.foldl_cons]
    rw [show visStepFL .findLink cfg orc (some st, acc, false) (t, dsts) =
        (some (nextState cfg st t (flAlgoStep cfg st t (orc t) dsts).dsts
            (flAlgoStep cfg st t (orc t) dsts).labels),
          acc ++ [flLevel cfg st t (orc t) dsts], false) from by simp [visStepFL]]
    rw [ih]
    simp [flAlgoRunFrom, flFramesOf, flLevel]

/-- **Each job computes its own whole-movie function on its own frames, under any schedule.**
Plain job: the labels of the levels it has yielded, and whether it raised, are `algoMovie` on the
frames the schedule handed to `j`.  find_link job: the emitted levels (detected + relocated
features, labels, added indices) are `flAlgoRun` (Props/C14Algo — the function whose output the
monitor accepts, `flAlgo_run_accepted`) on `j`'s frames paired with `j`'s own oracles, and the
job is alive. -/
theorem schedFL_job_eq_run (m : UidMode) (kinds : Nat → Kind) (cfgs : Nat → Cfg)
    (orcs : Nat → Int → Oracle) (u0 : Nat) (ops : List Op) (j : Nat) :
    match kinds j with
    | .plain =>
      ((((runSchedFL m kinds cfgs orcs u0 ops).jobs j).out).map (·.labels),
        ((runSchedFL m kinds cfgs orcs u0 ops).jobs j).failed) =
        algoMovie (cfgs j) (framesOf ops j)
    | .findLink =>
      ((runSchedFL m kinds cfgs orcs u0 ops).jobs j).out =
        flAlgoRun (cfgs j) (flFramesOf (orcs j) (framesOf ops j)) ∧
      ((runSchedFL m kinds cfgs orcs u0 ops).jobs j).failed = false := by
  have h := schedFL_vis_eq_fold m kinds cfgs orcs u0 ops j
  simp only [FJob.vis] at h
  have h2 : (((runSchedFL m kinds cfgs orcs u0 ops).jobs j).out,
      ((runSchedFL m kinds cfgs orcs u0 ops).jobs j).failed) =
      ((framesOf ops j).foldl (visStepFL (kinds j) (cfgs j) (orcs j)) (none, [], false)).2 := by
    rw [← h]
  cases hk : kinds j with
  | plain =>
    simp only
    rw [hk] at h2
    cases hfr : framesOf ops j with
    | nil => rw [hfr] at h2; simp only [List.foldl_nil, Prod.mk.injEq] at h2; simp [h2.1, h2.2, algoMovie]
    | cons f fr =>
      obtain ⟨t, dsts⟩ := f
      rw [hfr] at h2
      simp only [List.foldl_cons] at h2
      rw [show visStepFL .plain (cfgs j) (orcs j) (none, [], false) (t, dsts) =
          (some (Linker.firstState t dsts),
            [{ t := t, dsts := dsts, labels := List.range dsts.length, added := [] }], false) from by
        simp [visStepFL]] at h2
      have h3 := foldlFL_plain_from (cfgs j) (orcs j) fr (Linker.firstState t dsts)
        [{ t := t, dsts := dsts, labels := List.range dsts.length, added := [] }]
      rw [← h2] at h3
      simp only at h3
      rw [h3]
      simp [algoMovie]
  | findLink =>
    simp only
    rw [hk] at h2
    cases hfr : framesOf ops j with
    | nil =>
      rw [hfr] at h2; simp only [List.foldl_nil, Prod.mk.injEq] at h2
      simp [h2.1, h2.2, flAlgoRun, flFramesOf]
    | cons f fr =>
      obtain ⟨t, dsts⟩ := f
      rw [hfr] at h2
      simp only [List.foldl_cons] at h2
      rw [show visStepFL .findLink (cfgs j) (orcs j) (none, [], false) (t, dsts) =
          (some (Linker.firstState t dsts),
            [{ t := t, dsts := dsts, labels := List.range dsts.length, added := [] }], false) from by
        simp [visStepFL]] at h2
      rw [foldlFL_fl_from] at h2
      simp only [Prod.mk.injEq] at h2
      refine ⟨?_, h2.2⟩
      rw [h2.1]
      simp only [flFramesOf, List.map_cons, flAlgoRun, List.singleton_append]
      rfl

/-- on its plain jobs the mixed system IS the system of `Props/C04Sys` (whatever the other jobs
are): same labels, same flag -/
theorem schedFL_plain_eq_sched (m m' : UidMode) (kinds : Nat → Kind) (cfgs : Nat → Cfg)
    (orcs : Nat → Int → Oracle) (u0 u0' : Nat) (ops : List Op) (j : Nat) (hk : kinds j = .plain) :
    ((((runSchedFL m kinds cfgs orcs u0 ops).jobs j).out).map (·.labels),
      ((runSchedFL m kinds cfgs orcs u0 ops).jobs j).failed) =
    (((runSched m' cfgs u0' ops).jobs j).out, ((runSched m' cfgs u0' ops).jobs j).failed) := by
  have h := schedFL_job_eq_run m kinds cfgs orcs u0 ops j
  rw [hk] at h
  simp only at h
  rw [h, sched_job_eq_algo]

/-! ### the uuids -/

theorem jobStep_records (kinds : Nat → Kind) (cfgs : Nat → Cfg) (orcs : Nat → Int → Oracle)
    (k : Nat) (jb : FJob) (us : List Nat) (t : Int) (dsts : List Pos) :
    FJob.iface.uids ((jobStep kinds cfgs orcs k).next jb us t dsts) = FJob.iface.uids jb ++ [us] := by
  unfold jobStep FJob.iface
  cases kinds k with
  | plain =>
    simp only [plainStep]
    cases jb.st with
    | none => rfl
    | some st => simp only; cases jobLabels (cfgs k) st t dsts <;> rfl
  | findLink =>
    simp only [flStepJ]
    cases jb.st with
    | none => rfl
    | some st => rfl

/-- **A process-wide point counter is harmless, find_link jobs included.**  With one never-reset
counter shared by all jobs, all uuids handed out along a schedule — to every detected and every
relocated feature of every level of every job — are pairwise distinct; by
`schedFL_labels_independent_of_uid` they have no influence on any output. -/
theorem schedFL_uids_fresh (kinds : Nat → Kind) (cfgs : Nat → Cfg) (orcs : Nat → Int → Oracle)
    (u0 : Nat) (ops : List Op) :
    ((runSchedFL .shared kinds cfgs orcs u0 ops).handed.map (·.2)).Nodup :=
  gsched_uids_fresh FJob.iface (jobStep kinds cfgs orcs) {} u0 ops

/-- the ghost log restricted to job `j` is what `j` recorded (every mode) -/
theorem schedFL_handed_job (m : UidMode) (kinds : Nat → Kind) (cfgs : Nat → Cfg)
    (orcs : Nat → Int → Oracle) (u0 : Nat) (ops : List Op) (j : Nat) :
    (((runSchedFL m kinds cfgs orcs u0 ops).handed.filter (fun x => x.1 == j)).map (·.2)) =
      ((runSchedFL m kinds cfgs orcs u0 ops).jobs j).uids.flatten :=
  gsched_handed_job FJob.iface m (jobStep kinds cfgs orcs) {} rfl (jobStep_records kinds cfgs orcs)
    u0 ops j

/-- … in particular within every job -/
theorem schedFL_uids_fresh_job (kinds : Nat → Kind) (cfgs : Nat → Cfg) (orcs : Nat → Int → Oracle)
    (u0 : Nat) (ops : List Op) (j : Nat) :
    ((runSchedFL .shared kinds cfgs orcs u0 ops).jobs j).uids.flatten.Nodup := by
  rw [← schedFL_handed_job]
  have h := schedFL_uids_fresh kinds cfgs orcs u0 ops
  exact (h.sublist (List.Sublist.map _ List.filter_sublist))

/-- a level gets as many uuids as it has features — for a find_link level: detected + added -/
theorem schedFL_uids_count (m : UidMode) (kinds : Nat → Kind) (cfgs : Nat → Cfg)
    (orcs : Nat → Int → Oracle) (u0 : Nat) (ops : List Op) (j : Nat)
    (hk : kinds j = .findLink) :
    ((runSchedFL m kinds cfgs orcs u0 ops).jobs j).uids.map List.length =
      ((runSchedFL m kinds cfgs orcs u0 ops).jobs j).out.map (fun l => l.dsts.length) := by
  refine grun_inv FJob.iface m (jobStep kinds cfgs orcs)
    (fun s => (s.jobs j).uids.map List.length = (s.jobs j).out.map (fun l => l.dsts.length)) ?_ ops
    (GSys.init0 {} u0) rfl
  intro s op hs
  cases op with
  | frame i t dsts =>
    by_cases hi : i = j
    · subst hi
      rw [gStep_own]
      split
      · exact hs
      · simp only [jobStep, hk, flStepJ]
        cases hst : (s.jobs i).st with
        | none => simp [FJob.first, hs]
        | some st => simp [hs, flLevel]
    · rw [gStep_other _ _ _ _ _ j (by simpa [Op.job] using hi)]
      exact hs

/-- **The code as it is (per-Linker point counter): the WHOLE job component is isolated** for
either kind — emitted levels, state and the uuids of its points (detected and relocated) are
those of the job run alone, whatever the base counter held. -/
theorem schedFL_noninterference_perLinker (kinds : Nat → Kind) (cfgs : Nat → Cfg)
    (orcs : Nat → Int → Oracle) (u0 u0' : Nat) (ops : List Op) (j : Nat) :
    (runSchedFL .perLinker kinds cfgs orcs u0 ops).jobs j =
      (runSchedFL .perLinker kinds cfgs orcs u0' (ops.filter (fun op => op.job == j))).jobs j :=
  gsched_noninterference_perLinker FJob.iface _ _ {} u0 u0' _ _ j rfl (framesOf_filter ops j).symm

/-! ### non-vacuity: one plain and one find_link job, alternating -/

section
open TrackpyV.Assign

/-- job 0 is plain, every other job is a find_link job -/
def exKinds : Nat → Kind := fun j => if j = 0 then .plain else .findLink

/-- every frame of every find_link job sees the bright spot at (11,1) (`C14Algo.exOrc`) -/
def exOrcs : Nat → Int → Oracle := fun _ _ => exOrc

/-- a family that differs from `exOrcs` on every job but job 1 (never relocates anything there) -/
def exOrcs' : Nat → Int → Oracle := fun j _ => if j = 1 then exOrc else fun _ _ => []

/-- job 1 (find_link): features at (0,0) and (10,0); in frame 1 only (1,0) is detected — the source
at (10,0) is LOST and the oracle answers (11,1).  Job 0 (plain): two features that swap their
order.  Stepped 1, 0, 1, 0. -/
def exOpsFL : List Op :=
  [.frame 1 0 [[0, 0], [10, 0]], .frame 0 0 [[0, 0], [10, 0]], .frame 1 1 [[1, 0]],
   .frame 0 1 [[11, 0], [1, 0]]]

/-- `C14Algo.exStep` on the state as this system writes it -/
theorem exStepFL : flAlgoStep exL (Linker.firstState 0 [[0, 0], [10, 0]]) 1 exOrc [[1, 0]] =
    { dsts := [[1, 0], [11, 1]], added := [1], masses := [30], labels := [0, 1] } := exStep

/-- the step has a lost source (a sub-net with a shortage) and a non-empty oracle answer -/
example : (∃ g ∈ flGroups exL (Linker.firstState 0 [[0, 0], [10, 0]]) 1 [[1, 0]], short g = true) ∧
    exOrc [[1, 0]] [[10, 0]] = [([11, 1], 30)] :=
  have hg : flGroups exL (Linker.firstState 0 [[0, 0], [10, 0]]) 1 [[1, 0]] = [([0], [0]), ([1], [])] := by
    decide +kernel
  ⟨⟨([1], []), by rw [hg]; simp, rfl⟩, by decide +kernel⟩

macro "jfl_eval" : tactic => `(tactic|
  simp [runSchedFL, gRun, gStep, GSys.init0, upd, gBase, gAfter, jobStep, flStepJ, plainStep,
    FJob.first, FJob.iface, flLevel, exStepFL, exKinds, exOrcs, exOrcs', exOpsFL, Op.job,
    List.range, List.range.loop, List.range'])

macro "jfl_eval_plain" : tactic => `(tactic|
  simp [runSchedFL, gRun, gStep, GSys.init0, upd, gBase, gAfter, jobStep, flStepJ, plainStep,
    FJob.first, FJob.iface, flLevel, exKinds, exOrcs, exOpsFL,
    jobLabels, Linker.firstState, oversizeB, nextState, initCfg,
    algoLabels, algoChoices, groupChoice, allSomeL, srcOf, solveOrdered, go, exceeds,
    taken, better, labelOf, trackOf, freshBase,
    stepGroups, stepCands, subnets, candsOf, candsOfRow, distRow, dist2,
    view, sqI, insCand, exL, addSource,
    hasDest, realDests, List.find?, getD', List.zipIdx, List.range, List.range.loop, List.range'])

/-- the interleaved run (code as it is, base counter at 7): the find_link job emits its second
level with the relocated feature appended, labelled as the continuation of trajectory 1 … -/
example : ((runSchedFL .perLinker exKinds (fun _ => exL) exOrcs 7 exOpsFL).jobs 1).out.map
    (fun l => (l.t, l.dsts, l.labels, l.added)) =
    [(0, [[0, 0], [10, 0]], [0, 1], []), (1, [[1, 0], [11, 1]], [0, 1], [1])] := by
  jfl_eval
/-- … exactly as alone (the instance of `schedFL_noninterference`, evaluated) … -/
example : ((runSchedFL .perLinker exKinds (fun _ => exL) exOrcs 0
    (exOpsFL.filter (fun op => op.job == 1))).jobs 1).out.map
    (fun l => (l.t, l.dsts, l.labels, l.added)) =
    [(0, [[0, 0], [10, 0]], [0, 1], []), (1, [[1, 0], [11, 1]], [0, 1], [1])] := by
  jfl_eval
/-- … and as under another oracle family that agrees on job 1 (`schedFL_oracle_locality`) -/
example : ((runSchedFL .perLinker exKinds (fun _ => exL) exOrcs' 7 exOpsFL).jobs 1).out.map
    (fun l => (l.t, l.dsts, l.labels, l.added)) =
    [(0, [[0, 0], [10, 0]], [0, 1], []), (1, [[1, 0], [11, 1]], [0, 1], [1])] := by
  jfl_eval
/-- the uuids of the find_link job's points: the second level draws TWO (detected + relocated);
in `shared` mode the plain job's draws lie in between -/
example : ((runSchedFL .perLinker exKinds (fun _ => exL) exOrcs 7 exOpsFL).jobs 1).uids =
    [[0, 1], [2, 3]] := by
  jfl_eval
example : ((runSchedFL .shared exKinds (fun _ => exL) exOrcs 7 exOpsFL).jobs 1).uids =
    [[7, 8], [11, 12]] := by
  jfl_eval
example : ((runSchedFL .shared exKinds (fun _ => exL) exOrcs 7 exOpsFL).jobs 0).uids =
    [[9, 10], [13, 14]] := by
  jfl_eval
  split <;> rfl

/-- the plain job in the same run: the two features swap their order, the labels follow -/
example : ((runSchedFL .perLinker exKinds (fun _ => exL) exOrcs 7 exOpsFL).jobs 0).out.map
    (fun l => (l.t, l.dsts, l.labels, l.added)) =
    [(0, [[0, 0], [10, 0]], [0, 1], []), (1, [[11, 0], [1, 0]], [1, 0], [])] := by
  jfl_eval_plain
end

end TrackpyV.JobsFindLink
