import TrackpyV.Props.C09
import TrackpyV.Proofs.LocateGlue
import TrackpyV.Proofs.LocatePre
/-!
# C09 — the compositions: `locateModel` under a shift / a transposition

`Props/C09.lean` proves the shift and transposition clauses stage by stage.  This file composes
the stages into statements about `Locate.locateModel`, the function the driver executes
(`C09LOC`), using the glue lemmas of `Proofs/LocateGlue.lean` between the three image
representations of the stage models.

* `locateModel_shift`      the shift clause for the whole pipeline, 2-D, `preprocess` on or off;
* `locatePre_shift`        … `preprocess = True` (2-D): bandpass → convert_to_int → grey_dilation →
                           refine_com; `work_isEmbed`, `gmax_out_eq`, `bandpass_blank_far_axes`;
* `locateNoPre_shift`      … `preprocess = False`, any dimension;
* `locateTail_shift`       grey_dilation → refine_com on two embeddings of one work image (any dimension);
* `maxima_shift_order`, `greyDilation_shift_order`   the `np.where` ORDER of the maxima is preserved
                           under a shift (lists equal, not only sets);
* `locateNoPre_transpose`, `locateNoPre_transpose_answers`   the transposition clause for
                           `preprocess = False` (2-D), every reported quantity except `ecc`, up to row order;
* (Proofs/LocateGlue) `embed_isEmbed`: `Locate.embed` produces an `IsEmbed` image.

Hypotheses of the shift theorems, all decidable: the relation `IsEmbed` for both canvases, array
sizes, percentile ≥ 0, and black padding — `halo` (reach of the filter; 0 without preprocessing)
around the content, then `margin` and `radius + max_iterations − 1` around the halo-extended content.
-/
namespace TrackpyV.C09
open TrackpyV Find Locate Refine

/-! ## vocabulary -/

/-- the row `refine_com` reports, moved by the integer vector `d`: mask centre and position are
moved, every other reported quantity is kept -/
def moveMeasure (n : Nat) (d : List Int) (m : Measure) : Measure :=
  { m with
    centre := addVec n m.centre d
    pos := (List.range n).map (fun i => m.pos.getD i 0 + ((d.getD i 0 : Int) : Rat)) }

/-- feature.py:L381-399 after the work image has been computed: `grey_dilation` on `work`, then
`refine_com(raw, work, …)` on every maximum (bridging definition; `locateModel_eq_tail`) -/
def locateTail (P : Params) (shape : List Nat) (work raw : Array Nat) : Option (List Measure) :=
  match Find.greyDilation ⟨shape, work⟩ P.sep P.pct (some P.margin) false with
  | none => none
  | some coords =>
    some (coords.map (fun p =>
      refineOne P.shiftThr (ofArray shape work) (ofArray shape raw) P.radius shape P.maxIter
        (p.map Int.ofNat)))

theorem locateModel_eq_tail (P : Params) (shape : List Nat) (raw : Array Nat) :
    locateModel P shape raw = (workImage P shape raw).bind (fun work => locateTail P shape work raw) := by
  unfold locateModel locateTail
  cases workImage P shape raw <;> rfl

/-! ## refine_com under a shift, as an equation between rows -/

theorem refineOne_shift_eq (thr : Rat) (img raw : Refine.Image) (radius shape shape' : List Nat) (maxIter : Nat)
    (start d : List Int)
    (h : clipFree radius shape (fuelOf maxIter) start = true)
    (h' : clipFree radius shape' (fuelOf maxIter) (addVec radius.length start d) = true) :
    refineOne thr (shiftImg radius.length d img) (shiftImg radius.length d raw) radius shape' maxIter
        (addVec radius.length start d) =
      moveMeasure radius.length d (refineOne thr img raw radius shape maxIter start) := by
  obtain ⟨hc, hp, hm, hr, he, hs, hrm⟩ := refine_shift thr img raw radius shape shape' maxIter start d h h'
  have hpos : (refineOne thr (shiftImg radius.length d img) (shiftImg radius.length d raw) radius shape'
      maxIter (addVec radius.length start d)).pos =
      (List.range radius.length).map (fun i =>
        (refineOne thr img raw radius shape maxIter start).pos.getD i 0 + ((d.getD i 0 : Int) : Rat)) := by
    apply Find.ext_getD 0 radius.length (by simp [refineOne, Refine.measure, posAt]) (by simp)
    intro i hi
    rw [hp i hi, getD_rangeMap _ _ i hi 0]
  unfold moveMeasure
  rw [← hc, ← hpos, ← hm, ← hr, ← he, ← hs, ← hrm]

theorem clipFree_of_pad (radius canvas off ns : List Nat) (fuel : Nat) (u : Pos)
    (hp : padOK canvas off ns (radius.map (· + fuel)) = true) (hu : InImage ns u) :
    clipFree radius canvas fuel ((addPos u off).map Int.ofNat) = true := by
  obtain ⟨hol, hNl, hrl, hb⟩ := (padOK_iff_getD _ _ _ _).mp hp
  obtain ⟨hul, hub⟩ := (inImage_iff_getD _ _).mp hu
  have hrl' : radius.length = ns.length := by simpa using hrl
  rw [clipFree_iff]
  intro i hi
  rw [getD_map_lt Int.ofNat _ i (by simp [addPos_length]; omega) 0 0,
    addPos_getD u off i (by omega) (by omega)]
  have h1 := hb i (by omega)
  rw [getD_map_lt (· + fuel) radius i hi 0 0] at h1
  have h2 := hub i (by omega)
  simp only [Int.ofNat_eq_natCast]
  push_cast
  omega

/-! ## grey_dilation → refine_com under a shift (any dimension) -/

/-- **locateTail_shift.**  `⟨cv₁, w₁⟩` and `⟨cv₂, w₂⟩` show one work image `ext` at the offsets `e₁`,
`e₂` on black canvases; the raw images are moved by the same vector.  With `margin` and
`radius + max_iterations − 1` black pixels around `ext` in both canvases, the rows `locate` reports
for the second canvas are the rows of the first, in the same order, each moved by `e₂ − e₁`. -/
theorem locateTail_shift (P : Params) (ext : Find.Image) (cv₁ cv₂ e₁ e₂ : List Nat)
    (w₁ w₂ r₁ r₂ : Array Nat)
    (hw₁ : IsEmbed ext e₁ ⟨cv₁, w₁⟩) (hw₂ : IsEmbed ext e₂ ⟨cv₂, w₂⟩)
    (hraw : AgreeN ext.shape.length (ofArray cv₂ r₂)
      (shiftImg ext.shape.length (disp ext.shape.length e₁ e₂) (ofArray cv₁ r₁)))
    (hs₁ : w₁.size = cv₁.prod) (hs₂ : w₂.size = cv₂.prod) (hpct : 0 ≤ P.pct)
    (hm₁ : padOK cv₁ e₁ ext.shape P.margin = true) (hm₂ : padOK cv₂ e₂ ext.shape P.margin = true)
    (hc₁ : padOK cv₁ e₁ ext.shape (P.radius.map (· + fuelOf P.maxIter)) = true)
    (hc₂ : padOK cv₂ e₂ ext.shape (P.radius.map (· + fuelOf P.maxIter)) = true) :
    locateTail P cv₂ w₂ r₂ =
      (locateTail P cv₁ w₁ r₁).map
        (List.map (moveMeasure ext.shape.length (disp ext.shape.length e₁ e₂))) := by
  have hrl : P.radius.length = ext.shape.length := by
    simpa using ((padOK_iff_getD _ _ _ _).mp hc₁).2.2.1
  have hol₁ := (fits_length hw₁.fits).1
  have hol₂ := (fits_length hw₂.fits).1
  unfold locateTail
  rw [greyDilation_embed_eq ext ⟨cv₁, w₁⟩ e₁ hw₁ hs₁ P.sep P.pct hpct P.margin hm₁,
    greyDilation_embed_eq ext ⟨cv₂, w₂⟩ e₂ hw₂ hs₂ P.sep P.pct hpct P.margin hm₂]
  cases hC : gdContent ext P.sep P.pct P.margin with
  | none => rfl
  | some C =>
    simp only [Option.map_some, List.map_map]
    congr 1
    apply List.map_congr_left
    intro u hu
    have hin : InImage ext.shape u := gdContent_inImage hC u hu
    obtain ⟨hul, hub⟩ := (inImage_iff_getD _ _).mp hin
    simp only [Function.comp_apply]
    have hwork := ofArray_shift_of_embed ext ⟨cv₁, w₁⟩ ⟨cv₂, w₂⟩ e₁ e₂ hw₁ hw₂
    simp only at hwork
    rw [← hrl] at hwork hraw ⊢
    have hstart : (addPos u e₂).map Int.ofNat =
        addVec P.radius.length ((addPos u e₁).map Int.ofNat) (disp P.radius.length e₁ e₂) := by
      apply Find.ext_getD 0 P.radius.length (by simp [addPos_length]; omega) (addVec_length _ _ _)
      intro i hi
      rw [addVec_getD _ _ _ _ hi, disp, getD_rangeMap _ _ i hi 0,
        getD_map_lt Int.ofNat _ i (by simp [addPos_length]; omega) 0 0,
        getD_map_lt Int.ofNat _ i (by simp [addPos_length]; omega) 0 0,
        addPos_getD u e₂ i (by omega) (by omega), addPos_getD u e₁ i (by omega) (by omega)]
      simp only [Int.ofNat_eq_natCast]
      push_cast
      omega
    rw [refineOne_agree hwork hraw, hstart]
    apply refineOne_shift_eq
    · exact clipFree_of_pad _ _ _ _ _ u hc₁ hin
    · rw [← hstart]
      exact clipFree_of_pad _ _ _ _ _ u hc₂ hin

/-! ## locate without preprocessing under a shift (any dimension) -/

/-- **locateNoPre_shift.**  Clause "moving the image content by whole pixels inside a larger blank
canvas moves every located feature by exactly that offset and changes no other reported quantity"
for `locateModel` with `preprocess = False`, any dimension: `raw₁`, `raw₂` show `content` at `off₁`,
`off₂` on black canvases `cv₁`, `cv₂` (`IsEmbed`; `embed_isEmbed` for the images `Locate.embed`
builds).  With ≥ `margin` and ≥ `radius + max_iterations − 1` black pixels around the content in both
canvases and a percentile ≥ 0, the whole result of `locateModel` on the second canvas — refusal,
number and ORDER of the rows included — is the result on the first with every row moved by
`off₂ − off₁` (`moveMeasure`: centre and position moved; mass, size², ecc sums, signal, raw mass equal). -/
theorem locateNoPre_shift (P : Params) (hP : P.preprocess = false) (content : Find.Image)
    (cv₁ cv₂ off₁ off₂ : List Nat) (raw₁ raw₂ : Array Nat)
    (h₁ : IsEmbed content off₁ ⟨cv₁, raw₁⟩) (h₂ : IsEmbed content off₂ ⟨cv₂, raw₂⟩)
    (hs₁ : raw₁.size = cv₁.prod) (hs₂ : raw₂.size = cv₂.prod) (hpct : 0 ≤ P.pct)
    (hm₁ : padOK cv₁ off₁ content.shape P.margin = true)
    (hm₂ : padOK cv₂ off₂ content.shape P.margin = true)
    (hc₁ : padOK cv₁ off₁ content.shape (P.radius.map (· + fuelOf P.maxIter)) = true)
    (hc₂ : padOK cv₂ off₂ content.shape (P.radius.map (· + fuelOf P.maxIter)) = true) :
    locateModel P cv₂ raw₂ =
      (locateModel P cv₁ raw₁).map
        (List.map (moveMeasure content.shape.length (disp content.shape.length off₁ off₂))) := by
  rw [locateModel_eq_tail, locateModel_eq_tail]
  unfold workImage
  simp only [hP, Bool.false_eq_true, if_false, Option.bind_some]
  exact locateTail_shift P content cv₁ cv₂ off₁ off₂ raw₁ raw₂ raw₁ raw₂ h₁ h₂
    (ofArray_shift_of_embed content ⟨cv₁, raw₁⟩ ⟨cv₂, raw₂⟩ off₁ off₂ h₁ h₂) hs₁ hs₂ hpct hm₁ hm₂ hc₁ hc₂

/-! ## locate with preprocessing under a shift (2-D) -/

section pre
open Bandpass

/-- the filtered and converted canvas, in content coordinates: `convert_to_int` (scale from the
maximum `mx`) of `bandpass` at the position `(y, x)` relative to the content -/
def workZ (h w : Nat) (content : Array Rat) (s0 s1 : Rat) (k0 k1 : Array Rat) (l0 l1 : Int)
    (thr : Option Rat) (mx : Rat) (y x : Int) : Nat :=
  convPixel mx (bpZ h w content s0 s1 k0 k1 l0 l1 thr y x)

/-- **bandpass → convert_to_int of an embedding is an embedding** of the halo-extended content
`extImg … (workZ … mx)`, `mx` the maximum of the filtered canvas; the filtered canvas itself is `bpZ`
at the position relative to the content. -/
theorem work_isEmbed {content : Find.Image} {h w oy ox H W : Nat} {raw : Array Nat}
    (hsh : content.shape = [h, w]) (e : IsEmbed content [oy, ox] ⟨[H, W], raw⟩)
    (hs : raw.size = H * W) (s0 s1 : Rat) (k0 k1 : Array Rat) (l0 l1 : Int) (thr : Option Rat)
    (py : halo s0 k0 l0 ≤ oy ∧ oy + h + halo s0 k0 l0 ≤ H)
    (pxx : halo s1 k1 l1 ≤ ox ∧ ox + w + halo s1 k1 l1 ≤ W) (out : Array Rat)
    (hb : bandpass [H, W] (raw.map (fun (v : Nat) => (v : Rat))) [s0, s1] [k0, k1] [l0, l1] thr = .ok out) :
    out.size = H * W ∧
    (∀ r c, r < H → c < W → px W out r c =
      bpZ h w (content.data.map (fun (v : Nat) => (v : Rat))) s0 s1 k0 k1 l0 l1 thr
        ((r : Int) - oy) ((c : Int) - ox)) ∧
    IsEmbed (extImg h w (halo s0 k0 l0) (halo s1 k1 l1)
        (workZ h w (content.data.map (fun (v : Nat) => (v : Rat))) s0 s1 k0 k1 l0 l1 thr (gmax out.toList)))
      [oy - halo s0 k0 l0, ox - halo s1 k1 l1] ⟨[H, W], (convertToInt out.toList).toArray⟩ := by
  have eq := isEmbedQ_of_isEmbed hsh e hs
  have h1y := halo_pos s0 k0 l0
  have h1x := halo_pos s1 k1 l1
  have hsz : out.size = H * W := by
    rw [bandpass_shape _ _ _ _ _ _ _ hb]; simpa using hs
  have hpx : ∀ r c, r < H → c < W → px W out r c =
      bpZ h w (content.data.map (fun (v : Nat) => (v : Rat))) s0 s1 k0 k1 l0 l1 thr
        ((r : Int) - oy) ((c : Int) - ox) := fun r c hr hc =>
    bandpass_embed_pixel eq (by omega) (by omega) s0 s1 k0 k1 l0 l1 thr out hb hr hc
  refine ⟨hsz, hpx, ?_⟩
  apply isEmbed_ext _ (by simp [convertToInt_eq, hsz]) py pxx
  · intro r c hr hc
    rw [work_pix H W out hsz r c hr hc, hpx r c hr hc]
    rfl
  · intro y x hfar
    unfold workZ
    rw [bpZ_far _ _ _ _ _ _ _ _ _ _ _ _ (by omega), convPixel_zero]

/-- the scale of `convert_to_int` is the same for two canvases showing one content -/
theorem gmax_out_eq {h w oy₁ ox₁ H₁ W₁ oy₂ ox₂ H₂ W₂ hy hx : Nat} {out₁ out₂ : Array Rat}
    (F : Int → Int → Rat) (h1y : 1 ≤ hy) (h1x : 1 ≤ hx)
    (hsz₁ : out₁.size = H₁ * W₁) (hsz₂ : out₂.size = H₂ * W₂)
    (py₁ : hy ≤ oy₁ ∧ oy₁ + h + hy ≤ H₁) (px₁ : hx ≤ ox₁ ∧ ox₁ + w + hx ≤ W₁)
    (py₂ : hy ≤ oy₂ ∧ oy₂ + h + hy ≤ H₂) (px₂ : hx ≤ ox₂ ∧ ox₂ + w + hx ≤ W₂)
    (ho₁ : ∀ r c, r < H₁ → c < W₁ → px W₁ out₁ r c = F ((r : Int) - oy₁) ((c : Int) - ox₁))
    (ho₂ : ∀ r c, r < H₂ → c < W₂ → px W₂ out₂ r c = F ((r : Int) - oy₂) ((c : Int) - ox₂))
    (hfar : ∀ y x : Int, (y ≤ -(hy : Int) ∨ (h : Int) + hy ≤ y ∨ x ≤ -(hx : Int) ∨ (w : Int) + hx ≤ x) →
      F y x = 0) :
    gmax out₁.toList = gmax out₂.toList := by
  apply gmax_eq_of_mem
  intro v
  rw [out_values F hsz₁ h1y h1x py₁ px₁ ho₁ hfar v, out_values F hsz₂ h1y h1x py₂ px₂ ho₂ hfar v]

/-- **locatePre_shift.**  The shift clause for `locateModel` with `preprocess = True`, 2-D: the
composition bandpass → convert_to_int → grey_dilation → refine_com.  `raw₁`, `raw₂` show `content`
(`h × w`) at `(oy₁, ox₁)`, `(oy₂, ox₂)` on black canvases.  `halo` is the reach of the filter per axis
(the larger of kernel and box half-widths, ≥ 1).  If in both canvases the content has `halo` black
pixels around it, and the halo-extended content a further `margin` and `radius + max_iterations − 1`
black pixels, and the percentile is ≥ 0, then the whole result on the second canvas — refusal,
number and order of rows included — is the result on the first with every row moved by the
difference of the offsets and nothing else changed. -/
theorem locatePre_shift (P : Params) (hP : P.preprocess = true) (content : Find.Image) (h w : Nat)
    (hsh : content.shape = [h, w]) (H₁ W₁ H₂ W₂ oy₁ ox₁ oy₂ ox₂ : Nat) (raw₁ raw₂ : Array Nat)
    (h₁ : IsEmbed content [oy₁, ox₁] ⟨[H₁, W₁], raw₁⟩) (h₂ : IsEmbed content [oy₂, ox₂] ⟨[H₂, W₂], raw₂⟩)
    (hs₁ : raw₁.size = H₁ * W₁) (hs₂ : raw₂.size = H₂ * W₂)
    (s0 s1 : Rat) (k0 k1 : Array Rat) (l0 l1 : Int)
    (hls : P.lshort = [s0, s1]) (hks : P.kernels = [k0, k1]) (hll : P.llong = [l0, l1])
    (hpct : 0 ≤ P.pct)
    (hh₁ : padOK [H₁, W₁] [oy₁, ox₁] [h, w] [halo s0 k0 l0, halo s1 k1 l1] = true)
    (hh₂ : padOK [H₂, W₂] [oy₂, ox₂] [h, w] [halo s0 k0 l0, halo s1 k1 l1] = true)
    (hm₁ : padOK [H₁, W₁] [oy₁ - halo s0 k0 l0, ox₁ - halo s1 k1 l1]
      [h + 2 * halo s0 k0 l0, w + 2 * halo s1 k1 l1] P.margin = true)
    (hm₂ : padOK [H₂, W₂] [oy₂ - halo s0 k0 l0, ox₂ - halo s1 k1 l1]
      [h + 2 * halo s0 k0 l0, w + 2 * halo s1 k1 l1] P.margin = true)
    (hc₁ : padOK [H₁, W₁] [oy₁ - halo s0 k0 l0, ox₁ - halo s1 k1 l1]
      [h + 2 * halo s0 k0 l0, w + 2 * halo s1 k1 l1] (P.radius.map (· + fuelOf P.maxIter)) = true)
    (hc₂ : padOK [H₂, W₂] [oy₂ - halo s0 k0 l0, ox₂ - halo s1 k1 l1]
      [h + 2 * halo s0 k0 l0, w + 2 * halo s1 k1 l1] (P.radius.map (· + fuelOf P.maxIter)) = true) :
    locateModel P [H₂, W₂] raw₂ =
      (locateModel P [H₁, W₁] raw₁).map
        (List.map (moveMeasure 2 (disp 2 [oy₁, ox₁] [oy₂, ox₂]))) := by
  simp only [padOK, Bool.and_eq_true, decide_eq_true_eq, and_true] at hh₁ hh₂
  have py₁ : halo s0 k0 l0 ≤ oy₁ ∧ oy₁ + h + halo s0 k0 l0 ≤ H₁ := hh₁.1
  have px₁ : halo s1 k1 l1 ≤ ox₁ ∧ ox₁ + w + halo s1 k1 l1 ≤ W₁ := hh₁.2
  have py₂ : halo s0 k0 l0 ≤ oy₂ ∧ oy₂ + h + halo s0 k0 l0 ≤ H₂ := hh₂.1
  have px₂ : halo s1 k1 l1 ≤ ox₂ ∧ ox₂ + w + halo s1 k1 l1 ≤ W₂ := hh₂.2
  rw [locateModel_eq_tail, locateModel_eq_tail]
  unfold workImage
  simp only [hP, if_true, hls, hks, hll]
  cases hb₁ : bandpass [H₁, W₁] (raw₁.map (fun (v : Nat) => (v : Rat))) [s0, s1] [k0, k1] [l0, l1] P.thr with
  | error err =>
    cases hb₂ : bandpass [H₂, W₂] (raw₂.map (fun (v : Nat) => (v : Rat))) [s0, s1] [k0, k1] [l0, l1] P.thr with
    | error err' => rfl
    | ok out₂ =>
      exfalso
      have acc : Accepts [H₁, W₁] [s0, s1] [k0, k1] [l0, l1] := ((bandpass_ok_iff _ _ _ _ _ _ _).mp hb₂).1
      have := (bandpass_ok_iff [H₁, W₁] (raw₁.map (fun (v : Nat) => (v : Rat))) [s0, s1] [k0, k1] [l0, l1]
        P.thr _).mpr ⟨acc, rfl⟩
      rw [hb₁] at this
      cases this
  | ok out₁ =>
    have acc : Accepts [H₂, W₂] [s0, s1] [k0, k1] [l0, l1] := ((bandpass_ok_iff _ _ _ _ _ _ _).mp hb₁).1
    have hb₂ := (bandpass_ok_iff [H₂, W₂] (raw₂.map (fun (v : Nat) => (v : Rat))) [s0, s1] [k0, k1] [l0, l1]
        P.thr _).mpr ⟨acc, rfl⟩
    rw [hb₂]
    simp only [Option.bind_some]
    obtain ⟨hsz₁, ho₁, he₁⟩ := work_isEmbed hsh h₁ hs₁ s0 s1 k0 k1 l0 l1 P.thr py₁ px₁ out₁ hb₁
    obtain ⟨hsz₂, ho₂, he₂⟩ := work_isEmbed hsh h₂ hs₂ s0 s1 k0 k1 l0 l1 P.thr py₂ px₂ _ hb₂
    have hmx := gmax_out_eq (bpZ h w (content.data.map (fun (v : Nat) => (v : Rat))) s0 s1 k0 k1 l0 l1 P.thr)
      (halo_pos s0 k0 l0) (halo_pos s1 k1 l1) hsz₁ hsz₂ py₁ px₁ py₂ px₂ ho₁ ho₂
      (fun y x hf => bpZ_far _ _ _ _ _ _ _ _ _ _ _ _ hf)
    rw [← hmx] at he₂
    have hd : disp 2 [oy₁ - halo s0 k0 l0, ox₁ - halo s1 k1 l1] [oy₂ - halo s0 k0 l0, ox₂ - halo s1 k1 l1]
        = disp 2 [oy₁, ox₁] [oy₂, ox₂] := by
      simp only [disp, List.range_succ, List.range_zero, List.nil_append, List.cons_append, List.map_cons,
        List.map_nil, List.getD_cons_zero, List.getD_cons_succ]
      congr 1
      · omega
      · congr 1; omega
    have hraw := ofArray_shift_of_embed content ⟨[H₁, W₁], raw₁⟩ ⟨[H₂, W₂], raw₂⟩ _ _ h₁ h₂
    rw [hsh] at hraw
    change AgreeN 2 (ofArray [H₂, W₂] raw₂)
      (shiftImg 2 (disp 2 [oy₁, ox₁] [oy₂, ox₂]) (ofArray [H₁, W₁] raw₁)) at hraw
    rw [← hd]
    rw [← hd] at hraw
    exact locateTail_shift P _ [H₁, W₁] [H₂, W₂] _ _ _ _ raw₁ raw₂ he₁ he₂ hraw
      (by simp [convertToInt_eq, hsz₁]) (by simp [convertToInt_eq, hs₂]) hpct hm₁ hm₂ hc₁ hc₂

/-- **bandpass_blank_far_axes.**  `bandpass_blank_far` along BOTH axes, in terms of the reach
`halo` of the filter: a pixel of the filtered canvas at least `halo` pixels above / left of the
content, or `halo` pixels beyond its last row / column, is exactly 0. -/
theorem bandpass_blank_far_axes {h w oy ox H W : Nat} {content big : Array Rat}
    (e : IsEmbedQ h w content oy ox H W big)
    (py : 1 ≤ oy ∧ oy + h + 1 ≤ H) (pxx : 1 ≤ ox ∧ ox + w + 1 ≤ W)
    (s0 s1 : Rat) (k0 k1 : Array Rat) (l0 l1 : Int) (thr : Option Rat) (out : Array Rat)
    (hb : bandpass [H, W] big [s0, s1] [k0, k1] [l0, l1] thr = .ok out) {r c : Nat}
    (hr : r < H) (hc : c < W)
    (hfar : (r : Int) - oy ≤ -(halo s0 k0 l0 : Int) ∨ (h : Int) + halo s0 k0 l0 ≤ (r : Int) - oy ∨
            (c : Int) - ox ≤ -(halo s1 k1 l1 : Int) ∨ (w : Int) + halo s1 k1 l1 ≤ (c : Int) - ox) :
    px W out r c = 0 := by
  rw [bandpass_embed_pixel e py pxx s0 s1 k0 k1 l0 l1 thr out hb hr hc]
  exact bpZ_far h w content s0 s1 k0 k1 l0 l1 thr _ _ hfar

/-- **locateModel_shift.**  The shift clause of the property for the whole modelled pipeline
`locateModel` (bandpass → convert_to_int → grey_dilation → refine_com), 2-D, `preprocess` on or off:
`hy`, `hx` are the reach of the filter (`halo`, when preprocessing) or 0.  See `locatePre_shift` /
`locateNoPre_shift` (the latter in any dimension) for the two branches. -/
theorem locateModel_shift (P : Params) (content : Find.Image) (h w : Nat)
    (hsh : content.shape = [h, w]) (H₁ W₁ H₂ W₂ oy₁ ox₁ oy₂ ox₂ : Nat) (raw₁ raw₂ : Array Nat)
    (h₁ : IsEmbed content [oy₁, ox₁] ⟨[H₁, W₁], raw₁⟩) (h₂ : IsEmbed content [oy₂, ox₂] ⟨[H₂, W₂], raw₂⟩)
    (hs₁ : raw₁.size = H₁ * W₁) (hs₂ : raw₂.size = H₂ * W₂)
    (s0 s1 : Rat) (k0 k1 : Array Rat) (l0 l1 : Int)
    (hpar : P.preprocess = true → P.lshort = [s0, s1] ∧ P.kernels = [k0, k1] ∧ P.llong = [l0, l1])
    (hpct : 0 ≤ P.pct) (hy hx : Nat)
    (hhy : hy = if P.preprocess then halo s0 k0 l0 else 0)
    (hhx : hx = if P.preprocess then halo s1 k1 l1 else 0)
    (hh₁ : padOK [H₁, W₁] [oy₁, ox₁] [h, w] [hy, hx] = true)
    (hh₂ : padOK [H₂, W₂] [oy₂, ox₂] [h, w] [hy, hx] = true)
    (hm₁ : padOK [H₁, W₁] [oy₁ - hy, ox₁ - hx] [h + 2 * hy, w + 2 * hx] P.margin = true)
    (hm₂ : padOK [H₂, W₂] [oy₂ - hy, ox₂ - hx] [h + 2 * hy, w + 2 * hx] P.margin = true)
    (hc₁ : padOK [H₁, W₁] [oy₁ - hy, ox₁ - hx] [h + 2 * hy, w + 2 * hx]
      (P.radius.map (· + fuelOf P.maxIter)) = true)
    (hc₂ : padOK [H₂, W₂] [oy₂ - hy, ox₂ - hx] [h + 2 * hy, w + 2 * hx]
      (P.radius.map (· + fuelOf P.maxIter)) = true) :
    locateModel P [H₂, W₂] raw₂ =
      (locateModel P [H₁, W₁] raw₁).map
        (List.map (moveMeasure 2 (disp 2 [oy₁, ox₁] [oy₂, ox₂]))) := by
  cases hP : P.preprocess with
  | true =>
    obtain ⟨hls, hks, hll⟩ := hpar hP
    rw [hP] at hhy hhx
    simp only [if_true] at hhy hhx
    subst hhy; subst hhx
    exact locatePre_shift P hP content h w hsh H₁ W₁ H₂ W₂ oy₁ ox₁ oy₂ ox₂ raw₁ raw₂ h₁ h₂ hs₁ hs₂
      s0 s1 k0 k1 l0 l1 hls hks hll hpct hh₁ hh₂ hm₁ hm₂ hc₁ hc₂
  | false =>
    rw [hP] at hhy hhx
    simp only [Bool.false_eq_true, if_false] at hhy hhx
    subst hhy; subst hhx
    simp only [Nat.sub_zero, Nat.mul_zero, Nat.add_zero] at hm₁ hm₂ hc₁ hc₂
    rw [← hsh] at hm₁ hm₂ hc₁ hc₂
    have := locateNoPre_shift P hP content [H₁, W₁] [H₂, W₂] [oy₁, ox₁] [oy₂, ox₂] raw₁ raw₂ h₁ h₂
      (by simpa using hs₁) (by simpa using hs₂) hpct hm₁ hm₂ hc₁ hc₂
    rw [hsh] at this
    exact this

end pre

/-! ## non-vacuity of the compositions -/

section examples
open Bandpass

/-- `locate(…, preprocess=False)`: separation 2, percentile 50, margin 1, radius 1, two iterations -/
def exP : Params where
  preprocess := false
  lshort := []
  kernels := []
  llong := []
  thr := none
  sep := [2, 2]
  pct := 50
  margin := [1, 1]
  radius := [1, 1]
  shiftThr := 3/5
  maxIter := 2

/-- C06's 3×3 content at `(2,3)` of an 8×9 canvas: two features; the model really runs -/
example : (locateModel exP [8, 9] (embed [8, 9] [2, 3] exContent).data).map (List.map (·.centre))
    = some [[3, 4], [4, 5]] := by decide +kernel

/-- every hypothesis of `locateNoPre_shift` holds for that content at `(2,3)` and at `(3,2)`
(`embed_isEmbed` supplies `IsEmbed`; the paddings are decidable) -/
example : locateModel exP [8, 9] (embed [8, 9] [3, 2] exContent).data =
    (locateModel exP [8, 9] (embed [8, 9] [2, 3] exContent).data).map
      (List.map (moveMeasure 2 (disp 2 [2, 3] [3, 2]))) :=
  locateNoPre_shift exP rfl exContent [8, 9] [8, 9] [2, 3] [3, 2] _ _
    (embed_isEmbed [8, 9] [2, 3] exContent rfl ⟨by omega, by omega, trivial⟩)
    (embed_isEmbed [8, 9] [3, 2] exContent rfl ⟨by omega, by omega, trivial⟩)
    (by simp [embed, allIdx_length]) (by simp [embed, allIdx_length]) (by decide)
    (by decide) (by decide) (by decide) (by decide)

def exK : Array Rat := #[1/4, 1/2, 1/4]

/-- `locate(…, preprocess=True)`: noise size 1 with the 3-tap kernel `exK`, smoothing size 3 -/
def exPP : Params where
  preprocess := true
  lshort := [1, 1]
  kernels := [exK, exK]
  llong := [3, 3]
  thr := none
  sep := [2, 2]
  pct := 50
  margin := [1, 1]
  radius := [1, 1]
  shiftThr := 3/5
  maxIter := 1

/-- a single bright pixel -/
def exDot : Find.Image := ⟨[1, 1], #[200]⟩

example : halo 1 exK 3 = 2 := by decide +kernel

/-- the whole pipeline runs on it and finds the dot -/
example : (locateModel exPP [8, 8] (embed [8, 8] [3, 3] exDot).data).map (List.map (·.centre))
    = some [[3, 3]] := by decide +kernel

/-- every hypothesis of `locateModel_shift` (`preprocess = True`, halo 2) holds for the dot at
`(3,3)` and at `(4,3)` of an 8×8 canvas -/
example : locateModel exPP [8, 8] (embed [8, 8] [4, 3] exDot).data =
    (locateModel exPP [8, 8] (embed [8, 8] [3, 3] exDot).data).map
      (List.map (moveMeasure 2 (disp 2 [3, 3] [4, 3]))) :=
  locateModel_shift exPP exDot 1 1 rfl 8 8 8 8 3 3 4 3 _ _
    (embed_isEmbed [8, 8] [3, 3] exDot rfl ⟨by omega, by omega, trivial⟩)
    (embed_isEmbed [8, 8] [4, 3] exDot rfl ⟨by omega, by omega, trivial⟩)
    (by simp [embed, allIdx_length]) (by simp [embed, allIdx_length])
    1 1 exK exK 3 3 (fun _ => ⟨rfl, rfl, rfl⟩) (by decide) 2 2 (by decide +kernel) (by decide +kernel)
    (by decide) (by decide) (by decide) (by decide) (by decide) (by decide)

end examples

/-! ## the `np.where` order of the maxima under a shift -/

/-- **maxima_shift_order.**  `maxima_shift` with the ORDER: the candidate list of the second canvas
is the candidate list of the first with every position moved from `off₁` to `off₂` — equal as lists
(`np.where` order preserved), not only as sets. -/
theorem maxima_shift_order (content big₁ big₂ : Find.Image) (off₁ off₂ : List Nat)
    (h₁ : IsEmbed content off₁ big₁) (h₂ : IsEmbed content off₂ big₂)
    (ks margin : List Nat) (thr : Rat) (hthr : 0 ≤ thr)
    (hk : ks.length = content.shape.length) (hm : margin.length = content.shape.length)
    (hp₁ : padOK big₁.shape off₁ content.shape margin = true)
    (hp₂ : padOK big₂.shape off₂ content.shape margin = true) :
    candidates big₂ ks thr margin = (candidates big₁ ks thr margin).map (shiftPos off₁ off₂) := by
  rw [candidates_embed_eq content big₁ off₁ h₁ ks margin thr hthr hk hm hp₁,
    candidates_embed_eq content big₂ off₂ h₂ ks margin thr hthr hk hm hp₂, List.map_map]
  apply List.map_congr_left
  intro u hu
  have hin := ((contentMax_iff_mem content ks thr u hk).mpr hu).1
  simp only [Function.comp_apply, shiftPos]
  rw [subPos_addPos u off₁ (by rw [hin.length_eq, (fits_length h₁.fits).1])]

/-- the same for the function the driver runs (`C09GD`, field `same`) -/
theorem greyDilation_shift_order (content big₁ big₂ : Find.Image) (off₁ off₂ : List Nat)
    (h₁ : IsEmbed content off₁ big₁) (h₂ : IsEmbed content off₂ big₂)
    (hs₁ : big₁.data.size = big₁.shape.prod) (hs₂ : big₂.data.size = big₂.shape.prod)
    (sep : List Rat) (pct : Rat) (hpct : 0 ≤ pct) (margin : List Nat)
    (hp₁ : padOK big₁.shape off₁ content.shape margin = true)
    (hp₂ : padOK big₂.shape off₂ content.shape margin = true) :
    greyDilation big₂ sep pct (some margin) false =
      (greyDilation big₁ sep pct (some margin) false).map (List.map (shiftPos off₁ off₂)) := by
  rw [greyDilation_embed_eq content big₁ off₁ h₁ hs₁ sep pct hpct margin hp₁,
    greyDilation_embed_eq content big₂ off₂ h₂ hs₂ sep pct hpct margin hp₂]
  cases hC : gdContent content sep pct margin with
  | none => rfl
  | some C =>
    simp only [Option.map_some, List.map_map]
    congr 1
    apply List.map_congr_left
    intro u hu
    have hin := gdContent_inImage hC u hu
    simp only [Function.comp_apply, shiftPos]
    rw [subPos_addPos u off₁ (by rw [hin.length_eq, (fits_length h₁.fits).1])]

/-- non-vacuity of the order theorems: C09's 3×3 content at `(2,3)` and `(3,1)` of an 8×9 canvas
(the concrete results `[[3,4],[4,5]]` / `[[4,2],[5,3]]` are evaluated in `Props/C09.lean`) -/
example : greyDilation (embed [8, 9] [3, 1] exContent) [2, 2] 50 (some [1, 1]) false =
    (greyDilation (embed [8, 9] [2, 3] exContent) [2, 2] 50 (some [1, 1]) false).map
      (List.map (shiftPos [2, 3] [3, 1])) :=
  greyDilation_shift_order exContent _ _ [2, 3] [3, 1]
    (embed_isEmbed [8, 9] [2, 3] exContent rfl ⟨by omega, by omega, trivial⟩)
    (embed_isEmbed [8, 9] [3, 1] exContent rfl ⟨by omega, by omega, trivial⟩)
    (by simp [embed, allIdx_length]) (by simp [embed, allIdx_length]) [2, 2] 50 (by decide) [1, 1]
    (by decide) (by decide)

/-! ## locate without preprocessing under transposition (2-D) -/

section transposeComp

/-- what transposition does to a row of `refine_com` — every reported quantity EXCEPT `ecc`
(`refine_transpose_ecc`: the `ecc` clause is false of the code, known finding): mask centre and
position have their components exchanged; mass, signal, raw mass are equal; size² is equal
(isotropic radius) or has its per-axis entries exchanged -/
def TransRow (ry rx : Nat) (m m' : Measure) : Prop :=
  m'.centre = swapI m.centre ∧ m'.pos = swapQ m.pos ∧ m'.mass = m.mass ∧ m'.signal = m.signal ∧
  m'.rawMass = m.rawMass ∧ m'.rg2 = (if isotropic [ry, rx] then m.rg2 else swapQ m.rg2)

/-- the arguments of `locate` for the transposed image: per-axis tuples reversed -/
def transParams (P : Params) : Params :=
  { P with sep := P.sep.reverse, margin := P.margin.reverse, radius := P.radius.reverse }

theorem greyDilation_mem_inImage (img : Find.Image) (sep : List Rat) (pct : Rat)
    (margin? : Option (List Nat)) (R : List Pos)
    (hR : greyDilation img sep pct margin? false = some R) (p : Pos) (hp : p ∈ R) :
    InImage img.shape p := by
  obtain ⟨thr, hthr⟩ : ∃ thr, percentileThr img pct = some thr := by
    obtain ⟨_, hcase⟩ := greyDilationK_some hR
    rcases hcase with ⟨_, rfl⟩ | ⟨thr, hthr, _⟩
    · simp at hp
    · exact ⟨thr, hthr⟩
  exact ((maxima_iff img sep pct margin? R thr hR hthr p).mp hp).1

theorem greyDilation_nodup (img : Find.Image) (sep : List Rat) (pct : Rat)
    (margin? : Option (List Nat)) (R : List Pos)
    (hR : greyDilation img sep pct margin? false = some R) : R.Nodup := by
  obtain ⟨_, hcase⟩ := greyDilationK_some hR
  rcases hcase with ⟨_, rfl⟩ | ⟨thr, _, hR'⟩
  · simp
  · simp only [Bool.false_eq_true, if_false] at hR'
    rw [hR']
    exact candidates_nodup _ _ _ _

/-- **locateNoPre_transpose.**  Clause "transposing an integer image located without preprocessing
swaps the coordinate columns and changes no other reported quantity" for `locateModel` with
`preprocess = False`, 2-D, every reported quantity except `ecc` (kept out exactly as in
`refine_transpose`; see `refine_transpose_ecc` for what happens to it): if the model answers on the
image (`L`) and on its transpose with the per-axis arguments reversed (`LT`), then `LT` is, up to the
order of its rows (`np.where` order of the transposed image), row by row the transposed rows of `L`
(`TransRow`). -/
theorem locateNoPre_transpose (P : Params) (hP : P.preprocess = false) (H W : Nat)
    (raw rawT : Array Nat) (hT : IsTranspose ⟨[H, W], raw⟩ ⟨[W, H], rawT⟩ H W)
    (s0 s1 : Rat) (m0 m1 ry rx : Nat)
    (hsep : P.sep = [s0, s1]) (hmar : P.margin = [m0, m1]) (hrad : P.radius = [ry, rx])
    (L LT : List Measure) (hL : locateModel P [H, W] raw = some L)
    (hLT : locateModel (transParams P) [W, H] rawT = some LT) :
    ∃ L', L'.Perm LT ∧ List.Forall₂ (TransRow ry rx) L L' := by
  rw [locateModel_eq_tail] at hL hLT
  unfold workImage at hL hLT
  have hPT : (transParams P).preprocess = false := hP
  simp only [hP, hPT, Bool.false_eq_true, if_false, Option.bind_some] at hL hLT
  unfold locateTail at hL hLT
  simp only [transParams, hsep, hmar, hrad, List.reverse_cons, List.reverse_nil, List.nil_append,
    List.cons_append] at hL hLT
  cases hR : greyDilation ⟨[H, W], raw⟩ [s0, s1] P.pct (some [m0, m1]) false with
  | none => rw [hR] at hL; cases hL
  | some R =>
    cases hRT : greyDilation ⟨[W, H], rawT⟩ [s1, s0] P.pct (some [m1, m0]) false with
    | none => rw [hRT] at hLT; cases hLT
    | some RT =>
      rw [hR] at hL
      rw [hRT] at hLT
      injection hL with hL
      injection hLT with hLT
      subst hL; subst hLT
      have hform : ∀ p ∈ R, ∃ i j, p = [i, j] ∧ i < H ∧ j < W := fun p hp =>
        (inImage2 H W p).mp (greyDilation_mem_inImage _ _ _ _ R hR p hp)
      have hformT := maxima_transpose_form _ _ H W hT _ _ _ RT hRT
      have hmem := maxima_transpose _ _ H W hT s0 s1 P.pct m0 m1 R RT hR hRT
      have ndR := greyDilation_nodup _ _ _ _ R hR
      have ndRT := greyDilation_nodup _ _ _ _ RT hRT
      have hperm : RT.Perm (R.map (fun p => [p.getD 1 0, p.getD 0 0])) := by
        apply (List.perm_ext_iff_of_nodup ndRT ?_).mpr
        · intro q
          rw [List.mem_map]
          constructor
          · intro hq
            obtain ⟨i, j, rfl, _, _⟩ := hformT q hq
            exact ⟨[i, j], (hmem i j).mp hq, rfl⟩
          · rintro ⟨p, hp, rfl⟩
            obtain ⟨i, j, rfl, _, _⟩ := hform p hp
            exact (hmem i j).mpr hp
        · apply List.Nodup.map_on _ ndR
          intro p hp p' hp' e
          obtain ⟨i, j, rfl, _, _⟩ := hform p hp
          obtain ⟨i', j', rfl, _, _⟩ := hform p' hp'
          simp only [List.getD_cons_zero, List.getD_cons_succ, List.cons.injEq, and_true] at e
          rw [e.1, e.2]
      refine ⟨_, (hperm.map _).symm, ?_⟩
      rw [List.map_map, List.forall₂_map_left_iff, List.forall₂_map_right_iff, List.forall₂_same]
      intro p hp
      obtain ⟨i, j, rfl, hi, hj⟩ := hform p hp
      simp only [Function.comp_apply, List.getD_cons_zero, List.getD_cons_succ, List.map_cons,
        List.map_nil]
      have hag := ofArray_transpose ⟨[H, W], raw⟩ ⟨[W, H], rawT⟩ H W hT
      simp only at hag
      rw [refineOne_agree (radius := [rx, ry]) hag hag]
      exact refine_transpose P.shiftThr (ofArray [H, W] raw) (ofArray [H, W] raw) ry rx H W P.maxIter
        [Int.ofNat i, Int.ofNat j]

theorem greyDilation_isSome (img : Find.Image) (sep : List Rat) (pct : Rat) (margin : List Nat) :
    (greyDilation img sep pct (some margin) false).isSome = wellFormed img sep margin := by
  unfold greyDilation greyDilationK
  simp only [Option.getD_some]
  cases hw : wellFormed img sep margin
  · simp
  · cases percentileThr img pct <;> simp

/-- … and the model answers on the transposed image exactly when it answers on the image (the
argument checks of `grey_dilation` are symmetric in the axes) -/
theorem locateNoPre_transpose_answers (P : Params) (hP : P.preprocess = false) (H W : Nat)
    (raw rawT : Array Nat) (hs : raw.size = H * W) (hsT : rawT.size = W * H)
    (s0 s1 : Rat) (m0 m1 : Nat) (hsep : P.sep = [s0, s1]) (hmar : P.margin = [m0, m1]) :
    (locateModel (transParams P) [W, H] rawT).isSome = (locateModel P [H, W] raw).isSome := by
  rw [locateModel_eq_tail, locateModel_eq_tail]
  unfold workImage
  have hPT : (transParams P).preprocess = false := hP
  simp only [hP, hPT, Bool.false_eq_true, if_false, Option.bind_some]
  unfold locateTail
  simp only [transParams, hsep, hmar, List.reverse_cons, List.reverse_nil, List.nil_append,
    List.cons_append]
  have e1 : ∀ (o : Option (List Pos)) (f : List Pos → List Measure),
      (match o with | none => none | some c => some (f c)).isSome = o.isSome := by
    intro o f; cases o <;> rfl
  rw [e1, e1, greyDilation_isSome, greyDilation_isSome]
  unfold wellFormed
  simp only [List.length_cons, List.length_nil, List.foldl_cons, List.foldl_nil, List.all_cons,
    List.all_nil, Bool.and_true, hs, hsT, Nat.one_mul, Nat.mul_comm W H]
  rw [Bool.and_comm (decide (0 < s1) && decide (1 ≤ boxSize (0 + 1 + 1) s1))]

/-- non-vacuity: a 4×5 image (peak 9 at (1,2) with neighbours 1 and 2) and `Locate.revImg` of it:
the relation `IsTranspose` holds (checker), the model answers on both with two rows each — both
maxima refine to the peak — at exchanged positions; the `ecc` sums are `(8, 0, 9)` for the image and
`(10, 0, 9) = (2·9 − 8, 0, 9)` for its transpose, the known finding -/
def exPT : Params where
  preprocess := false
  lshort := []
  kernels := []
  llong := []
  thr := none
  sep := [2, 2]
  pct := 0
  margin := [1, 1]
  radius := [1, 1]
  shiftThr := 3/5
  maxIter := 2

def exTI : Find.Image := ⟨[4, 5], #[0,0,0,0,0, 0,1,9,0,0, 0,0,2,0,0, 0,0,0,0,0]⟩

example : IsTranspose ⟨[4, 5], exTI.data⟩ ⟨[5, 4], (revImg exTI).data⟩ 4 5 :=
  isTransposeB_sound exTI (revImg exTI) 4 5 (by decide +kernel)
example : (locateModel exPT [4, 5] exTI.data).map (List.map (fun m => (m.centre, m.ecc)))
    = some [([1, 2], some (8, 0, 9)), ([1, 2], some (8, 0, 9))] := by decide +kernel
example : (locateModel (transParams exPT) [5, 4] (revImg exTI).data).map
    (List.map (fun m => (m.centre, m.ecc)))
    = some [([2, 1], some (10, 0, 9)), ([2, 1], some (10, 0, 9))] := by decide +kernel

/-- … and the theorem applies to that pair (its hypotheses are satisfiable, the model answering on
both images by the two evaluations above) -/
example (L LT : List Measure) (hL : locateModel exPT [4, 5] exTI.data = some L)
    (hLT : locateModel (transParams exPT) [5, 4] (revImg exTI).data = some LT) :
    ∃ L', L'.Perm LT ∧ List.Forall₂ (TransRow 1 1) L L' :=
  locateNoPre_transpose exPT rfl 4 5 _ _
    (isTransposeB_sound exTI (revImg exTI) 4 5 (by decide +kernel)) 2 2 1 1 1 1 rfl rfl rfl L LT hL hLT

end transposeComp

end TrackpyV.C09
