import TrackpyV.Model.Adaptive
import TrackpyV.Props.C03
/-!
# C12 — adaptive search only ever shrinks the range of oversize groups

Model: `Adaptive.plan` (mirror of `adaptive_link_wrap` + `split_subnet`) turns a sub-net into the
list of groups that are finally handed to the solver, each with the number `k` of range
reductions in force, or `none` (= SubnetOversizeException).

* `plan_small` + `finalSrcs_k0` (**adaptive = plain when nothing is oversize**): a sub-net within
  the adaptive size limit is handed to the solver as it is, with the unreduced range as the cost
  of not linking — exactly what plain linking does.
* `plan_in_force` (**no link longer than the range in force**): every candidate of a finally
  solved group that went through `k ≥ 1` reductions lies within `search_range·step^k`.
* `final_optimal` (**each sub-group solved optimally with the reduced range as the cost of not
  linking**): a group accepted by the monitor's test is an optimum over all admissible assignments
  of its pruned candidate lists with null cost `B·(p/q)^(2k)` (costs scaled by `q^(2k)`).
* `plan_none_iff` (**raises exactly when a still-oversize group has reached adaptive_stop**).
* `plan_groups_fit` : every finally solved group fits the limit (or is a shortcut case).
* `plan_k_ge`, `prune_prefix`, `atStop_mono` : supporting facts (ranges only shrink).
-/
namespace TrackpyV.Adaptive
open TrackpyV.Assign TrackpyV.Linker

/-! ### basic facts -/

theorem allSome_eq_some {α} (l : List (Option α)) (r : List α) (h : allSome l = some r) :
    l = r.map some := by
  induction l generalizing r with
  | nil => simp [allSome] at h; subst h; rfl
  | cons x xs ih =>
    cases x with
    | none => simp [allSome] at h
    | some y =>
      simp only [allSome, Option.map_eq_some_iff] at h
      obtain ⟨r', hr', rfl⟩ := h
      simp [ih r' hr']

theorem allSome_eq_none {α} (l : List (Option α)) : allSome l = none ↔ none ∈ l := by
  induction l with
  | nil => simp [allSome]
  | cons x xs ih =>
    cases x with
    | none => simp [allSome]
    | some y => simp [allSome, ih]

/-- **adaptive = plain when the group is not oversize**: it is solved as it is -/
theorem plan_small (a : ACfg) (B fuel k : Nat) (n : Net)
    (h : shortcut n = true ∨ n.srcs.length ≤ a.maxSizeA) :
    plan a B (fuel + 1) k n = some [{ net := n, k := k }] := by
  simp only [plan]
  rcases h with h | h
  · simp [h]
  · simp [h]

/-- … with the unreduced candidate lists and `search_range²` as the cost of not linking -/
theorem finalSrcs_k0 (a : ACfg) (B : Nat) (n : Net) :
    finalSrcs a B { net := n, k := 0 } = n.srcs.map (fun x => x.2 ++ [(none, B)]) := by
  simp only [finalSrcs, Nat.mul_zero, Nat.pow_zero, Nat.mul_one]
  apply List.map_congr_left
  intro x _
  obtain ⟨i, cs⟩ := x
  simp

theorem prune_mem (a : ACfg) (B k : Nat) (cs : List Cand) (c : Cand) (h : c ∈ prune a B k cs) :
    c ∈ cs ∧ inForce a B k c.2 = true := by
  induction cs with
  | nil => simp [prune] at h
  | cons x xs ih =>
    obtain ⟨d, w⟩ := x
    simp only [prune] at h
    split at h
    · rename_i hf
      rcases List.mem_cons.mp h with rfl | h
      · exact ⟨List.mem_cons_self .., hf⟩
      · exact ⟨List.mem_cons_of_mem _ (ih h).1, (ih h).2⟩
    · cases h

/-- pruning keeps a prefix of the (sorted) list: ranges only shrink -/
theorem prune_prefix (a : ACfg) (B k : Nat) (cs : List Cand) : prune a B k cs <+: cs := by
  induction cs with
  | nil => simp [prune]
  | cons x xs ih =>
    obtain ⟨d, w⟩ := x
    simp only [prune]
    split
    · exact List.prefix_cons_inj _ |>.mpr ih
    · exact List.nil_prefix

/-- all candidates of all sources of a net lie within the range after `k` reductions -/
def NetInForce (a : ACfg) (B k : Nat) (n : Net) : Prop :=
  ∀ x ∈ n.srcs, ∀ c ∈ x.2, inForce a B k c.2 = true

theorem split_inForce (a : ACfg) (B k : Nat) (n : Net) (sub : Net) (h : sub ∈ split a B k n) :
    NetInForce a B k sub := by
  simp only [split, List.mem_map] at h
  obtain ⟨g, _, rfl⟩ := h
  intro x hx c hc
  simp only [List.mem_filterMap] at hx
  obtain ⟨i, _, hfind⟩ := hx
  have hm := List.mem_of_find?_eq_some hfind
  simp only [List.mem_map] at hm
  obtain ⟨y, _, rfl⟩ := hm
  obtain ⟨j, cs⟩ := y
  exact (prune_mem a B k cs c hc).2

/-! ### the groups finally solved -/

/-- every final group either is the net itself (no reduction) or went through more reductions and
has all its candidates within the range then in force -/
theorem plan_in_force (a : ACfg) (B fuel k : Nat) (n : Net) (fs : List Final)
    (h : plan a B fuel k n = some fs) :
    ∀ f ∈ fs, (f.k = k ∧ f.net = n) ∨ (k < f.k ∧ NetInForce a B f.k f.net) := by
  induction fuel generalizing k n fs with
  | zero => simp [plan] at h
  | succ fuel ih =>
    simp only [plan] at h
    split at h
    · cases h
      intro f hf
      simp only [List.mem_singleton] at hf
      subst hf
      exact Or.inl ⟨rfl, rfl⟩
    · split at h
      · cases h
      · simp only [Option.map_eq_some_iff] at h
        obtain ⟨rs, hrs, rfl⟩ := h
        have hmap := allSome_eq_some _ _ hrs
        intro f hf
        simp only [List.mem_flatten] at hf
        obtain ⟨gs, hgs, hfg⟩ := hf
        -- gs is the plan of one of the sub-nets
        have : some gs ∈ (split a B (k + 1) n).map (plan a B fuel (k + 1)) := by
          rw [hmap]; exact List.mem_map.mpr ⟨gs, hgs, rfl⟩
        simp only [List.mem_map] at this
        obtain ⟨sub, hsub, hplan⟩ := this
        rcases ih (k + 1) sub gs hplan f hfg with ⟨hk, hn⟩ | ⟨hk, hin⟩
        · right
          refine ⟨by omega, ?_⟩
          rw [hk, hn]
          exact split_inForce a B (k + 1) n sub hsub
        · right
          exact ⟨by omega, hin⟩

theorem plan_k_ge (a : ACfg) (B fuel k : Nat) (n : Net) (fs : List Final)
    (h : plan a B fuel k n = some fs) : ∀ f ∈ fs, k ≤ f.k := by
  intro f hf
  rcases plan_in_force a B fuel k n fs h f hf with ⟨hk, _⟩ | ⟨hk, _⟩ <;> omega

/-- **No link longer than the range in force**: after at least one reduction every candidate the
solver may use is within `search_range·step^k`. -/
theorem plan_in_force' (a : ACfg) (B fuel : Nat) (n : Net) (fs : List Final)
    (h : plan a B fuel 0 n = some fs) (f : Final) (hf : f ∈ fs) (hk : 0 < f.k) :
    NetInForce a B f.k f.net := by
  rcases plan_in_force a B fuel 0 n fs h f hf with ⟨h0, _⟩ | ⟨_, hin⟩
  · omega
  · exact hin

/-- every finally solved group fits the adaptive size limit (or is one of the shortcut cases) -/
theorem plan_groups_fit (a : ACfg) (B fuel k : Nat) (n : Net) (fs : List Final)
    (h : plan a B fuel k n = some fs) :
    ∀ f ∈ fs, shortcut f.net = true ∨ f.net.srcs.length ≤ a.maxSizeA := by
  induction fuel generalizing k n fs with
  | zero => simp [plan] at h
  | succ fuel ih =>
    simp only [plan] at h
    split at h
    · rename_i hc
      cases h
      intro f hf
      simp only [List.mem_singleton] at hf
      subst hf
      simpa using hc
    · split at h
      · cases h
      · simp only [Option.map_eq_some_iff] at h
        obtain ⟨rs, hrs, rfl⟩ := h
        have hmap := allSome_eq_some _ _ hrs
        intro f hf
        simp only [List.mem_flatten] at hf
        obtain ⟨gs, hgs, hfg⟩ := hf
        have : some gs ∈ (split a B (k + 1) n).map (plan a B fuel (k + 1)) := by
          rw [hmap]; exact List.mem_map.mpr ⟨gs, hgs, rfl⟩
        simp only [List.mem_map] at this
        obtain ⟨sub, _, hplan⟩ := this
        exact ih (k + 1) sub gs hplan f hfg

/-! ### the raise condition -/

/-- a group is still oversize -/
def Oversize (a : ACfg) (n : Net) : Prop := shortcut n = false ∧ a.maxSizeA < n.srcs.length

/-- with `f` further reductions available: the group is oversize and either has reached
`adaptive_stop`, or one of its sub-groups after the next reduction is stuck in the same way -/
def Stuck (a : ACfg) (B : Nat) : Nat → Nat → Net → Prop
  | 0, k, n => Oversize a n ∧ atStop a k = true
  | f + 1, k, n => Oversize a n ∧
      (atStop a k = true ∨ ∃ sub ∈ split a B (k + 1) n, Stuck a B f (k + 1) sub)

theorem not_small_iff (a : ACfg) (n : Net) :
    (shortcut n || decide (n.srcs.length ≤ a.maxSizeA)) = false ↔ Oversize a n := by
  simp [Oversize, Nat.not_le]

/-- `search_range·step^k ≤ adaptive_stop` persists under further reductions (step < 1) -/
theorem atStop_mono (a : ACfg) (hpq : a.p ≤ a.q) (k : Nat) (h : atStop a k = true) :
    atStop a (k + 1) = true := by
  simp only [atStop, decide_eq_true_eq] at h ⊢
  have e : 2 * (k + 1) = 2 * k + 2 := by omega
  rw [e, Nat.pow_add, Nat.pow_add]
  have hp2 : a.p ^ 2 ≤ a.q ^ 2 := Nat.pow_le_pow_left hpq 2
  calc a.p ^ (2 * k) * a.p ^ 2 * a.stopDen
      = (a.p ^ (2 * k) * a.stopDen) * a.p ^ 2 := by
        rw [Nat.mul_assoc, Nat.mul_comm (a.p ^ 2), ← Nat.mul_assoc]
    _ ≤ (a.stopNum * a.q ^ (2 * k)) * a.q ^ 2 := Nat.mul_le_mul h hp2
    _ = a.stopNum * (a.q ^ (2 * k) * a.q ^ 2) := by rw [Nat.mul_assoc]

/-- **The raise condition.**  Provided the fuel covers the reductions that are possible before
`adaptive_stop` is reached (`atStop a (k+f)`), the call raises exactly when a still-oversize group
has reached a range at or below `adaptive_stop` somewhere in the recursion. -/
theorem plan_none_iff (a : ACfg) (hpq : a.p ≤ a.q) (B f k : Nat) (n : Net)
    (hfuel : atStop a (k + f) = true) :
    plan a B (f + 1) k n = none ↔ Stuck a B f k n := by
  induction f generalizing k n with
  | zero =>
    simp only [plan, Stuck]
    have hs : atStop a k = true := by simpa using hfuel
    by_cases hc : (shortcut n || decide (n.srcs.length ≤ a.maxSizeA)) = true
    · simp only [hc, if_true]
      constructor
      · intro h; cases h
      · rintro ⟨ho, _⟩
        have := (not_small_iff a n).mpr ho
        rw [this] at hc; cases hc
    · have hc' : (shortcut n || decide (n.srcs.length ≤ a.maxSizeA)) = false := by
        simpa using hc
      simp only [hc', Bool.false_eq_true, if_false, hs, if_true, true_iff]
      exact ⟨(not_small_iff a n).mp hc', trivial⟩
  | succ f ih =>
    rw [plan]
    simp only [Stuck]
    by_cases hc : (shortcut n || decide (n.srcs.length ≤ a.maxSizeA)) = true
    · simp only [hc, if_true]
      constructor
      · intro h; cases h
      · rintro ⟨ho, _⟩
        have := (not_small_iff a n).mpr ho
        rw [this] at hc; cases hc
    · have hc' : (shortcut n || decide (n.srcs.length ≤ a.maxSizeA)) = false := by
        simpa using hc
      have ho := (not_small_iff a n).mp hc'
      simp only [hc', Bool.false_eq_true, if_false]
      by_cases hs : atStop a k = true
      · simp only [hs, if_true, true_iff]
        exact ⟨ho, Or.inl trivial⟩
      · simp only [hs, Bool.false_eq_true, if_false, false_or]
        have hfuel' : atStop a (k + 1 + f) = true := by
          have : k + (f + 1) = k + 1 + f := by omega
          rw [← this]; exact hfuel
        constructor
        · intro h
          refine ⟨ho, ?_⟩
          have : allSome ((split a B (k + 1) n).map (plan a B (f + 1) (k + 1))) = none := by
            cases hh : allSome ((split a B (k + 1) n).map (plan a B (f + 1) (k + 1))) with
            | none => rfl
            | some r => rw [hh] at h; simp at h
          rw [allSome_eq_none] at this
          simp only [List.mem_map] at this
          obtain ⟨sub, hsub, hplan⟩ := this
          exact ⟨sub, hsub, (ih (k + 1) sub hfuel').mp hplan⟩
        · rintro ⟨_, sub, hsub, hst⟩
          have hplan := (ih (k + 1) sub hfuel').mpr hst
          have : allSome ((split a B (k + 1) n).map (plan a B (f + 1) (k + 1))) = none := by
            rw [allSome_eq_none]
            exact List.mem_map.mpr ⟨sub, hsub, hplan⟩
          rw [this]; rfl

/-! ### each finally solved group is solved optimally with the reduced range as null cost -/

theorem final_optimal (a : ACfg) (cfg : Cfg) (st : State) (labels : List Nat) (f : Final)
    (hne : f.net.srcs ≠ []) (h : finalOkB a cfg st labels f = true) :
    IsOptimal (finalSrcs a cfg.B f) (finalAsg a cfg st labels f) := by
  unfold finalOkB at h
  simp only at h
  have hne' : finalSrcs a cfg.B f ≠ [] := by
    simp only [finalSrcs, ne_eq, List.map_eq_nil_iff]; exact hne
  have hise : (finalSrcs a cfg.B f).isEmpty = false := by
    cases hh : finalSrcs a cfg.B f with
    | nil => exact absurd hh hne'
    | cons _ _ => rfl
  simp only [hise, Bool.false_eq_true, if_false, Bool.and_eq_true] at h
  obtain ⟨⟨hsorted, hadm⟩, hcost⟩ := h
  have hs : AllSorted (finalSrcs a cfg.B f) := by
    intro s hsm
    exact (sortedB_iff s).mp (List.all_eq_true.mp hsorted s hsm)
  split at hcost
  · rename_i c b hsol
    exact checked_output_optimal _ hne' hs _ c b hadm hsol (by simpa using hcost)
  · cases hcost

/-- the cost of not linking inside a final group is the range in force, `B·(p/q)^(2k)` on the
scale on which a candidate of original cost `c` costs `c·q^(2k)` -/
theorem finalSrcs_null (a : ACfg) (B : Nat) (f : Final) (s : Src) (hs : s ∈ finalSrcs a B f) :
    (none, B * a.p ^ (2 * f.k)) ∈ s := by
  simp only [finalSrcs, List.mem_map] at hs
  obtain ⟨x, _, rfl⟩ := hs
  obtain ⟨i, cs⟩ := x
  simp

/-! ### what an accepted adaptive step guarantees -/

/-- An accepted step: the labels are valid in the sense of C01 (same `validWhy` as plain linking),
no group is stuck at `adaptive_stop`, every finally solved group passes the optimality test and
every source that ended up in no group stays unlinked. -/
theorem stepCheckA_ok {a : ACfg} {cfg : Cfg} {st : State} {t : Int} {dsts : List Pos}
    {labels : List Nat} {st' : State} {r f : Nat}
    (h : stepCheckA a cfg st t dsts (some labels) = .ok st' r f false) :
    validWhy cfg st t dsts labels = none ∧ st' = nextState cfg st t dsts labels ∧
    ∀ n ∈ stepNets cfg st t dsts, ∃ fs, plan a cfg.B 64 0 n = some fs ∧
      (∀ g ∈ fs, finalOkB a cfg st labels g = true) ∧ orphansOkB st labels n fs = true := by
  unfold stepCheckA at h
  simp only at h
  split at h
  · -- capped step: the flag would be `true`
    split at h
    · cases h
    · cases h
  · split at h
    · cases h
    · rename_i hraise
      split at h
      · cases h
      · rename_i hv
        split at h
        · cases h
        · rename_i hok
          cases h
          refine ⟨hv, rfl, ?_⟩
          intro n hn
          simp only [Bool.not_eq_true, Bool.not_eq_eq_eq_not, Bool.not_false] at hok
          have hall : ((stepNets cfg st t dsts).map (fun n => (n, plan a cfg.B 64 0 n))).all
              (fun x => match x.2 with
                | none => false
                | some fs => fs.all (finalOkB a cfg st labels) && orphansOkB st labels x.1 fs) = true := by
            revert hok; cases List.all _ _ <;> simp
          simp only [List.all_eq_true, List.mem_map] at hall
          have := hall (n, plan a cfg.B 64 0 n) ⟨n, hn, rfl⟩
          simp only at this
          cases hp : plan a cfg.B 64 0 n with
          | none => rw [hp] at this; cases this
          | some fs =>
            rw [hp] at this
            simp only [Bool.and_eq_true, List.all_eq_true] at this
            exact ⟨fs, rfl, this.1, this.2⟩

/-- every accepted step — capped or not — carries labels that are valid in the sense of C01 -/
theorem stepCheckA_validWhy {a : ACfg} {cfg : Cfg} {st : State} {t : Int} {dsts : List Pos}
    {labels : List Nat} {st' : State} {r f : Nat} {c : Bool}
    (h : stepCheckA a cfg st t dsts (some labels) = .ok st' r f c) :
    validWhy cfg st t dsts labels = none ∧ st' = nextState cfg st t dsts labels := by
  unfold stepCheckA at h
  simp only at h
  split at h
  · split at h
    · cases h
    · rename_i hv; cases h; exact ⟨hv, rfl⟩
  · split at h
    · cases h
    · split at h
      · cases h
      · rename_i hv
        split at h
        · cases h
        · cases h; exact ⟨hv, rfl⟩

/-- adaptive linking keeps C01's validity: the C01 invariant step applies verbatim -/
theorem stepCheckA_valid {a : ACfg} {cfg : Cfg} {st : State} {hist : List LLevel} {t : Int}
    {dsts : List Pos} {labels : List Nat} {st' : State} {r f : Nat} {c : Bool}
    (hinv : Inv cfg st hist) (h : stepCheckA a cfg st t dsts (some labels) = .ok st' r f c) :
    LevelOK cfg hist { t := t, dsts := dsts, labels := labels } ∧
    Inv cfg st' ({ t := t, dsts := dsts, labels := labels } :: hist) := by
  obtain ⟨hv, rfl⟩ := stepCheckA_validWhy h
  exact step_preserves hinv hv

/-! ### non-vacuity (tests, labelled as such) -/

/-- step 1/2, stop at 1/4 of the range (ρ² = 1/16), adaptive limit 1 -/
def exA : ACfg := { p := 1, q := 2, stopNum := 1, stopDen := 16, maxSizeA := 1 }

/-- two sources competing for two destinations; far candidates at cost 16 (= B), near ones at 1 -/
def exNet : Net :=
  { srcs := [(0, [(some 0, 1), (some 1, 16)]), (1, [(some 1, 1), (some 0, 16)])], dsts := [0, 1] }

example : (plan exA 16 8 0 exNet).map (fun fs => fs.map (fun f => (f.k, f.net.srcs.map (·.1)))) =
    some [(1, [1]), (1, [0])] := by
  simp [plan, exA, exNet, shortcut, atStop, split, prune, inForce, addSource, hasDest, realDests,
    allSome, List.find?]

example : atStop exA 2 = true ∧ atStop exA 1 = false := by simp [atStop, exA]

end TrackpyV.Adaptive
