import TrackpyV.Props.C14Bg
import TrackpyV.Proofs.FindLink
import TrackpyV.Proofs.RelocOracle
/-!
# C14 — a model of `FindLinker.next_level` and what is proved about it

`Model/FindLinkAlgo.lean` is a deterministic executable model of ONE `FindLinker.next_level`
(sub-nets, `include_lost`, `merge_lost_subnets`, per sub-net: relocation attempt for the shortage,
`add_dest_points`, branch-and-bound; labels), the image entering only through an oracle for
`get_relocate_candidates`.  Theorems, for EVERY state, level and oracle unless said otherwise:

* `flAlgo_detected_kept`     a feature detected in the first pass is never removed, moved or
                             re-ordered: the emitted level is `dsts ++ extra`;
* `flAlgo_added_has_source`  every emitted feature that was not detected lies within
                             `search_range` of a source of a sub-net that had a shortage (more
                             sources than destinations) — a lost source; no oracle contract needed
                             (`add_dest_points` admits nothing else);
* `flAlgo_labels_nodup`      one label per feature, no label twice in the level;
* `flAlgo_added_admissible`, `flAlgo_added_separated`   under the oracle contract `OracleOK`
                             (what `relocate_admissible` + `reloc_clear_of_hash_all` prove about
                             `Relocate.relocateCandidates`): every added feature keeps the margin,
                             weighs ≥ minmass and is no closer than `separation` to ANY other
                             feature of the emitted level (detected, added before, added after);
* `flAlgo_valid`, `flAlgo_accepted`, `flAlgo_run_accepted`   the monitor's step relation `flStep`
                             (and `flRun` over whole movies) ACCEPTS the model's output — the
                             shadow relation of `Props/C14.lean` is satisfiable on every input and
                             not stricter than the algorithm it judges.  Mode: validity
                             (`cfg.noOpt = true`), the mode in which C14 runs the monitor (op FLRUN).
* `relocOracle_ok`, `flAlgo_added_admissible_reloc`   the executable model of
                             `get_relocate_candidates` (`Relocate.relocateCandidates`, any image)
                             KEEPS the contract `OracleOK` when the integer weights describe the
                             same ellipsoids (`GeomAgree`: `wᵢ·rᵢ² = B`); hence the composed step
                             (model of next_level + model of relocation) emits only admissible
                             features — no oracle hypothesis left;
* `flAlgo_solver_total`      the branch-and-bound never fails on a sub-net of the step;
* `shortcut_one_zero`, `shortcut_one_one`   the shortcut cases of the sub-net linker
                             (subnetlinker.py:375-383) agree with the general solver.

-- FULL (FALSE as stated, settled in `Props/C14Opt.lean`): acceptance in optimality mode
--   (`cfg.noOpt = false`): `flStep` then also demands that the links are a minimum-cost assignment
--   on every connected component of the candidate graph of the EMITTED level.  The model solves
--   each MERGED sub-net to optimality; but (a) "a feature added for one sub-net is out of range of
--   the sources of every other sub-net" holds for features seen by a LOST source only (the
--   `2·search_range` merge rule looks around lost sources, `add_dest_points` admits through any
--   member): `C14Opt.flAlgo_opt_witness` is a step on which `flStep` rejects the model's own
--   output, replayed on the real find_link (design-notes/c14_opt_witness.py).  Proved there:
--   `flAlgo_accepted_opt_partial` (acceptance under the run-time side condition `addedLocalB`),
--   (a) for lost sources (`flAlgo_added_local_of_lost`), (b) `optimal_on_parts`.  Not needed by
--   C14 (the property does not claim optimal links; FLRUN judges with `opt=False`).
-/
namespace TrackpyV.FindLink
open TrackpyV.Linker TrackpyV.Assign
open TrackpyV.Relocate (flStep flRun flRunFrom FLevel addedOkB)

/-! ## the first pass is untouched -/

/-- **flAlgo_detected_kept.**  The emitted level is the detected level followed by the added
features: no detected feature is removed, moved or re-ordered; `added` are exactly the indices of
the appended features, each with a mass. -/
theorem flAlgo_detected_kept (cfg : Cfg) (st : State) (t : Int) (orc : Oracle) (dsts : List Pos) :
    ∃ extra, (flAlgoStep cfg st t orc dsts).dsts = dsts ++ extra ∧
      (flAlgoStep cfg st t orc dsts).added = List.range' dsts.length extra.length ∧
      (flAlgoStep cfg st t orc dsts).masses.length = extra.length := by
  obtain ⟨extra, hl, hm⟩ := (flAcc_inv cfg st t orc dsts).pre
  refine ⟨extra, hl, ?_, hm⟩
  show List.range' dsts.length ((flAcc cfg st t orc dsts).lvl.length - dsts.length) = _
  rw [hl]
  simp

/-! ## every added feature has a lost source -/

/-- **flAlgo_added_has_source.**  Every emitted feature that was not detected lies within
`search_range` (`dist2 cfg.w · · ≤ cfg.B`, edge included as in `Linker.candsOfRow`) of the
(predicted) position of a source `i` of a sub-net `g` of this step that had a shortage
(`#sources > #destinations`) — whatever the oracle returned. -/
theorem flAlgo_added_has_source (cfg : Cfg) (st : State) (t : Int) (orc : Oracle)
    (dsts : List Pos) :
    ∀ j ∈ (flAlgoStep cfg st t orc dsts).added, ∃ q,
      (flAlgoStep cfg st t orc dsts).dsts[j]? = some q ∧
      ∃ g ∈ flGroups cfg st t dsts, short g = true ∧ ∃ i ∈ g.1, ∃ s, st.srcs[i]? = some s ∧
        dist2 cfg.w (view cfg t s) q ≤ cfg.B := by
  intro j hj
  have hinv := flAcc_inv cfg st t orc dsts
  change j ∈ List.range' dsts.length ((flAcc cfg st t orc dsts).lvl.length - dsts.length) at hj
  rw [List.mem_range'] at hj
  obtain ⟨i, hi, rfl⟩ := hj
  have hlt : dsts.length + 1 * i < (flAcc cfg st t orc dsts).lvl.length := by omega
  refine ⟨(flAcc cfg st t orc dsts).lvl[dsts.length + 1 * i], List.getElem?_eq_getElem hlt, ?_⟩
  exact hinv.added_src _ _ (by omega) (List.getElem?_eq_getElem hlt)

/-! ## labels -/

/-- the labels of the model's step are valid in the sense of C01 with respect to the EMITTED
level: one per feature, none twice, no old name for a new trajectory, every link within range -/
theorem flAlgo_valid (cfg : Cfg) (st : State) (hg : Good st) (t : Int) (orc : Oracle)
    (dsts : List Pos) :
    validWhy cfg st t (flAlgoStep cfg st t orc dsts).dsts (flAlgoStep cfg st t orc dsts).labels
      = none :=
  valid_of_choiceOK (flAcc_choiceOK cfg st t orc dsts) hg

/-- **flAlgo_labels_nodup.**  In the level emitted by the model every feature has one label and
no label occurs twice. -/
theorem flAlgo_labels_nodup (cfg : Cfg) (st : State) (hg : Good st) (t : Int) (orc : Oracle)
    (dsts : List Pos) :
    (flAlgoStep cfg st t orc dsts).labels.Nodup ∧
      (flAlgoStep cfg st t orc dsts).labels.length = (flAlgoStep cfg st t orc dsts).dsts.length :=
  ⟨labelsOf_nodup (flAcc_choiceOK cfg st t orc dsts) hg _, labelsOf_length _ _ _⟩

/-! ## admissibility of the added features under the oracle contract -/

/-- **flAlgo_added_admissible.**  If the oracle keeps the contract of `get_relocate_candidates`
(`OracleOK`), the added features keep the margin, are at least `separation` away from every
detected feature and from each other (`sepB ≤ dist2 sepW`, both argument orders), and every added
mass is `≥ minmass`. -/
theorem flAlgo_added_admissible (cfg : Cfg) (f : FCfg) (st : State) (t : Int) (orc : Oracle)
    (ho : OracleOK cfg f orc) (dsts : List Pos) :
    ∃ extra, (flAlgoStep cfg st t orc dsts).dsts = dsts ++ extra ∧
      (∀ x ∈ extra, insideMargin f.shape f.margin x = true) ∧
      (∀ x ∈ extra, ∀ b ∈ dsts, f.sepB ≤ dist2 f.sepW x b ∧ f.sepB ≤ dist2 f.sepW b x) ∧
      extra.Pairwise (fun x y => f.sepB ≤ dist2 f.sepW x y ∧ f.sepB ≤ dist2 f.sepW y x) ∧
      ∀ m ∈ (flAlgoStep cfg st t orc dsts).masses, f.minmass ≤ m := by
  have hs := flAcc_sep cfg st t orc dsts f ho
  obtain ⟨extra, hl, hpw, hex⟩ := hs.ex
  refine ⟨extra, hl, fun x hx => (hex x hx).1, ?_, ?_, hs.mass⟩
  · intro x hx b hb
    have := (hex x hx).2 b hb
    exact ⟨this, by rw [dist2_comm]; exact this⟩
  · refine List.Pairwise.imp ?_ hpw
    intro x y h
    exact ⟨by rw [dist2_comm]; exact h, h⟩

/-- **flAlgo_added_separated.**  Index form: an added feature `j` of the emitted level is no
closer than `separation` to ANY other feature `k ≠ j` of that level. -/
theorem flAlgo_added_separated (cfg : Cfg) (f : FCfg) (st : State) (t : Int) (orc : Oracle)
    (ho : OracleOK cfg f orc) (dsts : List Pos) :
    ∀ j ∈ (flAlgoStep cfg st t orc dsts).added, ∀ k, k ≠ j → ∀ qj qk,
      (flAlgoStep cfg st t orc dsts).dsts[j]? = some qj →
      (flAlgoStep cfg st t orc dsts).dsts[k]? = some qk → f.sepB ≤ dist2 f.sepW qj qk := by
  obtain ⟨extra, hl, _, hdet, hpw, _⟩ := flAlgo_added_admissible cfg f st t orc ho dsts
  intro j hj k hkj qj qk hqj hqk
  change j ∈ List.range' dsts.length ((flAcc cfg st t orc dsts).lvl.length - dsts.length) at hj
  rw [List.mem_range'] at hj
  obtain ⟨a, _, rfl⟩ := hj
  rw [hl] at hqj hqk
  have hja : dsts.length ≤ dsts.length + 1 * a := by omega
  rw [List.getElem?_append_right hja] at hqj
  have hia : dsts.length + 1 * a - dsts.length = a := by omega
  rw [hia] at hqj
  rcases getElem?_append_cases hqk with hqk | ⟨hkn, _⟩
  · exact (hdet qj (List.mem_of_getElem? hqj) qk (List.mem_of_getElem? hqk)).1
  · rw [List.getElem?_append_right hkn] at hqk
    rw [List.getElem?_eq_some_iff] at hqj hqk
    obtain ⟨ha, rfl⟩ := hqj
    obtain ⟨hb, rfl⟩ := hqk
    rw [List.pairwise_iff_getElem] at hpw
    rcases Nat.lt_or_ge a (k - dsts.length) with h | h
    · exact (hpw a (k - dsts.length) ha hb h).1
    · have : k - dsts.length < a := by omega
      exact (hpw (k - dsts.length) a hb ha this).2

/-! ## the monitor accepts the model -/

/-- the extra clause of `flStep`: every added feature has a source of this step within range -/
theorem flAlgo_addedOk (cfg : Cfg) (st : State) (t : Int) (orc : Oracle) (dsts : List Pos) :
    addedOkB cfg st t (flAlgoStep cfg st t orc dsts).dsts (flAlgoStep cfg st t orc dsts).added
      = true := by
  unfold addedOkB
  rw [List.all_eq_true]
  intro j hj
  obtain ⟨q, hq, g, _, _, i, _, s, hs, hd⟩ := flAlgo_added_has_source cfg st t orc dsts j hj
  rw [hq]
  simp only [List.any_eq_true, decide_eq_true_eq]
  exact ⟨s, List.mem_of_getElem? hs, hd⟩

/-- **flAlgo_accepted.**  For EVERY state with distinct, used source tracks (`Good`, implied by the
linker invariant `Inv`), every level, every oracle: the monitor's step relation `flStep` accepts
what the model emits and moves to `nextState`.  Hypotheses: validity mode (`noOpt`, the mode of
op FLRUN) and — as in `algo_accepted` — the emitted level stays within the sub-net size limit
(or beyond the neighbour cap, where the monitor does not judge sizes). -/
theorem flAlgo_accepted (cfg : Cfg) (hno : cfg.noOpt = true) (st : State) (hg : Good st) (t : Int)
    (orc : Oracle) (dsts : List Pos)
    (hover : (oversizeB cfg (stepGroups cfg st t (flAlgoStep cfg st t orc dsts).dsts) &&
      !(cappedB cfg st t (flAlgoStep cfg st t orc dsts).dsts)) = false) :
    flStep cfg st t (flAlgoStep cfg st t orc dsts).dsts (flAlgoStep cfg st t orc dsts).labels
        (flAlgoStep cfg st t orc dsts).added =
      some (nextState cfg st t (flAlgoStep cfg st t orc dsts).dsts
        (flAlgoStep cfg st t orc dsts).labels) := by
  unfold flStep stepCheck
  simp only [hover, Bool.false_eq_true, if_false, flAlgo_valid cfg st hg t orc dsts, hno,
    Bool.or_true, if_true, flAlgo_addedOk cfg st t orc dsts]

/-- `flAlgo_accepted` from the linker invariant -/
theorem flAlgo_accepted_inv (cfg : Cfg) (hno : cfg.noOpt = true) (st : State) (hist : List LLevel)
    (hinv : Inv cfg st hist) (t : Int) (orc : Oracle) (dsts : List Pos)
    (hover : (oversizeB cfg (stepGroups cfg st t (flAlgoStep cfg st t orc dsts).dsts) &&
      !(cappedB cfg st t (flAlgoStep cfg st t orc dsts).dsts)) = false) :
    flStep cfg st t (flAlgoStep cfg st t orc dsts).dsts (flAlgoStep cfg st t orc dsts).labels
        (flAlgoStep cfg st t orc dsts).added =
      some (nextState cfg st t (flAlgoStep cfg st t orc dsts).dsts
        (flAlgoStep cfg st t orc dsts).labels) :=
  flAlgo_accepted cfg hno st (good_of_inv hinv) t orc dsts hover

/-! ### whole movies -/

/-- a movie as the model sees it: per frame the frame number, the detections handed in and the
relocation oracle of that frame's image -/
abbrev Frame := Int × List Pos × Oracle

/-- the levels after the first, labelled by the model step after step -/
def flAlgoRunFrom (cfg : Cfg) : State → List Frame → List FLevel
  | _, [] => []
  | st, (t, dsts, orc) :: rest =>
    { t := t, dsts := (flAlgoStep cfg st t orc dsts).dsts,
      labels := (flAlgoStep cfg st t orc dsts).labels,
      added := (flAlgoStep cfg st t orc dsts).added } ::
      flAlgoRunFrom cfg (nextState cfg st t (flAlgoStep cfg st t orc dsts).dsts
        (flAlgoStep cfg st t orc dsts).labels) rest

/-- first level as `init_level` labels it (every feature starts a trajectory, nothing relocated) -/
def firstState (t : Int) (dsts : List Pos) : State :=
  nextState initCfg { srcs := [], used := [] } t dsts (List.range dsts.length)

/-- the whole movie labelled by the model -/
def flAlgoRun (cfg : Cfg) : List Frame → List FLevel
  | [] => []
  | (t, dsts, _) :: rest =>
    { t := t, dsts := dsts, labels := List.range dsts.length, added := [] } ::
      flAlgoRunFrom cfg (firstState t dsts) rest

/-- every step's emitted level stays within the sub-net size limit (or beyond the neighbour cap) -/
def FlWithinCaps (cfg : Cfg) : State → List Frame → Prop
  | _, [] => True
  | st, (t, dsts, orc) :: rest =>
    (oversizeB cfg (stepGroups cfg st t (flAlgoStep cfg st t orc dsts).dsts) &&
      !(cappedB cfg st t (flAlgoStep cfg st t orc dsts).dsts)) = false ∧
    FlWithinCaps cfg (nextState cfg st t (flAlgoStep cfg st t orc dsts).dsts
      (flAlgoStep cfg st t orc dsts).labels) rest

theorem flAlgo_runFrom_accepted (cfg : Cfg) (hno : cfg.noOpt = true) :
    ∀ (frames : List Frame) (st : State) (hist : List LLevel) (k : Nat), Inv cfg st hist →
      FlWithinCaps cfg st frames → flRunFrom cfg st k (flAlgoRunFrom cfg st frames) = none
  | [], _, _, _, _, _ => rfl
  | (t, dsts, orc) :: rest, st, hist, k, hinv, hc => by
    obtain ⟨hover, hrest⟩ := hc
    have hstep := flAlgo_accepted_inv cfg hno st hist hinv t orc dsts hover
    have hv := flAlgo_valid cfg st (good_of_inv hinv) t orc dsts
    obtain ⟨_, hinv'⟩ := step_preserves hinv hv
    simp only [flAlgoRunFrom, flRunFrom, hstep]
    exact flAlgo_runFrom_accepted cfg hno rest _ _ (k + 1) hinv' hrest

/-- **flAlgo_run_accepted.**  For every movie (any detections, any oracles) whose steps stay
within the caps, the monitor `flRun` accepts the movie labelled by the model: an accepted
find_link output exists for every input, and it is the model's. -/
theorem flAlgo_run_accepted (cfg : Cfg) (hno : cfg.noOpt = true) (t0 : Int) (d0 : List Pos)
    (o0 : Oracle) (rest : List Frame) (hc : FlWithinCaps cfg (firstState t0 d0) rest) :
    flRun cfg (flAlgoRun cfg ((t0, d0, o0) :: rest)) = none := by
  have hi : initCheck t0 d0 (List.range d0.length) =
      .ok (firstState t0 d0) 0 0 (List.range d0.length).length false := by
    unfold initCheck firstState
    simp [List.nodup_range]
  obtain ⟨_, hinv⟩ := initCheck_ok cfg hi
  simp only [flAlgoRun, flRun, hi, List.isEmpty_nil, if_true]
  exact flAlgo_runFrom_accepted cfg hno rest _ _ 1 hinv hc

/-! ## the solver inside the model -/

/-- **flAlgo_solver_total.**  On every sub-net of the step that has a source, the branch-and-bound
returns an assignment (so the fall-back branch `none => []` of `processGroup` is dead code). -/
theorem flAlgo_solver_total (cfg : Cfg) (st : State) (t : Int) (dsts : List Pos) (g : Group)
    (hg : g ∈ flGroups cfg st t dsts) (hne : g.1 ≠ []) (base : Nat) (lvl' : List Pos) :
    ∃ c a, solveOrdered (g.1.map (fcands cfg st t dsts.length base lvl')) = some (c, a) :=
  groupCh_total cfg st t dsts.length base lvl' g hne
    (fun i hi => (flGroups_inv cfg st t dsts).src_lt i (List.mem_flatMap.mpr ⟨g, hg, hi⟩))

/-- subnetlinker.py:381-383: one source, no destination — the source is lost -/
theorem shortcut_one_zero (B : Nat) : solveOrdered [[(none, B)]] = some (B, [(none, B)]) := by
  simp [solveOrdered, go, exceeds, taken, better]

/-- subnetlinker.py:378-380: one source, one destination (within range) — they are linked -/
theorem shortcut_one_one (B d j : Nat) (h : d ≤ B) :
    solveOrdered [[(some j, d), (none, B)]] = some (d, [(some j, d)]) := by
  simp [solveOrdered, go, exceeds, taken, better]
  omega

/-! ## the oracle instantiated with the model of `get_relocate_candidates` -/

/-- the oracle of the step model instantiated with the executable model
`Relocate.relocateCandidates` of `get_relocate_candidates` on the image `img` -/
def relocOracle (rc : Relocate.Cfg) (img : Find.Image) : Oracle :=
  fun hash pos => (Relocate.relocateCandidates rc img hash pos).map
    (fun x => (Relocate.toI x.1, x.2))

/-- the integer geometry of the linker model (`cfg.w`, `cfg.B`; `f.sepW`, `f.sepB`; margin box,
minmass) describes the search-range / separation ellipsoids, the image and the mass bound of the
relocation model: `wᵢ·search_rangeᵢ² = B`, `sepWᵢ·separationᵢ² = sepB` on every axis -/
structure GeomAgree (cfg : Cfg) (f : FCfg) (rc : Relocate.Cfg) (img : Find.Image) : Prop where
  range : Relocate.WeightsAgree cfg.B cfg.w rc.sr
  sep : Relocate.WeightsAgree f.sepB f.sepW rc.sep
  shape : f.shape = img.shape
  margin : f.margin = rc.radius
  mass : (f.minmass : Rat) ≤ rc.minmass

/-- **relocOracle_ok.**  The executable model of `get_relocate_candidates` (`Model/Relocate.lean`)
KEEPS the oracle contract of the step model, for every well-formed parameter set and image:
`reloc_outside_margin`, `reloc_mass_ge_minmass`, `reloc_within_search_range`,
`reloc_clear_of_hash_all` (with `bg_radius_covers`) and `relocateWith_pairwise`, transported to the
integer geometry by `dist2_scale`. -/
theorem relocOracle_ok (cfg : Cfg) (f : FCfg) (rc : Relocate.Cfg) (img : Find.Image)
    (hw : Relocate.wellFormed rc img = true) (hp : 0 ≤ rc.pct) (hg : GeomAgree cfg f rc img) :
    OracleOK cfg f (relocOracle rc img) := by
  have hw' := hw
  simp only [Relocate.wellFormed, Bool.and_eq_true, decide_eq_true_eq, List.all_eq_true] at hw'
  obtain ⟨⟨⟨⟨⟨⟨⟨_, hr⟩, _⟩, _⟩, _⟩, hsep⟩, _⟩, _⟩ := hw'
  have hsep' : ∀ s ∈ rc.sep, s ≠ 0 := fun s hs => ne_of_gt (hsep s hs).1
  have hB : (0 : Rat) ≤ (cfg.B : Rat) := Nat.cast_nonneg _
  have hsB : (0 : Rat) ≤ (f.sepB : Rat) := Nat.cast_nonneg _
  have sepOf : ∀ p q : Pos, 1 ≤ Find.dist2 rc.sep p q → f.sepB ≤ dist2 f.sepW q p := by
    intro p q h
    have := Relocate.dist2_scale f.sepB f.sepW rc.sep q p hg.sep
    have h2 : (f.sepB : Rat) ≤ ((dist2 f.sepW q p : Nat) : Rat) := by
      rw [this]; nlinarith
    exact_mod_cast h2
  refine ⟨?_, ?_, ?_, ?_, ?_⟩
  · intro hash pos x hx
    obtain ⟨⟨c, v⟩, hc, rfl⟩ := List.mem_map.mp hx
    rw [hg.shape, hg.margin]
    exact Relocate.insideMargin_of_outside _ _ c
      (Relocate.reloc_outside_margin rc img _ pos hr c v hc)
  · intro hash pos x hx
    obtain ⟨⟨c, v⟩, hc, rfl⟩ := List.mem_map.mp hx
    have h1 := (Relocate.reloc_mass_ge_minmass rc img _ pos c v hc).1
    have h2 : (f.minmass : Rat) ≤ (v : Rat) := le_trans hg.mass h1
    exact_mod_cast h2
  · intro hash pos x hx
    obtain ⟨⟨c, v⟩, hc, rfl⟩ := List.mem_map.mp hx
    obtain ⟨p, hpm, hd⟩ := Relocate.reloc_within_search_range rc img _ pos c v hc
    simp only [inReach, List.any_eq_true, decide_eq_true_eq]
    refine ⟨p, hpm, ?_⟩
    have := Relocate.dist2_scale cfg.B cfg.w rc.sr p (Relocate.toI c) hg.range
    have h2 : ((dist2 cfg.w p (Relocate.toI c) : Nat) : Rat) ≤ (cfg.B : Rat) := by
      rw [this]; nlinarith
    exact_mod_cast h2
  · intro hash pos x hx b hb
    obtain ⟨⟨c, v⟩, hc, rfl⟩ := List.mem_map.mp hx
    have h1 := Relocate.reloc_clear_of_hash_all rc img hash pos hw hp c v hc b hb
    rw [Find.dist2_comm] at h1
    exact sepOf _ _ h1
  · intro hash pos
    unfold relocOracle
    rw [List.pairwise_map]
    refine List.Pairwise.imp ?_ (Relocate.relocateWith_pairwise rc img _ pos hsep')
    intro x y h
    exact sepOf _ _ h

/-- **flAlgo_added_admissible_reloc.**  The composition: one `FindLinker.next_level` of the step
model with relocation by the model of `get_relocate_candidates` on ANY image emits the detected
level followed by features that keep the margin, are at least `separation` away from every
detected feature and from each other, and weigh at least `minmass` — no hypothesis about the
oracle left. -/
theorem flAlgo_added_admissible_reloc (cfg : Cfg) (f : FCfg) (rc : Relocate.Cfg) (img : Find.Image)
    (hw : Relocate.wellFormed rc img = true) (hp : 0 ≤ rc.pct) (hg : GeomAgree cfg f rc img)
    (st : State) (t : Int) (dsts : List Pos) :
    ∃ extra, (flAlgoStep cfg st t (relocOracle rc img) dsts).dsts = dsts ++ extra ∧
      (∀ x ∈ extra, insideMargin f.shape f.margin x = true) ∧
      (∀ x ∈ extra, ∀ b ∈ dsts, f.sepB ≤ dist2 f.sepW x b ∧ f.sepB ≤ dist2 f.sepW b x) ∧
      extra.Pairwise (fun x y => f.sepB ≤ dist2 f.sepW x y ∧ f.sepB ≤ dist2 f.sepW y x) ∧
      ∀ m ∈ (flAlgoStep cfg st t (relocOracle rc img) dsts).masses, f.minmass ≤ m :=
  flAlgo_added_admissible cfg f st t _ (relocOracle_ok cfg f rc img hw hp hg) dsts

/-! ## non-vacuity (tests, labelled as such) -/

/-- search_range 3 (B = 9), memory 0, validity mode — the configuration of `Props/C14.exL` -/
def exL : Cfg := { w := [1, 1], B := 9, memory := 0, maxNeighbors := 10, maxSize := 30,
                   vel := none, drop := false, noOpt := true }
/-- separation 4 (sepB = 16), 20×20 image, margin 1, minmass 10 -/
def exF : FCfg := { sepW := [1, 1], sepB := 16, shape := [20, 20], margin := [1, 1], minmass := 10 }

/-- an oracle that knows one bright spot at (11,1) of mass 30 and keeps the contract: it returns
the spot iff it is within range of a source handed in and clear of the hash -/
def exOrc : Oracle := fun hash pos =>
  ([([11, 1], 30)] : List RFeat).filter (fun x =>
    inReach exL pos x.1 && hash.all (fun b => decide (exF.sepB ≤ dist2 exF.sepW x.1 b)))

/-- the hypotheses of `flAlgo_added_admissible` are satisfiable -/
example : OracleOK exL exF exOrc := by
  refine ⟨?_, ?_, ?_, ?_, ?_⟩
  · intro hash pos x hx
    have := (List.mem_filter.mp hx).1
    simp only [List.mem_singleton] at this
    subst this
    decide
  · intro hash pos x hx
    have := (List.mem_filter.mp hx).1
    simp only [List.mem_singleton] at this
    subst this
    decide
  · intro hash pos x hx
    have := (List.mem_filter.mp hx).2
    simp only [Bool.and_eq_true] at this
    exact this.1
  · intro hash pos x hx b hb
    have := (List.mem_filter.mp hx).2
    simp only [Bool.and_eq_true, List.all_eq_true, decide_eq_true_eq] at this
    exact this.2 b hb
  · intro hash pos
    exact List.Pairwise.sublist List.filter_sublist (List.pairwise_singleton _ _)

/-- the state after a first frame with features at (0,0) and (10,0) -/
def exSt : State := firstState 0 [[0, 0], [10, 0]]

example : Good exSt := ⟨by decide, by decide⟩

/-- frame 1: (1,0) is detected, the feature near (10,0) was withheld.  Two sub-nets: source 0 with
its destination, and the lost source 1 alone (shortage 1) -/
example : flGroups exL exSt 1 [[1, 0]] = [([0], [0]), ([1], [])] := by decide +kernel

/-- … the model re-finds (11,1) for the lost source, appends it and continues trajectory 1 -/
theorem exStep : flAlgoStep exL exSt 1 exOrc [[1, 0]] =
    { dsts := [[1, 0], [11, 1]], added := [1], masses := [30], labels := [0, 1] } := by
  have hg : flGroups exL exSt 1 [[1, 0]] = [([0], [0]), ([1], [])] := by decide +kernel
  unfold flAlgoStep flAcc
  rw [hg]
  simp [processGroup, short, viewOf, view, exSt, firstState, nextState,
    fcands, candsOf, candsOfRow, distRow, dist2, sqI, insCand, keepCand_none, keepCand_some, solveOrdered, go, exceeds,
    taken, better, exOrc, inReach, exL, exF, labelOf, trackOf, initCfg, List.range,
    List.range.loop, List.zipIdx, List.filter_cons]

/-- … and the monitor accepts this output (the instance of `flAlgo_accepted`, evaluated) -/
example : flStep exL exSt 1 [[1, 0], [11, 1]] [0, 1] [1] =
    some (nextState exL exSt 1 [[1, 0], [11, 1]] [0, 1]) := by
  have h := flAlgo_accepted exL rfl exSt ⟨by decide, by decide⟩ 1 exOrc [[1, 0]]
    (by rw [exStep]; decide +kernel)
  rw [exStep] at h
  exact h

/-- a candidate out of reach of the sub-net's sources is not admitted (`add_dest_points`): the
lost trajectory ends, nothing is added -/
example : flAlgoStep exL exSt 1 (fun _ _ => [([15, 15], 30)]) [[1, 0]] =
    { dsts := [[1, 0]], added := [], masses := [], labels := [0] } := by
  have hg : flGroups exL exSt 1 [[1, 0]] = [([0], [0]), ([1], [])] := by decide +kernel
  unfold flAlgoStep flAcc
  rw [hg]
  simp [processGroup, short, viewOf, view, exSt, firstState, nextState,
    fcands, candsOf, candsOfRow, distRow, dist2, sqI, insCand, keepCand_none, keepCand_some, solveOrdered, go, exceeds,
    taken, better, inReach, exL, labelOf, trackOf, initCfg, List.range,
    List.range.loop, List.zipIdx, List.filter_cons]

/-- both features withheld, search_range 3: the two lost sources are 10 > 2·3 apart, two sub-nets;
with search_range 5 (B = 25) they are merged into one sub-net with shortage 2 -/
example : flGroups exL exSt 1 [] = [([0], []), ([1], [])] := by decide +kernel
example : flGroups { exL with B := 25 } exSt 1 [] = [([0, 1], [])] := by decide +kernel

/-- the whole movie labelled by the model is the example movie of `Props/C14.lean`, and `flRun`
accepts it (the instance of `flAlgo_run_accepted`) -/
example : (flAlgoRun exL [(0, [[0, 0], [10, 0]], exOrc), (1, [[1, 0]], exOrc)]).map
      (fun l => (l.t, l.dsts, l.labels, l.added)) =
    Relocate.exMovie.map (fun l => (l.t, l.dsts, l.labels, l.added)) := by
  have h := exStep
  unfold exSt at h
  simp only [flAlgoRun, flAlgoRunFrom, h]
  rfl

example : flRun exL (flAlgoRun exL [(0, [[0, 0], [10, 0]], exOrc), (1, [[1, 0]], exOrc)]) = none :=
  flAlgo_run_accepted exL rfl 0 _ exOrc [(1, [[1, 0]], exOrc)]
    ⟨by have h := exStep; unfold exSt at h; rw [h]; decide +kernel, trivial⟩

/-- the shortcuts of the sub-net linker on concrete numbers -/
example : solveOrdered [[(some 3, 2), (none, 9)]] = some (2, [(some 3, 2)]) :=
  shortcut_one_one 9 2 3 (by decide)

/-! ### … with the relocation model as oracle (image `Relocate.exImg`, 9×9, a peak at (4,5)) -/

/-- search_range 2 (B = 4·1), separation 3 (sepB = 9·1), the image and margin of `Relocate.exCfg` -/
def exL2 : Cfg := { exL with B := 4 }
def exF2 : FCfg := { sepW := [1, 1], sepB := 9, shape := [9, 9], margin := [1, 1], minmass := 5 }

/-- the hypotheses of `relocOracle_ok` are satisfiable -/
example : GeomAgree exL2 exF2 Relocate.exCfg Relocate.exImg := by
  refine ⟨?_, ?_, rfl, rfl, ?_⟩
  · simp [Relocate.WeightsAgree, exL2, exL, Relocate.exCfg]; norm_num
  · simp [Relocate.WeightsAgree, exF2, Relocate.exCfg]; norm_num
  · simp [exF2, Relocate.exCfg]

theorem exOrc2 : relocOracle Relocate.exCfg Relocate.exImg [] [[4, 4]] = [([4, 5], 21)] := by
  decide +kernel

/-- a trajectory last seen at (4,4); in the next frame nothing is detected: the model asks the
relocation model, which finds the peak at (4,5) (mass 21) in the image, and continues trajectory 0 -/
example : flAlgoStep exL2 (firstState 0 [[4, 4]]) 1 (relocOracle Relocate.exCfg Relocate.exImg) [] =
    { dsts := [[4, 5]], added := [0], masses := [21], labels := [0] } := by
  have hg : flGroups exL2 (firstState 0 [[4, 4]]) 1 [] = [([0], [])] := by decide +kernel
  unfold flAlgoStep flAcc
  rw [hg]
  simp [processGroup, short, viewOf, view, firstState, nextState,
    fcands, candsOf, candsOfRow, distRow, dist2, sqI, insCand, keepCand_none, keepCand_some,
    solveOrdered, go, exceeds, taken, better, inReach, exL2, exL, labelOf, trackOf, initCfg,
    List.range, List.range.loop, List.zipIdx, List.filter_cons, exOrc2]

end TrackpyV.FindLink
