import TrackpyV.Props.C14
import TrackpyV.Proofs.BgRadius
/-!
# C14 — the gap `bg_radius_covers` closed

`Props/C14.lean` proves `reloc_clear_of_hash` (a relocated feature is at least `separation` away
from EVERY feature of the current frame) only under the run-time-checked side condition
`uncovered = []`.  Here that side condition is proved to hold for every well-formed input: the
radius `bg_radius` of the hash query (find_link.py:321-337, 392) is large enough.  Pure geometry
about the model's own distance functions (`Find.dist2`, `hashDist2`); helper lemmas in
`Proofs/BgRadius.lean`.

Scope: all distances are the model's EXACT RATIONAL ones.  The code compares floats inside
`cKDTree.query_ball_point(pos, bg_radius)`; a feature exactly on the rim of the query ball may be
lost or gained by rounding — that stays a harness borderline item.  (Remark, not a theorem here:
the rim is at `slice_radius + max(radius + 1, separation)` with `slice_radius > search_range +
radius`, whereas the features that matter lie within `search_range + separation`, so in the
isotropic case they are more than a feature radius inside the rim.)
-/
namespace TrackpyV.Relocate
open TrackpyV.Find

/-- **bg_radius_covers.**  The background query `hash.query_points(pos, bg_radius)` of
`get_relocate_candidates` returns every feature `b` of the current frame that is closer than
`separation` (`Σ((cᵢ−bᵢ)/separationᵢ)² < 1`) to any point `c` lying within `search_range`
(`Σ((cᵢ−pᵢ)/search_rangeᵢ)² ≤ 1`, edge included) of one of the lost source positions `p` — hence
to every possible candidate.  Triangle inequality between the two ellipsoids, with
`bg_radius = max_i (slice_radiusᵢ + max(radiusᵢ+1, separationᵢ))` and
`slice_radiusᵢ = int(search_rangeᵢ + radiusᵢ + 1) ≥ search_rangeᵢ`.

The distance of the query is the model's exact rational `hashDist2` (float rounding of the query
radius is a harness borderline item): for isotropic `search_range` the hash holds PIXEL coordinates
and `bg_radius` is in pixels; for anisotropic `search_range` the hash holds coordinates in UNITS OF
`search_range` and `bg_radius = max_i (bg_radiusᵢ / search_rangeᵢ)` — both cases are covered.
`c` must have a coordinate on every axis (`dist2` truncates to the shortest list); `p`, `b` are
arbitrary integer positions. -/
theorem bg_radius_covers (cfg : Cfg) (hr : cfg.radius.length = cfg.sr.length)
    (hs : cfg.sep.length = cfg.sr.length)
    (hsr : ∀ s ∈ cfg.sr, 0 < s) (hsep : ∀ s ∈ cfg.sep, 0 < s)
    (hash pos : List IPos) (c p b : IPos) (hc : cfg.sr.length ≤ c.length)
    (hp : p ∈ pos) (hb : b ∈ hash)
    (hin : dist2 cfg.sr c p ≤ 1)          -- c within search_range of the lost source p
    (hclose : dist2 cfg.sep c b < 1) :     -- b closer than separation to c
    b ∈ queryPoints cfg hash pos := by
  unfold queryPoints
  rw [List.mem_filter]
  refine ⟨hb, ?_⟩
  rw [List.any_eq_true]
  exact ⟨p, hp, decide_eq_true
    (hashDist2_le_bgRadius cfg hr hs hsr hsep c p b hc hin (le_of_lt hclose))⟩

/-- **uncovered_eq_nil.**  The run-time side condition of `reloc_clear_of_hash` (driver field
`uncovered`) always holds on well-formed input: no feature of the current frame that is closer
than `separation` to a returned candidate is missed by the background query.  (Exact rational
distances of the model, as in `bg_radius_covers`.) -/
theorem uncovered_eq_nil (cfg : Cfg) (img : Image) (hash pos : List IPos)
    (hw : wellFormed cfg img = true) :
    uncovered cfg hash (queryPoints cfg hash pos) (relocateCandidates cfg img hash pos) = [] := by
  simp only [wellFormed, Bool.and_eq_true, decide_eq_true_eq, List.all_eq_true] at hw
  obtain ⟨⟨⟨⟨⟨⟨⟨_, hr⟩, hs⟩, hsrl⟩, _⟩, hsep⟩, hsr⟩, _⟩ := hw
  unfold uncovered
  rw [List.filter_eq_nil_iff]
  intro b hb
  simp only [Bool.and_eq_true, Bool.not_eq_true', List.contains_eq_mem, decide_eq_false_iff_not,
    List.any_eq_true, decide_eq_true_eq, not_and, not_exists]
  intro hbg x hmem hclose
  obtain ⟨c, v⟩ := x
  apply hbg
  obtain ⟨p, hp, hin⟩ := reloc_within_search_range cfg img _ pos c v hmem
  exact bg_radius_covers cfg (by rw [hr, hsrl]) (by rw [hs, hsrl]) hsr (fun s h => (hsep s h).1)
    hash pos (toI c) p b (by rw [relocateWith_length hmem, hsrl]) hp hb hin hclose

/-- **reloc_clear_of_hash_all** (`reloc_clear_of_hash` without side condition).  Every feature
returned by `get_relocate_candidates` is at least `separation` away from EVERY feature of the
current frame: `Σ ((cᵢ − bᵢ)/separationᵢ)² ≥ 1` for all `b` in the hash — whether the background
query returned `b` (then `b` was masked out, `reloc_clear_of_background`) or not (then `b` is too
far away, `bg_radius_covers`).  Exact rational distances of the model. -/
theorem reloc_clear_of_hash_all (cfg : Cfg) (img : Image) (hash pos : List IPos)
    (hw : wellFormed cfg img = true) (hp : 0 ≤ cfg.pct) (c : Pos) (v : Nat)
    (h : (c, v) ∈ relocateCandidates cfg img hash pos) (b : IPos) (hb : b ∈ hash) :
    1 ≤ dist2 cfg.sep (toI c) b :=
  reloc_clear_of_hash cfg img hash pos hp (uncovered_eq_nil cfg img hash pos hw) c v h b hb

/-! ## non-vacuity (tests, labelled as such) -/

/-- anisotropic parameters: slice radius (4, 6), per-axis bg radius (7, 10), hash radius
`max(7/2, 10/3) = 7/2` in units of the search range -/
def exCfgA : Cfg := { radius := [1, 2], sep := [3, 4], sr := [2, 3], pct := 64, minmass := 5 }

example : isIso exCfg.sr = true ∧ bgRadiusAx exCfg = [7, 7] ∧ bgRadius exCfg = 7 := by
  decide +kernel
example : isIso exCfgA.sr = false ∧ sliceRadius exCfgA = [4, 6] ∧ bgRadiusAx exCfgA = [7, 10] ∧
    bgRadius exCfgA = 7 / 2 := by decide +kernel

/-- the hypotheses of `bg_radius_covers` are satisfiable (isotropic): source (4,4), candidate (4,6)
on the rim of the search range, current feature (4,8) at 2 < 3 = separation from the candidate -/
example : dist2 exCfg.sr [4, 6] [4, 4] ≤ 1 ∧ dist2 exCfg.sep [4, 6] [4, 8] < 1 := by decide +kernel
example : [4, 8] ∈ queryPoints exCfg [[0, 0], [4, 8]] [[4, 4]] :=
  bg_radius_covers exCfg rfl rfl (by decide +kernel) (by decide +kernel) _ _ [4, 6] [4, 4] [4, 8]
    (by decide +kernel) (by simp) (by simp) (by decide +kernel) (by decide +kernel)
/-- … and anisotropic: candidate (6,4) on the rim along axis 0, (4,7) on the rim along axis 1 -/
example : [8, 4] ∈ queryPoints exCfgA [[8, 4]] [[4, 4]] :=
  bg_radius_covers exCfgA rfl rfl (by decide +kernel) (by decide +kernel) _ _ [6, 4] [4, 4] [8, 4]
    (by decide +kernel) (by simp) (by simp) (by decide +kernel) (by decide +kernel)
example : [4, 10] ∈ queryPoints exCfgA [[4, 10]] [[4, 4]] :=
  bg_radius_covers exCfgA rfl rfl (by decide +kernel) (by decide +kernel) _ _ [4, 7] [4, 4] [4, 10]
    (by decide +kernel) (by simp) (by simp) (by decide +kernel) (by decide +kernel)

/-- boundary (isotropic): a feature exactly `search_range + separation = 5` from the source along
an axis is returned, so is one exactly at `bg_radius = 7`; one pixel further is not -/
example : queryPoints exCfg [[4, 9]] [[4, 4]] = [[4, 9]] := by decide +kernel
example : queryPoints exCfg [[4, 11], [11, 4]] [[4, 4]] = [[4, 11], [11, 4]] := by decide +kernel
example : queryPoints exCfg [[4, 12], [12, 4]] [[4, 4]] = [] := by decide +kernel
/-- boundary (anisotropic, hash in units of search_range (2,3), radius 7/2): along axis 0
`search_range + separation = 5` and the rim 7 are returned, 8 is not; along axis 1
`search_range + separation = 7` and 10 (= 10/3 ≤ 7/2) are returned, 11 is not -/
example : queryPoints exCfgA [[9, 4], [11, 4], [12, 4]] [[4, 4]] = [[9, 4], [11, 4]] := by
  decide +kernel
example : queryPoints exCfgA [[4, 11], [4, 14], [4, 15]] [[4, 4]] = [[4, 11], [4, 14]] := by
  decide +kernel

/-- `uncovered_eq_nil` applies to the example of `Props/C14.lean` (a candidate IS returned there,
and the current frame has a feature exactly `separation` away from it) … -/
example : relocateCandidates exCfg exImg [[4, 8], [0, 0]] [[4, 4]] = [([4, 5], 18)] := by
  decide +kernel
example : uncovered exCfg [[4, 8], [0, 0]] (queryPoints exCfg [[4, 8], [0, 0]] [[4, 4]])
    (relocateCandidates exCfg exImg [[4, 8], [0, 0]] [[4, 4]]) = [] :=
  uncovered_eq_nil exCfg exImg _ _ (by decide +kernel)
/-- … and `uncovered` is not trivially empty: a background query that misses the feature (4,6)
next to the returned candidate (4,5) is reported -/
example : uncovered exCfg [[4, 6]] [] (relocateWith exCfg exImg [] [[4, 4]]) = [[4, 6]] := by
  decide +kernel
/-- `reloc_clear_of_hash_all` on the example: the returned (4,5) is ≥ separation from both
features of the current frame -/
example : 1 ≤ dist2 exCfg.sep (toI [4, 5]) [4, 8] :=
  reloc_clear_of_hash_all exCfg exImg [[4, 8], [0, 0]] [[4, 4]] (by decide +kernel)
    (by decide +kernel) [4, 5] 18 (by decide +kernel) [4, 8] (by simp)

end TrackpyV.Relocate
