import TrackpyV.Props.C12
import TrackpyV.Proofs.GroupFold
/-!
# C12 (continued) — the sub-groups of a split partition their parent

`split_subnet` regroups an oversize sub-net under the reduced range.  Proved here, for every
well-formed sub-net (`NetWF`: distinct source numbers, distinct destinations, every candidate
destination belongs to the sub-net) and every reduction level:

* `split_dsts_perm`   : the destination sets of the sub-groups are pairwise disjoint and cover the
                        parent's destinations (their concatenation is a permutation of them);
* `split_srcs_perm`   : every source that still has a candidate within the reduced range lies in
                        exactly one sub-group; the others lie in none (they stay unlinked);
* `split_srcs_pruned` : a sub-group's sources carry exactly the parent's candidate lists pruned at
                        the reduced range;
* `split_wf`          : every sub-group is again well-formed (so the recursion is well-defined and
                        each sub-group can be solved on its own: no candidate leaves the group);
* `plan_partition`    : the groups finally handed to the solver by `adaptive_link_wrap` partition
                        the destinations of the sub-net they came from, and each is well-formed;
* `stepNets_wf`       : the sub-nets of a linking step are well-formed, so the above applies to
                        every sub-net the monitor ever sees.
-/
namespace TrackpyV.Adaptive
open TrackpyV.Assign TrackpyV.Linker

structure NetWF (n : Net) : Prop where
  ids_nodup : (n.srcs.map (·.1)).Nodup
  dsts_nodup : n.dsts.Nodup
  closed : ∀ s ∈ n.srcs, ∀ d ∈ realDests s.2, d ∈ n.dsts

/-- the sources with their pruned candidate lists -/
def prunedOf (a : ACfg) (B k : Nat) (n : Net) : List (Nat × List Cand) :=
  n.srcs.map (fun x => (x.1, prune a B k x.2))

def splitL (a : ACfg) (B k : Nat) (n : Net) : List (Nat × List Nat) :=
  (prunedOf a B k n).map (fun x => (x.1, realDests x.2))

def splitGroups (a : ACfg) (B k : Nat) (n : Net) : List Group :=
  foldGroups (splitL a B k n) (n.dsts.map (fun j => (([], [j]) : Group)))

def netOfGroup (a : ACfg) (B k : Nat) (n : Net) (g : Group) : Net :=
  { srcs := g.1.reverse.filterMap (fun i => (prunedOf a B k n).find? (fun x => x.1 == i)),
    dsts := g.2 }

theorem split_eq (a : ACfg) (B k : Nat) (n : Net) :
    split a B k n = (splitGroups a B k n).map (netOfGroup a B k n) := by
  unfold split splitGroups splitL foldGroups netOfGroup prunedOf
  simp only [List.foldl_map]

theorem prune_sub (a : ACfg) (B k : Nat) (cs : List Cand) : ∀ c ∈ prune a B k cs, c ∈ cs := by
  induction cs with
  | nil => intro c h; simp [prune] at h
  | cons x xs ih =>
    intro c h
    obtain ⟨d, w⟩ := x
    simp only [prune] at h
    split at h
    · rcases List.mem_cons.mp h with rfl | h
      · exact List.mem_cons_self ..
      · exact List.mem_cons_of_mem _ (ih c h)
    · cases h

theorem realDests_prune_sub (a : ACfg) (B k : Nat) (cs : List Cand) :
    ∀ d ∈ realDests (prune a B k cs), d ∈ realDests cs := by
  intro d hd
  simp only [realDests, List.mem_filterMap] at hd ⊢
  obtain ⟨c, hc, hcd⟩ := hd
  exact ⟨c, prune_sub a B k cs c hc, hcd⟩

theorem splitL_ids (a : ACfg) (B k : Nat) (n : Net) :
    (splitL a B k n).map (·.1) = n.srcs.map (·.1) := by
  simp [splitL, prunedOf, List.map_map, Function.comp_def]

theorem split_finv (a : ACfg) (B k : Nat) (n : Net) (h : NetWF n) :
    FInv n.dsts (splitL a B k n) (splitGroups a B k n) := by
  apply foldGroups_finv
  · rw [splitL_ids]; exact h.ids_nodup
  · intro x hx d hd
    simp only [splitL, prunedOf, List.map_map, List.mem_map, Function.comp_def] at hx
    obtain ⟨s, hs, rfl⟩ := hx
    exact h.closed s hs d (realDests_prune_sub a B k s.2 d hd)

/-- **The sub-groups' destinations are disjoint and cover the parent's destinations.** -/
theorem split_dsts_perm (a : ACfg) (B k : Nat) (n : Net) (h : NetWF n) :
    ((split a B k n).flatMap (·.dsts)).Perm n.dsts := by
  rw [split_eq, List.flatMap_map]
  exact (split_finv a B k n h).dests_perm

theorem nodup_of_mem_flatMap {α β} (f : α → List β) (l : List α) (h : (l.flatMap f).Nodup)
    (x : α) (hx : x ∈ l) : (f x).Nodup := by
  induction l with
  | nil => cases hx
  | cons y ys ih =>
    simp only [List.flatMap_cons, List.nodup_append] at h
    rcases List.mem_cons.mp hx with rfl | hx
    · exact h.1
    · exact ih h.2.1 hx

theorem liveIds_nodup (L : List (Nat × List Nat)) (h : (L.map (·.1)).Nodup) :
    (liveIds L).Nodup := by
  unfold liveIds
  exact List.Nodup.sublist (List.Sublist.map _ (List.filter_sublist)) h

/-- looking the group's ids up in the pruned table keeps their order and distinctness -/
theorem find_ids_sublist (P : List (Nat × List Cand)) (is : List Nat) :
    ((is.filterMap (fun i => P.find? (fun x => x.1 == i))).map (·.1)).Sublist is := by
  induction is with
  | nil => simp
  | cons i is ih =>
    simp only [List.filterMap_cons]
    cases hf : P.find? (fun x => x.1 == i) with
    | none => simp only; exact List.Sublist.cons _ ih
    | some x =>
      simp only [List.map_cons]
      have : x.1 = i := by simpa using List.find?_some hf
      rw [this]
      exact List.Sublist.cons₂ _ ih

theorem mem_netOfGroup_srcs (a : ACfg) (B k : Nat) (n : Net) (g : Group) (s : Nat × List Cand)
    (hs : s ∈ (netOfGroup a B k n g).srcs) : s.1 ∈ g.1 ∧ s ∈ prunedOf a B k n := by
  simp only [netOfGroup, List.mem_filterMap, List.mem_reverse] at hs
  obtain ⟨i, hi, hf⟩ := hs
  have h1 : s.1 = i := by simpa using List.find?_some hf
  exact ⟨h1 ▸ hi, List.mem_of_find?_eq_some hf⟩

/-- **Every sub-group is well-formed again.** -/
theorem split_wf (a : ACfg) (B k : Nat) (n : Net) (h : NetWF n) :
    ∀ m ∈ split a B k n, NetWF m := by
  intro m hm
  rw [split_eq, List.mem_map] at hm
  obtain ⟨g, hg, rfl⟩ := hm
  have inv := split_finv a B k n h
  have hidL : ((splitL a B k n).map (·.1)).Nodup := by rw [splitL_ids]; exact h.ids_nodup
  refine ⟨?_, ?_, ?_⟩
  · have hg1 : g.1.Nodup := by
      have : ((splitGroups a B k n).flatMap (·.1)).Nodup :=
        (inv.srcs_perm.nodup_iff).mpr (liveIds_nodup _ hidL)
      exact nodup_of_mem_flatMap (·.1) _ this g hg
    exact List.Nodup.sublist (find_ids_sublist _ _) (((List.reverse_perm g.1).nodup_iff).mpr hg1)
  · have : ((splitGroups a B k n).flatMap (·.2)).Nodup :=
      (inv.dests_perm.nodup_iff).mpr h.dsts_nodup
    exact nodup_of_mem_flatMap (·.2) _ this g hg
  · intro s hs d hd
    obtain ⟨hi, hp⟩ := mem_netOfGroup_srcs a B k n g s hs
    exact inv.closed g hg s.1 hi (s.1, realDests s.2)
      (by simp only [splitL, List.mem_map]; exact ⟨s, hp, rfl⟩) rfl d hd

/-- **A sub-group's sources carry the parent's candidate lists pruned at the reduced range.** -/
theorem split_srcs_pruned (a : ACfg) (B k : Nat) (n : Net) :
    ∀ m ∈ split a B k n, ∀ s ∈ m.srcs, ∃ cs, (s.1, cs) ∈ n.srcs ∧ s.2 = prune a B k cs := by
  intro m hm s hs
  rw [split_eq, List.mem_map] at hm
  obtain ⟨g, _, rfl⟩ := hm
  obtain ⟨_, hp⟩ := mem_netOfGroup_srcs a B k n g s hs
  simp only [prunedOf, List.mem_map] at hp
  obtain ⟨x, hx, rfl⟩ := hp
  exact ⟨x.2, hx, rfl⟩


theorem find_ids_all (P : List (Nat × List Cand)) (is : List Nat)
    (h : ∀ i ∈ is, ∃ x ∈ P, x.1 = i) :
    (is.filterMap (fun i => P.find? (fun x => x.1 == i))).map (·.1) = is := by
  induction is with
  | nil => simp
  | cons i is ih =>
    simp only [List.filterMap_cons]
    cases hf : P.find? (fun x => x.1 == i) with
    | none =>
      obtain ⟨x, hx, hxi⟩ := h i (List.mem_cons_self ..)
      have := List.find?_eq_none.mp hf x hx
      simp [hxi] at this
    | some x =>
      simp only [List.map_cons]
      have hx : x.1 = i := by simpa using List.find?_some hf
      rw [hx, ih (fun j hj => h j (List.mem_cons_of_mem _ hj))]

theorem flatMap_congr_mem {α β} (l : List α) (f g : α → List β) (h : ∀ x ∈ l, f x = g x) :
    l.flatMap f = l.flatMap g := by
  induction l with
  | nil => rfl
  | cons x xs ih =>
    simp only [List.flatMap_cons]
    rw [h x (List.mem_cons_self ..), ih (fun y hy => h y (List.mem_cons_of_mem _ hy))]

theorem flatMap_reverse_perm (gs : List Group) :
    (gs.flatMap (fun g => g.1.reverse)).Perm (gs.flatMap (·.1)) := by
  induction gs with
  | nil => simp
  | cons g gs ih =>
    simp only [List.flatMap_cons]
    exact List.Perm.append (List.reverse_perm _) ih

/-- **Each source that keeps a candidate within the reduced range lies in exactly one sub-group;
a source without one lies in none.** -/
theorem split_srcs_perm (a : ACfg) (B k : Nat) (n : Net) (h : NetWF n) :
    ((split a B k n).flatMap (fun m => m.srcs.map (·.1))).Perm (liveIds (splitL a B k n)) := by
  have inv := split_finv a B k n h
  rw [split_eq, List.flatMap_map]
  have hcongr : (splitGroups a B k n).flatMap (fun g => (netOfGroup a B k n g).srcs.map (·.1)) =
      (splitGroups a B k n).flatMap (fun g => g.1.reverse) := by
    apply flatMap_congr_mem
    intro g hg
    simp only [netOfGroup]
    apply find_ids_all
    intro i hi
    have hi' : i ∈ (splitGroups a B k n).flatMap (·.1) :=
      List.mem_flatMap.mpr ⟨g, hg, List.mem_reverse.mp hi⟩
    have := liveIds_sub _ i ((inv.srcs_perm.mem_iff).mp hi')
    simp only [splitL, List.map_map, List.mem_map, Function.comp_def] at this
    obtain ⟨x, hx, hxi⟩ := this
    exact ⟨x, hx, hxi⟩
  rw [hcongr]
  exact (flatMap_reverse_perm _).trans inv.srcs_perm

/-! ### the whole recursion -/

theorem flatten_dsts_perm (P : Net → Option (List Final)) (subs : List Net)
    (rs : List (List Final)) (h : subs.map P = rs.map some)
    (ih : ∀ sub ∈ subs, ∀ fs, P sub = some fs → (fs.flatMap (·.net.dsts)).Perm sub.dsts) :
    (rs.flatten.flatMap (·.net.dsts)).Perm (subs.flatMap (·.dsts)) := by
  induction subs generalizing rs with
  | nil =>
    cases rs with
    | nil => simp
    | cons r rs => simp at h
  | cons sub subs ihs =>
    cases rs with
    | nil => simp at h
    | cons r rs =>
      simp only [List.map_cons, List.cons.injEq] at h
      simp only [List.flatten_cons, List.flatMap_append, List.flatMap_cons]
      exact List.Perm.append (ih sub (List.mem_cons_self ..) r h.1)
        (ihs rs h.2 (fun s hs => ih s (List.mem_cons_of_mem _ hs)))

/-- **The groups finally handed to the solver partition the destinations of the sub-net they came
from, and each of them is well-formed** (no candidate of one of its sources lies outside it). -/
theorem plan_partition (a : ACfg) (B : Nat) (fuel k : Nat) (n : Net) (fs : List Final)
    (hwf : NetWF n) (h : plan a B fuel k n = some fs) :
    (fs.flatMap (·.net.dsts)).Perm n.dsts ∧ ∀ f ∈ fs, NetWF f.net := by
  induction fuel generalizing k n fs with
  | zero => simp [plan] at h
  | succ fuel ih =>
    simp only [plan] at h
    split at h
    · cases h
      refine ⟨by simp, ?_⟩
      intro f hf
      simp only [List.mem_singleton] at hf
      subst hf; exact hwf
    · split at h
      · cases h
      · simp only [Option.map_eq_some_iff] at h
        obtain ⟨rs, hrs, rfl⟩ := h
        have hmap := allSome_eq_some _ _ hrs
        have hsubwf := split_wf a B (k + 1) n hwf
        refine ⟨?_, ?_⟩
        · refine List.Perm.trans ?_ (split_dsts_perm a B (k + 1) n hwf)
          apply flatten_dsts_perm (plan a B fuel (k + 1)) _ _ hmap
          intro sub hsub fs' hfs'
          exact (ih (k + 1) sub fs' (hsubwf sub hsub) hfs').1
        · intro f hf
          simp only [List.mem_flatten] at hf
          obtain ⟨gs, hgs, hfg⟩ := hf
          have : some gs ∈ (split a B (k + 1) n).map (plan a B fuel (k + 1)) := by
            rw [hmap]; exact List.mem_map.mpr ⟨gs, hgs, rfl⟩
          simp only [List.mem_map] at this
          obtain ⟨sub, hsub, hplan⟩ := this
          exact (ih (k + 1) sub gs (hsubwf sub hsub) hplan).2 f hfg


/-! ### the sub-nets of a linking step are well-formed -/

def subnetsL (cands : List (List Cand)) : List (Nat × List Nat) :=
  (cands.zipIdx).map (fun x => (x.2, realDests x.1))

theorem subnets_eq_fold (n : Nat) (cands : List (List Cand)) :
    subnets n cands = foldGroups (subnetsL cands) ((List.range n).map (fun j => (([], [j]) : Group))) := by
  unfold subnets subnetsL foldGroups
  simp only [List.foldl_map]

theorem subnets_finv (n : Nat) (cands : List (List Cand))
    (hlt : ∀ cs ∈ cands, ∀ d ∈ realDests cs, d < n) :
    FInv (List.range n) (subnetsL cands) (subnets n cands) := by
  rw [subnets_eq_fold]
  apply foldGroups_finv
  · have : (subnetsL cands).map (·.1) = (cands.zipIdx).map Prod.snd := by
      simp [subnetsL, List.map_map, Function.comp_def]
    rw [this, List.zipIdx_map_snd]
    exact List.nodup_range'
  · intro x hx d hd
    simp only [subnetsL, List.mem_map] at hx
    obtain ⟨⟨cs, i⟩, hm, rfl⟩ := hx
    have := List.mem_zipIdx hm
    simp only [Nat.zero_add, Nat.sub_zero] at this
    obtain ⟨_, hi, hcs⟩ := this
    have hmem : cs ∈ cands := by rw [hcs]; exact List.getElem_mem _
    exact List.mem_range.mpr (hlt cs hmem d hd)

theorem realDests_candsOfRow (B : Nat) (row : List Nat) :
    realDests (candsOfRow B row) = realDests (realOfRow B row) := by
  simp [candsOfRow, realOfRow, realDests, List.filterMap_append]

/-- **Every sub-net of a linking step is well-formed**: distinct sources, distinct destinations,
and no candidate of one of its sources lies outside it. -/
theorem stepNets_wf (cfg : Cfg) (st : State) (t : Int) (dsts : List Pos) :
    ∀ n ∈ stepNets cfg st t dsts, NetWF n := by
  intro n hn
  simp only [stepNets, List.mem_map] at hn
  obtain ⟨g, hg, rfl⟩ := hn
  have hlt : ∀ cs ∈ stepCands cfg st t dsts, ∀ d ∈ realDests cs, d < dsts.length := by
    intro cs hcs
    simp only [stepCands, List.mem_map] at hcs
    obtain ⟨s, _, rfl⟩ := hcs
    exact realDests_candsOf_lt cfg t dsts s
  have inv := subnets_finv dsts.length (stepCands cfg st t dsts) hlt
  have hg' : g ∈ subnets dsts.length (stepCands cfg st t dsts) := hg
  have hidL : ((subnetsL (stepCands cfg st t dsts)).map (·.1)).Nodup := by
    have : (subnetsL (stepCands cfg st t dsts)).map (·.1) =
        ((stepCands cfg st t dsts).zipIdx).map Prod.snd := by
      simp [subnetsL, List.map_map, Function.comp_def]
    rw [this, List.zipIdx_map_snd]
    exact List.nodup_range'
  refine ⟨?_, ?_, ?_⟩
  · have hg1 : g.1.Nodup := by
      have : ((subnets dsts.length (stepCands cfg st t dsts)).flatMap (·.1)).Nodup :=
        (inv.srcs_perm.nodup_iff).mpr (liveIds_nodup _ hidL)
      exact nodup_of_mem_flatMap (·.1) _ this g hg'
    simp only [List.map_map, Function.comp_def, List.map_id']
    exact ((List.reverse_perm g.1).nodup_iff).mpr hg1
  · have : ((subnets dsts.length (stepCands cfg st t dsts)).flatMap (·.2)).Nodup :=
      (inv.dests_perm.nodup_iff).mpr List.nodup_range
    exact nodup_of_mem_flatMap (·.2) _ this g hg'
  · intro s hs d hd
    simp only [List.mem_map, List.mem_reverse] at hs
    obtain ⟨i, hi, rfl⟩ := hs
    simp only at hd ⊢
    have hinv := stepGroups_inv cfg st t dsts
    apply hinv.closed g hg i hi d
    -- the candidates of source `i` in the monitor's table are those of its row of distances
    simp only [dsOfCands, stepCands, getD', List.getElem?_map] at hd ⊢
    cases hsi : st.srcs[i]? with
    | none => simp [hsi, realOfRow, realDests] at hd
    | some src =>
      simp only [hsi, Option.map_some, Option.getD_some] at hd ⊢
      rw [candsOf, realDests_candsOfRow]
      exact hd


/-- **Every sub-net of a linking step is cut by adaptive search into groups that partition its
destinations, each closed under the candidate relation in force** (the combination of
`stepNets_wf` and `plan_partition`; with `stepCheckA_ok` it applies to every accepted step). -/
theorem step_finals_partition (a : ACfg) (cfg : Cfg) (st : State) (t : Int) (dsts : List Pos)
    (fuel : Nat) (n : Net) (hn : n ∈ stepNets cfg st t dsts) (fs : List Final)
    (h : plan a cfg.B fuel 0 n = some fs) :
    (fs.flatMap (·.net.dsts)).Perm n.dsts ∧ ∀ f ∈ fs, NetWF f.net :=
  plan_partition a cfg.B fuel 0 n fs (stepNets_wf cfg st t dsts n hn) h

/-! ### non-vacuity (tests, labelled as such) -/

example : NetWF exNet := by
  refine ⟨by decide, by decide, ?_⟩
  intro s hs d hd
  simp only [exNet, List.mem_cons, List.not_mem_nil, or_false] at hs
  rcases hs with rfl | rfl <;> simp [realDests] at hd <;> rcases hd with rfl | rfl <;> simp [exNet]

example : (split exA 16 1 exNet).map (fun m => (m.srcs.map (·.1), m.dsts)) = [([1], [1]), ([0], [0])] := by
  simp [split, exA, exNet, prune, inForce, addSource, hasDest, realDests, List.find?]

end TrackpyV.Adaptive
