/-
Model of the sub-net solver (`trackpy/linking/subnetlinker.py`).

* `go` / `solveOrdered`  mirror `SubnetLinker.do_recur` (subnetlinker.py:46-83): candidates are
  visited in list order, the whole remaining loop is abandoned when `cur + c > best` (strict),
  a destination already taken is skipped, the optimum is replaced only when strictly better.
* `sortByLen` mirrors `self.s_lst.sort(key=lambda x: len(x.forward_cands))` (stable).
* `completions` enumerates every admissible complete assignment: the specification.
* Costs are exact naturals (squared distances on a common integer scale).

No Mathlib imports: this file is compiled into the native driver.
-/
namespace TrackpyV.Assign

/-- A candidate: destination id (`none` = the null link) and its cost. -/
abbrev Cand := Option Nat × Nat

/-- One source = its candidate list (as `forward_cands`, null candidate appended last). -/
abbrev Src := List Cand

/-- best-so-far (`none` = `np.inf`): total cost and the chosen candidate per source. -/
abbrev Best := Option (Nat × List Cand)

/-- `tmp_sum > self.best_sum` -/
def exceeds (tmp : Nat) (b : Best) : Bool :=
  match b with
  | none => false
  | some (s, _) => decide (tmp > s)

/-- `self.cur_sum < self.best_sum` -/
def better (tmp : Nat) (b : Best) : Bool :=
  match b with
  | none => true
  | some (s, _) => decide (tmp < s)

/-- `cur_d is not None and cur_d in self.d_taken` -/
def taken (d : Option Nat) (tk : List Nat) : Bool :=
  match d with
  | none => false
  | some x => tk.contains x

def addTaken (d : Option Nat) (tk : List Nat) : List Nat :=
  match d with
  | none => tk
  | some x => x :: tk

/-- Mirror of `do_recur(j)`: `cands` is the not-yet-visited tail of the candidate list of source
`j`, `rest` the candidate lists of sources `j+1 …`.  `best` is threaded like the shared attribute
`best_sum/best_pairs`. -/
def go (rest : List Src) (cands : List Cand) (tk : List Nat) (cur : Nat)
    (acc : List Cand) (best : Best) : Best :=
  match cands with
  | [] => best
  | (d, c) :: cs =>
    if exceeds (cur + c) best then best                       -- `return`
    else if taken d tk then go rest cs tk cur acc best        -- `continue`
    else
      match rest with
      | [] =>
        go [] cs tk cur acc
          (if better (cur + c) best then some (cur + c, acc ++ [(d, c)]) else best)
      | s :: rest' =>
        go (s :: rest') cs tk cur acc
          (go rest' s (addTaken d tk) (cur + c) (acc ++ [(d, c)]) best)
termination_by (rest.length, cands.length)

/-- run the branch-and-bound on the sources in the given order -/
def solveOrdered (srcs : List Src) : Best :=
  match srcs with
  | [] => none
  | s :: rest => go rest s [] 0 [] none

/-- insert `s` before the first element whose key is ≥ its own -/
def insLen (s : Src) : List Src → List Src
  | [] => [s]
  | t :: ts => if s.length ≤ t.length then s :: t :: ts else t :: insLen s ts

/-- stable sort by number of candidates (`list.sort(key=len)`): right fold, so an element that
comes earlier in the input is placed before later elements with an equal key -/
def sortByLen (srcs : List Src) : List Src := srcs.foldr insLen []

/-- `SubnetLinker.__init__`: sort, then `do_recur(0)` -/
def solve (srcs : List Src) : Best := solveOrdered (sortByLen srcs)

/-- Specification: all admissible completions of the partial state (`cands` = remaining
candidates of the current source, `rest` = later sources, `tk` = destinations in use). -/
def completions (rest : List Src) (cands : List Cand) (tk : List Nat) :
    List (Nat × List Cand) :=
  match cands with
  | [] => []
  | (d, c) :: cs =>
    if taken d tk then completions rest cs tk
    else
      match rest with
      | [] => (c, [(d, c)]) :: completions [] cs tk
      | s :: rest' =>
        (completions rest' s (addTaken d tk)).map (fun p => (c + p.1, (d, c) :: p.2))
          ++ completions (s :: rest') cs tk
termination_by (rest.length, cands.length)

def allCompletions (srcs : List Src) : List (Nat × List Cand) :=
  match srcs with
  | [] => []
  | s :: rest => completions rest s []

/-- total cost of a list of chosen candidates -/
def cost (a : List Cand) : Nat := (a.map (·.2)).sum

/-- real destinations used by an assignment -/
def dests (a : List Cand) : List Nat := a.filterMap (·.1)

/-- all real destinations that occur among the candidates of a group of sources -/
def groupDests (g : List Src) : List Nat := g.flatMap dests

/-- decidable admissibility test used by the driver on the implementation's output:
one chosen candidate per source, taken from that source's list, real destinations distinct -/
def admissibleB : List Src → List Cand → List Nat → Bool
  | [], [], _ => true
  | s :: ss, c :: cs, tk =>
      s.contains c && !(taken c.1 tk) && admissibleB ss cs (addTaken c.1 tk)
  | _, _, _ => false

/-- candidate lists sorted ascending by cost (what `assign_links` establishes) -/
def sortedB : List Cand → Bool
  | [] => true
  | [_] => true
  | a :: b :: t => decide (a.2 ≤ b.2) && sortedB (b :: t)

/-- number of optimal completions (driver statistic: is the optimum unique?) -/
def countOptimal (srcs : List Src) : Nat :=
  match solveOrdered srcs with
  | none => 0
  | some (c, _) => ((allCompletions srcs).filter (fun p => p.1 == c)).length

end TrackpyV.Assign
