import TrackpyV.Model.Linker
/-!
A deterministic linking step — the faithful mirror of `Linker.next_level` once every
implementation freedom is fixed: sources in list order, sub-nets from `subnets`, each sub-net
solved by `solveOrdered` (mirror of `do_recur`) on its sources in group order, new trajectories
named `base + j` (`j` = position of the feature in the level, `base` beyond every label used so
far).  The real code differs from this only where the property leaves it free (iteration order of
Python sets, which of several optimal assignments, which integers name new trajectories); the
theorem `Props/C01Algo.algo_accepted` shows that the step relation `stepCheck` accepts this
algorithm's output for EVERY reachable state and level, so the relation is neither vacuous nor
stricter than the algorithm it was written to judge.
-/
namespace TrackpyV.Linker
open TrackpyV.Assign

/-- per group: the sources (by number) paired with the candidate the solver chose for them -/
def groupChoice (cands : List (List Cand)) (g : Group) : Option (List (Nat × Cand)) :=
  if g.1.isEmpty then some []
  else match solveOrdered (g.1.map (srcOf cands)) with
    | some (_, a) => some (g.1.zip a)
    | none => none

def allSomeL {α} : List (Option α) → Option (List α)
  | [] => some []
  | none :: _ => none
  | some x :: xs => (allSomeL xs).map (x :: ·)

/-- all (source number, chosen candidate) pairs of the step -/
def algoChoices (cfg : Cfg) (st : State) (t : Int) (dsts : List Pos) : Option (List (Nat × Cand)) :=
  (allSomeL ((stepGroups cfg st t dsts).map (groupChoice (stepCands cfg st t dsts)))).map List.flatten

/-- first label that is larger than every label used so far -/
def freshBase (st : State) : Nat := st.used.foldl max 0 + 1

def trackOf (st : State) (i : Nat) : Nat :=
  match st.srcs[i]? with
  | some s => s.track
  | none => 0

/-- label of destination `j`: the track of the source that chose it, else a new name -/
def labelOf (st : State) (choices : List (Nat × Cand)) (j : Nat) : Nat :=
  match choices.find? (fun x => x.2.1 == some j) with
  | some x => trackOf st x.1
  | none => freshBase st + j

def algoLabels (cfg : Cfg) (st : State) (t : Int) (dsts : List Pos) : Option (List Nat) :=
  (algoChoices cfg st t dsts).map (fun ch => (List.range dsts.length).map (labelOf st ch))

/-! ### whole movies -/

/-- the labels one `next_level` gives: `SubnetOversizeException` (`none`) when a sub-net exceeds
`MAX_SUB_NET_SIZE` (subnet.py `subnet_linker_*`), else the deterministic step.  (Same convention
as the driver op `LALGO`.) -/
-- mirrors trackpy/linking/linking.py:516-522, subnetlinker.py:24-45 (`max_size`: more sources than MAX_SUB_NET_SIZE raises)
def jobLabels (cfg : Cfg) (st : State) (t : Int) (dsts : List Pos) : Option (List Nat) :=
  if oversizeB cfg (stepGroups cfg st t dsts) then none else algoLabels cfg st t dsts

/-- state after the first level (`init_level`: every feature starts a trajectory, ids `0 … n-1`) -/
def firstState (t : Int) (dsts : List Pos) : State :=
  nextState initCfg { srcs := [], used := [] } t dsts (List.range dsts.length)

/-- the labels of the levels after the first, until the movie ends or a step raises;
second component: did a step raise -/
def algoFrom (cfg : Cfg) : State → List (Int × List Pos) → List (List Nat) × Bool
  | _, [] => ([], false)
  | st, (t, dsts) :: rest =>
    match jobLabels cfg st t dsts with
    | none => ([], true)
    | some labels =>
      (labels :: (algoFrom cfg (nextState cfg st t dsts labels) rest).1,
       (algoFrom cfg (nextState cfg st t dsts labels) rest).2)

/-- the deterministic linker run over a whole movie (first level labelled `0 … n-1`): the levels
it yields, and whether it then raised (the function the driver op `LALGO` computes) -/
def algoMovie (cfg : Cfg) : List (Int × List Pos) → List (List Nat) × Bool
  | [] => ([], false)
  | (t, dsts) :: rest =>
    (List.range dsts.length :: (algoFrom cfg (firstState t dsts) rest).1,
     (algoFrom cfg (firstState t dsts) rest).2)

end TrackpyV.Linker
