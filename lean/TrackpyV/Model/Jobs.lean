/-!
Model of how trajectory ids are handed out when several linking jobs run interleaved
(`trackpy/linking/utils.py:171-193` TrackUnstored.counter, `linking.py:466-480, 532-546`).

`PerJob`  : every Linker owns its counter (the code after the `fix:` commit: `init_level`
            creates a private TrackUnstored subclass and resets *its* counter).
`Shared`  : one process-wide counter that every `init_level` resets (the code before the fix).
An operation is either the first level of job `j` (`n` features, each starts a trajectory) or a
later level of job `j` in which `births` new trajectories start.
-/
namespace TrackpyV.Jobs

inductive Op where
  | init (j : Nat) (n : Nat)
  | step (j : Nat) (births : Nat)
  deriving Repr, DecidableEq

def Op.job : Op → Nat
  | .init j _ => j
  | .step j _ => j

def upd {α} (f : Nat → α) (j : Nat) (v : α) : Nat → α := fun k => if k = j then v else f k

/-- the ids `c, c+1, …, c+n-1` -/
def names (c n : Nat) : List Nat := List.range' c n

/-- per-job counters -/
structure PJ where
  counter : Nat → Nat
  handed : Nat → List Nat     -- every id handed out by job `j` since its `init`

def PJ.init0 : PJ := { counter := fun _ => 0, handed := fun _ => [] }

def stepPerJob (s : PJ) : Op → PJ
  | .init j n => { counter := upd s.counter j n, handed := upd s.handed j (names 0 n) }
  | .step j b => { counter := upd s.counter j (s.counter j + b),
                   handed := upd s.handed j (s.handed j ++ names (s.counter j) b) }

def runPerJob (ops : List Op) : PJ := ops.foldl stepPerJob PJ.init0

/-- one process-wide counter, reset by every `init` -/
structure SH where
  counter : Nat
  handed : Nat → List Nat

def SH.init0 : SH := { counter := 0, handed := fun _ => [] }

def stepShared (g : SH) : Op → SH
  | .init j n => { counter := n, handed := upd g.handed j (names 0 n) }
  | .step j b => { counter := g.counter + b, handed := upd g.handed j (g.handed j ++ names g.counter b) }

def runShared (ops : List Op) : SH := ops.foldl stepShared SH.init0

/-- the ids handed out at each operation (what the harness compares with the implementation) -/
def tracePerJob (ops : List Op) : List (List Nat) :=
  (ops.foldl (fun (acc : PJ × List (List Nat)) op =>
    let out := match op with
      | .init _ n => names 0 n
      | .step j b => names (acc.1.counter j) b
    (stepPerJob acc.1 op, acc.2 ++ [out])) (PJ.init0, [])).2

def traceShared (ops : List Op) : List (List Nat) :=
  (ops.foldl (fun (acc : SH × List (List Nat)) op =>
    let out := match op with
      | .init _ n => names 0 n
      | .step _ b => names acc.1.counter b
    (stepShared acc.1 op, acc.2 ++ [out])) (SH.init0, [])).2

end TrackpyV.Jobs
