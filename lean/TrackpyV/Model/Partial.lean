/-
Model of `trackpy/linking/partial.py` (`link_partial` L104-148, `reconnect_traj_patch` L151-202).

A table is a list of rows in the order in which `reconnect_traj_patch` receives them from
`link_partial` (sorted on the frame column by `pandas_sort`; the harness captures the actual order).
Each row carries
  * `frame`  — the (integer-coerced) frame number,
  * `old`    — the column `_old_particle` (the label the row had in the table that is being patched),
  * `new`    — the column `particle` at the moment `reconnect_traj_patch` is called: for rows inside
               the link range the label produced by the inner `link_iter`, for rows outside the
               range the old label (the column was only overwritten inside the range).
The in-range labels are an INPUT of this model (they are the business of C01/C02).

Python dictionaries are association lists with the newest binding first (`lk` returns the
newest binding, i.e. "later rows overwrite").  `set(mapping_patch.values())` is modelled by the
second components of the list; the two coincide whenever no key is bound twice, which is the case
for every table whose in-range labels are unique per frame (the driver reports `validnew`).

Two variants of the code are modelled, selected by `Rule`:
  * `Rule.orig`  — the code as found in the pinned tree,
  * `Rule.fixed` — the code after `repo-fixes/C13-*.patch`.
The property theorems (Props/C13.lean) are about `Rule.fixed`; `Rule.orig` carries the formal
counter-examples (`collision_witness`, `fresh_collision_witness`, `unsound_merge_witness`).
No Mathlib import: this file is compiled into the native driver.
-/
namespace TrackpyV.Partial

structure Row where
  frame : Int
  old : Int
  new : Int
  deriving DecidableEq, Repr, Inhabited

abbrev Map := List (Int × Int)

/-- `d.get(k)` on an association list whose newest binding comes first -/
def lk : Map → Int → Option Int
  | [], _ => none
  | (a, b) :: m, k => if k = a then some b else lk m k

/-- a list as a set: duplicates removed -/
def dedup : List Int → List Int
  | [] => []
  | x :: xs => if x ∈ xs then dedup xs else x :: dedup xs

/-- which variant of `partial.py` is modelled -/
structure Rule where
  /-- repaired `reconnect_traj_patch`: a track created inside the patch does not take the number
      it has after the patch when that number is already carried by a track present at the first
      frame, unless the number exists on both sides of the patch and the two tracks do not
      overlap in time -/
  guardClaimed : Bool
  /-- repaired: the fresh numbers also avoid the numbers that were just reconnected -/
  freshAvoidsMapped : Bool
  /-- repaired `link_partial`: an empty frame inside the range is skipped instead of raising -/
  emptyFrameOk : Bool
  /-- repaired `link_partial`: a range that contains no frame of the table returns the table -/
  emptyRangeOk : Bool
  deriving Repr

def Rule.orig : Rule := ⟨false, false, false, false⟩
def Rule.fixed : Rule := ⟨true, true, true, true⟩

/-- `in_patch = (f[t_column] >= start) & (f[t_column] < stop)`   (partial.py:191) -/
def inRange (start stop : Int) (r : Row) : Prop := start ≤ r.frame ∧ r.frame < stop

instance (start stop : Int) (r : Row) : Decidable (inRange start stop r) := by
  unfold inRange; exact inferInstance

/-- first loop, `for p_new, p_old in f.loc[f[t_column] == start, …]`   (partial.py:168-173):
    rows at `start` in row order, negative old labels skipped, `mapping_patch[p_new] = p_old`. -/
def loop1 (start : Int) : List Row → Map → Map
  | [], mp => mp
  | r :: rs, mp =>
    if r.frame = start ∧ 0 ≤ r.old then loop1 start rs ((r.new, r.old) :: mp)
    else loop1 start rs mp

/-- `claimed = {p_old: p_new for p_new, p_old in mapping_patch.items()}` (repaired code): the
    in-range track that carries old number `m` after the first loop. -/
def claimedBy (mp1 : Map) (m : Int) : Option Int :=
  (mp1.find? (fun kv => kv.2 = m)).map (·.1)

/-- `f.loc[in_patch].groupby('particle')[t_column].min()[t]` (repaired code) -/
def firstFrame (start stop : Int) (t : Int) : List Row → Option Int
  | [] => none
  | r :: rs =>
    if inRange start stop r ∧ r.new = t then
      some (match firstFrame start stop t rs with
            | none => r.frame
            | some m => if r.frame ≤ m then r.frame else m)
    else firstFrame start stop t rs

/-- `f.loc[in_patch].groupby('particle')[t_column].max()[t]` (repaired code) -/
def lastFrame (start stop : Int) (t : Int) : List Row → Option Int
  | [] => none
  | r :: rs =>
    if inRange start stop r ∧ r.new = t then
      some (match lastFrame start stop t rs with
            | none => r.frame
            | some m => if m ≤ r.frame then r.frame else m)
    else lastFrame start stop t rs

/-- `ids_before = set(f.loc[f[t_column] < start, 'particle'].values)` (repaired code) -/
def idsBefore (start : Int) (rows : List Row) : List Int :=
  (rows.filter (fun r => r.frame < start)).map (·.old)

/-- `ids_after = set(f.loc[f[t_column] >= stop, 'particle'].values)` (repaired code) -/
def idsAfter (stop : Int) (rows : List Row) : List Int :=
  (rows.filter (fun r => stop ≤ r.frame)).map (·.old)

/-- the `elif` of the repaired second loop:
    `p_old in claimed and (p_old not in ids_before or p_old not in ids_after
                           or last_frame[claimed[p_old]] >= first_frame[p_new])`;
    always `false` for the original code.  `overlapB` is the last disjunct
    (`last_frame[t0] >= first_frame[t]`; both dictionaries have the key whenever the track has a row). -/
def overlapB (start stop : Int) (rows : List Row) (t0 t : Int) : Bool :=
  match lastFrame start stop t0 rows, firstFrame start stop t rows with
  | some a, some b => decide (b ≤ a)
  | _, _ => true

def blocked (rule : Rule) (start stop : Int) (rows : List Row) (mp1 : Map) (r : Row) : Bool :=
  rule.guardClaimed &&
  match claimedBy mp1 r.old with
  | none => false
  | some t0 =>
    (!(idsBefore start rows).contains r.old) || (!(idsAfter stop rows).contains r.old) ||
    overlapB start stop rows t0 r.new

/-- state of the second loop: `mapping_patch`, `mapping_after`, `renumber_after` -/
structure St where
  mp : Map
  ma : Map
  pend : Map
  deriving Repr

/-- second loop, rows at `stop - 1` in row order   (partial.py:176-187) -/
def loop2 (blk : Row → Bool) (stop : Int) : List Row → St → St
  | [], st => st
  | r :: rs, st =>
    if r.frame = stop - 1 ∧ 0 ≤ r.old then
      match lk st.mp r.new with
      | some v => loop2 blk stop rs { st with ma := (r.old, v) :: st.ma }
      | none =>
        if blk r then loop2 blk stop rs { st with pend := (r.new, r.old) :: st.pend }
        else loop2 blk stop rs { st with mp := (r.new, r.old) :: st.mp }
    else loop2 blk stop rs st

/-- `itertools.filterfalse(lambda x: x in used, itertools.count())`: the smallest natural `≥ c`
    that is not in `used` (fuel = `used.length` suffices, see `Proofs/Partial.nextFree_not_mem`). -/
def nextFreeAux (used : List Int) : Nat → Nat → Nat
  | 0, c => c
  | fuel + 1, c => if ((c : Nat) : Int) ∈ used then nextFreeAux used fuel (c + 1) else c

def nextFree (used : List Int) (c : Nat) : Nat := nextFreeAux used used.length c

/-- `for p_new, p_mapped in zip(remaining, gen_ids): mapping_patch[p_new] = p_mapped`
    (partial.py:197-198); `c` is the position of the id generator. -/
def assignFresh (used : List Int) : List Int → Nat → Map → Map
  | [], _, mp => mp
  | t :: ts, c, mp =>
    let v := nextFree used c
    assignFresh used ts (v + 1) ((t, (v : Int)) :: mp)

/-- labels present inside the range, `f.loc[in_patch, 'particle'].values` -/
def inNew (start stop : Int) (rows : List Row) : List Int :=
  (rows.filter (fun r => decide (inRange start stop r))).map (·.new)

/-- `remaining = set(f.loc[in_patch, 'particle'].values) - set(mapping_patch)` as a duplicate-free
    list. -/
def remCanon (start stop : Int) (rows : List Row) (mp : Map) : List Int :=
  dedup ((inNew start stop rows).filter (fun t => (lk mp t).isNone))

/-- The iteration order of the Python set `remaining` is not specified.  `order` is a *hint*: the
    elements of `order` that are in `remaining`, followed by the elements of `remaining` the hint
    forgot.  When `order` is a duplicate-free enumeration of `remaining` this is `order` itself;
    every theorem holds for every `order`. -/
def iterOrder (order : List Int) (rem : List Int) : List Int :=
  order.filter (fun t => rem.contains t) ++ rem.filter (fun t => !order.contains t)

/-- `set(f.loc[~in_patch, 'particle'].values)` (+ `mapping_patch.values()` in the repaired code) -/
def usedIds (rule : Rule) (start stop : Int) (rows : List Row) (mp : Map) : List Int :=
  (rows.filter (fun r => !decide (inRange start stop r))).map (·.old) ++
  (if rule.freshAvoidsMapped then mp.map (·.2) else [])

/-- `for p_new, p_old in renumber_after.items(): mapping_after[p_old] = mapping_patch[p_new]` -/
def applyPend (mpF : Map) : Map → Map → Map
  | [], ma => ma
  | (t, m) :: ps, ma =>
    match lk mpF t with
    | some v => applyPend mpF ps ((m, v) :: ma)
    | none => applyPend mpF ps ma

/-- the two dictionaries with which the labels are finally replaced -/
structure Maps where
  mpF : Map
  maF : Map
  deriving Repr

/-- everything of `reconnect_traj_patch` before the two `replace` calls -/
def buildMaps (rule : Rule) (start stop : Int) (order : List Int) (rows : List Row) : Maps :=
  let mp1 := loop1 start rows []
  let st := loop2 (blocked rule start stop rows mp1) stop rows ⟨mp1, [], []⟩
  let rem := remCanon start stop rows st.mp
  let used := usedIds rule start stop rows st.mp
  let mpF := assignFresh used (iterOrder order rem) 0 st.mp
  ⟨mpF, applyPend mpF st.pend.reverse st.ma⟩

/-- `Series.replace(dict)`: simultaneous substitution, values that are no key stay. -/
def repl (m : Map) (x : Int) : Int := (lk m x).getD x

/-- the two `replace` passes (partial.py:200-202): in-range rows through `mapping_patch`, rows at
    `frame >= stop` through `mapping_after`, rows before the range untouched. -/
def finalLabel (start stop : Int) (M : Maps) (r : Row) : Int :=
  if inRange start stop r then repl M.mpF r.new
  else if stop ≤ r.frame then repl M.maF r.old
  else r.old

/-- `reconnect_traj_patch(f, (start, stop), '_old_particle')`: the final `particle` column. -/
def reconnect (rule : Rule) (start stop : Int) (order : List Int) (rows : List Row) : List Int :=
  rows.map (finalLabel start stop (buildMaps rule start stop order rows))

/-! ### `link_partial` around it (partial.py:111-148) -/

inductive Outcome where
  | labels (mode : String) (ls : List Int)
  | raises (why : String)
  deriving Repr

def minFrame : List Row → Option Int
  | [] => none
  | r :: rs => some (match minFrame rs with | none => r.frame | some m => if r.frame ≤ m then r.frame else m)

def maxFrame : List Row → Option Int
  | [] => none
  | r :: rs => some (match maxFrame rs with | none => r.frame | some m => if m ≤ r.frame then r.frame else m)

/-- is there a frame number in `[start, start+n)` without a row? -/
def hasEmptyFrame (rows : List Row) (start : Int) : Nat → Bool
  | 0 => false
  | n + 1 => (!rows.any (fun r => r.frame = start)) || hasEmptyFrame rows (start + 1) n

/-- `link_partial` given the labels the inner `link_iter` produces (`Row.new` of in-range rows):
    range clamping (L111-124), the decision whether to reconnect (L134), the outcome. -/
def linkPartial (rule : Rule) (start stop : Int) (order : List Int) (rows : List Row) : Outcome :=
  match minFrame rows, maxFrame rows with
  | some lo, some mx =>
    let hi := mx + 1
    if ¬ start < stop then .raises "assert"
    else
      let start' := if start < lo then lo else start
      let stop' := if hi < stop then hi else stop
      if ¬ start' < stop' then
        (if rule.emptyRangeOk then .labels "norange" (rows.map (·.old)) else .raises "norange")
      else if !rule.emptyFrameOk && hasEmptyFrame rows start' (stop' - start').toNat then
        .raises "emptyframe"
      else if lo < start' ∨ stop' < hi then
        .labels "reconnect" (reconnect rule start' stop' order rows)
      else .labels "full" (rows.map (·.new))
  | _, _ => .raises "emptytable"

/-! ### decidable validity predicates (reported by the driver, hypotheses of the theorems) -/

/-- labels unique per frame, as a symmetric pairwise condition on the row list -/
def UniqueBy (key : Row → Int) (rows : List Row) : Prop :=
  rows.Pairwise (fun a b => a.frame = b.frame → key a ≠ key b)

/-- "linked without memory": a label that occurs at two frames occurs at the frame following the
    earlier one (hence, by induction, at every frame in between). -/
def Contig (key : Row → Int) (rows : List Row) : Prop :=
  ∀ a ∈ rows, ∀ b ∈ rows, key a = key b → a.frame < b.frame →
    ∃ c ∈ rows, key c = key a ∧ c.frame = a.frame + 1

/-- the old labelling is valid: labels are non-negative, unique per frame, tracks have no gaps -/
structure ValidOld (rows : List Row) : Prop where
  nonneg : ∀ r ∈ rows, 0 ≤ r.old
  uniq : UniqueBy (·.old) rows
  contig : Contig (·.old) rows

/-- the in-range labels are unique per frame (what `link_iter` guarantees, C01) -/
def ValidNew (start stop : Int) (rows : List Row) : Prop :=
  UniqueBy (·.new) (rows.filter (fun r => decide (inRange start stop r)))

/-- the in-range tracks have no gaps (`link_iter` without memory) -/
def ContigNew (start stop : Int) (rows : List Row) : Prop :=
  Contig (·.new) (rows.filter (fun r => decide (inRange start stop r)))

instance (key : Row → Int) (rows : List Row) : Decidable (UniqueBy key rows) := by
  unfold UniqueBy; exact inferInstance
instance (key : Row → Int) (rows : List Row) : Decidable (Contig key rows) := by
  unfold Contig; exact inferInstance

instance (start stop : Int) (rows : List Row) : Decidable (ValidNew start stop rows) := by
  unfold ValidNew; exact inferInstance
instance (start stop : Int) (rows : List Row) : Decidable (ContigNew start stop rows) := by
  unfold ContigNew; exact inferInstance

def validOldB (rows : List Row) : Bool :=
  decide (∀ r ∈ rows, 0 ≤ r.old) && decide (UniqueBy (·.old) rows) && decide (Contig (·.old) rows)

end TrackpyV.Partial
