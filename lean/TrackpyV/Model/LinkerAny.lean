import TrackpyV.Model.Linker
/-!
The part of the linker monitor (`Model/Linker.lean`) that does NOT depend on where the search is
centred, with the predicted position supplied as a parameter.

`stepCheckAny cfg pred st t dsts labels` keeps exactly the tests of `validWhy` that are independent
of `view`/`Cfg.vel`:

* one label per feature, no label twice in a level;
* a new trajectory (a label that is not the track of a candidate source) never re-uses a label
  that was handed out before — since the state only keeps the sources with `age ≤ memory`
  (`nextState`, mirrors `mem_set`/`mem_history`, linking.py:541-561), this also says that a label
  only continues a trajectory that is still remembered;

plus the PARAMETRIC range test `dist2 w (pred s t) q ≤ B`, where `pred : Source → Int → Pos` is an
arbitrary function (mirrors subnet.py:38-67 `set_predictor`/`coords_predict`: the predictor is
called with the time `t` of the new level and the candidate sources — previous level and remembered
points alike — and whatever it returns is what the tree is built from, subnet.py:116-125).

Only `cfg.w`, `cfg.B` and `cfg.memory` are read; `cfg.vel` is ignored.  No optimality test and no
oversize test: C01 validity only.  Stateful predictors (DriftPredict, NearestVelocityPredict,
ChannelPredict, predict.py:136-390) are instances: `pred` is then the table of the positions the
predictor returned in the run (driver op `LANY`).
-/
namespace TrackpyV.Linker

/-- a predictor: where a candidate source is expected at time `t` -/
abbrev Pred := Source → Int → Pos

/-- every link stays within range of the position `pred` gave for the source it continues
(`linksOkB` with `view cfg t s` replaced by `pred s t`) -/
def linksAnyB (cfg : Cfg) (pred : Pred) (st : State) (t : Int) (dsts : List Pos)
    (labels : List Nat) : Bool :=
  (dsts.zip labels).all (fun (q, l) =>
    match st.srcs.find? (fun s => s.track == l) with
    | none => true
    | some s => dist2 cfg.w (pred s t) q ≤ cfg.B)

/-- `validWhy` with the parametric range test; same order of tests, same reasons -/
def validAnyWhy (cfg : Cfg) (pred : Pred) (st : State) (t : Int) (dsts : List Pos)
    (labels : List Nat) : Option String :=
  if labels.length ≠ dsts.length then some "one label per feature expected" else
  if !(decide labels.Nodup) then some "label used twice in one level" else
  if (freshLabels st labels).any (fun l => st.used.contains l) then
    some "a new trajectory re-uses an old label" else
  if !(linksAnyB cfg pred st t dsts labels) then some "link longer than search_range" else none

/-- The step relation for an arbitrary predictor: the successor state (the one of `stepCheck`:
`nextState`) or the reason of the first failed test. -/
def stepCheckAny (cfg : Cfg) (pred : Pred) (st : State) (t : Int) (dsts : List Pos)
    (labels : List Nat) : Except String State :=
  match validAnyWhy cfg pred st t dsts labels with
  | some why => .error why
  | none => .ok (nextState cfg st t dsts labels)

/-- the predictor `stepCheck` uses: the drift view of `cfg` (identity when `cfg.vel = none`) -/
def viewPred (cfg : Cfg) : Pred := fun s t => view cfg t s

structure AnyResult where
  verdict : String      -- "ok" | "bad"
  step : Nat
  reason : String
  relinks : Nat         -- links that continue a remembered (age > 0) source
  births : Nat

/-- the levels after the first -/
def runAnyLoop (cfg : Cfg) (pred : Pred) : State → Nat → List Level → Nat → Nat → AnyResult
  | _, k, [], r, b => { verdict := "ok", step := k, reason := "", relinks := r, births := b }
  | st, k, l :: ls, r, b =>
    match l.labels with
    | none => { verdict := "bad", step := k, reason := "level without labels", relinks := r, births := b }
    | some labels =>
      match stepCheckAny cfg pred st l.t l.dsts labels with
      | .error why => { verdict := "bad", step := k, reason := why, relinks := r, births := b }
      | .ok st' =>
        runAnyLoop cfg pred st' (k + 1) ls
          (r + (st.srcs.filter (fun s => s.age > 0 && labels.contains s.track)).length)
          (b + (freshLabels st labels).length)

/-- run the predictor-independent monitor over a whole labelled movie (first level: `initCheck`) -/
def runCheckAny (cfg : Cfg) (pred : Pred) (levels : List Level) : AnyResult :=
  match levels with
  | [] => { verdict := "ok", step := 0, reason := "", relinks := 0, births := 0 }
  | l0 :: rest =>
    match l0.labels with
    | none => { verdict := "bad", step := 0, reason := "level without labels", relinks := 0, births := 0 }
    | some lab0 =>
      match initCheck l0.t l0.dsts lab0 with
      | .ok st0 _ _ b0 _ => runAnyLoop cfg pred st0 1 rest 0 b0
      | .bad why => { verdict := "bad", step := 0, reason := why, relinks := 0, births := 0 }
      | _ => { verdict := "bad", step := 0, reason := "internal", relinks := 0, births := 0 }

/-- the states the monitor goes through along a labelled movie (state BEFORE each level after the
first); independent of the predictor.  Used by the driver to compare the candidate sources with
the points the real predictor was asked about. -/
def statesAlong (cfg : Cfg) (levels : List Level) : List State :=
  match levels with
  | [] => []
  | l0 :: rest =>
    let st0 := nextState initCfg { srcs := [], used := [] } l0.t l0.dsts (l0.labels.getD [])
    (rest.foldl (fun (acc : State × List State) l =>
      (nextState cfg acc.1 l.t l.dsts (l.labels.getD []), acc.2 ++ [acc.1])) (st0, [])).2

end TrackpyV.Linker
