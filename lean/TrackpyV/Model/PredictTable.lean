import TrackpyV.Model.LinkTable
/-!
Model of the single-table entry of the predictor classes (C11):

* `trackpy.predict.NullPredict.wrap_single`  (predict.py:87-107) → `wrapSingle`
* `trackpy.predict.NullPredict.link_df`      (predict.py:113-121) = `wrap_single(link_df_iter, …)`
* `trackpy.predict.NullPredict.wrap`         (predict.py:40-85): passes the per-frame tables on to
  the linking function unchanged (it only samples the first one — `next(frames)` on an empty
  iterator is the `RuntimeError` modelled as `none` — fixes `pos_columns` and calls
  `self.observe(frame)` on every yielded table: the predictor's state is part of the abstract
  linker parameter here, as in `Model/LinkTable`).

`wrap_single` splits ONE table with `features.groupby(t_column)` and hands the groups to
`link_df_iter` (`Model/LinkTable.linkDfIter`), then concatenates what it yields.

What is assumed about pandas (nothing else):
* `DataFrame.groupby(key)` (default `sort=True`) yields one group per DISTINCT value of the key
  column, the groups in ASCENDING order of the key; every group holds the rows with that key in
  their table order ("groupby preserves the order of rows within each group").  The key is the
  frame value AS GIVEN (no coercion to integer: 2.5 and 2.7 are two groups, while `link` puts both
  into frame 2).  NaN keys (dropped by groupby) are outside the model (frames are exact rationals).
* `groupby(key, sort=False)` yields the groups in order of first appearance of the key
  (`wrapSingleFirstAppearance`: the seeded change C11-A5).
* `pandas_concat` of the yielded tables keeps their order; of no table at all it raises.

No Mathlib (compiled into the driver).
-/
namespace TrackpyV.PredictTable
open TrackpyV.LinkTable

/-- insert a key into an ascending list of distinct keys (no duplicate is created) -/
def insertKey (q : Rat) : List Rat → List Rat
  | [] => [q]
  | k :: ks => if q < k then q :: k :: ks else if q = k then k :: ks else k :: insertKey q ks

/-- the distinct frame values of the table in ascending order: the group keys of
`groupby(t_column)` (sort=True).  mirrors trackpy/predict.py:106 -/
def sortedKeys (rows : List Row) : List Rat := rows.foldr (fun r ks => insertKey r.frame ks) []

/-- the distinct values of a list in order of first appearance -/
def firstKeys : List Rat → List Rat
  | [] => []
  | k :: ks => k :: (firstKeys ks).filter (fun x => x != k)

/-- the group keys of `groupby(t_column, sort=False)` -/
def appearanceKeys (rows : List Row) : List Rat := firstKeys (rows.map (·.frame))

/-- one table per key: the rows with that frame value, in table order -/
def groupsBy (keys : List Rat) (rows : List Row) : List (List Row) :=
  keys.map (fun k => rows.filter (fun r => r.frame == k))

/-- the per-frame tables `wrap_single` hands to the linking function, in the order handed over.
mirrors trackpy/predict.py:106 -/
def framesOf (rows : List Row) : List (List Row) := groupsBy (sortedKeys rows) rows

/-- the levels that reach `link_iter` (through `coords_from_df_iter`): per group the first row's
frame value and all coordinates -/
def levelsHanded (rows : List Row) : List (Option Rat × List Pos) := coordsFromDfIter (framesOf rows)

/-- the frame numbers in the order they reach the linker -/
def framesHanded (rows : List Row) : List (Option Rat) := (levelsHanded rows).map (·.1)

/-- `predictor.link_df(table, …)` = `wrap_single(link_df_iter, table, …)`: group by frame value in
ascending order, run the iterator entry (`labelsOf` = what `link_iter` yields for the levels, the
predictor included), concatenate in the order yielded.  `none` = an exception (empty table:
`next(frames)` in `wrap`; a label list whose length is not the group's).
mirrors trackpy/predict.py:87-107 -/
def wrapSingle (labelsOf : List (Option Rat × List Pos) → List (List Nat)) (rows : List Row) :
    Option (List (Row × Nat)) :=
  if rows.isEmpty then none
  else (linkDfIter labelsOf (framesOf rows)).map List.flatten

/-- the seeded variant (C11-A5): `groupby(t_column, sort=False)` -/
def framesOfFirstAppearance (rows : List Row) : List (List Row) :=
  groupsBy (appearanceKeys rows) rows

def levelsHandedFirstAppearance (rows : List Row) : List (Option Rat × List Pos) :=
  coordsFromDfIter (framesOfFirstAppearance rows)

def wrapSingleFirstAppearance (labelsOf : List (Option Rat × List Pos) → List (List Nat))
    (rows : List Row) : Option (List (Row × Nat)) :=
  if rows.isEmpty then none
  else (linkDfIter labelsOf (framesOfFirstAppearance rows)).map List.flatten

/-- the level `link` would hand over for integer frame `t`, as the iterator entry spells it -/
def intLevel (lv : Int × List Pos) : Option Rat × List Pos := (some (lv.1 : Rat), lv.2)

/-- a row of `wrap_single`'s output as `link` would return it (frame column coerced) -/
def toORow (p : Row × Nat) : ORow := { row := coerceRow p.1, particle := p.2 }

end TrackpyV.PredictTable
