/-
Model of the bounds handling of `trackpy/refine/least_squares.py`:
`FitFunctions.validate_bounds` (L344-385), `FitFunctions.compute_bounds` (L387-411) and the part of
`vect_from_params` / `vect_to_params` (L30-167) they and `refine_leastsq` use (packing with an
`operation`, unpacking).  No Mathlib (compiled into the native driver).  Exact arithmetic over `Rat`.

NaN ("no bound given") is `none`.  A block of per-feature parameters (the ndarray `params`,
axes (feature, parameter)) is stored COLUMN-major: `List (List α)`, one inner list per parameter,
each of length n = number of features — numpy code only ever touches whole columns `params[:, i]`.
-/
namespace TrackpyV.Bounds

/-- one side of a bound; `none` = NaN = not given (after `compute_bounds`: ∓inf) -/
abbrev B := Option Rat

/-- a value of the user's `bounds` dictionary: a scalar (numpy broadcasts it to both sides,
`abs_arr[:, i] = abs_bnd`, L381-383) or a (low, high) pair whose entries may be NaN -/
inductive Val where
  | scalar (b : Rat)
  | pair (lo hi : B)
deriving Repr, DecidableEq

def Val.toPair : Val → B × B
  | .scalar b => (some b, some b)
  | .pair l h => (l, h)

/-- what `validate_bounds` needs to know about a fit parameter -/
inductive Kind where
  | background | signal | pos (axis : Nat) | size | other
deriving Repr, DecidableEq

structure Param where
  name : String
  kind : Kind
deriving Repr, DecidableEq

abbrev Dict := List (String × Val)

/-- `bounds.get(key, np.nan)`; `none` = the `np.nan` default (tested with `is np.nan`) -/
def lookup (d : Dict) (key : String) : Option Val := List.lookup key d

/-- the default lower bound `1E-7` (L373) -/
def eps : Rat := 1 / 10000000

def Kind.isPos : Kind → Bool
  | .pos _ => true
  | _ => false

def Kind.isSize : Kind → Bool
  | .size => true
  | _ => false

/-- `param in ['background', 'signal'] + self.size_columns` (L371) -/
def Kind.positiveByDefault : Kind → Bool
  | .background => true
  | .signal => true
  | .size => true
  | _ => false

/-- `if x is np.nan and cond: x = bounds.get(key, np.nan)` (L357-368) -/
def orBroadcast (x : Option Val) (cond : Bool) (d : Dict) (key : String) : Option Val :=
  if x.isNone && cond then lookup d key else x

/-- the three (low, high) pairs `validate_bounds` stores for one parameter -/
structure Spec where
  abs : B × B
  diff : B × B
  rel : B × B
deriving Repr, DecidableEq

def pairOf : Option Val → B × B
  | none => (none, none)
  | some v => v.toPair

/-- mirrors least_squares.py:351-383 (one pass of the loop over `self.params`).
Order of the tests as in the code: direct key, then `pos*` broadcast, then `size*` broadcast, then
the defaults (absolute `(1E-7, nan)` for background / signal / sizes when NO absolute bound was
found; difference `(radius, radius)` for positions when NO difference bound was found). -/
def specFor (d : Dict) (radius : List Rat) (p : Param) : Spec :=
  let a0 := lookup d p.name
  let d0 := lookup d (p.name ++ "_abs")
  let r0 := lookup d (p.name ++ "_rel")
  let a1 := orBroadcast a0 p.kind.isPos d "pos"
  let d1 := orBroadcast d0 p.kind.isPos d "pos_abs"
  let r1 := orBroadcast r0 p.kind.isPos d "pos_rel"
  let a2 := orBroadcast a1 p.kind.isSize d "size"
  let d2 := orBroadcast d1 p.kind.isSize d "size_abs"
  let r2 := orBroadcast r1 p.kind.isSize d "size_rel"
  let a3 : Option Val :=
    if a2.isNone && p.kind.positiveByDefault then some (.pair (some eps) none) else a2
  let d3 : Option Val :=
    match d2, p.kind with
    | none, .pos axis => some (.scalar (radius.getD axis 0))
    | x, _ => x
  { abs := pairOf a3, diff := pairOf d3, rel := pairOf r2 }

/-- mirrors least_squares.py:344-385 -/
def validateBounds (d : Dict) (radius : List Rat) (params : List Param) : List Spec :=
  params.map (specFor d radius)

/-! ## compute_bounds -/

/-- `np.nanmax` / `np.fmax` of two values: NaN is ignored -/
def omax : B → B → B
  | none, b => b
  | a, none => a
  | some x, some y => some (max x y)

/-- `np.nanmin` / `np.fmin` of two values: NaN is ignored -/
def omin : B → B → B
  | none, b => b
  | a, none => a
  | some x, some y => some (min x y)

/-- mirrors least_squares.py:394-399: `fmax(nanmax([p - diff0, p / rel0]), abs0)`, NaN -> -inf
(`none` now reads "-inf") -/
def lowOf (s : Spec) (p : Rat) : B :=
  omax (omax (s.diff.1.map (p - ·)) (s.rel.1.map (p / ·))) s.abs.1

/-- mirrors least_squares.py:400-403: `fmin(nanmin([p + diff1, p * rel1]), abs1)`, NaN -> +inf -/
def highOf (s : Spec) (p : Rat) : B :=
  omin (omin (s.diff.2.map (p + ·)) (s.rel.2.map (p * ·))) s.abs.2

/-- `np.min` of two lower bounds where `none` = -inf (absorbing) -/
def bmin : B → B → B
  | some x, some y => some (min x y)
  | _, _ => none

/-- `np.max` of two upper bounds where `none` = +inf (absorbing) -/
def bmax : B → B → B
  | some x, some y => some (max x y)
  | _, _ => none

/-- `operation=np.min` on a column of lower bounds (L407-408) -/
def minLow : List B → B
  | [] => none
  | a :: rest => if rest.isEmpty then a else bmin a (minLow rest)

/-- `operation=np.max` on a column of upper bounds (L409-410) -/
def maxHigh : List B → B
  | [] => none
  | a :: rest => if rest.isEmpty then a else bmax a (maxHigh rest)

/-- `operation=np.mean` (L849) -/
def mean (v : List Rat) : Rat := v.sum / (v.length : Rat)

/-! ## packing (vect_from_params with an operation) and unpacking (vect_to_params)

`groups = none` is the code's `groups is None` (per-cluster level: every shared mode collapses to
one value); `some gs` is `groups[0]`, the clusters as lists of positional feature indices (global
level; `refine_leastsq` only ever provides `groups[0]`, so modes > 3 are outside the model). -/

/-- the grouping used for a column of mode ≥ 2: `mode == 2 or groups is None` -> one value -/
def groupsFor (groups : Option (List (List Nat))) (mode : Nat) : Option (List (List Nat)) :=
  if mode = 2 then none else groups

/-- mirrors least_squares.py:70-96: the piece of the vector contributed by one column -/
def seg {α} [Inhabited α] (op : List α → α) (groups : Option (List (List Nat))) (mode : Nat)
    (c : List α) : List α :=
  if mode = 0 then []
  else if mode = 1 then c
  else match groupsFor groups mode with
    | none => [op c]
    | some gs => gs.map (fun g => op (g.map (fun i => c.getD i default)))

/-- mirrors least_squares.py:69-100 (`np.concatenate(result)`) -/
def packCols {α} [Inhabited α] (op : List α → α) (groups : Option (List (List Nat))) :
    List Nat → List (List α) → List α
  | m :: ms, c :: cs => seg op groups m c ++ packCols op groups ms cs
  | _, _ => []

/-- number of vector entries a column of this mode occupies (`current += ...`, L152/156/165) -/
def width (groups : Option (List (List Nat))) (mode n : Nat) : Nat :=
  if mode = 0 then 0
  else if mode = 1 then n
  else match groupsFor groups mode with
    | none => 1
    | some gs => gs.length

/-- index of the LAST group containing feature `i` (later groups overwrite earlier ones in the
loop `for group, value in zip(groups_this, ...): result[group, i] = value`, L163-164) -/
def lastGroup : List (List Nat) → Nat → Option Nat
  | [], _ => none
  | g :: gs, i =>
    match lastGroup gs i with
    | some k => some (k + 1)
    | none => if g.contains i then some 0 else none

/-- mirrors least_squares.py:145-165: the new column, given this column's slice `v` of the vector -/
def newCol (groups : Option (List (List Nat))) (mode : Nat) (v : List Rat) (c : List Rat) :
    List Rat :=
  if mode = 0 then c
  else if mode = 1 then v
  else match groupsFor groups mode with
    | none => c.map (fun _ => v.getD 0 0)
    | some gs => c.zipIdx.map (fun (old, i) =>
        match lastGroup gs i with
        | none => old
        | some k => v.getD k 0)

/-- mirrors least_squares.py:143-167 -/
def unpackCols (groups : Option (List (List Nat))) :
    List Nat → List Rat → List (List Rat) → List (List Rat)
  | m :: ms, v, c :: cs =>
    newCol groups m (v.take (width groups m c.length)) c ::
      unpackCols groups ms (v.drop (width groups m c.length)) cs
  | _, _, _ => []

/-- mirrors least_squares.py:387-411: per-feature bounds, then packed "as broad as possible" -/
def lowCols (specs : List Spec) (block : List (List Rat)) : List (List B) :=
  List.zipWith (fun s c => c.map (lowOf s)) specs block

def highCols (specs : List Spec) (block : List (List Rat)) : List (List B) :=
  List.zipWith (fun s c => c.map (highOf s)) specs block

def computeBounds (specs : List Spec) (modes : List Nat) (groups : Option (List (List Nat)))
    (block : List (List Rat)) : List (B × B) :=
  (packCols minLow groups modes (lowCols specs block)).zip
    (packCols maxHigh groups modes (highCols specs block))

/-- `lo ≤ x ≤ hi` with `none` = no bound on that side -/
def inB (x : Rat) (b : B × B) : Bool :=
  (match b.1 with | none => true | some l => decide (l ≤ x)) &&
  (match b.2 with | none => true | some h => decide (x ≤ h))

/-- `lb > ub` somewhere (what scipy rejects with ValueError) -/
def infeasible (bs : List (B × B)) : Bool :=
  bs.any (fun b => match b.1, b.2 with
    | some l, some h => decide (h < l)
    | _, _ => false)

end TrackpyV.Bounds
