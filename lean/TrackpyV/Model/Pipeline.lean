/-
Finite abstraction of trackpy pipelines (DESIGN §5.20, §2.4).

A trajectory table is abstracted to the class of its row-index *layout* (`Layout`); a stage is
abstracted to one line of a finite table `T : Stage → Layout → Outcome` saying whether the stage
accepts a table of that layout, which layouts the returned table may have, and whether the numbers
agree with those obtained from the same data in a plain default-indexed table.

The table itself is NOT written here: it is measured from the live implementation on every run
(`harness/c20.py`), written to a standalone generated file, and only the generic closure check
`tableClosedExcept` (a total, structurally recursive Boolean function the kernel can evaluate) and
the generic theorems about it (Props/C20.lean) live in the library.

Whether a *named* index has duplicate values depends on the data (a frame index is unique iff
there is one particle), so it is not part of the class; for unnamed indexes it is inherited from
the caller's table and kept as a class.  Layout classes (classification of `DataFrame.index`, `harness/c20.py: classify`):
  range            unnamed RangeIndex / 0..n-1           (what `reset_index(drop=True)` gives)
  labels           unnamed, unique, not 0..n-1           (e.g. after `sort_values`)
  dupLabels        unnamed with duplicate labels         (e.g. `pd.concat` of per-frame tables)
  frameIdx         named 'frame'                         (filtering.py:28,58 `set_index('frame', drop=False)`)
  particleIdx      named 'particle'
  otherNamed       any other name                        (utils.py:288 `df.index.name += '_index'`)
  frameParticleMI  MultiIndex with levels named 'frame' and 'particle' (motion.py:313)
  frameMI          MultiIndex with a level named 'frame', none named 'particle'
  particleMI       MultiIndex with a level named 'particle', none named 'frame'
  otherMI          any other MultiIndex

No Mathlib imports.
-/
namespace TrackpyV.Pipeline

inductive Layout
  | range | labels | dupLabels | frameIdx | particleIdx | otherNamed
  | frameParticleMI | frameMI | particleMI | otherMI
deriving DecidableEq, Repr

def Layout.all : List Layout :=
  [.range, .labels, .dupLabels, .frameIdx, .particleIdx, .otherNamed,
   .frameParticleMI, .frameMI, .particleMI, .otherMI]

/-- stages that return a trajectory table -/
inductive Producer
  | link | linkPartial | filterStubs | filterClusters | subtractDrift
deriving DecidableEq, Repr

def Producer.all : List Producer :=
  [.link, .linkPartial, .filterStubs, .filterClusters, .subtractDrift]

/-- stages that only consume a trajectory table -/
inductive Consumer
  | computeDrift | msd | imsd | emsd | cluster | proximity | relateFrames
deriving DecidableEq, Repr

def Consumer.all : List Consumer :=
  [.computeDrift, .msd, .imsd, .emsd, .cluster, .proximity, .relateFrames]

/-- every stage that consumes trajectories: the producers and the pure consumers -/
inductive Stage
  | prod (p : Producer)
  | cons (c : Consumer)
deriving DecidableEq, Repr

def Stage.all : List Stage := Producer.all.map .prod ++ Consumer.all.map .cons

/-- One measured line: the stage raises on this layout (`rejects`), or accepts it; then `outs` are
the layout classes the returned table was seen to have (producers; several when the class depends
on the data, e.g. `link` returns 0..n-1 only if the rows were already sorted by frame) and `same`
says that the numbers equal those from the same data in a plain default-indexed table. -/
inductive Outcome
  | rejects
  | accepts (outs : List Layout) (same : Bool)
deriving DecidableEq, Repr

abbrev Table := Stage → Layout → Outcome

/-- table from its list of lines; a missing line counts as `rejects` -/
def tableOf (rows : List (Stage × Layout × Outcome)) : Table := fun s l =>
  match rows.find? (fun r => r.1 == s && r.2.1 == l) with
  | some r => r.2.2
  | none => .rejects

/-- accepted, and the same numbers as with a plain table -/
def good (T : Table) (s : Stage) (l : Layout) : Bool :=
  match T s l with
  | .accepts _ true => true
  | _ => false

/-- possible layouts of the table returned by producer `p` on layout `l` (none if rejected) -/
def outs (T : Table) (p : Producer) (l : Layout) : List Layout :=
  match T (.prod p) l with
  | .accepts o _ => o
  | .rejects => []

/-- a table in scope of the property: returned by producer `n.1`, of layout class `n.2` -/
abbrev Node := Producer × Layout

/-- excluded (producer → next stage) pairs: the known findings -/
abbrev Excl := List (Producer × Stage)

/-- tables obtained by applying one more producer to a table of node `n` -/
def succs (T : Table) (excl : Excl) (n : Node) : List Node :=
  Producer.all.flatMap fun p =>
    if excl.contains (n.1, .prod p) then [] else (outs T p n.2).map (fun l => (p, l))

/-- tables returned by the first producer of a pipeline started on an initial layout -/
def seed (T : Table) (init : List Layout) : List Node :=
  init.flatMap fun l => Producer.all.flatMap fun p => (outs T p l).map (fun o => (p, o))

def addNew (acc : List Node) (xs : List Node) : List Node :=
  xs.foldl (fun a x => if a.contains x then a else a ++ [x]) acc

def grow (T : Table) (excl : Excl) (R : List Node) : List Node :=
  addNew R (R.flatMap (succs T excl))

/-- reachable nodes after at most `fuel` further producer steps -/
def reach (T : Table) (excl : Excl) (init : List Layout) : Nat → List Node
  | 0 => addNew [] (seed T init)
  | n + 1 => grow T excl (reach T excl init n)

/-- `R` is an inductive invariant: it contains every first-step table, is closed under every
non-excluded producer step, and every non-excluded stage is `good` on every node of `R`. -/
def closedOn (T : Table) (excl : Excl) (init : List Layout) (R : List Node) : Bool :=
  (seed T init).all (fun n => R.contains n) &&
  R.all fun n => Stage.all.all fun s =>
    excl.contains (n.1, s) ||
      (good T s n.2 &&
        match s with
        | .prod p => (outs T p n.2).all (fun o => R.contains (p, o))
        | .cons _ => true)

/-- THE regenerated obligation: evaluated by the kernel (`decide`) on the measured table. -/
def tableClosedExcept (T : Table) (init : List Layout) (excl : Excl) : Bool :=
  closedOn T excl init (reach T excl init Layout.all.length)

def tableClosed (T : Table) (init : List Layout) : Bool := tableClosedExcept T init []

/-! ### programs -/

/-- `ChainTo T l ps l'`: running the producers `ps` in turn on a table of layout `l` can return a
table of layout `l'` (each step accepted, each intermediate layout one of the measured ones). -/
def ChainTo (T : Table) : Layout → List Producer → Layout → Prop
  | l, [], l' => l = l'
  | l, p :: ps, l' => ∃ m, m ∈ outs T p l ∧ ChainTo T m ps l'

/-- the pipeline `q :: ps` followed by stage `s` uses no excluded adjacent pair -/
def Avoids (excl : Excl) : Producer → List Producer → Stage → Prop
  | q, [], s => (q, s) ∉ excl
  | q, p :: ps, s => (q, Stage.prod p) ∉ excl ∧ Avoids excl p ps s

/-- the producer that returned the final table of the pipeline `q :: ps` -/
def lastProd : Producer → List Producer → Producer
  | q, [] => q
  | _, p :: ps => lastProd p ps

/-! ### concrete semantics the abstraction is about (used by `pipeline_same_numbers`) -/

/-- A concrete stage semantics: `run s d l` is the result of stage `s` on the table with data
content `d` (values, ignoring the index) stored under layout `l`: `none` if it raises, otherwise
the data content and layout of what it returns. -/
structure Sem (D : Type) where
  run : Stage → D → Layout → Option (D × Layout)

/-- the table `T` describes `sem` (what the measurement + the pipeline stream attack): wherever
`T` says good, the stage returns, the returned layout is one of the listed ones, and the returned
data equal those obtained from the plain (`range`) table of the same data. -/
def Sem.Sound {D : Type} (sem : Sem D) (T : Table) : Prop :=
  ∀ s l, good T s l = true → ∀ d, ∃ d' l', sem.run s d l = some (d', l') ∧
    (∀ p, s = .prod p → l' ∈ outs T p l) ∧ ∃ l'', sem.run s d .range = some (d', l'')

/-- run a pipeline, feeding each stage the table the previous one returned -/
def Sem.exec {D : Type} (sem : Sem D) : D × Layout → List Producer → Option (D × Layout)
  | x, [] => some x
  | (d, l), p :: ps =>
    match sem.run (.prod p) d l with
    | some x => sem.exec x ps
    | none => none

/-- run the same pipeline, re-storing every intermediate result in a plain default-indexed table -/
def Sem.execPlain {D : Type} (sem : Sem D) : D → List Producer → Option D
  | d, [] => some d
  | d, p :: ps =>
    match sem.run (.prod p) d .range with
    | some (d', _) => sem.execPlain d' ps
    | none => none

end TrackpyV.Pipeline
