import TrackpyV.Model.LinkerAlgo
/-!
A deterministic executable model of ONE `FindLinker.next_level` (find_link.py:343-351, 453-501)
at the level of abstraction of `Model/Linker.lean` / `Model/Relocate.lean`: integer positions, the
weighted squared distance `Linker.dist2 cfg.w`, the range bound `cfg.B`; the image enters only
through an ORACLE for `FindLinker.get_relocate_candidates` (find_link.py:374-451), whose contract
(`Props/C14Algo.OracleOK`) is what `Props/C14.relocate_admissible` proves about the executable
model `Relocate.relocateCandidates` of that function.

Order of operations (mirrors `assign_links`, find_link.py:453-501):

1. `Subnets.reset/compute` (subnet.py:346-371)          → `Linker.stepGroups` (the monitor's
   sub-nets), put into the iteration order of the `subnets` dict (`orderGroups`);
2. `include_lost` (subnet.py:426-438)                    → `lostSingles`: every source without
   any candidate becomes a sub-net of its own;
3. `merge_lost_subnets` (subnet.py:440-477)              → `mergeLost`: sub-nets with a shortage
   are merged with every sub-net that has a source within `2·search_range` of one of their sources;
4. per sub-net, in order (find_link.py:463-499)          → `processGroup`:
   shortage = #sources − #destinations; if positive `relocate(pos, shortage)` = the first
   `shortage` oracle candidates (find_link.py:353-361); `add_dest_points` (subnet.py:383-424) admits
   those within search range of a source OF THE SUB-NET and appends them to these sources' candidate
   lists; the sub-net is solved by `Assign.solveOrdered` (= `SubnetLinker.do_recur`); the admitted
   features are appended to the level (`self.hash.add_point`, find_link.py:491-492) — so the next
   sub-net's oracle call sees them;
5. `apply_links` (linking.py)                            → labels as in `Model/LinkerAlgo.lean`:
   a destination carries the track of the source that chose it, else a new name.

Freedoms of the real code that the model fixes (as `Model/LinkerAlgo.lean` does): iteration order
of Python sets (sources inside a sub-net: the model uses merge order), which of several optimal
assignments, the integers naming new trajectories.  NOT modelled: `MAX_NEIGHBORS` truncation of the
kd-tree queries, `SubnetOversizeException` (hypotheses of the acceptance theorem), link strategies
other than the recursive solver.

No Mathlib import: compiled into the native driver.
-/
namespace TrackpyV.FindLink
open TrackpyV.Linker TrackpyV.Assign

/-- a relocated feature: image position and mass (`characterize`, mass only) -/
abbrev RFeat := Pos × Nat

/-- `FindLinker.get_relocate_candidates(pos)` (find_link.py:374-451) as an oracle.  Arguments: the
coordinates currently in `self.hash` (the level's detected features followed by the features added
so far — what `self.hash.query_points` at find_link.py:392 sees) and the (predicted) positions of
the sub-net's sources.  Result: the candidates, heaviest first; `[]` = `(None, None)`. -/
abbrev Oracle := List Pos → List Pos → List RFeat

/-! ## 1. iteration order of the sub-nets -/

/-- key under which a sub-net of `Subnets.compute` survives in the `subnets` dict: every
destination `i` starts as sub-net `i` (subnet.py:352-354); `assign_subnet(wp, p)` merges INTO the
sub-net of the destination `p` being processed (subnet.py:252-260), destinations are processed in
ascending order (subnet.py:367), hence the largest destination index of the component -/
def maxDest (g : Group) : Nat := g.2.foldl max 0

/-- insertion by ascending `maxDest` (a dict iterates in insertion order, keys were inserted in
ascending order, deletions keep the order of the rest) -/
def insGroup (g : Group) : List Group → List Group
  | [] => [g]
  | h :: hs => if maxDest g < maxDest h then g :: h :: hs else h :: insGroup g hs

def orderGroups (gs : List Group) : List Group := gs.foldr insGroup []

/-! ## 2. include_lost -/

/-- mirrors subnet.py:426-438 `include_lost`: every source with `len(p.forward_cands) == 0` gets a
sub-net `({p}, set())` with the next free key, in the order of `source_hash.points` -/
def lostSingles (cands : List (List Cand)) : List Group :=
  ((List.range cands.length).filter (fun i => (realDests (getD' cands i [])).isEmpty)).map
    (fun i => ([i], []))

/-- the sub-nets after `include_lost`, in dict order -/
def groups1 (cfg : Cfg) (st : State) (t : Int) (dsts : List Pos) : List Group :=
  orderGroups (stepGroups cfg st t dsts) ++ lostSingles (stepCands cfg st t dsts)

/-! ## 3. merge_lost_subnets -/

/-- mirrors subnet.py:451-452 / find_link.py:465-466 `shortage = len(source) - len(dest)`, `> 0` -/
def short (g : Group) : Bool := decide (g.2.length < g.1.length)

/-- mirrors subnet.py:448-453: the sources of every sub-net with a shortage -/
def lostSources (gs : List Group) : List Nat := (gs.filter short).flatMap (·.1)

/-- (predicted) position of source number `i` (`source_hash.predict`, find_link.py:467-473) -/
def viewOf (cfg : Cfg) (st : State) (t : Int) (i : Nat) : Pos :=
  match st.srcs[i]? with
  | some s => view cfg t s
  | none => []

/-- mirrors subnet.py:458-463: the sources within `2·search_range` of lost source `a` (itself
included); on the squared scale `4·B`, edge included -/
def near2 (cfg : Cfg) (st : State) (t : Int) (a : Nat) : List Nat :=
  (List.range st.srcs.length).filter
    (fun b => decide (dist2 cfg.w (viewOf cfg st t a) (viewOf cfg st t b) ≤ 4 * cfg.B))

def touches (a b : Nat) (g : Group) : Bool := g.1.contains a || g.1.contains b

/-- mirrors subnet.py:467-477: all sub-nets satisfying `p` are merged into the FIRST of them (the
one with the smaller key keeps its place in the dict, the other is deleted) -/
def mergeInto (p : Group → Bool) : List Group → List Group
  | [] => []
  | g :: gs =>
    if p g then
      (g.1 ++ (gs.filter p).flatMap (·.1), g.2 ++ (gs.filter p).flatMap (·.2)) ::
        gs.filter (fun h => !(p h))
    else g :: mergeInto p gs

/-- mirrors subnet.py:440-477 `merge_lost_subnets`: `lost_source` is computed once, before any
merge (subnet.py:448-453) -/
def mergeLost (cfg : Cfg) (st : State) (t : Int) (gs : List Group) : List Group :=
  (lostSources gs).foldl
    (fun gs a => (near2 cfg st t a).foldl (fun gs b => mergeInto (touches a b) gs) gs) gs

/-- the sub-nets `assign_links` iterates over (find_link.py:455-463) -/
def flGroups (cfg : Cfg) (st : State) (t : Int) (dsts : List Pos) : List Group :=
  mergeLost cfg st t (groups1 cfg st t dsts)

/-! ## 4. relocation and linking, sub-net by sub-net -/

/-- what the loop of `assign_links` has accumulated -/
structure Acc where
  lvl : List Pos                  -- `self.hash.coords`: detected features, then the added ones
  masses : List Nat               -- masses of the added features
  choices : List (Nat × Cand)     -- (source number, chosen candidate): `spl`/`dpl`

/-- mirrors subnet.py:408-420: `new_dest_hash.query(source_coord, …, search_range)` finds the new
point from at least one source of the sub-net (edge included, as in `Linker.candsOfRow`) -/
def inReach (cfg : Cfg) (pos : List Pos) (q : Pos) : Bool :=
  pos.any (fun p => decide (dist2 cfg.w p q ≤ cfg.B))

/-- which destinations a source of the current sub-net has in `forward_cands`: detected features
(`Subnets.compute`, all of them in the sub-net's destination set) and the features added for THIS
sub-net (`add_dest_points` looks at `source_points` only, subnet.py:400-420) — not the features
added for earlier sub-nets -/
def keepCand (n0 base : Nat) (c : Cand) : Bool :=
  match c.1 with
  | none => true
  | some j => decide (j < n0) || decide (base ≤ j)

/-- `forward_cands` of source number `i` after `add_dest_points`, sorted (subnet.py:423-424,
find_link.py:481-482), null candidate appended (subnetlinker.py:386-387) -/
def fcands (cfg : Cfg) (st : State) (t : Int) (n0 base : Nat) (lvl : List Pos) (i : Nat) :
    List Cand :=
  match st.srcs[i]? with
  | some s => (candsOf cfg t lvl s).filter (keepCand n0 base)
  | none => []

/-- mirrors find_link.py:463-499, one iteration.  The shortcut cases of the sub-net linker
(subnetlinker.py:375-383: no source / one source and one destination / one source and no
destination) coincide with the general solver on these sizes (`Props/C14Algo.shortcut_*`). -/
def processGroup (cfg : Cfg) (st : State) (t : Int) (orc : Oracle) (n0 : Nat) (acc : Acc)
    (g : Group) : Acc :=
  -- find_link.py:467-473
  let pos := g.1.map (viewOf cfg st t)
  -- find_link.py:465-466, 474 and 353-361 (`candidates[:n]`)
  let new := if short g then (orc acc.lvl pos).take (g.1.length - g.2.length) else []
  -- subnet.py:408-420
  let adm := new.filter (fun x => inReach cfg pos x.1)
  -- find_link.py:491-492
  let lvl' := acc.lvl ++ adm.map (·.1)
  -- find_link.py:485-486
  let ch := if g.1.isEmpty then [] else
    match solveOrdered (g.1.map (fcands cfg st t n0 acc.lvl.length lvl')) with
    | some (_, a) => g.1.zip a
    | none => []
  { lvl := lvl', masses := acc.masses ++ adm.map (·.2), choices := acc.choices ++ ch }

def flAcc (cfg : Cfg) (st : State) (t : Int) (orc : Oracle) (dsts : List Pos) : Acc :=
  (flGroups cfg st t dsts).foldl (processGroup cfg st t orc dsts.length)
    { lvl := dsts, masses := [], choices := [] }

/-! ## 5. the labelled level -/

structure StepOut where
  dsts : List Pos      -- the level that is emitted: detected features, then the added ones
  added : List Nat     -- indices (into `dsts`) of the added features
  masses : List Nat    -- masses of the added features
  labels : List Nat
  deriving Repr, DecidableEq

/-- one `FindLinker.next_level` -/
def flAlgoStep (cfg : Cfg) (st : State) (t : Int) (orc : Oracle) (dsts : List Pos) : StepOut :=
  let acc := flAcc cfg st t orc dsts
  { dsts := acc.lvl
    added := List.range' dsts.length (acc.lvl.length - dsts.length)
    masses := acc.masses
    labels := (List.range acc.lvl.length).map (labelOf st acc.choices) }

/-! ## the contract of the oracle (decidable part, for the driver) -/

/-- separation ellipsoid and margin box on the integer scale of the linker model -/
structure FCfg where
  sepW : List Nat      -- per-axis weights: closer than `separation` iff `dist2 sepW p q < sepB`
  sepB : Nat
  shape : List Nat
  margin : List Nat    -- `radius`; inside iff `marginᵢ ≤ qᵢ ≤ shapeᵢ − marginᵢ − 1` (find_link.py:413-414)
  minmass : Nat
  deriving Repr

def insideMargin : List Nat → List Nat → Pos → Bool
  | sh :: shs, m :: ms, q :: qs =>
    (decide ((m : Int) ≤ q) && decide (q ≤ (sh : Int) - (m : Int) - 1)) && insideMargin shs ms qs
  | _, _, _ => true

end TrackpyV.FindLink
