/-
Model of the 2-D edge correction of `trackpy/static.py`:
`circle_cap_arclen` (static.py:264-267), `circle_corner_arclen` (static.py:270-277) and
`arclen_2d_bounded` (static.py:322-342) for ONE (dist, pos) pair.

The three formulas are written ONCE, over any scalar type providing the operations the code uses
(`Scalar`: + - * /, `<`, `arccos`, `arcsin`, the constants 2 and π).  The native driver executes
them at `Float` (IEEE double, libm `acos/asin` — what numpy computes, compared at 1e-12 on every
run); the theorems of Props/C19Arc.lean are about the SAME definitions at `ℝ`
(instance in Proofs/Arc.lean).

No Mathlib imports: this file is compiled into the native driver.
-/
namespace TrackpyV.Arc

/-- the scalar operations used by the edge-correction code -/
class Scalar (α : Type) extends Add α, Sub α, Mul α, Div α where
  two : α
  pi : α
  acos : α → α
  asin : α → α
  /-- the comparison `a < b` of the code's masks (false on NaN) -/
  lt : α → α → Bool

open Scalar

variable {α : Type} [Scalar α]

/-- `circle_cap_arclen(h, r) = 2*r*np.arccos(h / r)` (static.py:264-267) -/
def circleCapArclen (h r : α) : α := two * r * acos (h / r)

/-- `circle_corner_arclen(h1, h2, r) = r*(np.arccos(h2 / r) - np.arcsin(h1 / r))`
(static.py:270-277): `arccos` of the SECOND argument, `arcsin` of the first -/
def circleCornerArclen (h1 h2 r : α) : α := r * (acos (h2 / r) - asin (h1 / r))

/-- one step of the first loop (static.py:328-332): `arclen[mask] -= circle_cap_arclen(h0, dist)`
with `mask = h0 < dist` -/
def capStep (r : α) (acc h0 : α) : α :=
  if lt h0 r then acc - circleCapArclen h0 r else acc

/-- one step of the second loop (static.py:334-339): `arclen[mask] += circle_corner_arclen(h[h1],
h[h2], dist)` with `mask = h[h1]**2 + h[h2]**2 < dist**2` (numpy evaluates `**2` as `x*x`) -/
def cornerStep (r : α) (acc h1 h2 : α) : α :=
  if lt (h1 * h1 + h2 * h2) (r * r) then acc + circleCornerArclen h1 h2 r else acc

/-- `arclen_2d_bounded` up to (not including) the NaN guard, on
`h = [hL, hR, hB, hT] = [x - xmin, xmax - x, y - ymin, ymax - y]` (static.py:323-339):
`2*np.pi*dist`, the four caps in the order of `h`, the four corners in the order
`[0,2], [0,3], [1,2], [1,3]` -/
def arclenRaw (hL hR hB hT r : α) : α :=
  let a := two * pi * r
  let a := capStep r a hL
  let a := capStep r a hR
  let a := capStep r a hB
  let a := capStep r a hT
  let a := cornerStep r a hL hB
  let a := cornerStep r a hL hT
  let a := cornerStep r a hR hB
  cornerStep r a hR hT

/-! ### the Float instance (what the driver runs) -/

instance : Scalar Float where
  two := 2.0
  pi := 3.141592653589793      -- np.pi
  acos := Float.acos
  asin := Float.asin
  lt a b := decide (a < b)

/-- `arclen_2d_bounded(dist, pos, box)` for one pair, `pos = (x, y)`,
`box = [[x0, x1], [y0, y1]]` (static.py:322-342), including the guard
`arclen[arclen < 10**-5 * dist] = np.nan` -/
def arclen2dBounded (dist x y x0 x1 y0 y1 : Float) : Float :=
  let a := arclenRaw (x - x0) (x1 - x) (y - y0) (y1 - y) dist
  if a < 1e-5 * dist then 0.0 / 0.0 else a

end TrackpyV.Arc
