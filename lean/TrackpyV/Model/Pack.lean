/-
Model of the parameter packing of `trackpy/refine/least_squares.py`:
`vect_from_params` (L30-100) and `vect_to_params` (L103-167).

Representation.  The 2-d array `params[feature, parameter]` is modelled by the list of its COLUMNS
(`cols[i] = params[:, i]`, each of length `n` = number of features): both functions loop over the
columns (`for i, mode in enumerate(modes)`) and only ever touch `params[:, i]` / `result[:, i]`.
`groups` is `none` (Python `None`) or the nested list `groups[mode - 3]` = list of index lists.
Exceptions (`AssertionError`, `ValueError` "groups for mode … were not provided", `min([])`) are
`none`.  Index errors of numpy (index ≥ n, empty group, vector too short) are NOT modelled: the
model uses `getD`/`set`/`take` there and the theorems carry the corresponding hypotheses
(`GroupsOK`, the length of the vector), which the driver checks at run time (`wf=`).

No Mathlib (compiled into the native driver); generic in the element type so that the same text runs
on `Int` (exact correspondence), on `Float` (inside the C15 gradient mirror) and is reasoned about
over any commutative ring / `ℝ`.
-/
namespace TrackpyV.Pack

abbrev Groups := List (List (List Nat))

/-- what the `if/elif` chain of both loops decides for a column.
mirrors least_squares.py:L72-87 and L147-162 (same tests, same order) -/
inductive Kind where
  | const                               -- mode == 0: skipped
  | all                                 -- mode == 1: one entry per feature
  | one                                 -- mode == 2 or groups is None: one entry for the column
  | grouped (gs : List (List Nat))      -- otherwise groups[mode - 3]: one entry per group
  | error                               -- IndexError/TypeError -> ValueError
  deriving Repr, DecidableEq

def kind (groups : Option Groups) (mode : Nat) : Kind :=
  if mode = 0 then .const
  else if mode = 1 then .all
  else match groups with
    | none => .one
    | some G =>
      if mode = 2 then .one
      else match G[mode - 3]? with
        | some gs => .grouped gs
        | none => .error

variable {α : Type} [Inhabited α]

/-- `operation=None`: "take the first one" (`params[0, i]`, `params[g[0], i]`) -/
def first (l : List α) : α := l.headD default

/-- `operation=np.sum` (running sum from `z` = 0): what `jacobian` packs its per-feature gradient
array with.  mirrors L339 -/
def sumOp [Add α] (z : α) (l : List α) : α := l.foldl (· + ·) z

/-- numpy fancy indexing `col[g]` -/
def gather (col : List α) (g : List Nat) : List α := g.map (fun j => col.getD j default)

/-- the entries one column contributes to the vector.  mirrors L72-96 -/
def packCol (op : List α → α) : Kind → List α → List α
  | .const, _ => []
  | .all, col => col
  | .one, col => [op col]
  | .grouped gs, col => gs.map (fun g => op (gather col g))
  | .error, _ => []

/-- loop over the columns.  mirrors L70-100 -/
def packCols (op : List α → α) (groups : Option Groups) : List Nat → List (List α) → Option (List α)
  | [], [] => some []
  | m :: ms, c :: cs =>
    match kind groups m with
    | .error => none
    | k => (packCols op groups ms cs).map (fun r => packCol op k c ++ r)
  | _, _ => none        -- assert len(modes) == n_vars

/-- `vect_from_params(params, modes, groups, operation)`; `op = first` is `operation=None`.
`modes = []` raises in `min(modes)`.  mirrors L65-100 -/
def pack (op : List α → α) (groups : Option Groups) (modes : List Nat) (cols : List (List α)) :
    Option (List α) :=
  if modes = [] then none else packCols op groups modes cols

/-- `result[group, i] = value` -/
def setAll (col : List α) (g : List Nat) (v : α) : List α := g.foldl (fun c j => c.set j v) col

/-- `for group, value in zip(groups_this, vect[...]): result[group, i] = value`.  mirrors L163-164 -/
def setGroups (col : List α) (gs : List (List Nat)) (vals : List α) : List α :=
  (gs.zip vals).foldl (fun c gv => setAll c gv.1 gv.2) col

/-- one column of `vect_to_params`: new column and the rest of the vector (`current` advanced).
mirrors L147-165 -/
def unpackCol (n : Nat) : Kind → List α → List α → List α × List α
  | .const, vect, col => (col, vect)
  | .all, vect, _ => (vect.take n, vect.drop n)
  | .one, vect, _ => (List.replicate n (vect.headD default), vect.drop 1)
  | .grouped gs, vect, col => (setGroups col gs (vect.take gs.length), vect.drop gs.length)
  | .error, vect, col => (col, vect)

def unpackCols (n : Nat) (groups : Option Groups) :
    List Nat → List α → List (List α) → Option (List (List α))
  | [], _, [] => some []
  | m :: ms, vect, c :: cs =>
    match kind groups m with
    | .error => none
    | k =>
      let r := unpackCol n k vect c
      (unpackCols n groups ms r.2 cs).map (fun cs' => r.1 :: cs')
  | _, _, _ => none

/-- `vect_to_params(vect, params, modes, groups)` with `n = params.shape[0]`.  mirrors L139-167 -/
def unpack (n : Nat) (groups : Option Groups) (modes : List Nat) (vect : List α)
    (cols : List (List α)) : Option (List (List α)) :=
  if modes = [] then none else unpackCols n groups modes vect cols

/-- number of vector entries of one column -/
def kindLen (n : Nat) : Kind → Nat
  | .const => 0
  | .all => n
  | .one => 1
  | .grouped gs => gs.length
  | .error => 0

/-- length of the optimisation vector -/
def packedLen (n : Nat) (groups : Option Groups) (modes : List Nat) : Nat :=
  (modes.map (fun m => kindLen n (kind groups m))).sum

/-! ### run-time checkable well-formedness (hypotheses of the theorems) -/

/-- one group list: indices in range, no index twice inside a group, groups pairwise disjoint,
no empty group -/
def groupListOK (n : Nat) (gs : List (List Nat)) : Bool :=
  gs.all (fun g => !g.isEmpty && g.all (· < n) && g.Nodup) &&
  gs.Pairwise (fun g h => g.all (fun j => !h.contains j))

def kindOK (n : Nat) : Kind → Bool
  | .grouped gs => groupListOK n gs
  | .error => false
  | _ => true

/-- every mode has usable groups -/
def modesOK (n : Nat) (groups : Option Groups) (modes : List Nat) : Bool :=
  modes.all (fun m => kindOK n (kind groups m))

def shapeOK (n : Nat) (cols : List (List α)) : Bool := cols.all (fun c => c.length == n)

end TrackpyV.Pack
