import TrackpyV.Model.FindLinkAlgo
/-!
Decidable side condition of the optimality-mode acceptance theorem for the FindLinker step model
(`Props/C14Opt.flAlgo_accepted_opt_partial`), evaluated by the driver on every step (op FLSTEP,
field `local`).

`merge_lost_subnets` (subnet.py:440-477) merges around LOST sources only, `add_dest_points`
(subnet.py:383-424) admits a relocated feature that is within range of ANY source of the merged
sub-net.  A feature admitted through a non-lost member can therefore be within range of a source
of ANOTHER sub-net, which never gets it as a candidate: then the links are not a minimum-cost
assignment on the emitted level (`Props/C14Opt.flAlgo_opt_witness`).  `addedLocalB` says that this
did not happen.

No Mathlib import: compiled into the native driver.
-/
namespace TrackpyV.FindLink
open TrackpyV.Linker

/-- source number `i` has `q` within search range (edge included, as `Linker.candsOfRow`) -/
def seesB (cfg : Cfg) (st : State) (t : Int) (i : Nat) (q : Pos) : Bool :=
  decide (dist2 cfg.w (viewOf cfg st t i) q ≤ cfg.B)

/-- every feature of `lvl` beyond the first `n0` (the ADDED ones) is local: all sources that have
it within range belong to ONE sub-net of `groups` -/
def addedLocalB (cfg : Cfg) (st : State) (t : Int) (groups : List Group) (n0 : Nat)
    (lvl : List Pos) : Bool :=
  (lvl.drop n0).all (fun q => groups.any (fun g =>
    (List.range st.srcs.length).all (fun i => !(seesB cfg st t i q) || g.1.contains i)))

end TrackpyV.FindLink
