import TrackpyV.Model.Bounds
/-
Model of the control flow of `trackpy/refine/least_squares.py: refine_leastsq` (main loop
L831-939, `prepare_subimage(s)` L414-458 as far as it can FAIL, `masks.get_slice` L96-121 for the
"inside the image" test).  The optimiser `scipy.optimize.minimize` is a PARAMETER
`opt : Problem → OptOut`; nothing is assumed about it in this file.  No Mathlib.

The table `f` is stored column-major: one `List (Option Rat)` per fit parameter (`none` = NaN /
non-finite), plus the `cost` column.  Every other column of `f` is never written by the loop (the
harness checks that directly).  Clusters are lists of positional row indices, in the order in which
`f.groupby(['frame', 'cluster'])` yields them (the clustering itself is `static.cluster`, C19).
-/
namespace TrackpyV.Bounds

/-- a cell of the `cost` column: absent so far / NaN / a value -/
inductive Cost where
  | unset | nan | val (r : Rat)
deriving Repr, DecidableEq

structure Table where
  cols : List (List (Option Rat))
  cost : List Cost
deriving Repr, DecidableEq

/-- what the optimiser is asked -/
structure Problem where
  tag : Nat                      -- which iteration of the outer loop (cluster number; 0 if global)
  round : Nat                    -- `_n_iter`
  x0 : List Rat                  -- `vect` (never updated between rounds, L849/860)
  bounds : List (B × B)          -- `f_bounds` (computed once from the initial parameters, L853)
  coords : List (List Rat)       -- centres of the sub-images of this round (ndim columns)
deriving Repr

/-- what `minimize` (+ the residual closures it calls) can do -/
inductive OptOut where
  /-- `result['success']` false, or a `RefineException` raised inside residual/jacobian -/
  | fail
  /-- any other exception (e.g. scipy's `ValueError`) -/
  | raise
  /-- success: `result['x']`, and `rms_dev = sqrt(result['fun'] / residual_factor)` (`none` = NaN) -/
  | ok (x : List Rat) (dev : Option Rat)
  /-- success reported with an all-NaN `result['x']` -/
  | nanx (dev : Option Rat)
deriving Repr

structure Cfg where
  specs : List Spec              -- `bounds = ff.validate_bounds(bounds, radius)` (L800)
  modes : List Nat               -- `ff.modes`, all ≤ 3
  ndim : Nat
  shape : List Int               -- image shape
  radius : List Int              -- `tuple(x // 2 for x in diameter)` (L771)
  maxIter : Nat
  maxShift : Rat
  maxDev : Rat
  /-- `true`: the loop itself turns `lb > ub` into a failed fit (repaired code);
      `false`: the bounds go to `minimize` unchecked (code as found) -/
  feasCheck : Bool
deriving Repr

/-- result of fitting one block -/
inductive Outcome where
  | failed                                              -- `except RefineException`
  | fitted (block : List (List (Option Rat))) (dev : Option Rat)   -- `else:` branch
deriving Repr

/-- the model's image of an exception leaving `refine_leastsq` -/
inductive Err where
  | optimiserRaised      -- an exception other than RefineException came out of `minimize`
  | unboundRmsDev        -- `max_iter = 0`: `rms_dev` is read before assignment (L878)
deriving Repr, DecidableEq

/-- `np.round` (round half to even) -/
def roundHalfEven (r : Rat) : Int :=
  let f := r.floor
  let d := r - (f : Rat)
  if d < 1 / 2 then f
  else if 1 / 2 < d then f + 1
  else if f % 2 = 0 then f else f + 1

/-- mirrors masks.py:101-104: a feature is kept iff on every axis
`round(c) >= -r` and `round(c) < shape + r` -/
def inImage : List Int → List Int → List Rat → Bool
  | sh :: shs, r :: rs, c :: cs =>
    decide (-r ≤ roundHalfEven c) && decide (roundHalfEven c < sh + r) && inImage shs rs cs
  | _, _, _ => true

/-- coordinates of feature `i` -/
def coordOf (coords : List (List Rat)) (i : Nat) : List Rat := coords.map (·.getD i 0)

/-- mirrors least_squares.py:441-458 + 418-420: `prepare_subimage` raises RefineException iff no
feature of the cluster is left by `get_slice`; it is called once per cluster -/
def prepOK (cfg : Cfg) (pgroups : List (List Nat)) (coords : List (List Rat)) : Bool :=
  pgroups.all (fun g => g.any (fun i => inImage cfg.shape cfg.radius (coordOf coords i)))

/-- `params[:, 2:2+ndim]` -/
def coordCols {α} (ndim : Nat) (block : List (List α)) : List (List α) := (block.drop 2).take ndim

/-- squared shift of feature `i` -/
def shift2 (new old : List (List Rat)) (i : Nat) : Rat :=
  ((List.zipWith (fun a b => (a.getD i 0 - b.getD i 0) * (a.getD i 0 - b.getD i 0)) new old)).sum

/-- mirrors least_squares.py:871 `np.all(np.sum((new_coords - coords)**2, 1) < max_shift**2)` -/
def shiftOK (cfg : Cfg) (n : Nat) (new old : List (List Rat)) : Bool :=
  (List.range n).all (fun i => decide (shift2 new old i < cfg.maxShift * cfg.maxShift))

/-- mirrors least_squares.py:878-881 and the `else:` branch: NaN compares False, so a NaN deviation
is accepted -/
def finish (cfg : Cfg) (block : List (List (Option Rat))) (dev : Option Rat) : Outcome :=
  match dev with
  | some d => if cfg.maxDev < d then .failed else .fitted block dev
  | none => .fitted block dev

/-- an all-NaN `x` unpacked: every non-constant column becomes NaN -/
def nanBlock (modes : List Nat) (block : List (List Rat)) : List (List (Option Rat)) :=
  List.zipWith (fun m c => if m = 0 then c.map some else c.map (fun _ => none)) modes block

def someBlock (block : List (List Rat)) : List (List (Option Rat)) := block.map (·.map some)

/-- `true` iff all position columns are constant (then NaN parameters leave the coordinates alone) -/
def posConst (cfg : Cfg) : Bool := ((cfg.modes.drop 2).take cfg.ndim).all (fun m => decide (m = 0))

/-- mirrors least_squares.py:854-875 (the `for _n_iter in range(max_iter)` loop) followed by
L878-881.  `fuel` = rounds left, `k` = `_n_iter`. -/
def rounds (cfg : Cfg) (opt : Problem → OptOut) (groups : Option (List (List Nat)))
    (pgroups : List (List Nat)) (pb : Problem) (n : Nat) :
    Nat → Nat → List (List Rat) → List (List Rat) → Except Err Outcome
  | 0, _, _, _ => .error .unboundRmsDev
  | fuel + 1, k, coords, block =>
    if !prepOK cfg pgroups coords then .ok .failed
    else match opt { pb with round := k, coords := coords } with
      | .fail => .ok .failed
      | .raise => .error .optimiserRaised
      | .nanx dev =>
        -- NaN coordinates: the shift test is False; the next `prepare_subimage` finds no feature
        if posConst cfg then .ok (finish cfg (nanBlock cfg.modes block) dev)
        else if fuel = 0 then .ok (finish cfg (nanBlock cfg.modes block) dev)
        else .ok .failed
      | .ok x dev =>
        let block' := unpackCols groups cfg.modes x block
        let new := coordCols cfg.ndim block'
        if shiftOK cfg n new coords then .ok (finish cfg (someBlock block') dev)
        else if fuel = 0 then .ok (finish cfg (someBlock block') dev)
        else rounds cfg opt groups pgroups pb n fuel (k + 1) new block'

/-- all cells finite? (`np.isfinite(params).all()`, L844) -/
def allFinite (block : List (List (Option Rat))) : Option (List (List Rat)) :=
  block.mapM (fun c => c.mapM id)

/-- mirrors least_squares.py:843-881: the `try:` body for one block of `n` features -/
def fitBlock (cfg : Cfg) (opt : Problem → OptOut) (groups : Option (List (List Nat)))
    (pgroups : List (List Nat)) (tag n : Nat) (blockO : List (List (Option Rat))) :
    Except Err Outcome :=
  match allFinite blockO with
  | none => .ok .failed
  | some block =>
    let x0 := packCols mean groups cfg.modes block
    let bnds := computeBounds cfg.specs cfg.modes groups block
    if cfg.feasCheck && infeasible bnds then .ok .failed
    else
      rounds cfg opt groups pgroups
        { tag := tag, round := 0, x0 := x0, bounds := bnds, coords := [] } n
        cfg.maxIter 0 (coordCols cfg.ndim block) block

/-! ## reading a block out of the table and writing it back -/

def gather {α} (dflt : α) (c : List α) (idx : List Nat) : List α := idx.map (c.getD · dflt)

/-- `f.loc[f_iter.index, col] = values` (positional image: the index labels are unique) -/
def scatter {α} : List α → List Nat → List α → List α
  | c, i :: is, v :: vs => scatter (c.set i v) is vs
  | c, _, _ => c

def extract (t : Table) (idx : List Nat) : List (List (Option Rat)) :=
  t.cols.map (fun c => gather none c idx)

def costOf : Option Rat → Cost
  | none => .nan
  | some r => .val r

/-- mirrors least_squares.py:895-917 (cluster level): on failure ONLY `cost := NaN` for the rows of
the block; on success parameters and cost -/
def writeBack (t : Table) (idx : List Nat) : Outcome → Table
  | .failed => { t with cost := scatter t.cost idx (idx.map (fun _ => Cost.nan)) }
  | .fitted block dev =>
    { cols := List.zipWith (fun c b => scatter c idx b) t.cols block,
      cost := scatter t.cost idx (idx.map (fun _ => costOf dev)) }

/-- one iteration of `for _, f_iter in iterable` at cluster level -/
def stepCluster (cfg : Cfg) (opt : Problem → OptOut) (t : Table) (tag : Nat) (idx : List Nat) :
    Except Err Table :=
  match fitBlock cfg opt none [List.range idx.length] tag idx.length (extract t idx) with
  | .error e => .error e
  | .ok o => .ok (writeBack t idx o)

/-- mirrors the loop L831-939 at level 'cluster' -/
def refineClusters (cfg : Cfg) (opt : Problem → OptOut) :
    Table → Nat → List (List Nat) → Except Err Table
  | t, _, [] => .ok t
  | t, tag, idx :: rest =>
    match stepCluster cfg opt t tag idx with
    | .error e => .error e
    | .ok t' => refineClusters cfg opt t' (tag + 1) rest

/-- mirrors the loop at level 'global' (`iterable = [(None, f)]`): one block with every row;
`groups[0]` = the clusters; on failure `f['cost'] = np.nan` for ALL rows -/
def refineGlobal (cfg : Cfg) (opt : Problem → OptOut) (t : Table) (clusters : List (List Nat)) :
    Except Err Table :=
  let idx := List.range t.cost.length
  match fitBlock cfg opt (some clusters) clusters 0 idx.length (extract t idx) with
  | .error e => .error e
  | .ok o => .ok (writeBack t idx o)

/-- mirrors least_squares.py:803-828: `level = 'global'` iff some mode is 2 -/
def refineCtl (cfg : Cfg) (opt : Problem → OptOut) (t : Table) (clusters : List (List Nat)) :
    Except Err Table :=
  if cfg.modes.any (fun m => decide (m = 2)) then refineGlobal cfg opt t clusters
  else refineClusters cfg opt t 0 clusters

end TrackpyV.Bounds
