/-
Executable model of trackpy/motion.py: msd, _msd_N, _msd_iter, _msd_gaps, _msd_fft, imsd, emsd
(lines 10-243), AS REPAIRED by repo-fixes/C17-msd-order-nan-emsd-weights.patch:
  * `msd` first sorts the rows by frame (stable argsort),
  * the gaps path sums the `<c^2>` columns with `skipna=False` (a lag without any pair stays NaN),
  * `emsd` normalises the weighted sum by the weights of the particles that have a value.
Numbers are exact rationals, NaN is `none`.  No Mathlib (compiled into the native driver).

The specification (`diffs`, `dispDef`, `sqDef`, `msdDef`) is at the top; everything below it
mirrors the code.  `np.fft` is replaced by what it is trusted to compute (`autocorr`), `np.cumsum`
by its definition (`prefixSum`), pandas `reindex` / `groupby` by list look-ups.
-/
namespace TrackpyV.MSD

/-- one coordinate of one trajectory: (frame, position) -/
abbrev Row := Int × Rat
/-- a row of a trajectory table: (frame, position vector) -/
abbrev FullRow := Int × List Rat

def sq (x : Rat) : Rat := x * x

/-- `np.nanmean` of the non-NaN values `l` (NaN when there are none) -/
def meanOpt (l : List Rat) : Option Rat :=
  if l.length = 0 then none else some (l.sum / (l.length : Rat))

/-! ## Specification (written from the property statement) -/

/-- displacements `x_b - x_a` of ALL ordered pairs of observations `(a, b)` of the trajectory with
`frame_b - frame_a = lag` -/
def diffs (rows : List Row) (lag : Nat) : List Rat :=
  rows.flatMap fun a => (rows.filter fun b => b.1 - a.1 == (lag : Int)).map fun b => b.2 - a.2

/-- mean displacement at `lag` (`none` = NaN when no pair exists) -/
def dispDef (rows : List Row) (lag : Nat) : Option Rat := meanOpt (diffs rows lag)
/-- mean squared displacement at `lag` of one coordinate -/
def sqDef (rows : List Row) (lag : Nat) : Option Rat := meanOpt ((diffs rows lag).map sq)

/-- coordinate `c` of a table, in microns: mirrors `traj[pos_columns].values * mpp` -/
def coord (mpp : Rat) (c : Nat) (rows : List FullRow) : List Row :=
  rows.map fun r => (r.1, r.2.getD c 0 * mpp)

/-- sum of a row of cells with `skipna=False`: NaN as soon as one cell is NaN -/
def sumOpt : List (Option Rat) → Option Rat
  | [] => some 0
  | x :: xs => match x, sumOpt xs with
    | some a, some b => some (a + b)
    | _, _ => none

/-- the `msd` statistic of a `d`-dimensional trajectory at `lag`: the per-coordinate mean squared
displacements (over the same set of pairs) added up -/
def msdDef (mpp : Rat) (d : Nat) (rows : List FullRow) (lag : Nat) : Option Rat :=
  sumOpt ((List.range d).map fun c => sqDef (coord mpp c rows) lag)

/-! ## `_msd_N`  (motion.py:48-69) -/

/-- mirrors motion.py:66-69 (`np.where(t > N/2, …, …)`), exact -/
def msdN (N t : Nat) : Rat :=
  let n : Rat := N
  let t' : Rat := t
  if n / 2 < t' then
    1 / (1 + ((n - t') * (n - t') * (n - t') + 5 * t' - 4 * ((n - t') * (n - t')) * t' - n)
              / (6 * (n - t') * (t' * t')))
  else
    6 * ((n - t') * (n - t')) * t' / (2 * n - t' + 4 * n * (t' * t') - 5 * (t' * t' * t'))

/-! ## `_msd_fft`  (motion.py:121-164), one coordinate -/

/-- `np.cumsum(l)[k-1]` -/
def prefixSum (l : List Rat) (k : Nat) : Rat := (l.take k).sum

/-- what `np.fft.ifft(F * conj F)[m].real` with zero padding to `2N` is trusted to compute:
the autocorrelation `Σ_i r_i r_{i+m}` (motion.py:149-152) -/
def autocorr (r : List Rat) (m : Nat) : Rat := (List.zipWith (· * ·) r (r.drop m)).sum

/-- row `m` (lag `m`, `1 ≤ m ≤ L`) of `disp` and `squared_disp`; mirrors motion.py:139-154 with
`L = max_lagtime` (already clipped to `N-1`) -/
def fftRow (r : List Rat) (L m : Nat) : Rat × Rat :=
  let N : Rat := r.length
  -- L142  r_diff = r[:-max_lagtime-1:-1] - r[:max_lagtime]
  let rdiff := List.zipWith (· - ·) (r.reverse.take L) (r.take L)
  -- L146-148
  let D := r.map sq
  let Dsum := List.zipWith (· + ·) (D.take L) (D.reverse.take L)
  let S1 := 2 * D.sum - prefixSum Dsum m
  let S2 := autocorr r m
  -- L143, L153-154
  (prefixSum rdiff m / (N - (m : Rat)), (S1 - 2 * S2) / (N - (m : Rat)))

/-! ## `_msd_gaps` / `_msd_iter`  (motion.py:72-118), one coordinate -/

/-- `pos.reindex(np.arange(f0, f0+n))`: value of the (first) row with that frame, NaN in the gaps -/
def look (rows : List Row) (f : Int) : Option Rat := (rows.find? fun r => r.1 == f).map (·.2)

def reindex (rows : List Row) (f0 : Int) (n : Nat) : List (Option Rat) :=
  (List.range n).map fun (k : Nat) => look rows (f0 + (k : Int))

/-- NaN-propagating subtraction -/
def optSub : Option Rat → Option Rat → Option Rat
  | some b, some a => some (b - a)
  | _, _ => none

/-- the non-NaN entries of `pos[lt:] - pos[:-lt]` (motion.py:76) -/
def gapVals (pos : List (Option Rat)) (lt : Nat) : List Rat :=
  (List.zipWith optSub (pos.drop lt) pos).filterMap id

/-- `np.nanmean(diff)`, `np.nanmean(diff**2)` (motion.py:77-78) -/
def gapsRow (pos : List (Option Rat)) (lt : Nat) : Option Rat × Option Rat :=
  (meanOpt (gapVals pos lt), meanOpt ((gapVals pos lt).map sq))

/-! ## `msd`  (motion.py:10-45 + the two paths) -/

structure Out where
  lag : Nat
  lagt : Rat
  disp : List (Option Rat)
  sqd : List (Option Rat)
  msd : Option Rat
  n : Rat
deriving Repr, BEq, DecidableEq

/-- stable sort by frame: the repaired `msd` starts with
`traj.iloc[np.argsort(traj['frame'].values, kind='stable')]` -/
def sortRows (rows : List FullRow) : List FullRow := rows.mergeSort fun a b => decide (a.1 ≤ b.1)

def fftOut (s : List FullRow) (d : Nat) (mpp fps : Rat) (maxLag : Nat) : List Out :=
  let N := s.length
  let L := min maxLag (N - 1)                               -- L137
  (List.range L).map fun i =>
    let m := i + 1
    let cols := (List.range d).map fun c => fftRow ((coord mpp c s).map (·.2)) L m
    let sqd := cols.map fun x => some x.2
    { lag := m, lagt := (m : Rat) / fps,                     -- L161
      disp := cols.map fun x => some x.1, sqd := sqd,
      msd := some ((cols.map (·.2)).sum),                    -- L158 squared_disp.sum(axis=1)
      n := msdN N m }                                        -- L160

def gapsOut (s : List FullRow) (f0 : Int) (n : Nat) (d : Nat) (mpp fps : Rat) (maxLag : Nat) :
    List Out :=
  let L := min maxLag (n - 1)                               -- L105
  (List.range L).map fun i =>
    let m := i + 1
    let cols := (List.range d).map fun c => gapsRow (reindex (coord mpp c s) f0 n) m
    let sqd := cols.map (·.2)
    { lag := m, lagt := (m : Rat) / fps,                     -- L116
      disp := cols.map (·.1), sqd := sqd,
      msd := sumOpt sqd,                                     -- L111 repaired: sum(axis=1, skipna=False)
      n := msdN n m * (s.length : Rat) / (n : Rat) }         -- L115

/-- mirrors motion.py:40-45 after the sort.  `traj['frame'].min()/.max()` of the sorted column are
its first / last entries (`pos.index[0]`, `pos.index[-1]` in `_msd_gaps`). -/
def msd (rows : List FullRow) (d : Nat) (mpp fps : Rat) (maxLag : Nat) : List Out :=
  let s := sortRows rows
  match s.head?, s.getLast? with
  | some a, some z =>
    let n := (z.1 - a.1).toNat + 1
    if n = s.length then fftOut s d mpp fps maxLag
    else gapsOut s a.1 n d mpp fps maxLag
  | _, _ => []

/-- which path `msd` takes (reported by the driver for the coverage counters) -/
def isContiguous (rows : List FullRow) : Bool :=
  let s := sortRows rows
  match s.head?, s.getLast? with
  | some a, some z => (z.1 - a.1).toNat + 1 == s.length
  | _, _ => true

/-! ## `imsd` / `emsd`  (motion.py:167-243) -/

/-- a row of a multi-particle table: (particle, frame, position vector) -/
abbrev PRow := Nat × Int × List Rat

def insertSorted (x : Nat) : List Nat → List Nat
  | [] => [x]
  | y :: ys => if x < y then x :: y :: ys else if x = y then y :: ys else y :: insertSorted x ys

/-- `groupby('particle')` keys: distinct, ascending -/
def particleIds (t : List PRow) : List Nat := t.foldr (fun r acc => insertSorted r.1 acc) []

def rowsOf (t : List PRow) (p : Nat) : List FullRow := (t.filter fun r => r.1 == p).map (·.2)

/-- `msd` of every particle (the list `msds` of motion.py:194-196 / 231-233) -/
def perParticle (t : List PRow) (d : Nat) (mpp fps : Rat) (maxLag : Nat) : List (Nat × List Out) :=
  (particleIds t).map fun p => (p, msd (rowsOf t p) d mpp fps maxLag)

/-- lags present in the concatenated table (index level after `unstack` / `groupby(level=1)`) -/
def lagCount (per : List (Nat × List Out)) : Nat := (per.map fun x => x.2.length).foldl max 0

def rowAt (outs : List Out) (lag : Nat) : Option Out := outs.find? fun o => o.lag == lag

/-- `imsd` cell (lag, particle) for a statistic `col`: the particle's own `msd` row, NaN when the
particle has no row at that lag (`unstack`) — motion.py:197-199 -/
def imsdCell (per : List (Nat × List Out)) (col : Out → Option Rat) (p lag : Nat) : Option Rat :=
  match per.lookup p with
  | some outs => (rowAt outs lag).bind col
  | none => none

/-- the (weight, value) pairs entering `emsd` at `lag` for column `col`: particles that have a row at
the lag AND a non-NaN value there (`sum(min_count=1)` skips NaN; `notna()*N` zeroes their weight) -/
def contrib (per : List (Nat × List Out)) (col : Out → Option Rat) (lag : Nat) : List (Rat × Rat) :=
  per.filterMap fun x => (rowAt x.2 lag).bind fun o => (col o).map fun v => (o.n, v)

/-- repaired motion.py:235-236: `Σ N·v / Σ N` over the contributing particles, NaN if none -/
def emsdAt (per : List (Nat × List Out)) (col : Out → Option Rat) (lag : Nat) : Option Rat :=
  let c := contrib per col lag
  if c.length = 0 then none
  else some ((c.map fun x => x.1 * x.2).sum / (c.map (·.1)).sum)

/-- motion.py:242 `msds['N'].groupby(level=1).sum()`: over every particle with a row at the lag -/
def emsdN (per : List (Nat × List Out)) (lag : Nat) : Rat :=
  (per.filterMap fun x => (rowAt x.2 lag).map (·.n)).sum

end TrackpyV.MSD
