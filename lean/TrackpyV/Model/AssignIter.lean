import TrackpyV.Model.Assign
/-
Models of the two ITERATIVE sub-net solvers of `trackpy/linking/subnetlinker.py`:

* `nstep` / `nrun` / `nonrecLoop`   mirror `nonrecursive_link` (subnetlinker.py:86-170): explicit stack
  `j, k_stack, cur_sum_stack, cur_back`, running optimum `best_sum/best_back`.
* `mstep` / `mrun` / `numbaLoop` mirror `_numba_subnet_norecur` (subnetlinker.py:237-327): arrays
  `tmp_assignments, cur_sums, cur_assignments, best_assignments`, scalar `best_sum`, `loopcount`.
* `numbaLink` mirrors the wrapper `numba_link` (subnetlinker.py:173-235): size caps, then the loop
  on the sources IN THE ORDER GIVEN (no sort), `nonrecLink` the head of `nonrecursive_link`
  (stable sort by number of candidates, then the loop).

One record per loop iteration, one `step` per iteration, run with fuel.  The order of the tests and
the strictness of every comparison are those of the code.  Input format = that of `solveOrdered`
(`List Src`, the null candidate is the last entry of every list).  Costs are exact naturals.

Deviations, all stated here:
* `cur_back` holds `cur_d`; the model keeps the whole candidate `(cur_d, cost)` so that `best_back`
  has the type of `solveOrdered`'s answer; the test `cur_d in cur_back` looks at first components.
* destination objects / integer column indices of `candsarray` are the model's destination ids,
  `None` / `-1` is `none` (`numba_link` builds a bijection `dcands_map`).
* `best_sum = 1.0e23` of the numba kernel is modelled as `+∞` (`none`): assumes total cost < 1e23.
* columns `≥ ncands[j]` of `candsarray/dists2array` (padding) are never read: the loop tests
  `i >= ncands[j]` first; the model reads `row.getD i` only under `i < row.length`.
* with an empty source list `nonrecursive_link` raises IndexError (`cur_back.pop()` on an empty
  deque) and the numba kernel indexes an empty array: `nonrecLoop [] = numbaLoop [] = none`.

No Mathlib imports: this file is compiled into the native driver.
-/
namespace TrackpyV.Assign

/-! ## shared: an a-priori bound on the number of loop iterations -/

/-- `levelBound rest` bounds the iterations spent below a level whose later sources are `rest`:
one iteration for the base case / exhaustion, and per candidate one iteration to take it plus
everything below. -/
def levelBound : List Src → Nat
  | [] => 1
  | s :: rest => 1 + s.length * (1 + levelBound rest)

/-! ## `nonrecursive_link` -/

/-- loop state of `nonrecursive_link`; stacks `ks`, `sums` have their top at the head; `back`
(`cur_back`) is kept bottom-to-top, i.e. in source order, as `list(cur_back)` reads it -/
structure NState where
  j : Int
  ks : List Nat
  sums : List Nat
  back : List Cand
  best : Best
deriving Repr, DecidableEq

/-- `cur_d is not None and cur_d in cur_back` -/
def inBack (d : Option Nat) (back : List Cand) : Bool :=
  match d with
  | none => false
  | some x => back.any (fun e => e.1 == some x)

/-- the three identical blocks `j -= 1; k_stack.pop(); cur_sum_stack.pop(); if j >= 0: cur_back.pop()`
(subnetlinker.py:129-133, 144-148) -/
def npop (st : NState) : NState :=
  let j' := st.j - 1
  { st with j := j', ks := st.ks.tail, sums := st.sums.tail,
            back := if j' ≥ 0 then st.back.dropLast else st.back }

/-- one iteration of `while j >= 0:` (subnetlinker.py:106-168) -/
def nstep (cl : List Src) (st : NState) : NState :=
  let cur_sum := st.sums.headD 0                                   -- cur_sum_stack[-1]
  if st.j ≥ (cl.length : Int) then                                 -- `if j >= MAX:` base case
    let best' := if better cur_sum st.best then some (cur_sum, st.back) else st.best
    { j := st.j - 1, ks := st.ks.tail, sums := st.sums.tail, back := st.back.dropLast,
      best := best' }                                              -- unconditional cur_back.pop()
  else
    let k := st.ks.headD 0                                         -- k_stack[-1]
    let row := cl.getD st.j.toNat []
    if k ≥ row.length then npop st                                 -- `if k >= cand_lens[j]`
    else
      let dc := row.getD k (none, 0)
      let tmp_sum := cur_sum + dc.2
      if exceeds tmp_sum st.best then npop st                      -- `if tmp_sum > best_sum`
      else
        let ks' := (k + 1) :: st.ks.tail                           -- `k_stack[-1] += 1`
        if inBack dc.1 st.back then { st with ks := ks' }          -- `continue`
        else
          { j := st.j + 1, ks := 0 :: ks', sums := tmp_sum :: st.sums,
            back := st.back ++ [dc], best := st.best }

/-- `while j >= 0` with fuel; returns the final state and the UNUSED fuel -/
def nrun (cl : List Src) : Nat → NState → NState × Nat
  | 0, st => (st, 0)
  | f + 1, st => if st.j < 0 then (st, f + 1) else nrun cl f (nstep cl st)

/-- initial state: `k_stack = [0]; j = 0; cur_back = []; cur_sum_stack = [0]; best_sum = inf` -/
def ninit : NState := { j := 0, ks := [0], sums := [0], back := [], best := none }

/-- the loop of `nonrecursive_link` on candidate lists already in loop order; answer
`(best_sum, best_back)` and the number of iterations.  `none` when the fuel ran out (proved
unreachable with `fuel = levelBound cl`, theorem `nonrec_fuel`). -/
def nonrecFuel (fuel : Nat) (cl : List Src) : Option (Best × Nat) :=
  match cl with
  | [] => none
  | _ =>
    let r := nrun cl fuel ninit
    if r.1.j < 0 then some (r.1.best, fuel - r.2) else none

def nonrecLoop (cl : List Src) : Best :=
  match nonrecFuel (levelBound cl) cl with
  | some (b, _) => b
  | none => none

/-- `nonrecursive_link`: `source_list.sort(key=lambda x: len(x.forward_cands))` then the loop -/
def nonrecLink (srcs : List Src) : Best := nonrecLoop (sortByLen srcs)

/-! ## `_numba_subnet_norecur` -/

/-- loop state of `_numba_subnet_norecur` (arrays as lists of length `nj`) -/
structure MState where
  j : Nat
  tmpAsg : List Nat               -- tmp_assignments
  curSums : List Nat              -- cur_sums
  curAsg : List (Option Nat)      -- cur_assignments (`-1` = none)
  bestSum : Option Nat            -- best_sum (`1e23` = none)
  bestAsg : List (Option Nat)     -- best_assignments
  loopcount : Nat
  halted : Bool                   -- `return loopcount` executed
deriving Repr, DecidableEq

/-- `tmp_sum > best_sum` -/
def exceedsS (tmp : Nat) (bs : Option Nat) : Bool :=
  match bs with
  | none => false
  | some s => decide (tmp > s)

/-- subnetlinker.py:286-291: `flag = 0; for jtmp in range(nj): if cur_assignments[jtmp] ==
candsarray[j, i]: if jtmp < j: flag = 1` and then `flag and candsarray[j, i] >= 0` -/
def usedAbove (curAsg : List (Option Nat)) (nj j : Nat) (d : Option Nat) : Bool :=
  (List.range nj).any (fun jt => (curAsg.getD jt none == d) && decide (jt < j)) && d.isSome

/-- the block `if delta == -1:` (subnetlinker.py:315-321) -/
def goUp (st : MState) : MState :=
  if st.j > 0 then
    { st with j := st.j - 1,
              tmpAsg := st.tmpAsg.set (st.j - 1) (st.tmpAsg.getD (st.j - 1) 0 + 1) }
  else { st with halted := true }

/-- one iteration of `while 1:` (subnetlinker.py:254-327) -/
def mstep (cl : List Src) (st0 : MState) : MState :=
  let nj := cl.length
  let st := { st0 with loopcount := st0.loopcount + 1 }
  let i := st.tmpAsg.getD st.j 0
  let row := cl.getD st.j []
  if i ≥ row.length then goUp st                                   -- `if i >= ncands[j]`
  else
    let dc := row.getD i (none, 0)
    let tmp_sum := st.curSums.getD st.j 0 + dc.2
    if exceedsS tmp_sum st.bestSum then goUp st                    -- `if tmp_sum > best_sum`
    else if usedAbove st.curAsg nj st.j dc.1 then
      { st with tmpAsg := st.tmpAsg.set st.j (i + 1) }             -- delta = 0
    else
      let ca := st.curAsg.set st.j dc.1                            -- cur_assignments[j] = ...
      if st.j + 1 = nj then
        -- new optimum, UNCONDITIONALLY (we only know `tmp_sum <= best_sum`); copy; GO UP
        goUp { st with curAsg := ca, bestSum := some tmp_sum, bestAsg := ca }
      else                                                         -- GO DOWN
        { st with j := st.j + 1, curAsg := ca,
                  curSums := st.curSums.set (st.j + 1) tmp_sum,
                  tmpAsg := st.tmpAsg.set (st.j + 1) 0 }

def mrun (cl : List Src) : Nat → MState → MState
  | 0, st => st
  | f + 1, st => if st.halted then st else mrun cl f (mstep cl st)

/-- the arrays as `numba_link` allocates them (subnetlinker.py:220-223), `j = 0`, `loopcount = 0` -/
def minit (nj : Nat) : MState :=
  { j := 0, tmpAsg := List.replicate nj 0, curSums := List.replicate nj 0,
    curAsg := List.replicate nj none, bestSum := none, bestAsg := List.replicate nj none,
    loopcount := 0, halted := false }

/-- result of the kernel: `(best_sum, best_assignments, loopcount)`; `none` = fuel exhausted
(unreachable with `fuel = levelBound cl`, theorem `numba_fuel`) or empty input -/
def numbaFuel (fuel : Nat) (cl : List Src) : Option (Option Nat × List (Option Nat) × Nat) :=
  match cl with
  | [] => none
  | _ =>
    let r := mrun cl fuel (minit cl.length)
    if r.halted then some (r.bestSum, r.bestAsg, r.loopcount) else none

def numbaLoop (cl : List Src) : Option (Option Nat × List (Option Nat) × Nat) :=
  numbaFuel (levelBound cl) cl

/-- `max_candidates = 9` (subnetlinker.py:185, 207-209) -/
def numbaCapOK (cl : List Src) : Bool := cl.all (fun s => decide (s.length ≤ 9))

end TrackpyV.Assign
