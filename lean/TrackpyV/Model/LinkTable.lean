/-!
Model of the DataFrame adapters of the linker (C01, last sentence of the property):

* `trackpy.linking.linking.link`           (linking.py:179-196)  → `linkTable`
* `trackpy.linking.linking.link_df_iter`   (linking.py:266-281)  → `linkDfIter`
* `trackpy.linking.utils.coords_from_df`   (utils.py:33-58)      → `coordsFromDf`
* `trackpy.linking.utils.coords_from_df_iter` (utils.py:61-70)   → `coordsFromDfIter`
* `trackpy.utils.pandas_sort`              (utils.py:277-295)    → the sort permutation `σ`

A table is a list of rows.  A row carries its index value (an integer token: the harness maps
index labels — ints or strings, duplicates allowed — to integers), the frame number *as given*
(an exact rational: integer or float column), the integer coordinates and one token standing for
all other columns ("payload"; the generator makes it unique per row so that row identity is
observable).

What is assumed about pandas (nothing else):
* `Series.astype(np.int64)` on a float column truncates every finite value toward zero (C cast;
  observed with pandas 3.0 / numpy 2.5: `[2.7, -2.7, -0.5] → [2, -2, 0]`) and is the identity on a
  column that is already of integer dtype (the code skips the cast then).  Non-finite frames make
  `astype` raise; |frame| ≥ 2⁶³ wraps: both are outside the model (frames are exact rationals).
* `DataFrame.sort_values(by=t_column)` (default `kind='quicksort'`, **not stable**) reorders whole
  rows by *some* permutation `σ` after which the frame column is non-decreasing.  The model is
  parametrised by `σ`; nothing is assumed about the order within one frame.
* `f['particle'] = ids` attaches `ids[j]` to the `j`-th row (positional) and raises when
  `len(ids) ≠ len(f)`.
* `DataFrame.copy()` / functional update: the model is functional, so the caller's table cannot
  be modified *in the model*; purity of the real code stays an oracle check on real DataFrames.

No Mathlib (compiled into the driver).
-/
namespace TrackpyV.LinkTable

abbrev Pos := List Int

/-- a row of the caller's table -/
structure Row where
  index : Int
  frame : Rat
  coords : Pos
  payload : Nat
  deriving Repr, DecidableEq

/-- a row after the frame column was coerced to integer -/
structure IRow where
  index : Int
  frame : Int
  coords : Pos
  payload : Nat
  deriving Repr, DecidableEq

/-- a row of the returned table: the row plus the new `particle` column -/
structure ORow where
  row : IRow
  particle : Nat
  deriving Repr, DecidableEq

/-- `astype(np.int64)`: truncation toward zero (identity on integers).
mirrors trackpy/linking/linking.py:183-184 -/
def coerceFrame (q : Rat) : Int := Int.tdiv q.num q.den

def coerceRow (r : Row) : IRow :=
  { index := r.index, frame := coerceFrame r.frame, coords := r.coords, payload := r.payload }

/-- reorder whole rows by the position list `σ` (`sort_values` moves index, columns and values
together) -/
def applyPerm {α} (σ : List Nat) (xs : List α) : List α := σ.filterMap (fun i => xs[i]?)

/-- `f.copy()`, coercion, `pandas_sort(f, t_column, inplace=True)` with sort permutation `σ`.
mirrors trackpy/linking/linking.py:181-186 -/
def sortedTable (σ : List Nat) (rows : List Row) : List IRow := applyPerm σ (rows.map coerceRow)

def frameLe (a b : IRow) : Bool := decide (a.frame ≤ b.frame)

/-- what the model requires of the sort permutation: it is a permutation of the row positions and
the frame column is non-decreasing afterwards.  (Checked by the driver on every case.) -/
def SortPerm (σ : List Nat) (rows : List Row) : Prop :=
  σ.Perm (List.range rows.length) ∧ (sortedTable σ rows).Pairwise (fun a b => a.frame ≤ b.frame)

instance (σ : List Nat) (rows : List Row) : Decidable (SortPerm σ rows) :=
  inferInstanceAs (Decidable (_ ∧ _))

/-! ## coords_from_df -/

/-- `np.argsort(times, kind="mergesort")` followed by `times[idxs]`, `pos[idxs]`: a *stable* sort of
the rows by frame.  mirrors trackpy/linking/utils.py:45-47 -/
def stableSort (rows : List IRow) : List IRow := rows.mergeSort frameLe

/-- `np.unique(times, return_counts=True)` on the sorted times: run-length encoding.
mirrors trackpy/linking/utils.py:49 -/
def rle : List Int → List (Int × Nat)
  | [] => []
  | t :: ts =>
    match rle ts with
    | (u, c) :: rest => if t = u then (u, c + 1) :: rest else (t, 1) :: (u, c) :: rest
    | [] => [(t, 1)]

/-- `np.split(pos, np.cumsum(counts)[:-1])`: consecutive blocks of the given sizes, the last block
takes whatever is left (`np.split(pos, [])` is `[pos]`).  mirrors trackpy/linking/utils.py:50 -/
def splitCounts {α} : List Nat → List α → List (List α)
  | [], xs => [xs]
  | [_], xs => [xs]
  | c :: c' :: cs, xs => xs.take c :: splitCounts (c' :: cs) (xs.drop c)

/-- the generator loop `for time in range(unique_times[0], unique_times[-1] + 1)` with the cursor
`idx` into `(unique_times, pos_by_frame)` (here: the not yet consumed groups).  `n` = number of
remaining iterations.  With the groups exhausted the code would raise IndexError at
`unique_times[idx]`; the loop bound makes that unreachable (the last group has the last time) and
the model yields an empty level there.  mirrors trackpy/linking/utils.py:52-58 -/
def emit : Nat → Int → List (Int × List Pos) → List (Int × List Pos)
  | 0, _, _ => []
  | n + 1, time, [] => (time, []) :: emit n (time + 1) []
  | n + 1, time, (u, ps) :: rest =>
    if time = u then (time, ps) :: emit n (time + 1) rest
    else (time, []) :: emit n (time + 1) ((u, ps) :: rest)

/-- `coords_from_df(df, pos_columns, t_column)`: the list of `(frame number, coordinates)` levels;
`none` = IndexError on an empty table (`unique_times[0]`).  mirrors trackpy/linking/utils.py:33-58 -/
def coordsFromDf (rows : List IRow) : Option (List (Int × List Pos)) :=
  let s := stableSort rows
  let times := s.map (·.frame)
  let pos := s.map (·.coords)
  let uc := rle times
  let posByFrame := splitCounts (uc.map (·.2)) pos
  match uc.head?, uc.getLast? with
  | some (lo, _), some (hi, _) =>
    some (emit (hi + 1 - lo).toNat lo ((uc.map (·.1)).zip posByFrame))
  | _, _ => none

/-! ## link -/

/-- `ids = []; for i, _ids in link_iter(...): ids.extend(_ids)`; `f['particle'] = ids`
(pandas raises unless `len(ids) = len(f)`: `none`).  mirrors trackpy/linking/linking.py:189-195 -/
def attach (sorted : List IRow) (labels : List (List Nat)) : Option (List ORow) :=
  let ids := labels.flatten
  if ids.length = sorted.length then some (List.zipWith ORow.mk sorted ids) else none

/-- `link(f, …)` as a function of the caller's rows, the sort permutation `σ` and the labelling
function `labelsOf` of the levels (= what `link_iter` yields for them).
mirrors trackpy/linking/linking.py:179-196 -/
def linkTable (labelsOf : List (Int × List Pos) → List (List Nat)) (σ : List Nat)
    (rows : List Row) : Option (List ORow) :=
  let sorted := sortedTable σ rows
  match coordsFromDf sorted with
  | none => none
  | some levels => attach sorted (labelsOf levels)

/-! ## link_df_iter -/

/-- `coords_from_df_iter`: per table the first row's frame value *as given* (no coercion, no
sorting; `None` for an empty table) and all coordinates.  mirrors trackpy/linking/utils.py:61-70 -/
def coordsFromDfIter (tables : List (List Row)) : List (Option Rat × List Pos) :=
  tables.map (fun df =>
    match df with
    | [] => (none, [])
    | r :: _ => (some r.frame, df.map (·.coords)))

/-- `df_linked = df.copy(); df_linked['particle'] = ids` — positional, raises on a length mismatch -/
def attachIter (df : List Row) (ids : List Nat) : Option (List (Row × Nat)) :=
  if ids.length = df.length then some (df.zip ids) else none

/-- `for df, ids in zip(f_iter, ids_iter)`: stops with the shorter of the two.
mirrors trackpy/linking/linking.py:277-281 -/
def zipAttach : List (List Row) → List (List Nat) → Option (List (List (Row × Nat)))
  | df :: dfs, ids :: rest =>
    match attachIter df ids, zipAttach dfs rest with
    | some o, some os => some (o :: os)
    | _, _ => none
  | _, _ => some []

/-- `link_df_iter(f_iter, …)`; `labelsOf` = what `link_iter` yields for the levels.
mirrors trackpy/linking/linking.py:266-281 -/
def linkDfIter (labelsOf : List (Option Rat × List Pos) → List (List Nat))
    (tables : List (List Row)) : Option (List (List (Row × Nat))) :=
  zipAttach tables (labelsOf (coordsFromDfIter tables))

end TrackpyV.LinkTable
