/-
Line-protocol helpers shared by all driver handlers (no Mathlib; compiled natively).

A request line is `OP field field ...`; list-valued fields use `,` (inner) / `;` (middle) / `|`
(outer) separators.  Rationals travel as `p/q` or `p`.  Nothing here is the subject of a theorem.
-/
namespace TrackpyV.Proto

def splitTrim (s : String) (sep : String) : List String :=
  (s.splitOn sep).map (fun x => x.trimAscii.toString) |>.filter (· ≠ "")

/-- split but keep empty pieces (needed for positional, possibly empty, groups) -/
def splitKeep (s : String) (sep : String) : List String :=
  (s.splitOn sep).map (fun x => x.trimAscii.toString)

def words (s : String) : List String := splitTrim s " "

def parseNat? (s : String) : Option Nat := s.toNat?
def parseInt? (s : String) : Option Int := s.toInt?

def parseRat? (s : String) : Option Rat :=
  match s.splitOn "/" with
  | [p] => (p.toInt?).map (fun (i : Int) => (i : Rat))
  | [p, q] => do
      let pi ← p.toInt?
      let qn ← q.toNat?
      if qn = 0 then none else some (mkRat pi qn)
  | _ => none

def parseAll {α} (f : String → Option α) (xs : List String) : Option (List α) :=
  xs.mapM f

def natList? (s : String) (sep : String := ",") : Option (List Nat) :=
  parseAll parseNat? (splitTrim s sep)
def intList? (s : String) (sep : String := ",") : Option (List Int) :=
  parseAll parseInt? (splitTrim s sep)
def ratList? (s : String) (sep : String := ",") : Option (List Rat) :=
  parseAll parseRat? (splitTrim s sep)

def showRat (r : Rat) : String :=
  if r.den = 1 then toString r.num else s!"{r.num}/{r.den}"

def showOptNat : Option Nat → String
  | none => "n"
  | some k => toString k

def joinWith (sep : String) (xs : List String) : String := sep.intercalate xs

def showNatList (xs : List Nat) : String := joinWith "," (xs.map toString)
def showIntList (xs : List Int) : String := joinWith "," (xs.map toString)
def showRatList (xs : List Rat) : String := joinWith "," (xs.map showRat)

/-- `n` or a natural -/
def parseOptNat? (s : String) : Option (Option Nat) :=
  if s = "n" then some none else (s.toNat?).map some

end TrackpyV.Proto
