/-
Model of the trajectory filters (`trackpy/filtering.py:7-58`).

A trajectory table is a list of rows in storage order.  The code is

    grouped  = tracks.reset_index(drop=True).groupby('particle')
    filtered = grouped.filter(pred)                  # pred evaluated once per group
    return filtered.set_index('frame', drop=False)

`DataFrameGroupBy.filter` evaluates `pred` on every group, concatenates the row positions of the
groups for which it is true, sorts the positions and `take`s them: the kept rows in their original
order.  `gfilter` mirrors this: the keys of the kept groups are collected first (`keptKeys`, the
predicate is applied to the whole group), then the rows whose key was kept are taken in order.
(Sorted concatenation of the disjoint position classes of the kept keys = the positions whose key
is kept; pandas visits the keys in sorted order, the model in order of appearance - the order of
the visit does not influence the result of `filter`.)

The row index never enters: `reset_index(drop=True)` discards it on entry and
`set_index('frame', drop=False)` rebuilds it from the `frame` column on exit (index layout is the
subject of `Model/Pipeline.lean`).

No Mathlib imports: this file is compiled into the native driver.
-/
namespace TrackpyV.Filter

/-- One row.  `rid` is the identity of the row and stands for every other column value
(positions, mass, …): the filters never look at them and must return them unchanged. -/
structure Row where
  frame : Int
  particle : Int
  size : Rat
  rid : Nat
deriving DecidableEq, Repr

/-- `groupby('particle')` keys (each key once). -/
def keys : List Row → List Int
  | [] => []
  | r :: rs => if (keys rs).contains r.particle then keys rs else r.particle :: keys rs

/-- the group of key `p`: its rows in storage order -/
def group (p : Int) (rows : List Row) : List Row :=
  rows.filter (fun r => r.particle == p)

/-- keys of the groups on which the predicate is true (`if notna(res) and res: indices.append`) -/
def keptKeys (pred : List Row → Bool) (rows : List Row) : List Int :=
  (keys rows).filter (fun p => pred (group p rows))

/-- mirrors `DataFrameGroupBy.filter(pred)` (see the header) -/
def gfilter (pred : List Row → Bool) (rows : List Row) : List Row :=
  rows.filter (fun r => (keptKeys pred rows).contains r.particle)

/-- `x.frame.count()`: number of rows of the group (frame numbers are never NaN here) -/
def count (g : List Row) : Int := (g.length : Int)

/-- mirrors filtering.py:22-28 `filter_stubs`: `lambda x: x.frame.count() >= threshold` -/
def filterStubs (thr : Int) (rows : List Row) : List Row :=
  gfilter (fun g => decide (thr ≤ count g)) rows

def sumSize : List Row → Rat
  | [] => 0
  | r :: rs => r.size + sumSize rs

/-- `x['size'].mean()` of a non-empty group (groups are never empty) -/
def meanSize (g : List Row) : Rat := sumSize g / (g.length : Rat)

/-- mirrors filtering.py:47-58 `filter_clusters` with the cut already resolved
(`threshold`, or `tracks['size'].quantile(quantile)`): `lambda x: x['size'].mean() < threshold`
(strict). -/
def filterClusters (cut : Rat) (rows : List Row) : List Row :=
  gfilter (fun g => decide (meanSize g < cut)) rows

/-! ### specification-side notions used by the theorems and reported by the driver -/

/-- number of observations of trajectory `p` -/
def obs (p : Int) (rows : List Row) : Int := count (group p rows)

/-- mean size of trajectory `p` -/
def trajMean (p : Int) (rows : List Row) : Rat := meanSize (group p rows)

end TrackpyV.Filter
