import TrackpyV.Model.Find
import TrackpyV.Model.Linker
/-!
Model of the relocation step of `trackpy.linking.find_link.FindLinker` (find_link.py:301-444),
with `masks.get_slice/slice_image/get_mask/mask_image` (masks.py:96-229),
`feature.characterize` (mass only, feature.py:593-643) and `HashKDTree.query_points`
(subnet.py:138-151).  Integer images (`Find.Image`), integer source / background positions
(`refine=False`, no predictor).  The local-maximum machinery (`percentileThr`, `boxSize`, `candidates`,
`dropClose`, …) is the one of `Model/Find.lean` (C06) — re-used, not copied.

`relocateWith cfg img bg pos`  = `get_relocate_candidates(pos)` when `self.hash.query_points`
                                  returned `bg` : the admissible candidates, heaviest first,
                                  as (image coordinate, mass);
`queryPoints cfg hash pos`      = `self.hash.query_points(pos, self.bg_radius)`;
`relocate cfg img hash pos n`   = `FindLinker.relocate(pos, n)` (the first `n` candidates).

All early exits of the code (`return None, None`: empty slice, nothing visible, black image,
nothing above threshold, no maxima, all in the margin, all out of range) are the empty list.

The labelling part of `FindLinker` (`next_level`/`assign_links`/`apply_links`) is judged by the
linker monitor of `Model/Linker.lean` (validity only, `noOpt`), extended here by `flStep`:
a feature that was *added* by relocation lies within search range of a source of that step.
-/
namespace TrackpyV.Relocate
open TrackpyV.Find

/-- a position with integer coordinates (source / background features) -/
abbrev IPos := List Int

/-- the parameters `FindLinker.__init__` keeps (find_link.py:301-338) -/
structure Cfg where
  radius : List Nat     -- `tuple(int(d // 2) for d in diameter)`; also the margin
  sep : List Rat        -- separation, per axis
  sr : List Rat         -- search_range, per axis (the tuple handed to FindLinker)
  pct : Rat             -- percentile
  minmass : Rat
  deriving Repr

def natRat (l : List Nat) : List Rat := l.map (fun (n : Nat) => (n : Rat))

/-- mirrors find_link.py:323 `int(s + r + 1)` -/
def sliceRadius (cfg : Cfg) : List Nat :=
  List.zipWith (fun (s : Rat) (r : Nat) => (s + (r : Rat) + 1).floor.toNat) cfg.sr cfg.radius

/-- mirrors find_link.py:319 `int(2 * s / np.sqrt(self.ndim))` (the C06 box) -/
def dilationSize (cfg : Cfg) : List Nat := cfg.sep.map (boxSize cfg.sep.length)

/-- mirrors utils.py:334 `is_isotropic` -/
def isIso : List Rat → Bool
  | [] => true
  | x :: xs => xs.all (fun y => y == x)

def maxRat (l : List Rat) : Rat := l.foldl max 0

/-- mirrors find_link.py:328 (per axis): the slice radius plus the larger of the feature radius + 1
and the separation — every feature whose separation ellipse reaches into the slice is queried -/
def bgRadiusAx (cfg : Cfg) : List Rat :=
  List.zipWith (fun (x : Nat × Nat) (s : Rat) => (x.1 : Rat) + max ((x.2 : Rat) + 1) s)
    ((sliceRadius cfg).zip cfg.radius) cfg.sep

/-- mirrors find_link.py:333-337: the hash is normed to `search_range` when that is anisotropic -/
def bgRadius (cfg : Cfg) : Rat :=
  if isIso cfg.sr then maxRat (bgRadiusAx cfg)
  else maxRat (List.zipWith (fun b s => b / s) (bgRadiusAx cfg) cfg.sr)

/-- squared distance in hash coordinates (`to_eucl`): pixels when `search_range` is isotropic,
units of the search range otherwise (linking.py:414-425) -/
def hashDist2 (cfg : Cfg) (a b : IPos) : Rat :=
  if isIso cfg.sr then dist2 (cfg.sr.map (fun _ => 1)) a b else dist2 cfg.sr a b

/-- mirrors subnet.py:138-151 `query_points(pos, bg_radius)` (`query_ball_point` is inclusive) -/
def queryPoints (cfg : Cfg) (hash pos : List IPos) : List IPos :=
  hash.filter (fun b => pos.any (fun p => decide (hashDist2 cfg b p ≤ bgRadius cfg * bgRadius cfg)))

/-! ## get_slice -/

/-- mirrors masks.py:103 `(coords[:, i] >= -r) & (coords[:, i] < sh + r)` on every axis -/
def inBounds : List Nat → List Nat → IPos → Bool
  | sh :: shs, r :: rs, c :: cs =>
    (decide (-(r : Int) ≤ c) && decide (c < (sh : Int) + (r : Int))) && inBounds shs rs cs
  | _, _, _ => true

def minInt (l : List Int) : Int := l.foldl min (l.headD 0)
def maxInt (l : List Int) : Int := l.foldl max (l.headD 0)

/-- one axis of masks.py:110-120: (origin, extent) of the clipped box -/
def sliceAxis (sh r : Nat) (vals : List Int) : Nat × Nat :=
  let lo : Int := max 0 (minInt vals - (r : Int))
  let hi : Int := min (sh : Int) (maxInt vals + (r : Int) + 1)
  (lo.toNat, (hi - lo).toNat)

structure Slice where
  origin : List Nat
  shape : List Nat
  deriving Repr

/-- mirrors masks.py:96-121 `get_slice`; `none` = no coordinate has a pixel inside the image -/
def getSlice (shape rad : List Nat) (pos : List IPos) : Option Slice :=
  let kept := pos.filter (inBounds shape rad)
  if kept.isEmpty then none
  else
    let ax := (List.range shape.length).map (fun k =>
      sliceAxis (shape.getD k 0) (rad.getD k 0) (kept.map (fun p => p.getD k 0)))
    some { origin := ax.map (fun a => a.1), shape := ax.map (fun a => a.2) }

/-! ## masks -/

/-- slice coordinate → image coordinate -/
def addOrigin (origin : List Nat) (q : Pos) : Pos := List.zipWith (fun o x => o + x) origin q

def toI (p : Pos) : IPos := p.map Int.ofNat

/-- mirrors find_link.py:382-392 with masks.py:150-229: the pixel `q` of the slice keeps its value
iff it lies within `slice_radius` (edge included) of some source position and not closer than
`separation` (edge excluded) to any background feature -/
def visible (cfg : Cfg) (origin : List Nat) (pos bg : List IPos) (q : Pos) : Bool :=
  let x := toI (addOrigin origin q)
  pos.any (fun p => decide (dist2 (natRat (sliceRadius cfg)) x p ≤ 1)) &&
    !(bg.any (fun b => decide (dist2 cfg.sep x b < 1)))

/-- `im_masked[q]` -/
def maskedPix (cfg : Cfg) (img : Image) (origin : List Nat) (pos bg : List IPos) (q : Pos) : Nat :=
  if visible cfg origin pos bg q then img.pix (addOrigin origin q) else 0

/-- `im_masked` -/
def maskedImage (cfg : Cfg) (img : Image) (sl : Slice) (pos bg : List IPos) : Image :=
  ⟨sl.shape, ((allIdx sl.shape).map (maskedPix cfg img sl.origin pos bg)).toArray⟩

/-! ## candidates -/

/-- mirrors find_link.py:417-423: within `search_range` (per axis: ellipsoid, edge included) of
SOME source position -/
def inRange (cfg : Cfg) (pos : List IPos) (c : Pos) : Bool :=
  pos.any (fun p => decide (dist2 cfg.sr (toI c) p ≤ 1))

/-- mirrors find_link.py:400-426: local maxima of the masked slice above the whole-image
threshold (`np.where` order), margin filter in IMAGE coordinates, search-range filter -/
def rawCandidates (cfg : Cfg) (img : Image) (sl : Slice) (m : Image) (thr : Rat)
    (pos : List IPos) : List Pos :=
  ((candidates m (dilationSize cfg) thr (m.shape.map (fun _ => 0))).filter
      (fun q => outsideMargin img.shape cfg.radius (addOrigin sl.origin q))).filter
    (fun q => inRange cfg pos (addOrigin sl.origin q))

/-! ## characterize (mass) -/

/-- mirrors feature.py:616 `c - r < 0 or c + r >= sh` (negated) on every axis -/
def regionInside : List Nat → List Nat → Pos → Bool
  | sh :: shs, r :: rs, c :: cs => (decide (r ≤ c) && decide (c + r < sh)) && regionInside shs rs cs
  | _, _, _ => true

/-- the pixels of `binary_mask(radius)` placed at `c` (masks.py:8-18, edge included) -/
def regionPixels (radius : List Nat) (c : Pos) : List Pos :=
  (cart (List.zipWith (fun ci r => List.range' (ci - r) (2 * r + 1)) c radius)).filter
    (fun q => decide (dist2 (natRat radius) (toI q) (toI c) ≤ 1))

def sumNat (l : List Nat) : Nat := l.foldl (· + ·) 0

/-- mirrors feature.py:615-621: `none` = NaN (the feature region leaves the masked slice) -/
def massAt (m : Image) (radius : List Nat) (c : Pos) : Option Nat :=
  if regionInside m.shape radius c then some (sumNat ((regionPixels radius c).map m.pix))
  else none

/-! ## ordering by mass -/

/-- insertion keeping ascending mass; an earlier element goes before equal ones (stable) -/
def insMass (x : Pos × Nat) : List (Pos × Nat) → List (Pos × Nat)
  | [] => [x]
  | y :: ys => if x.2 ≤ y.2 then x :: y :: ys else y :: insMass x ys

/-- `np.argsort(mass)` (stable, ascending) -/
def sortMass (l : List (Pos × Nat)) : List (Pos × Nat) := l.foldr insMass []

/-- mirrors find_link.py:440-444: heaviest first, only finite masses `≥ minmass` -/
def heaviestFirst (cfg : Cfg) (l : List (Pos × Option Nat)) : List (Pos × Nat) :=
  (sortMass (l.filterMap (fun x =>
    match x.2 with
    | some v => if cfg.minmass ≤ (v : Rat) then some (x.1, v) else none
    | none => none))).reverse

/-- the inputs the model covers: one entry per axis everywhere, positive separations / ranges with
a dilation box ≥ 1, feature radius ≥ 1 -/
def wellFormed (cfg : Cfg) (img : Image) : Bool :=
  decide (0 < img.shape.length) && decide (cfg.radius.length = img.shape.length)
    && decide (cfg.sep.length = img.shape.length) && decide (cfg.sr.length = img.shape.length)
    && decide (img.data.size = img.shape.foldl (· * ·) 1)
    && cfg.sep.all (fun s => decide (0 < s) && decide (1 ≤ boxSize img.shape.length s))
    && cfg.sr.all (fun s => decide (0 < s)) && cfg.radius.all (fun r => decide (1 ≤ r))

/-- everything `get_relocate_candidates` computes after the slice is known -/
def relocateIn (cfg : Cfg) (img : Image) (bg pos : List IPos) (sl : Slice) (thr : Rat) :
    List (Pos × Nat) :=
  let m := maskedImage cfg img sl pos bg
  let cands := rawCandidates cfg img sl m thr pos
  -- find_link.py:429 drop_close on the slice coordinates, intensity = masked pixel
  let kept := (dropClose cfg.sep (cands.map (featOf m (exactKeyPos cfg.sep)))).map Find.toPos
  -- find_link.py:438-444
  (heaviestFirst cfg (kept.map (fun q => (q, massAt m cfg.radius q)))).map
    (fun x => (addOrigin sl.origin x.1, x.2))

/-- mirrors find_link.py:371-444 `get_relocate_candidates(pos)`, given the result `bg` of the
background query: (image coordinate, mass), heaviest first -/
def relocateWith (cfg : Cfg) (img : Image) (bg pos : List IPos) : List (Pos × Nat) :=
  match getSlice img.shape (sliceRadius cfg) pos, percentileThr img cfg.pct with
  | some sl, some thr => relocateIn cfg img bg pos sl thr
  | _, _ => []

/-- `get_relocate_candidates(pos)` with the hash of the current frame -/
def relocateCandidates (cfg : Cfg) (img : Image) (hash pos : List IPos) : List (Pos × Nat) :=
  relocateWith cfg img (queryPoints cfg hash pos) pos

/-- mirrors find_link.py:350-358 `relocate(pos, n)` -/
def relocate (cfg : Cfg) (img : Image) (hash pos : List IPos) (n : Nat) : List (Pos × Nat) :=
  (relocateCandidates cfg img hash pos).take n

/-- background features that the query missed although they are closer than `separation` to a
returned candidate (run-time side condition of `reloc_clear_of_hash`; 0 when `bg_radius` covers) -/
def uncovered (cfg : Cfg) (hash bg : List IPos) (res : List (Pos × Nat)) : List IPos :=
  hash.filter (fun b => !(bg.contains b) && res.any (fun c => decide (dist2 cfg.sep (toI c.1) b < 1)))

/-! ## the labelling: linker monitor + "an added feature never starts a trajectory" -/

open TrackpyV.Linker in
/-- every feature with index in `added` lies within search range of a source of this step (the
points of the previous level and the remembered ones, at their predicted positions): mirrors
find_link.py:417-423 (candidates are kept only within `search_range` of a source position) and
subnet.py:404-416 (`add_dest_points` admits a new point only as a forward candidate of a source).
NB a relocated feature that no source claims in the end still enters the hash and then starts a
trajectory (subnetlinker.py:393-396 appends every unclaimed destination to the pair list). -/
def addedOkB (cfg : Linker.Cfg) (st : Linker.State) (t : Int) (dsts : List Linker.Pos)
    (added : List Nat) : Bool :=
  added.all (fun j =>
    match dsts[j]? with
    | some q => st.srcs.any (fun s => decide (Linker.dist2 cfg.w (view cfg t s) q ≤ cfg.B))
    | none => false)

open TrackpyV.Linker in
/-- one `FindLinker.next_level` judged on its labelled output: the linker monitor's step relation
plus `addedOkB` -/
def flStep (cfg : Linker.Cfg) (st : Linker.State) (t : Int) (dsts : List Linker.Pos)
    (labels added : List Nat) : Option Linker.State :=
  match stepCheck cfg st t dsts (some labels) with
  | .ok st' _ _ _ _ => if addedOkB cfg st t dsts added then some st' else none
  | _ => none

structure FLevel where
  t : Int
  dsts : List Linker.Pos
  labels : List Nat
  added : List Nat

open TrackpyV.Linker in
/-- run `flStep` over the levels after the first; returns the index of the first rejected level -/
def flRunFrom (cfg : Linker.Cfg) : Linker.State → Nat → List FLevel → Option Nat
  | _, _, [] => none
  | st, k, lv :: rest =>
    match flStep cfg st lv.t lv.dsts lv.labels lv.added with
    | some st' => flRunFrom cfg st' (k + 1) rest
    | none => some k

open TrackpyV.Linker in
/-- whole movie: `none` = accepted, `some k` = level `k` rejected -/
def flRun (cfg : Linker.Cfg) : List FLevel → Option Nat
  | [] => none
  | lv0 :: rest =>
    match initCheck lv0.t lv0.dsts lv0.labels with
    | .ok st0 _ _ _ _ => if lv0.added.isEmpty then flRunFrom cfg st0 1 rest else some 0
    | _ => some 0

end TrackpyV.Relocate
