/-
Model of the post-refinement part of `trackpy/feature.py: locate` (lines 400-459) and of
`trackpy/uncertainty.py: _static_error` as `locate` uses it, together with the part of
`trackpy/find.py: where_close` that `locate` calls.  No Mathlib (compiled into the native driver).

Input  = the table returned by `refine_com` (one `Feat` per row, in row order, `tag` = row number).
Stages, in the order the code applies them:

  1. `dedupe`          feature.py:403-408   where_close(pos, separation, mass) + drop + reset_index
  2. `rescale`         feature.py:410-414   mass, signal divided by the int-conversion scale factor
  3. `massSizeFilter`  feature.py:416-430   mass > minmass  [& size < maxsize]   (strict; NaN fails)
  4. `topnSel`         feature.py:432-439   argmax (n = 1) / argsort(mass)[-n:]
  5. `withEp`          feature.py:441-453   ep = noise / (raw_mass - N·black) · noise_size · √Σx²,
                                            negative -> NaN, attached ROW BY ROW to the kept rows

Stage 5 mirrors the code with `repo-fixes/C08-anisotropic-ep-index.patch` and
`repo-fixes/C08-negative-ep-to-nan.patch` applied (without them the code attaches the `ep_*`
columns by index *label* and keeps negative values; `epRaw` / `misalignedEp` below model the
unrepaired behaviour, for the witnesses in `Props/C08.lean` only).

Exact arithmetic over `Rat`; IEEE specials that the ep computation can produce are the constructors
of `XR`.  The factor `√Σx²` (`_root_sum_x_squared`) is an abstract rational parameter per axis
(`Noise.cm`): the harness passes the implementation's own float value, the theorems hold for every
value of it.
-/
namespace TrackpyV.LocatePost

/-- One row of `refine_com`'s table.  `extra` = every column that `locate` only carries
(`ecc`, `size_z/size_y/size_x`, …); `size` = the `size` column (`none` = NaN or column absent);
`mass` is in units of the integer image until `rescale`. -/
structure Feat where
  tag : Nat
  pos : List Rat
  mass : Rat
  size : Option Rat
  signal : Option Rat
  rawMass : Rat
  extra : List (Option Rat)
deriving Repr, DecidableEq

/-! ## 1. duplicates (flat peaks) -/

/-- `pos_rescaled = pos / separation`   mirrors trackpy/find.py:27-30 -/
def scaled (sep p : List Rat) : List Rat := List.zipWith (· / ·) p sep

/-- squared Euclidean distance of the rescaled positions (what the KD-tree measures) -/
def dist2 (sep p q : List Rat) : Rat :=
  ((List.zipWith (· - ·) (scaled sep p) (scaled sep q)).map (fun d => d * d)).sum

/-- `np.sum(pos_rescaled[i], 1)`   mirrors trackpy/find.py:49-50 -/
def possum (sep p : List Rat) : Rat := (scaled sep p).sum

/-- mirrors trackpy/find.py:31 `cKDTree(pos_rescaled).query_pairs(1 - 1e-7)`: the pair is a duplicate
when the rescaled distance is below 1.  The `1e-7` slack is modelled as the strict exact comparison
(DESIGN §2.2); the driver reports the margin `|d² − 1|` so that the harness can skip borderline
cases. -/
def close (sep : List Rat) (a b : Feat) : Bool := decide (dist2 sep a.pos b.pos < 1)

/-- For a duplicate pair `(a, b)` with `a` the lower row number (`index_0`), is it `index_0` that
is dropped?   mirrors trackpy/find.py:41-51:
`to_drop = where(I0 > I1, index_1, index_0)`; on equal intensity
`where(sum(pos0) > sum(pos1), index_1, index_0)`. -/
def dropFirst (sep : List Rat) (a b : Feat) : Bool :=
  if a.mass > b.mass then false
  else if a.mass = b.mass then !(decide (possum sep a.pos > possum sep b.pos))
  else true

/-- row `x` is in `to_drop`: some duplicate pair containing it names it.
`query_pairs` returns each unordered pair once as (lower row number, higher row number). -/
def isDropped (sep : List Rat) (l : List Feat) (x : Feat) : Bool :=
  l.any (fun y =>
    (decide (x.tag < y.tag) && close sep x y && dropFirst sep x y) ||
    (decide (y.tag < x.tag) && close sep y x && !(dropFirst sep y x)))

/-- mirrors trackpy/feature.py:403-408 (`if np.all(np.greater(separation, 0))`, drop `to_drop`,
`reset_index`); all pairs are judged on the *original* table, in one pass. -/
def dedupe (sep : List Rat) (l : List Feat) : List Feat :=
  if sep.all (fun s => decide (0 < s)) then l.filter (fun x => !(isDropped sep l x)) else l

/-! ## 2. rescale -/

/-- mirrors trackpy/feature.py:410-414: `mass /= scale_factor`, `signal /= scale_factor` -/
def rescale (scale : Rat) (f : Feat) : Feat :=
  { f with mass := f.mass / scale, signal := f.signal.map (· / scale) }

/-! ## 3. mass / size filter -/

/-- `size < maxsize`; a NaN size compares False -/
def sizeOk (maxsize : Option Rat) (f : Feat) : Bool :=
  match maxsize with
  | none => true
  | some s => match f.size with
    | none => false
    | some z => decide (z < s)

/-- mirrors trackpy/feature.py:417-419 `condition = mass > minmass; condition &= size < maxsize` -/
def keep (minmass : Rat) (maxsize : Option Rat) (f : Feat) : Bool :=
  decide (f.mass > minmass) && sizeOk maxsize f

/-- mirrors trackpy/feature.py:420-422 -/
def massSizeFilter (minmass : Rat) (maxsize : Option Rat) (l : List Feat) : List Feat :=
  l.filter (keep minmass maxsize)

/-! ## 4. topn -/

/-- insertion sort (among rows of equal mass the FIRST comes out last; the theorems and the harness are "up to ties"), ascending mass (stands for `np.argsort(mass)`; numpy's default sort is
not stable, so on tied masses the code may return a different permutation of the tied rows: the
theorems about `topnSel` are stated up to that choice) -/
def insertByMass (r : Feat) : List Feat → List Feat
  | [] => [r]
  | a :: l => if r.mass < a.mass then r :: a :: l else a :: insertByMass r l

def sortByMass (l : List Feat) : List Feat := l.foldr insertByMass []

/-- `np.argmax(mass)`: the first row of maximal mass -/
def argmaxFirst : List Feat → Option Feat
  | [] => none
  | a :: l => match argmaxFirst l with
    | none => some a
    | some b => if a.mass < b.mass then some b else some a

/-- mirrors trackpy/feature.py:432-439.
`topn = None` or `len <= topn`: untouched.  `topn == 1`: `iloc[[argmax]]`.  Otherwise
`iloc[argsort(mass)[-topn:]]` — note that Python's `[-0:]` is the whole array, so `topn = 0` returns
every row (sorted); the property's clause "at most n" is therefore stated for `n ≥ 1`. -/
def topnSel (topn : Option Nat) (l : List Feat) : List Feat :=
  match topn with
  | none => l
  | some n =>
    if l.length > n then
      if n = 1 then (argmaxFirst l).toList
      else if n = 0 then sortByMass l
      else (sortByMass l).drop (l.length - n)
    else l

/-! ## 5. static error -/

/-- the float values the ep computation can produce -/
inductive XR where
  | nan
  | pinf
  | ninf
  | fin (q : Rat)
deriving Repr, DecidableEq

/-- IEEE division of finite numbers -/
def xdiv (n d : Rat) : XR :=
  if d = 0 then (if n = 0 then .nan else if 0 < n then .pinf else .ninf) else .fin (n / d)

/-- IEEE multiplication by a finite number -/
def xmul (e : XR) (f : Rat) : XR :=
  match e with
  | .nan => .nan
  | .fin q => .fin (q * f)
  | .pinf => if f = 0 then .nan else if 0 < f then .pinf else .ninf
  | .ninf => if f = 0 then .nan else if 0 < f then .ninf else .pinf

/-- `ep[ep < 0] = np.nan`   mirrors repo-fixes/C08-negative-ep-to-nan.patch
(= trackpy/uncertainty.py:110 in `static_error`) -/
def clampNeg (e : XR) : XR :=
  match e with
  | .fin q => if q < 0 then .nan else .fin q
  | .ninf => .nan
  | e => e

/-- What `locate` measures on the image, independently of the features:
`black`, `noise` = `measure_noise(image, raw_image, radius)` (`none` = NaN), `npx` =
`N_binary_mask`, `iso` = "radius and noise_size isotropic" (scalar `ep` column), `nsz` =
noise_size per axis, `cm` = `_root_sum_x_squared` per axis. -/
structure Noise where
  black : Option Rat
  noise : Option Rat
  npx : Rat
  iso : Bool
  nsz : List Rat
  cm : List Rat
deriving Repr

/-- `N_S = noise / (raw_mass - Npx * black_level)`
mirrors trackpy/feature.py:446 and trackpy/uncertainty.py:49 -/
def nsRatio (N : Noise) (f : Feat) : XR :=
  match N.black, N.noise with
  | some b, some s => xdiv s (f.rawMass - N.npx * b)
  | _, _ => .nan

/-- mirrors trackpy/uncertainty.py:50-56: isotropic `N_S * noise_size[0] * coord_moments[0]`,
otherwise one value per axis `N_S * (noise_size[k] * coord_moments[k])`.
This is the value BEFORE the negative -> NaN mapping (what the unrepaired `locate` reports). -/
def epRaw (N : Noise) (f : Feat) : List XR :=
  let r := nsRatio N f
  if N.iso then [xmul (xmul r (N.nsz.getD 0 0)) (N.cm.getD 0 0)]
  else (List.zipWith (· * ·) N.nsz N.cm).map (xmul r)

/-- the `ep` / `ep_*` cells of one row (repaired code) -/
def epOf (N : Noise) (f : Feat) : List XR := (epRaw N f).map clampNeg

/-- one row of `locate`'s result -/
structure Out where
  feat : Feat
  ep : List XR
deriving Repr, DecidableEq

/-- mirrors trackpy/feature.py:443-453 (repaired): the ep cells are computed from the kept rows
and attached to the same rows. -/
def withEp (N : Noise) (f : Feat) : Out := { feat := f, ep := epOf N f }

/-! ## the pipeline -/

/-- filter parameters of one `locate` call -/
structure Filt where
  minmass : Rat
  maxsize : Option Rat
  topn : Option Nat
deriving Repr

/-- stages 1-2: independent of minmass / maxsize / topn -/
def stage12 (sep : List Rat) (scale : Rat) (l : List Feat) : List Feat :=
  (dedupe sep l).map (rescale scale)

/-- stages 3-4 -/
def select (F : Filt) (l : List Feat) : List Feat :=
  topnSel F.topn (massSizeFilter F.minmass F.maxsize l)

/-- `locate` from line 400 on (characterize = True). -/
def locatePost (N : Noise) (sep : List Rat) (scale : Rat) (F : Filt) (l : List Feat) : List Out :=
  (select F (stage12 sep scale l)).map (withEp N)

/-! ## unrepaired attachment of the ep columns (witnesses only)

mirrors trackpy/feature.py:452-453 as it stands in the pinned tree:
`ep = DataFrame(ep)` gets the labels `0..k-1`, the kept rows carry the labels they had after the
dedupe `reset_index` (`lbl`), and `concat(axis=1)` joins on labels (outer join): a kept row gets
the ep cells whose *position* equals its *label* (NaN if there is none) and every unused position
becomes a phantom row without a feature. -/
def misalignedEp (N : Noise) (kept : List (Nat × Feat)) : List (Option Feat × Option (List XR)) :=
  let eps := kept.map (fun p => (epRaw N p.2))
  let labels := kept.map (·.1)
  kept.map (fun p => (some p.2, eps[p.1]?)) ++
    ((List.range kept.length).filter (fun i => !(labels.contains i))).map
      (fun i => (none, eps[i]?))

/-! ## run-time checks and margins reported by the driver -/

/-- tags are the row numbers: strictly increasing -/
def tagsSortedB : List Feat → Bool
  | a :: b :: l => decide (a.tag < b.tag) && tagsSortedB (b :: l)
  | _ => true

def absR (q : Rat) : Rat := if q < 0 then -q else q

def minOpt (a : Option Rat) (b : Rat) : Option Rat :=
  match a with
  | none => some b
  | some x => some (if b < x then b else x)

/-- smallest `|d² − 1|` over all pairs of rows (none when fewer than two rows) -/
def dedupeMargin (sep : List Rat) (l : List Feat) : Option Rat :=
  l.foldl (fun acc x => l.foldl (fun acc y =>
    if x.tag < y.tag then minOpt acc (absR (dist2 sep x.pos y.pos - 1)) else acc) acc) none

/-- number of duplicate pairs in which both rows have the same mass -/
def dedupeMassTies (sep : List Rat) (l : List Feat) : Nat :=
  (l.map (fun x => (l.filter (fun y => decide (x.tag < y.tag) && close sep x y &&
    decide (x.mass = y.mass))).length)).sum

end TrackpyV.LocatePost
