import TrackpyV.Model.Drift
/-
Model of the `smoothing > 0` branch of `trackpy/motion.py: compute_drift`.  No Mathlib.

    dx = f_diff.loc[mask, pos_columns + ['frame']].groupby('frame').mean()      # motion.py:297
    if smoothing > 0:                                                            # motion.py:298
        dx = dx.rolling(smoothing, min_periods=0).mean()                         # motion.py:299
    return dx.cumsum()                                                           # motion.py:300

Order of operations: per-frame mean displacement, THEN the rolling mean, THEN the cumulative sum.
`dx` has one row per MEASURED frame only (`groupby` of the masked rows): a frame without any
displacement is not a NaN row, it is absent.  The rolling window is therefore positional over the
measured frames (the last `smoothing` ROWS of `dx`, whatever their frame numbers), it is trailing
(rows `i-smoothing+1 .. i`; the docstring's "forward-looking" is not what pandas does), and with
`min_periods=0` the first rows average the shorter prefix instead of being NaN.  Replayed on
pandas 3.0: frames 1,2,3,6,7,8 measured with mean displacements 1,2,3,5,6,7 and smoothing = 2
give the cumulative sums 1, 5/2, 5, 9, 29/2, 21 (window at frame 6 = rows of frames 3 and 6).
-/
namespace TrackpyV.Drift

/-- the trailing window of (at most) `w` entries ending at position `i` -/
def window (w : Nat) (xs : List Rat) (i : Nat) : List Rat := (xs.take (i + 1)).drop (i + 1 - w)

/-- pandas `Series.rolling(w, min_periods=0).mean()` for `w ≥ 1` on a list without NaN:
value `i` = mean of the last `min w (i+1)` entries ending at `i`. -/
def rollingMean (w : Nat) (xs : List Rat) : List Rat :=
  (List.range xs.length).map (fun i => mean (window w xs i))

/-- mirrors trackpy/motion.py:298-299 on the values of one column (`smoothing > 0` strict) -/
def smoothVals (w : Nat) (xs : List Rat) : List Rat := if w > 0 then rollingMean w xs else xs

/-- the same on a (frame, value) curve: the frame index is carried, the values are smoothed -/
def smoothCurve (w : Nat) (c : List (Int × Rat)) : List (Int × Rat) :=
  (c.map Prod.fst).zip (smoothVals w (c.map Prod.snd))

/-- mirrors trackpy/motion.py:282-300 with `smoothing = w` for position column `k` -/
def driftSmoothedCol (w k : Nat) (t : List Row) : List (Int × Rat) :=
  cumsum 0 (smoothCurve w (groupMean (maskedDiffs k (sortPF t))))

/-- `compute_drift(t, smoothing = w)` for `d` position columns -/
def ownDriftSmoothed (w d : Nat) (t : List Row) : List (List (Int × Rat)) :=
  (List.range d).map (fun k => driftSmoothedCol w k t)

/-- `subtract_drift(t, compute_drift(t, smoothing = w))` -/
def subtractSmoothedDrift (w d : Nat) (t : List Row) : List Row :=
  subtractDrift (ownDriftSmoothed w d t) t

end TrackpyV.Drift
