/-
Model of `trackpy/refine/center_of_mass.py` (`_refine` L208-285 and, by construction, the kernels
`_numba_refine_2D` L288-355, `_numba_refine_2D_c` L357-449, `_numba_refine_2D_c_a` L452-554,
`_numba_refine_3D` L557-700) and of the mask geometry of `trackpy/masks.py` L8-84.
No Mathlib (compiled into the native driver).

Three independent layers (reused by C08 / C09 / C14):

* **mask geometry** — `boxOffsets`, `ellipseSum`, `maskOffsets`, the weights `wR2`, `wX2`, `wCos`,
  `wSin` (with the centre-pixel values `centreCos`, `centreSin` as single named definitions);
* **measure** — `wsum` (one weighted sum over the mask placed at an origin), `massAt`, `momAt`,
  `cmN`, `maskMax`, and `measure` = every reported number, all taken at ONE mask centre;
* **loop** — `offCentre`, `converged`, `moveAxis`, `clipAxis`, `next`, `lastCentre`, `trace`.

`refineOne = measure ∘ lastCentre`.  Images are integer valued (`Nat` pixels), every reported
number is an exact rational; `size` (a square root) is reported as its square, `ecc` as the two
numerator sums and the centre pixel.  All vectors (radius, shape, centre, offsets) are lists
indexed by axis `0 .. ndim-1` (`ndim = radius.length`), read with `getD i 0`.
-/
namespace TrackpyV.Refine

/-- An n-dimensional integer image: the pixel value at an index vector.  (The driver builds it
from a flat row-major array; indices outside the array read 0 — never used under the hypothesis
"mask inside the image", see `refine_mask_inside`.) -/
abbrev Image := List Int → Nat

/-! ## mask geometry (trackpy/masks.py) -/

/-- all offset vectors of the box `Π_i [0, 2 r_i]` in row-major (C) order — the index set of the
`(2r+1)`-shaped arrays of masks.py, in the order of `mask.nonzero()`.
mirrors trackpy/masks.py:12-14 (`np.arange(-rad, rad + 1)`, `meshgrid(indexing="ij")`; offsets here
are array indices `0..2r`, the code's coordinate is `index - rad`) -/
def boxOffsets : List Nat → List (List Nat)
  | [] => [[]]
  | r :: rs => (List.range (2 * r + 1)).flatMap (fun o => (boxOffsets rs).map (fun t => o :: t))

/-- signed coordinate of array index `o` on an axis of radius `r` (`coord = index - rad`) -/
def rel (r o : Nat) : Int := (o : Int) - (r : Int)

/-- `Σ_i (coord_i / rad_i)²`.  mirrors trackpy/masks.py:17 `r = [(coord/rad)**2 ...]`, `sum(r)` -/
def ellipseSum : List Nat → List Nat → Rat
  | r :: rs, o :: os => ((rel r o : Int) : Rat) / (r : Rat) * (((rel r o : Int) : Rat) / (r : Rat))
                          + ellipseSum rs os
  | _, _ => 0

/-- mirrors trackpy/masks.py:18 `sum(r) <= 1` (inclusive) -/
def inEllipse (radius off : List Nat) : Bool := decide (ellipseSum radius off ≤ 1)

/-- the elliptical mask as the list of its array indices, row-major.
mirrors trackpy/masks.py:9-18 `binary_mask` + center_of_mass.py:158,168 `mask.nonzero()` -/
def maskOffsets (radius : List Nat) : List (List Nat) :=
  (boxOffsets radius).filter (inEllipse radius)

/-- `r²` weight.  mirrors trackpy/masks.py:36 `np.sum(coords**2, 0)` (pixel units, not scaled) -/
def wR2 (radius : List Nat) (off : List Nat) : Rat :=
  (((List.range radius.length).map
      (fun i => rel (radius.getD i 0) (off.getD i 0) * rel (radius.getD i 0) (off.getD i 0))).sum : Int)

/-- `ndim · x_i²` weight of the anisotropic size.
mirrors trackpy/masks.py:51 `coords**2` and center_of_mass.py:267 `ndim * np.sum(x_squared_masks..` -/
def wX2 (radius : List Nat) (i : Nat) (off : List Nat) : Rat :=
  ((radius.length : Int) * (rel (radius.getD i 0) (off.getD i 0) * rel (radius.getD i 0) (off.getD i 0)) : Int)

/-- value of `cosmask` at the centre pixel.  masks.py:71 gives the centre `theta = atan2(0, 0) = 0`,
hence `cos(2·0) = 1` TODAY (DESIGN §8, C09 row).  Single switch: a repaired masks.py has 0 here. -/
def centreCos : Rat := 1
/-- value of `sinmask` at the centre pixel: `sin(2·atan2(0,0)) = 0`. -/
def centreSin : Rat := 0

/-- `cos 2θ` with `θ = atan2(y, x)`, `y` = axis-0 coordinate, `x` = axis-1 coordinate:
`cos 2θ = (x² − y²)/(x² + y²)`.  2-D only.  mirrors trackpy/masks.py:71-72, 82-84 -/
def wCos (radius : List Nat) (off : List Nat) : Rat :=
  let y : Int := rel (radius.getD 0 0) (off.getD 0 0)
  let x : Int := rel (radius.getD 1 0) (off.getD 1 0)
  if x = 0 ∧ y = 0 then centreCos else ((x * x - y * y : Int) : Rat) / ((x * x + y * y : Int) : Rat)

/-- `sin 2θ = 2xy/(x² + y²)`.  mirrors trackpy/masks.py:71-72, 76-78 -/
def wSin (radius : List Nat) (off : List Nat) : Rat :=
  let y : Int := rel (radius.getD 0 0) (off.getD 0 0)
  let x : Int := rel (radius.getD 1 0) (off.getD 1 0)
  if x = 0 ∧ y = 0 then centreSin else ((2 * x * y : Int) : Rat) / ((x * x + y * y : Int) : Rat)

/-! ## measuring on a mask placed in the image -/

/-- lower corner of the mask box when the mask centre is `c` (`square = coord - radius`,
`rect = slice(c - r, c + r + 1)`).  mirrors center_of_mass.py:235-236, 306-307 -/
def origin (radius : List Nat) (c : List Int) : List Int :=
  (List.range radius.length).map (fun i => c.getD i 0 - (radius.getD i 0 : Nat))

/-- image index of mask array index `off` (`square + mask[i]`).  mirrors center_of_mass.py:310-311 -/
def addOff (org : List Int) (off : List Nat) : List Int :=
  (List.range org.length).map (fun i => org.getD i 0 + (off.getD i 0 : Nat))

/-- `Σ_{off ∈ mask} w(off) · img[org + off]` — every sum the refinement takes has this form. -/
def wsum (img : Image) (mask : List (List Nat)) (org : List Int) (w : List Nat → Rat) : Rat :=
  (mask.map (fun off => w off * ((img (addOff org off) : Nat) : Rat))).sum

/-- `mass_ = Σ px`.  mirrors center_of_mass.py:20 `x.sum()`, :260, :314 -/
def massAt (img : Image) (mask : List (List Nat)) (org : List Int) : Rat :=
  wsum img mask org (fun _ => 1)

/-- first moment along axis `i`: `Σ px · maskI[i]` (array index, not centred).
mirrors center_of_mass.py:23 `(x * grids[dim]).sum()`, :312-313 -/
def momAt (img : Image) (mask : List (List Nat)) (org : List Int) (i : Nat) : Rat :=
  wsum img mask org (fun off => ((off.getD i 0 : Nat) : Rat))

/-- `cm_n[i]`: centre of mass in mask array coordinates; the mask centre when the mask is black.
mirrors center_of_mass.py:19-24 `_safe_center_of_mass` (the kernels divide by zero there; the
property's hypothesis "non-zero brightness" excludes the branch) -/
def cmN (img : Image) (mask : List (List Nat)) (radius : List Nat) (org : List Int) (i : Nat) : Rat :=
  if massAt img mask org = 0 then ((radius.getD i 0 : Nat) : Rat)
  else momAt img mask org i / massAt img mask org

/-- `signal`: largest masked pixel (the box pixels outside the ellipse count as 0).
mirrors center_of_mass.py:278 `neighborhood.max()`, :430-441 (`signal_ = 0.; if px > signal_`) -/
def maskMax (img : Image) (mask : List (List Nat)) (org : List Int) : Nat :=
  (mask.map (fun off => img (addOff org off))).foldl max 0

/-- Everything `refine_com` reports for one feature, measured with the mask centred at `centre`. -/
structure Measure where
  /-- the integer mask centre all numbers below were measured at -/
  centre : List Int
  /-- `cm_i = cm_n - radius + coord` per axis (the reported position) -/
  pos : List Rat
  mass : Rat
  /-- `size²`: `[Σ r²·px / mass]` if isotropic, else per axis `ndim·Σ x_i²·px / mass` -/
  rg2 : List Rat
  /-- `(Σ cos2θ·px, Σ sin2θ·px, centre pixel)` in 2-D; `none` = NaN otherwise -/
  ecc : Option (Rat × Rat × Nat)
  signal : Nat
  rawMass : Rat
deriving Repr

/-- mirrors center_of_mass.py:213 `np.all(radius[1:] == radius[:-1])` -/
def isotropic : List Nat → Bool
  | [] => true
  | r :: rs => rs.all (fun s => s == r)

/-- mirrors center_of_mass.py:239 `cm_i = cm_n - radius + coord`, :318-319 -/
def posAt (img : Image) (mask : List (List Nat)) (radius : List Nat) (c : List Int) : List Rat :=
  (List.range radius.length).map (fun i =>
    cmN img mask radius (origin radius c) i - ((radius.getD i 0 : Nat) : Rat) + ((c.getD i 0 : Int) : Rat))

/-- mirrors center_of_mass.py:263-270 (python), :435/442 (2D_c), :538-547 (2D_c_a), :668-692 (3D) -/
def rg2At (img : Image) (mask : List (List Nat)) (radius : List Nat) (org : List Int) : List Rat :=
  if isotropic radius then [wsum img mask org (wR2 radius) / massAt img mask org]
  else (List.range radius.length).map (fun i => wsum img mask org (wX2 radius i) / massAt img mask org)

/-- mirrors center_of_mass.py:272-277 (python), :436-437,444-445 (2D_c), :540-541,549-550 (2D_c_a),
:697 (3D: NaN).  `neighborhood[radius]` / `image[squareY + radiusY, squareX + radiusX]` = the pixel
at array index `radius`. -/
def eccAt (img : Image) (mask : List (List Nat)) (radius : List Nat) (org : List Int) :
    Option (Rat × Rat × Nat) :=
  if radius.length = 2 then
    some (wsum img mask org (wCos radius), wsum img mask org (wSin radius), img (addOff org radius))
  else none

/-- All reported numbers at one mask centre; `raw` is only used for `rawMass`, at the same origin.
mirrors center_of_mass.py:253-280 (python) and the post-loop blocks of the kernels. -/
def measure (img raw : Image) (mask : List (List Nat)) (radius : List Nat) (c : List Int) : Measure :=
  let org := origin radius c
  { centre := c
    pos := posAt img mask radius c
    mass := massAt img mask org
    rg2 := rg2At img mask radius org
    ecc := eccAt img mask radius org
    signal := maskMax img mask org
    rawMass := massAt raw mask org }

/-! ## the refinement loop -/

/-- `off_center = cm_n - radius`.  mirrors center_of_mass.py:241, :321-322 -/
def offCentre (img : Image) (mask : List (List Nat)) (radius : List Nat) (c : List Int) : List Rat :=
  (List.range radius.length).map (fun i =>
    cmN img mask radius (origin radius c) i - ((radius.getD i 0 : Nat) : Rat))

/-- `np.all(np.abs(off_center) < shift_thresh)` (strict).  mirrors center_of_mass.py:243, :323-324 -/
def converged (thr : Rat) (oc : List Rat) : Bool :=
  oc.all (fun o => decide (-thr < o ∧ o < thr))

/-- `coord[off_center > shift_thresh] += 1; coord[off_center < -shift_thresh] -= 1` (both strict:
an off-centre of exactly ±thr neither satisfies the break test nor moves).
mirrors center_of_mass.py:246-247, :328-337 -/
def moveAxis (thr o : Rat) (c : Int) : Int :=
  if o > thr then c + 1 else if o < -thr then c - 1 else c

/-- `np.clip(coord, radius, upper_bound)` with `upper_bound = shape - 1 - radius`
(= `min (max c lo) hi`; the kernels test `< radius` first, then `> upper_bound`: same function).
mirrors center_of_mass.py:249-250, :295-296, :339-346 -/
def clipAxis (r sh : Nat) (c : Int) : Int :=
  min (max c (r : Int)) ((sh : Int) - 1 - (r : Int))

/-- the coordinate after one move-and-clip -/
def next (thr : Rat) (radius shape : List Nat) (oc : List Rat) (c : List Int) : List Int :=
  (List.range radius.length).map (fun i =>
    clipAxis (radius.getD i 0) (shape.getD i 0) (moveAxis thr (oc.getD i 0) (c.getD i 0)))

/-- The mask centre of the LAST EVALUATED iteration.  `fuel` = number of iterations still allowed
after the one at `c` (`max_iterations - 1` at the start): the code evaluates at `c`; `break`s when
converged; otherwise moves, and the moved coordinate is evaluated only if an iteration is left —
`cm_i`, `mass_`, `neighborhood` / `square` keep the values of the last evaluation.
mirrors center_of_mass.py:233-250, :302-346 -/
def lastCentre (thr : Rat) (img : Image) (mask : List (List Nat)) (radius shape : List Nat) :
    Nat → List Int → List Int
  | 0, c => c
  | k + 1, c =>
    if converged thr (offCentre img mask radius c) then c
    else lastCentre thr img mask radius shape k (next thr radius shape (offCentre img mask radius c) c)

/-- every mask centre the loop evaluates, in order (its last element is `lastCentre`) -/
def trace (thr : Rat) (img : Image) (mask : List (List Nat)) (radius shape : List Nat) :
    Nat → List Int → List (List Int)
  | 0, c => [c]
  | k + 1, c =>
    if converged thr (offCentre img mask radius c) then [c]
    else c :: trace thr img mask radius shape k (next thr radius shape (offCentre img mask radius c) c)

/-- `max_iterations <= 0` is replaced by 1.  mirrors center_of_mass.py:108-110 -/
def fuelOf (maxIter : Nat) : Nat := (max maxIter 1) - 1

/-- One feature through `refine_com`: run the loop from the (rounded, integer) start pixel and
report every number at the last evaluated mask centre. -/
def refineOne (thr : Rat) (img raw : Image) (radius shape : List Nat) (maxIter : Nat)
    (start : List Int) : Measure :=
  measure img raw (maskOffsets radius) radius
    (lastCentre thr img (maskOffsets radius) radius shape (fuelOf maxIter) start)

/-- hypothesis of the property on a mask centre: the mask box lies inside the image,
`r_i ≤ c_i ≤ shape_i − 1 − r_i` on every axis (decidable; re-checked by the driver) -/
def insideB (radius shape : List Nat) (c : List Int) : Bool :=
  c.length == radius.length && shape.length == radius.length &&
  (List.range radius.length).all (fun i =>
    decide (((radius.getD i 0 : Nat) : Int) ≤ c.getD i 0 ∧
            c.getD i 0 ≤ ((shape.getD i 0 : Nat) : Int) - 1 - ((radius.getD i 0 : Nat) : Int)))

/-! ## flat row-major images (driver side) -/

def flatIndex : List Nat → List Int → Option Nat
  | [], [] => some 0
  | s :: ss, i :: is =>
    if 0 ≤ i ∧ i < (s : Int) then
      (flatIndex ss is).map (fun rest => i.toNat * ss.foldl (· * ·) 1 + rest)
    else none
  | _, _ => none

def ofArray (shape : List Nat) (data : Array Nat) : Image :=
  fun idx => match flatIndex shape idx with
    | some k => data.getD k 0
    | none => 0

end TrackpyV.Refine
