import TrackpyV.Model.Bandpass
import TrackpyV.Model.Find
import TrackpyV.Model.Refine
/-
`locate` / `batch` as the COMPOSITION of the stage models (`trackpy/feature.py`), plus the image
transformations C09 speaks about (embedding a content image in a black canvas, reversing the axes).
No new stage is modelled here: `Bandpass.bandpass` (C10), `Find.convertToInt`, `Find.greyDilation`
(C06) and `Refine.refineOne` (C07) are imported, not copied.  No Mathlib (compiled into the driver).

* `locateModel`  mirrors feature.py:L367-399 for a `uint8` raw image: bandpass (or not) →
                 convert_to_int → grey_dilation(precise=False) → refine_com.  The post-filters of
                 feature.py:L403-453 (de-duplication, minmass/maxsize/topn, uncertainty) are C08's
                 `Model/LocatePost.lean` and are NOT part of it.  (C05 reuses this definition.)
* `batchModel`   mirrors feature.py:L555-588: the frames are processed in order, every non-empty
                 per-frame table is tagged with its frame number and the tables are concatenated.
* `embed`, `revImg`, `shiftPos`   the transformations; `padOK`, `clipFree` the decidable padding
                 hypotheses of the shift theorems (re-checked by the driver on every case).
-/
namespace TrackpyV.Locate
open TrackpyV

/-! ## image transformations -/

/-- `off_i ≤ p_i < off_i + n_i` on every axis: `p` lies in the region a content image of shape `ns`
occupies when its corner is put at `off` -/
def inRegion : List Nat → List Nat → Find.Pos → Bool
  | o :: os, n :: ns, i :: p => (decide (o ≤ i) && decide (i < o + n)) && inRegion os ns p
  | _, _, _ => true

/-- per-axis sum / (truncated) difference of index vectors -/
def addPos (p off : List Nat) : List Nat := List.zipWith (· + ·) p off
def subPos (p off : List Nat) : List Nat := List.zipWith (· - ·) p off

/-- the content image `img` placed with its corner at `off` on a black canvas of shape `canvas`
(`big = np.zeros(canvas); big[off:off+shape] = img`) -/
def embed (canvas off : List Nat) (img : Find.Image) : Find.Image :=
  ⟨canvas, ((Find.allIdx canvas).map
      (fun p => if inRegion off img.shape p then img.pix (subPos p off) else 0)).toArray⟩

/-- the image with its axes in reverse order (`image.T`; in 2-D the transpose) -/
def revImg (img : Find.Image) : Find.Image :=
  ⟨img.shape.reverse, ((Find.allIdx img.shape.reverse).map (fun p => img.pix p.reverse)).toArray⟩

/-- a canvas position moved from offset `off₁` to offset `off₂` -/
def shiftPos (off₁ off₂ : List Nat) (p : Find.Pos) : Find.Pos := addPos (subPos p off₁) off₂

/-- padding hypothesis of `maxima_shift`: on every axis at least `margin_i` black pixels before and
after the content (`m_i ≤ off_i` and `off_i + n_i + m_i ≤ N_i`) -/
def padOK : List Nat → List Nat → List Nat → List Nat → Bool
  | N :: Ns, o :: os, n :: ns, m :: ms => (decide (m ≤ o) && decide (o + n + m ≤ N)) && padOK Ns os ns ms
  | [], [], [], [] => true
  | _, _, _, _ => false

/-- padding hypothesis of `refine_shift`: the start pixel `c` is so far from every border of an
image of shape `shape` that `fuel` moves of one pixel never reach the clip of
center_of_mass.py:L249-250: `r_i + fuel ≤ c_i ≤ shape_i − 1 − r_i − fuel` on every axis -/
def clipFree (radius shape : List Nat) (fuel : Nat) (c : List Int) : Bool :=
  (List.range radius.length).all (fun i =>
    decide (((radius.getD i 0 : Nat) : Int) + (fuel : Int) ≤ c.getD i 0 ∧
            c.getD i 0 + (fuel : Int) ≤ ((shape.getD i 0 : Nat) : Int) - 1 - ((radius.getD i 0 : Nat) : Int)))

/-- `o_i + n_i ≤ N_i` on every axis: the content fits into the canvas at this offset -/
def fitsB : List Nat → List Nat → List Nat → Bool
  | N :: Ns, o :: os, n :: ns => decide (o + n ≤ N) && fitsB Ns os ns
  | [], [], [] => true
  | _, _, _ => false

/-- decidable check that `big` shows `content` at offset `off` on a black canvas (the relation
`Find.IsEmbed` of the shift theorems; `isEmbedB_sound` in Proofs/ShiftFind): the content fits, every
content pixel is found at its shifted place, every other canvas pixel is 0, and the sorted
non-zero pixels agree.  Evaluated by the driver on every embedded image it builds. -/
def isEmbedB (content : Find.Image) (off : List Nat) (big : Find.Image) : Bool :=
  fitsB big.shape off content.shape
  && (Find.allIdx content.shape).all (fun u => big.pix (addPos u off) == content.pix u)
  && (Find.allIdx big.shape).all (fun p =>
        (Find.allIdx content.shape).any (fun u => p == addPos u off) || big.pix p == 0)
  && Find.sortNat (Find.nonzero big) == Find.sortNat (Find.nonzero content)

/-- decidable check that `imgT` is the transpose of the 2-D image `img` (`Find.IsTranspose`) -/
def isTransposeB (img imgT : Find.Image) (H W : Nat) : Bool :=
  img.shape == [H, W] && imgT.shape == [W, H]
  && (List.range H).all (fun i => (List.range W).all (fun j => imgT.pix [j, i] == img.pix [i, j]))
  && Find.sortNat (Find.nonzero imgT) == Find.sortNat (Find.nonzero img)

/-! ## locate = the composition of the stage models -/

/-- the arguments of `locate` after feature.py:L316-361 (`validate_tuple`, defaults) -/
structure Params where
  /-- `preprocess` -/
  preprocess : Bool
  /-- `noise_size` per axis and the Gaussian kernel of every axis (a parameter, as in C10) -/
  lshort : List Rat
  kernels : List (Array Rat)
  /-- `smoothing_size` per axis -/
  llong : List Int
  /-- `threshold` (`none` = the default of `bandpass`) -/
  thr : Option Rat
  /-- `separation` per axis, `percentile`, and the margin of feature.py:L389-390 -/
  sep : List Rat
  pct : Rat
  margin : List Nat
  /-- `radius` per axis, `shift_thresh` (0.6 as the exact value of the float), `max_iterations` -/
  radius : List Nat
  shiftThr : Rat
  maxIter : Nat

/-- mirrors feature.py:L367-379: the image the maxima are searched on.  `preprocess=False`: the raw
integer image itself (`convert_to_int` does nothing).  `preprocess=True`: `bandpass` of the raw image
(a float image), rescaled to the raw dtype `uint8` by `convert_to_int`.  `none` = `bandpass`
refuses its arguments. -/
def workImage (P : Params) (shape : List Nat) (raw : Array Nat) : Option (Array Nat) :=
  if P.preprocess then
    match Bandpass.bandpass shape (raw.map (fun (v : Nat) => (v : Rat))) P.lshort P.kernels P.llong P.thr with
    | .ok out => some (Find.convertToInt out.toList).toArray
    | .error _ => none
  else some raw

/-- mirrors feature.py:L367-399 on a `uint8` image: work image → `grey_dilation(image, separation,
percentile, margin, precise=False)` → `refine_com(raw_image, image, radius, coords, …)`; one
`Refine.Measure` per local maximum, in `np.where` order.  `none` = some stage refuses its
arguments (outside the model). -/
def locateModel (P : Params) (shape : List Nat) (raw : Array Nat) : Option (List Refine.Measure) :=
  match workImage P shape raw with
  | none => none
  | some work =>
    match Find.greyDilation ⟨shape, work⟩ P.sep P.pct (some P.margin) false with
    | none => none
    | some coords =>
      some (coords.map (fun p =>
        Refine.refineOne P.shiftThr (Refine.ofArray shape work) (Refine.ofArray shape raw)
          P.radius shape P.maxIter (p.map Int.ofNat)))

/-! ## batch -/

/-- a frame handed to `batch`: its `frame_no` attribute (`none` = a plain array) and its content -/
structure Frame (ι : Type) where
  frameNo : Option Int
  image : ι

/-- mirrors feature.py:L558-568 (and L457-458): the frame number of the `i`-th frame is its
`frame_no` attribute if it has one, else the iteration count `i` -/
def frameNoOf {ι} (i : Nat) (f : Frame ι) : Int := f.frameNo.getD (i : Int)

/-- `features['frame'] = frame_no` -/
def tag {α} (fno : Int) (rows : List α) : List (Int × α) := rows.map (fun r => (fno, r))

/-- number the elements of a list from `k` (`enumerate`) -/
def enumFrom {α} : Nat → List α → List (Nat × α)
  | _, [] => []
  | k, x :: xs => (k, x) :: enumFrom (k + 1) xs

/-- mirrors feature.py:L556-588 with `output=None`, `after_locate=None`: `results` is what
`map_func(curried_locate, frames)` yields (one table per frame, IN FRAME ORDER — `map`, or
`Pool.imap`, which is order preserving); each is tagged, the empty ones are skipped
(`if len(features) > 0`), the rest concatenated (`pandas_concat(all_features)`). -/
def assemble {ι α} (frames : List (Frame ι)) (results : List (List α)) : List (Int × α) :=
  (((enumFrom 0 (frames.zip results)).map
      (fun x => tag (frameNoOf x.1 x.2.1) x.2.2)).filter (fun t => !t.isEmpty)).flatten

/-- `batch(frames, …)` with an order-preserving `map_func` -/
def batchModel {ι α} (locate : ι → List α) (frames : List (Frame ι)) : List (Int × α) :=
  assemble frames (frames.map (fun f => locate f.image))

end TrackpyV.Locate
