import TrackpyV.Model.Adaptive
import TrackpyV.Model.AdaptiveAlgo
/-!
Adaptive search with the numba sub-net linker's extra cap modelled INSIDE the recursion
(`trackpy/linking/subnetlinker.py:173-209` numba_link, `:426-468` subnet_linker_numba,
`trackpy/linking/linking.py:284-309` adaptive_link_wrap).

`numba_link` raises SubnetOversizeException not only for `nj > max_size` (subnetlinker.py:188-190)
but also when a source has more than `max_candidates = 9` forward candidates, the null candidate
included (subnetlinker.py:185, 205-209) — i.e. at least 9 real candidates within the range in
force.  `adaptive_link_wrap` catches that exception like any other: it reduces the range, splits
and recurses (linking.py:290-307).  With `link_strategy='hybrid'` (`hybrid=True`) the groups with
`lds == 1 or lss == 1 or (lds <= 3 and lss <= 3)` are handed to the recursive linker instead
(subnetlinker.py:458-459), which knows only the size test; with `link_strategy='numba'`
(`hybrid=False`, linking.py:400-402) every non-shortcut group goes to `numba_link`.

`mode`: 0 = recursive / nonrecursive (no extra cap), 1 = numba, 2 = hybrid.
`Adaptive.plan` and `Adaptive.stepCheckA` are left untouched; `Props/C12Numba.planN_zero` /
`stepCheckAN_zero` show that mode 0 is exactly them.

No Mathlib imports: this file is compiled into the native driver.
-/
namespace TrackpyV.Adaptive
open TrackpyV.Assign TrackpyV.Linker

/-- some source has more than 9 forward candidates, null candidate included
(`ncands[j] > max_candidates`, subnetlinker.py:205-207; the net lists the REAL candidates) -/
def manyCands (n : Net) : Bool := n.srcs.any (fun s => decide (s.2.length ≥ 9))

/-- does the candidate cap of `numba_link` apply to this group?  (mirrors the dispatch in
`subnet_linker_numba`, subnetlinker.py:458-461) -/
def numbaOver (mode : Nat) (n : Net) : Bool :=
  match mode with
  | 0 => false
  | 1 => manyCands n
  | _ => !(n.dsts.length == 1 || n.srcs.length == 1 ||
            (decide (n.dsts.length ≤ 3) && decide (n.srcs.length ≤ 3))) && manyCands n

/-- the group is solved as it is: a shortcut case, or within the size limit and not beyond the
candidate cap of the linker in use -/
def fitsN (a : ACfg) (mode : Nat) (n : Net) : Bool :=
  shortcut n || (decide (n.srcs.length ≤ a.maxSizeA) && !numbaOver mode n)

/-- `adaptive_link_wrap` around `subnet_linker_numba`: `none` = SubnetOversizeException -/
def planN (a : ACfg) (B : Nat) (mode : Nat) : Nat → Nat → Net → Option (List Final)
  | 0, _, _ => none                      -- fuel exhausted (unreachable when fuel ≥ #reductions)
  | fuel + 1, k, n =>
    if fitsN a mode n then some [{ net := n, k := k }]
    else if atStop a k then none
    else (allSome ((split a B (k + 1) n).map (planN a B mode fuel (k + 1)))).map List.flatten

/-- The step relation under adaptive search with linker `mode` (as `stepCheckA`, with the plans
made by `planN`; the numba cap is part of the plan, so only the neighbour cap puts a step outside
the adaptive claims). -/
def stepCheckAN (a : ACfg) (cfg : Cfg) (mode : Nat) (st : State) (t : Int) (dsts : List Pos)
    (labels? : Option (List Nat)) : AVerdict :=
  let nets := stepNets cfg st t dsts
  if cappedB cfg st t dsts then
    (match labels? with
     | none => .capped
     | some labels =>
       match validWhy cfg st t dsts labels with
       | some why => .bad why
       | none => .ok (nextState cfg st t dsts labels) 0 0 true)
  else
  let plans := nets.map (fun n => (n, planN a cfg.B mode 64 0 n))
  let raises := plans.any (fun x => x.2.isNone)
  match labels? with
  | none => if raises then .expectOversize else .bad "raised SubnetOversizeException although every group can be reduced to fit"
  | some labels =>
  if raises then .bad "returned labels although an oversize group has reached adaptive_stop" else
  match validWhy cfg st t dsts labels with
  | some why => .bad why
  | none =>
  let ok := plans.all (fun x =>
    match x.2 with
    | none => false
    | some fs => fs.all (finalOkB a cfg st labels) && orphansOkB st labels x.1 fs)
  if !ok then .bad "a (sub-)group is not solved optimally within the range in force" else
  let reduced := (plans.filter (fun x => match x.2 with
    | some fs => fs.any (fun f => f.k > 0) || fs.isEmpty
    | none => false)).length
  let finals := (plans.map (fun x => match x.2 with | some fs => fs.length | none => 0)).foldl (· + ·) 0
  .ok (nextState cfg st t dsts labels) reduced finals false

/-- did the candidate cap change the plan of some sub-net of this step?  (driver statistic: the
deterministic algorithm model `algoLabelsA` follows `plan`, so function-mode comparisons are only
meaningful on steps where this is false) -/
def stepNumbaDiff (a : ACfg) (cfg : Cfg) (mode : Nat) (st : State) (t : Int) (dsts : List Pos) : Bool :=
  (stepNets cfg st t dsts).any (fun n =>
    let key := fun (r : Option (List Final)) =>
      r.map (fun fs => fs.map (fun f => (f.k, netIds f.net, f.net.dsts)))
    key (planN a cfg.B mode 64 0 n) != key (plan a cfg.B 64 0 n))

structure ARunN where
  run : ARun
  numbaSteps : Nat      -- steps whose plan differs from the cap-free plan
  ties : Nat            -- steps with a tied optimum in some final group (only when accepted)

/-- is the optimum of some final group (of the `planN` plans) of this step not unique? -/
def stepTiedAN (a : ACfg) (cfg : Cfg) (mode : Nat) (st : State) (t : Int) (dsts : List Pos) : Bool :=
  (stepNets cfg st t dsts).any (fun n =>
    match planN a cfg.B mode 64 0 n with
    | none => true
    | some fs => fs.any (fun f =>
        let ss := finalSrcs a cfg.B f
        if ss.isEmpty then false
        else if (ss.map List.length).foldl (· * ·) 1 > 50000 then true
        else countOptimal ss != 1))

def runCheckAN (a : ACfg) (cfg : Cfg) (mode : Nat) (levels : List Level) : ARunN :=
  let mk := fun (r : ARun) (nd ties : Nat) => ({ run := r, numbaSteps := nd, ties := ties } : ARunN)
  match levels with
  | [] => mk { verdict := "ok", step := 0, reason := "", reduced := 0, finals := 0 } 0 0
  | l0 :: rest =>
    match l0.labels with
    | none => mk { verdict := "bad", step := 0, reason := "first level raised", reduced := 0, finals := 0 } 0 0
    | some lab0 =>
    match initCheck l0.t l0.dsts lab0 with
    | .ok st0 _ _ _ _ =>
      let rec loop (st : State) (k : Nat) (ls : List Level) (r f cp nd ti : Nat) : ARunN :=
        match ls with
        | [] => mk { verdict := "ok", step := k, reason := "", reduced := r, finals := f, cappedSteps := cp } nd ti
        | l :: ls' =>
          let nd' := nd + (if stepNumbaDiff a cfg mode st l.t l.dsts then 1 else 0)
          match stepCheckAN a cfg mode st l.t l.dsts l.labels with
          | .ok st' r' f' c' =>
            let ti' := ti + (if !c' && stepTiedAN a cfg mode st l.t l.dsts then 1 else 0)
            loop st' (k + 1) ls' (r + r') (f + f') (cp + (if c' then 1 else 0)) nd' ti'
          | .expectOversize => mk { verdict := "expect-oversize", step := k, reason := "", reduced := r, finals := f } nd' ti
          | .capped => mk { verdict := "capped", step := k, reason := "", reduced := r, finals := f } nd' ti
          | .bad why => mk { verdict := "bad", step := k, reason := why, reduced := r, finals := f } nd' ti
      loop st0 1 rest 0 0 0 0 0
    | .bad why => mk { verdict := "bad", step := 0, reason := why, reduced := 0, finals := 0 } 0 0
    | _ => mk { verdict := "bad", step := 0, reason := "internal", reduced := 0, finals := 0 } 0 0

end TrackpyV.Adaptive
