/-
Model of local-maximum finding (`trackpy/find.py`, `trackpy/preprocessing.py:convert_to_int`).

* images are n-dimensional: `shape : List Nat` + flat C-order pixel array; positions are
  `List Nat` (one coordinate per axis, slowest axis first, as `np.where` returns them);
* `convertToInt`       mirrors `preprocessing.py:176-202` (non-integer images → uint8);
* `percentileThr`      mirrors `find.py:63-69` (`np.percentile`, linear interpolation, of the
                       NON-ZERO pixels; `none` = NaN = completely black image);
* `boxSize`            mirrors `find.py:113` (`int(2*s/sqrt(ndim))`, computed exactly);
* `dilateAt`           models `scipy.ndimage.grey_dilation(image, size, mode='constant')` at one
                       pixel (window `[p − (k−1)/2, p + k/2]` per axis, outside pixels count 0);
* `candidates`         mirrors `find.py:116-127` (maxima, `np.where` order, margin filter);
* `whereClose/dropClose` mirror `find.py:16-60` (all pairs closer than separation, per pair one
                       index is dropped, result = sorted set of dropped indices);
* `greyDilation`       mirrors `find.py:72-137`.

Pixel values are naturals (unsigned images; signed images with negative pixels are outside the
model).  No Mathlib imports: this file is compiled into the native driver.
-/
namespace TrackpyV.Find

/-- a pixel position: one coordinate per axis -/
abbrev Pos := List Nat

/-- n-dimensional integer image: `data` is the C-order flattening (`image.ravel()`) -/
structure Image where
  shape : List Nat
  data  : Array Nat

/-- C-order flat index of `p` (`np.ravel_multi_index`) -/
def flatIdx (shape : List Nat) (p : Pos) : Nat :=
  (shape.zip p).foldl (fun acc x => acc * x.1 + x.2) 0

/-- `image[p]` -/
def Image.pix (img : Image) (p : Pos) : Nat := img.data.getD (flatIdx img.shape p) 0

def Image.ndim (img : Image) : Nat := img.shape.length

/-- cartesian product of per-axis coordinate lists, in lexicographic (C / `np.where`) order -/
def cart : List (List Nat) → List Pos
  | [] => [[]]
  | r :: rs => r.flatMap (fun i => (cart rs).map (fun t => i :: t))

/-- every position of an image of the given shape, in `np.where` order -/
def allIdx (shape : List Nat) : List Pos := cart (shape.map List.range)

/-! ## convert_to_int -/

/-- mirrors preprocessing.py:196-202 (image of non-integer dtype, target uint8):
`scale = 255 / image.max()` (1 if the max is 0), `(scale * image.clip(min=0)).astype(uint8)`.
Pixels are exact rationals; `astype` truncates, which is `floor` on the non-negative values. -/
def convertToInt (xs : List Rat) : List Nat :=
  let mx := xs.foldl max (xs.headD 0)
  let factor : Rat := if mx = 0 then 1 else 255 / mx
  xs.map (fun x => (factor * (max x 0)).floor.toNat)

/-! ## percentile threshold -/

/-- `image[np.nonzero(image)]` -/
def nonzero (img : Image) : List Nat := img.data.toList.filter (fun v => v != 0)

/-- insertion into a sorted list (structural, so that concrete instances reduce by `decide`) -/
def insertSorted (x : Nat) : List Nat → List Nat
  | [] => [x]
  | y :: ys => if x ≤ y then x :: y :: ys else y :: insertSorted x ys

/-- `np.sort` (insertion sort: quadratic, adequate for the image sizes driven here) -/
def sortNat (l : List Nat) : List Nat := l.foldr insertSorted []

/-- `np.percentile(xs, pct)` with the default linear interpolation, exact: virtual index
`(n−1)·pct/100`, `lo = floor`, result `a[lo] + (a[lo+1] − a[lo])·frac`.  `none` for `[]`. -/
def percentileOf (xs : List Nat) (pct : Rat) : Option Rat :=
  let n := xs.length
  if n = 0 then none
  else
    let s := (sortNat xs).toArray
    let pos : Rat := ((n - 1 : Nat) : Rat) * pct / 100
    let lo := pos.floor.toNat
    let g : Rat := pos - (lo : Rat)
    let a := s.getD lo 0
    let b := s.getD (min (lo + 1) (n - 1)) 0
    some ((a : Rat) + ((b : Rat) - (a : Rat)) * g)

/-- mirrors find.py:63-69 -/
def percentileThr (img : Image) (pct : Rat) : Option Rat := percentileOf (nonzero img) pct

/-! ## the box inscribed in the separation ellipse -/

/-- the largest `k ≤ b` with `P k`, `0` if there is none -/
def largestBelow (P : Nat → Bool) : Nat → Nat
  | 0 => 0
  | b + 1 => if P (b + 1) then b + 1 else largestBelow P b

/-- `k` fits: `k²·ndim ≤ 4 s²`, i.e. `k ≤ 2s/√ndim` -/
def boxFits (ndim : Nat) (s : Rat) (k : Nat) : Bool :=
  decide (((k * k * ndim : Nat) : Rat) ≤ 4 * s * s)

/-- mirrors find.py:113 `int(2 * s / np.sqrt(ndim))`: the largest `k` with `k²·ndim ≤ 4s²`
(searched below `⌊2s⌋`, which bounds every fitting `k` when `ndim ≥ 1`) -/
def boxSize (ndim : Nat) (s : Rat) : Nat :=
  largestBelow (boxFits ndim s) (2 * s).floor.toNat

/-! ## grey dilation -/

/-- the coordinates along one axis (extent `n`) covered by a flat structuring element of size `k`
centred, in scipy's convention, at `i`: `[i − (k−1)/2, i + k/2]`, clipped to `[0, n)`.
(Truncated subtraction clips at 0.) -/
def axisWin (n k i : Nat) : List Nat :=
  let lo := i - (k - 1) / 2
  List.range' lo (min (i + k / 2 + 1) n - lo)

/-- per-axis windows around `p` -/
def winAxes : List Nat → List Nat → Pos → List (List Nat)
  | n :: ns, k :: ks, i :: p => axisWin n k i :: winAxes ns ks p
  | _, _, _ => []

/-- the pixels of the box of sizes `ks` around `p` that lie inside the image -/
def window (shape ks : List Nat) (p : Pos) : List Pos := cart (winAxes shape ks p)

def maxList (l : List Nat) : Nat := l.foldl max 0

/-- `ndimage.grey_dilation(image, ks, mode='constant')[p]`: maximum over the window; pixels
outside the image contribute the constant 0 (which is also the value of an empty maximum) -/
def dilateAt (img : Image) (ks : List Nat) (p : Pos) : Nat :=
  maxList ((window img.shape ks p).map img.pix)

/-- mirrors find.py:117 `(image == dilation) & (image > threshold)` at `p` -/
def isMax (img : Image) (ks : List Nat) (thr : Rat) (p : Pos) : Bool :=
  decide (thr < (img.pix p : Rat)) && (img.pix p == dilateAt img ks p)

/-- mirrors find.py:104 `tuple([int(s / 2) for s in separation])` -/
def defaultMargin (sep : List Rat) : List Nat := sep.map (fun s => (s / 2).floor.toNat)

/-- mirrors find.py:126 `~((pos < margin) | (pos > shape - margin - 1)).any()` -/
def outsideMargin : List Nat → List Nat → Pos → Bool
  | n :: ns, m :: ms, i :: p => (decide (m ≤ i) && decide (i + m + 1 ≤ n)) && outsideMargin ns ms p
  | _, _, _ => true

/-- mirrors find.py:116-127: local maxima above threshold in `np.where` order, then the margin
filter -/
def candidates (img : Image) (ks : List Nat) (thr : Rat) (margin : List Nat) : List Pos :=
  ((allIdx img.shape).filter (isMax img ks thr)).filter (outsideMargin img.shape margin)

/-! ## where_close / drop_close -/

/-- a feature handed to `where_close`: position (integers on a common grid), intensity
(`intensity=None` ≙ all intensities equal) and the tie-break key `np.sum(pos/separation)`.
The key is a field, not recomputed, so that the float value the code actually compares can be
supplied; `exactKey` is the exact value. -/
structure Feat where
  pos   : List Int
  inten : Nat
  key   : Rat
deriving Repr, BEq, DecidableEq

/-- squared distance in units of the separation: `Σ ((aᵢ − bᵢ)/sᵢ)²` -/
def dist2 : List Rat → List Int → List Int → Rat
  | s :: ss, a :: as, b :: bs =>
    let d : Rat := ((a - b : Int) : Rat) / s
    d * d + dist2 ss as bs
  | _, _, _ => 0

/-- mirrors find.py:31 `query_pairs(1 - 1e-7)` on the rescaled positions, modelled as the strict
exact comparison `Σ ((aᵢ − bᵢ)/sᵢ)² < 1` -/
def close (sep : List Rat) (f g : Feat) : Bool := decide (dist2 sep f.pos g.pos < 1)

/-- `np.sum(pos / separation)` exactly -/
def exactKey : List Rat → List Int → Rat
  | s :: ss, a :: as => (a : Rat) / s + exactKey ss as
  | _, _ => 0

/-- mirrors find.py:40-51 for one pair; `a` carries the lower index (`index_0`), `b` the higher
(`index_1`).  Brighter wins; on equal brightness the larger key wins; on a full tie `index_0`
is dropped. -/
def pairDrop (a b : Nat × Feat) : Nat :=
  if a.2.inten > b.2.inten then b.1
  else if a.2.inten = b.2.inten then (if a.2.key > b.2.key then b.1 else a.1)
  else a.1

/-- number the elements of a list from `k` -/
def indexFrom {α} : Nat → List α → List (Nat × α)
  | _, [] => []
  | k, x :: xs => (k, x) :: indexFrom (k + 1) xs

/-- the `to_drop` array: one entry per unordered close pair `(i < j)` -/
def dropsAux (sep : List Rat) : List (Nat × Feat) → List Nat
  | [] => []
  | a :: rest =>
    rest.filterMap (fun b => if close sep a.2 b.2 then some (pairDrop a b) else none)
      ++ dropsAux sep rest

/-- `np.unique(d)` for indices `< n`: mark every entry of `d`, list the marked indices in
increasing order -/
def uniqueSorted (n : Nat) (d : List Nat) : List Nat :=
  let marks := d.foldl (fun (m : Array Bool) i => m.setIfInBounds i true) (Array.replicate n false)
  (List.range n).filter (fun i => marks.getD i false)

/-- mirrors find.py:16-52: sorted set (`np.unique`) of the indices to drop.  Nothing is dropped
when some separation is 0 (find.py:23). -/
def whereClose (sep : List Rat) (fs : List Feat) : List Nat :=
  if sep.any (fun s => s == 0) then []
  else uniqueSorted fs.length (dropsAux sep (indexFrom 0 fs))

/-- mirrors find.py:55-60 `np.delete(pos, to_drop, axis=0)` -/
def dropClose (sep : List Rat) (fs : List Feat) : List Feat :=
  let d := whereClose sep fs
  ((indexFrom 0 fs).filter (fun x => !d.contains x.1)).map (fun x => x.2)

/-! ## grey_dilation -/

/-- the feature `drop_close` sees for candidate `p` in `grey_dilation` (find.py:135) -/
def featOf (img : Image) (key : Pos → Rat) (p : Pos) : Feat :=
  { pos := p.map Int.ofNat, inten := img.pix p, key := key p }

def toPos (f : Feat) : Pos := f.pos.map Int.toNat

/-- the inputs `grey_dilation` handles without raising (and the model covers): separation and
margin have one entry per axis, the pixel array has `Π shape` entries, every separation is
positive and gives a box of size ≥ 1 -/
def wellFormed (img : Image) (sep : List Rat) (margin : List Nat) : Bool :=
  decide (0 < img.shape.length) && decide (sep.length = img.shape.length)
    && decide (margin.length = img.shape.length)
    && decide (img.data.size = img.shape.foldl (· * ·) 1)
    && sep.all (fun s => decide (0 < s) && decide (1 ≤ boxSize img.shape.length s))

/-- mirrors find.py:99-137 on an integer image.  `key` is the tie-break key used by
`where_close` (`exactKeyPos sep` is what the code computes, up to float rounding);
`none` = outside the model (`wellFormed` fails; the code raises or is unspecified). -/
def greyDilationK (key : Pos → Rat) (img : Image) (sep : List Rat) (pct : Rat)
    (margin? : Option (List Nat)) (precise : Bool) : Option (List Pos) :=
  let margin := margin?.getD (defaultMargin sep)
  if !wellFormed img sep margin then none
  else
    match percentileThr img pct with
    | none => some []                                           -- "Image is completely black."
    | some thr =>
      let ks := sep.map (boxSize img.shape.length)
      let cands := candidates img ks thr margin
      if precise then some ((dropClose sep (cands.map (featOf img key))).map toPos)
      else some cands

def exactKeyPos (sep : List Rat) (p : Pos) : Rat := exactKey sep (p.map Int.ofNat)

/-- `grey_dilation(image, separation, percentile, margin, precise)` on an integer image -/
def greyDilation (img : Image) (sep : List Rat) (pct : Rat) (margin? : Option (List Nat))
    (precise : Bool) : Option (List Pos) :=
  greyDilationK (exactKeyPos sep) img sep pct margin? precise

/-- `grey_dilation` on an image of non-integer dtype: `convert_to_int` first (find.py:99) -/
def greyDilationFloat (shape : List Nat) (xs : List Rat) (sep : List Rat) (pct : Rat)
    (margin? : Option (List Nat)) (precise : Bool) : Option (List Pos) :=
  greyDilation ⟨shape, (convertToInt xs).toArray⟩ sep pct margin? precise

end TrackpyV.Find
