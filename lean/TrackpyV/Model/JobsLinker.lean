import TrackpyV.Model.LinkerAlgo
/-!
Model of SEVERAL linking jobs (generators of `link_iter` / `link_df_iter` / `find_link_iter`)
stepped in an arbitrary interleaving inside one Python process — C04 over the deterministic
linker `algoLabels` (Model/LinkerAlgo.lean), not only over the trajectory-id counter (Model/Jobs).

What a job owns (`trackpy/linking/linking.py:468-491` `init_level`, `:516-522` `next_level`):
its `Linker` (`hash`, `mem_set`, `mem_history` = `Linker.State`), its private `TrackUnstored`
subclass (trajectory ids; `fix:` 5615bca) and — since `fix:` c3b1c87 — its private `Point`
subclass whose counter numbers the job's points (`Point.uuid`, the `__hash__` of a point).
What the process shares: the counter of the BASE class `Point` (`utils.py:112-118`), which every
`init_level` resets (`linking.py:469`).

`UidMode` says where the uuids of a level's points come from:
* `perLinker`   — the code as it is now (after c3b1c87): the job's own counter, started at 0 by
                  `init_level`; the base counter is reset by every `init_level` and drawn by nobody;
* `sharedReset` — the code before c3b1c87: every point of every job draws from the one base
                  counter, and every `init_level` resets it;
* `shared`      — one process-wide counter that is never reset (the textbook design).
The uuids are internal keys (hash of a point, row index of `coords_df`), never labels.

The per-job step is `Linker.jobLabels` / `Linker.firstState` (Model/LinkerAlgo.lean, the functions
behind the driver op `LALGO`).  A step `Op.frame j t dsts` is ATOMIC (one `next()` of the generator): threads are not modelled.
-/
namespace TrackpyV.JobsLinker
open TrackpyV.Linker

inductive UidMode where
  | perLinker | sharedReset | shared
  deriving Repr, DecidableEq

/-- one `next()` of job `j`'s generator: its next frame, observed at time `t`, with features `dsts` -/
inductive Op where
  | frame (j : Nat) (t : Int) (dsts : List Pos)
  deriving Repr, DecidableEq

def Op.job : Op → Nat
  | .frame j _ _ => j

/-- the frame an operation carries -/
def Op.lvl : Op → Int × List Pos
  | .frame _ t dsts => (t, dsts)

/-- the component of one job -/
structure Job where
  st : Option State := none        -- `none`: the generator has not produced its first level yet
  out : List (List Nat) := []      -- labels of the levels yielded so far, oldest first
  uids : List (List Nat) := []     -- `Point.uuid` of the points created for each level
  nextUid : Nat := 0               -- the job's own point counter (`self.point_cls.counter`)
  failed : Bool := false           -- the generator raised SubnetOversizeException: it is dead
  deriving Repr

/-- what a job shows to its consumer: linker state, labelled levels, dead or alive -/
def Job.vis (jb : Job) : Option State × List (List Nat) × Bool := (jb.st, jb.out, jb.failed)

/-- job-local effect of processing one frame whose points were given the uuids `us`
(mirrors `init_level` for the first frame, `next_level` afterwards; the points exist — and have
drawn their uuids — before the sub-nets are computed, so a raising step keeps `us`) -/
-- mirrors trackpy/linking/linking.py:468-491 (init_level), 516-522 (next_level), 445-466 (update_hash)
def Job.frame (cfg : Cfg) (jb : Job) (us : List Nat) (t : Int) (dsts : List Pos) : Job :=
  match jb.st with
  | none =>
    { st := some (firstState t dsts), out := jb.out ++ [List.range dsts.length],
      uids := jb.uids ++ [us], nextUid := us.length, failed := false }   -- `reset_counter()`
  | some st =>
    match jobLabels cfg st t dsts with
    | none => { jb with uids := jb.uids ++ [us], nextUid := jb.nextUid + us.length, failed := true }
    | some labels =>
      { jb with st := some (nextState cfg st t dsts labels), out := jb.out ++ [labels],
                uids := jb.uids ++ [us], nextUid := jb.nextUid + us.length }

structure Sys where
  jobs : Nat → Job
  uid : Nat                 -- the process-wide counter of the base class `Point`
  handed : List (Nat × Nat) := []   -- ghost: every (job, uuid) handed out so far, in order of issue

def upd {α} (f : Nat → α) (j : Nat) (v : α) : Nat → α := fun k => if k = j then v else f k

def Sys.init0 (u0 : Nat) : Sys := { jobs := fun _ => {}, uid := u0 }

/-- first uuid of the level job `jb` is about to create -/
-- mirrors trackpy/linking/utils.py:112-118 (Point.counter, uuid), linking.py:469-473, 462-463
def uidBase (m : UidMode) (s : Sys) (jb : Job) : Nat :=
  match m with
  | .perLinker => if jb.st.isNone then 0 else jb.nextUid
  | .sharedReset => if jb.st.isNone then 0 else s.uid
  | .shared => s.uid

/-- the process-wide counter after the level was created -/
def uidAfter (m : UidMode) (s : Sys) (jb : Job) (n : Nat) : Nat :=
  match m with
  | .perLinker => if jb.st.isNone then 0 else s.uid     -- `Point.reset_counter()` in `init_level`
  | .sharedReset => (if jb.st.isNone then 0 else s.uid) + n
  | .shared => s.uid + n

/-- one operation of the system; a dead job ignores further frames -/
-- mirrors trackpy/linking/linking.py:20-110 (link_iter: one `next()` = one init_level / next_level)
def stepSys (m : UidMode) (cfgs : Nat → Cfg) (s : Sys) : Op → Sys
  | .frame j t dsts =>
    let jb := s.jobs j
    if jb.failed then s else
    let us := List.range' (uidBase m s jb) dsts.length
    { jobs := upd s.jobs j (Job.frame (cfgs j) jb us t dsts),
      uid := uidAfter m s jb dsts.length,
      handed := s.handed ++ us.map (fun u => (j, u)) }

/-- run a schedule from the empty process (base counter at `u0`) -/
def runSched (m : UidMode) (cfgs : Nat → Cfg) (u0 : Nat) (ops : List Op) : Sys :=
  ops.foldl (stepSys m cfgs) (Sys.init0 u0)

/-- the frames job `j` receives along a schedule, in order -/
def framesOf (ops : List Op) (j : Nat) : List (Int × List Pos) :=
  (ops.filter (fun op => op.job == j)).map Op.lvl

end TrackpyV.JobsLinker
