/-
Executable model of `trackpy.preprocessing.lowpass / boxcar / bandpass` over exact rationals.
No Mathlib (compiled into the native driver).

An n-dimensional image is a `shape : List Nat` together with its pixels in C order
(`data : Array Rat`, `data.size = shape.prod`).  A separable filter is applied axis by axis, axis 0
first, exactly as the `for axis, … in enumerate(…)` loops of the code do; every axis pass writes a
complete new array (scipy's `correlate1d` / `uniform_filter1d` buffer each line, so the in-place
`output=result` of the code has the same meaning).

The two scipy primitives are modelled by their textbook definition (DESIGN §1.2: modelled
externals, tied to the code by the correspondence check on every run):

* `correlate1d(x, w, axis, mode='constant', cval=0.0)`:
      out[i] = Σ_j w[j] · x[i + j − ⌊len w / 2⌋]      with x[t] = 0 for t outside 0..n-1
* `uniform_filter1d(x, m, axis, mode='nearest')`:
      out[i] = (1/m) · Σ_{j<m} x[clamp(i + j − ⌊m/2⌋, 0, n−1)]

Both are instances of one shape, `Filt`: a number of taps `K`, a weight per tap and, per tap, the
line index that is sampled (`none` = a sample beyond the border, which reads as 0).
The Gaussian kernel is a *parameter* (any weight array); the harness supplies the documented one.
-/
namespace TrackpyV.Bandpass

/-- `Σ_{j<k} f j` (structural, so that proofs are plain inductions) -/
def sumTo : Nat → (Nat → Rat) → Rat
  | 0, _ => 0
  | k + 1, f => sumTo k f + f k

/-- the array `[f 0, …, f (n-1)]` -/
def tab (n : Nat) (f : Nat → Rat) : Array Rat := Array.ofFn (n := n) (fun i => f i.val)

/-- pixel `q` of a flat array, 0 beyond its end -/
def get (xs : Array Rat) (q : Nat) : Rat := xs.getD q 0

/-- a 1-D filter in "tap" form: output sample `i` of a line of length `n` is
    `Σ_{j<K} wt j · line[src n i j]`, a `none` source reading as 0 -/
structure Filt where
  K : Nat
  wt : Nat → Rat
  src : Nat → Nat → Nat → Option Nat

/-- a line sample; `none` = beyond the border of a zero-extended line -/
def sample (g : Nat → Rat) : Option Nat → Rat
  | some t => g t
  | none => 0

/-- output sample `i` of filter `F` on the line `g 0 … g (n-1)` -/
def Filt.apply (F : Filt) (n i : Nat) (g : Nat → Rat) : Rat :=
  sumTo F.K (fun j => F.wt j * sample g (F.src n i j))

/-- mirrors scipy.ndimage.correlate1d(…, mode='constant', cval=0.0) as called in
    trackpy/preprocessing.py:L44-45: tap `j` has weight `w[j]` and reads `line[i + j - len(w)//2]`,
    which is 0 outside the line -/
def corr (w : Array Rat) : Filt where
  K := w.size
  wt := fun j => get w j
  src := fun n i j => if w.size / 2 ≤ i + j ∧ i + j - w.size / 2 < n then some (i + j - w.size / 2)
                      else none

/-- mirrors scipy.ndimage.uniform_filter1d(…, size=m, mode='nearest') as called in
    trackpy/preprocessing.py:L77-78: `m` taps of weight `1/m`, tap `j` reads
    `line[clamp(i + j - m//2)]` (truncated subtraction clamps below, `min` clamps above) -/
def unif (m : Nat) : Filt where
  K := m
  wt := fun _ => 1 / (m : Rat)
  src := fun n i j => some (min (n - 1) (i + j - m / 2))

/-- an axis the code skips (`if _sigma > 0`, `if _size > 1` false): the line is left as it is -/
def skip : Filt where
  K := 1
  wt := fun _ => 1
  src := fun _ i _ => some i

/-- one pass of `F` along the axis that has length `n` and stride `inner` (= product of the
    later axis lengths): pixel `p` lies at position `i = (p / inner) % n` of its line, the line
    starts at `p - i*inner` and its `t`-th element is at `p - i*inner + t*inner` -/
def axisPass (F : Filt) (inner n : Nat) (xs : Array Rat) : Array Rat :=
  tab xs.size (fun p =>
    let i := (p / inner) % n
    F.apply n i (fun t => get xs (p - i * inner + t * inner)))

/-- all axes in turn, axis 0 first (`for axis, … in enumerate(…)`); `shape` and `Fs` are consumed
    in parallel, `rest.prod` is the stride of the current axis -/
def passes : List Nat → List Filt → Array Rat → Array Rat
  | n :: rest, F :: Fs, xs => passes rest Fs (axisPass F rest.prod n xs)
  | _, _, xs => xs

/-- mirrors preprocessing.py:L42-45 — `if _sigma > 0: correlate1d(result, gaussian_kernel(…), axis, …)` -/
def lowFilt (sigma : Rat) (kernel : Array Rat) : Filt :=
  if sigma > 0 then corr kernel else skip

/-- mirrors preprocessing.py:L75-78 — `if _size > 1: uniform_filter1d(result, _size, axis, …)` -/
def boxFilt (size : Int) : Filt :=
  if size > 1 then unif size.toNat else skip

def zipFilt : List Rat → List (Array Rat) → List Filt
  | s :: ss, k :: ks => lowFilt s k :: zipFilt ss ks
  | _, _ => []

/-- mirrors preprocessing.py:L13-46 `lowpass` (after `validate_tuple`; `kernels[a]` is
    `gaussian_kernel(sigma[a], truncate)`, a parameter here) -/
def lowpass (shape : List Nat) (img : Array Rat) (sigma : List Rat) (kernels : List (Array Rat)) :
    Array Rat :=
  passes shape (zipFilt sigma kernels) img

/-- mirrors preprocessing.py:L74-79, the filtering part of `boxcar` -/
def boxcarRaw (shape : List Nat) (img : Array Rat) (size : List Int) : Array Rat :=
  passes shape (size.map boxFilt) img

/-- every way the code refuses its arguments is a `ValueError` -/
inductive Err
  | badLength   -- utils.py:L191-196 validate_tuple: tuple length ≠ image.ndim
  | scales      -- preprocessing.py:L128-130: some lshort ≥ llong
  | evenSize    -- preprocessing.py:L72-73: some size is not odd
  deriving DecidableEq, Repr

/-- `x & 1` is truthy (Python semantics on negative ints included: `-3 & 1 = 1`) -/
def isOdd (k : Int) : Bool := k % 2 == 1

/-- mirrors preprocessing.py:L49-79 `boxcar` -/
def boxcar (shape : List Nat) (img : Array Rat) (size : List Int) : Except Err (Array Rat) :=
  if size.length ≠ shape.length then .error .badLength
  else if ¬ size.all isOdd then .error .evenSize
  else .ok (boxcarRaw shape img size)

/-- `lshort[a] >= llong[a]` for some axis (preprocessing.py:L128) -/
def scaleClash : List Rat → List Int → Bool
  | s :: ss, l :: ls => decide ((l : Rat) ≤ s) || scaleClash ss ls
  | _, _ => false

/-- default threshold of a float image, preprocessing.py:L131-135 -/
def defaultThreshold : Rat := 1 / 255

/-- `np.where(result >= threshold, result, 0)`, preprocessing.py:L139 -/
def clip (thr : Rat) (v : Rat) : Rat := if thr ≤ v then v else 0

/-- `result -= background`, preprocessing.py:L138 -/
def subArr (a b : Array Rat) : Array Rat := tab a.size (fun p => get a p - get b p)

/-- `lowpass − boxcar` before clipping -/
def diff (shape : List Nat) (img : Array Rat) (lshort : List Rat) (kernels : List (Array Rat))
    (llong : List Int) : Array Rat :=
  subArr (lowpass shape img lshort kernels) (boxcarRaw shape img llong)

/-- mirrors preprocessing.py:L82-139 `bandpass` for a float image.  `lshort`, `llong` are the
    tuples after `validate_tuple` (a scalar is repeated `ndim` times by the caller), `kernels[a]`
    the Gaussian kernel of axis `a`, `thr = none` the default threshold.  Order of the tests as in
    the code: tuple lengths, `lshort >= llong`, (threshold), odd sizes inside `boxcar`. -/
def bandpass (shape : List Nat) (img : Array Rat) (lshort : List Rat) (kernels : List (Array Rat))
    (llong : List Int) (thr : Option Rat) : Except Err (Array Rat) :=
  if lshort.length ≠ shape.length ∨ kernels.length ≠ shape.length ∨ llong.length ≠ shape.length
  then .error .badLength
  else if scaleClash lshort llong then .error .scales
  else if ¬ llong.all isOdd then .error .evenSize
  else .ok ((diff shape img lshort kernels llong).map (clip (thr.getD defaultThreshold)))

/-- `c · img` -/
def scale (c : Rat) (xs : Array Rat) : Array Rat := xs.map (fun v => c * v)

/-- transpose of an `H × W` image given in C order: the result is `W × H` and its pixel
    `(c, r)` (flat index `c*H + r`) is pixel `(r, c)` (flat index `r*W + c`) of the argument -/
def transpose2 (H W : Nat) (xs : Array Rat) : Array Rat :=
  tab (W * H) (fun p => get xs ((p % H) * W + p / H))

/-! ## n-D indexing (vocabulary of the n-D theorems; `swapImg` is executed by the driver op `SWAP`
and compared with `numpy.swapaxes`) -/

/-- C-order flat index of the multi-index `ix` in an array of shape `sh` -/
def flat : List Nat → List Nat → Nat
  | _ :: rest, i :: is => i * rest.prod + flat rest is
  | [], _ => 0
  | _ :: _, [] => 0

/-- pixel `ix` of the n-D image `xs` of shape `sh` -/
def pxN (sh : List Nat) (xs : Array Rat) (ix : List Nat) : Rat := get xs (flat sh ix)

/-- multi-index of the flat position `p` -/
def unflat : List Nat → Nat → List Nat
  | [], _ => []
  | n :: rest, p => (p / rest.prod) % n :: unflat rest (p % rest.prod)

/-- exchange entries `k` and `k+1` of a list (identity if the list is too short) -/
def swapAt {α : Type} : Nat → List α → List α
  | 0, a :: b :: l => b :: a :: l
  | 0, l => l
  | k + 1, a :: l => a :: swapAt k l
  | _ + 1, [] => []

/-- the image with axes `k`, `k+1` exchanged -/
def swapImg (k : Nat) (sh : List Nat) (img : Array Rat) : Array Rat :=
  tab sh.prod (fun p => pxN sh img (swapAt k (unflat (swapAt k sh) p)))

end TrackpyV.Bandpass
