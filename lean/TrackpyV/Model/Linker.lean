import TrackpyV.Model.Assign
/-!
Shadow model ("verified monitor") of `trackpy.linking.linking.Linker`
(linking.py:444-561, subnet.py:236-374, utils.py:92-193).

The implementation's output is legitimately not unique (exact cost ties, iteration order of
Python sets, which integer names a new trajectory), so the model is a decidable *step relation*:
`stepCheck cfg st level labels` accepts the labels the implementation produced for one new level
and returns the successor state, or rejects with a reason.  The theorems (Props/C01, C02, C11)
say that every accepted trace satisfies the properties.

State: the candidate sources of the next step — the points of the previous level (`age = 0`) and
the remembered points (`1 ≤ age ≤ memory`; mirrors `mem_set`/`mem_history`: a source unmatched in
a step is kept for the next `memory` steps) — plus every label handed out so far.

Geometry: integer coordinates; per-axis weights `w` and bound `B` such that a pair is a candidate
iff `Σ wᵢ·Δᵢ² ≤ B` (inclusive — `distance_upper_bound = search_range + 1e-7`), cost `Σ wᵢ·Δᵢ²`,
cost of not linking `B` (i.e. `search_range²` on the same scale).  A drift view
`pos + vel·(t − t_obs)` is applied to sources only (mirrors `set_predictor` on the previous hash).
-/
namespace TrackpyV.Linker
open TrackpyV.Assign

abbrev Pos := List Int

structure Cfg where
  w : List Nat            -- per-axis weights
  B : Nat                 -- squared range on the weighted scale (= cost of the null link)
  memory : Nat
  maxNeighbors : Nat      -- Linker.MAX_NEIGHBORS
  maxSize : Nat           -- Linker.MAX_SUB_NET_SIZE
  vel : Option (List Int) -- predictor: constant drift per unit time, none = no predictor
  drop : Bool             -- link_strategy = 'drop'
  noOpt : Bool := false   -- validity only (C01): skip the optimality part of the relation
  numbaCap : Bool := false -- link_strategy numba/hybrid: `numba_link` also raises when a source has
                           -- more than 9 forward candidates (null included) - documented cap
  deriving Repr

structure Source where
  pos : Pos
  track : Nat
  t : Int        -- frame number at which it was observed
  age : Nat      -- 0 = belongs to the previous level; k = unmatched for k steps
  deriving Repr

structure State where
  srcs : List Source
  used : List Nat     -- every label handed out so far
  deriving Repr

def sqI (z : Int) : Nat := (z * z).toNat

/-- weighted squared distance -/
def dist2 : List Nat → Pos → Pos → Nat
  | w :: ws, p :: ps, q :: qs => w * sqI (p - q) + dist2 ws ps qs
  | _, _, _ => 0

/-- where the predictor says a source is at time `t` (identity without predictor) -/
def view (cfg : Cfg) (t : Int) (s : Source) : Pos :=
  match cfg.vel with
  | none => s.pos
  | some v => List.zipWith (fun p vi => p + vi * (t - s.t)) s.pos v

/-- insert a candidate keeping the list sorted by cost (stable: after equal costs) -/
def insCand (c : Cand) : List Cand → List Cand
  | [] => [c]
  | x :: xs => if c.2 < x.2 then c :: x :: xs else x :: insCand c xs

/-- weighted squared distance from the (predicted) source position to every destination -/
def distRow (cfg : Cfg) (t : Int) (dsts : List Pos) (s : Source) : List Nat :=
  dsts.map (fun q => dist2 cfg.w (view cfg t s) q)

/-- candidate list from a row of distances: every destination within range, sorted by cost, then
the null candidate (`assign_links` sorts; the `subnet_linker_*` wrappers append
`(None, search_range)`) -/
def candsOfRow (B : Nat) (row : List Nat) : List Cand :=
  let real : List Cand := (row.zipIdx).filterMap (fun (d, j) =>
      if d ≤ B then some (some j, d) else none)
  (real.foldr insCand []) ++ [(none, B)]

/-- candidate list of a source -/
def candsOf (cfg : Cfg) (t : Int) (dsts : List Pos) (s : Source) : List Cand :=
  candsOfRow cfg.B (distRow cfg t dsts s)

/-- number of sources within range of destination `q` -/
def nNeighbors (cfg : Cfg) (t : Int) (srcs : List Source) (q : Pos) : Nat :=
  (srcs.filter (fun s => dist2 cfg.w (view cfg t s) q ≤ cfg.B)).length

/-! ### sub-nets (connected components of the candidate graph)

A group is (source indices, destination indices).  Mirrors `Subnets.reset/compute` +
`assign_subnet`: every destination starts its own group, a source joins/merges the groups of its
candidates. -/

abbrev Group := List Nat × List Nat

def hasDest (ds : List Nat) (g : Group) : Bool := g.2.any (fun d => ds.contains d)

/-- add source `i` with real candidate destinations `ds`: merge all groups touching `ds` -/
def addSource (i : Nat) (ds : List Nat) (groups : List Group) : List Group :=
  if ds.isEmpty then groups else
  let hit := groups.filter (hasDest ds)
  let miss := groups.filter (fun g => !(hasDest ds g))
  (i :: hit.flatMap (·.1), hit.flatMap (·.2)) :: miss

def realDests (cs : List Cand) : List Nat := cs.filterMap (·.1)

def subnets (ndst : Nat) (cands : List (List Cand)) : List Group :=
  let init : List Group := (List.range ndst).map (fun j => ([], [j]))
  (cands.zipIdx).foldl (fun gs (cs, i) => addSource i (realDests cs) gs) init

/-- what the implementation did with source `i`: linked to destination `j` iff `labels[j]` is the
source's track; otherwise the null link -/
def chosenOf (cfg : Cfg) (labels : List Nat) (cs : List Cand) (s : Source) : Cand :=
  match labels.idxOf? s.track with
  | some j =>
    match cs.find? (fun c => c.1 == some j) with
    | some c => c
    | none => (some j, cfg.B + 1)     -- out of range: will fail admissibility (not in the list)
  | none => (none, cfg.B)

def pairwiseDisjointB : List (List Nat) → Bool
  | [] => true
  | x :: xs => xs.all (fun y => x.all (fun a => !(y.contains a))) && pairwiseDisjointB xs

inductive Verdict where
  | ok (st : State) (contested relinks births : Nat) (capped : Bool)
  | expectOversize               -- some sub-net has more sources than `maxSize`
  | capped                       -- a destination has more than `maxNeighbors` sources in range
  | bad (reason : String)
  deriving Repr

def getD' {α} (l : List α) (i : Nat) (d : α) : α := (l[i]?).getD d

/-- successor state after a level has been labelled (mirrors `apply_links`): the new level's
points become the age-0 sources; unmatched sources are remembered while `age < memory` -/
def nextState (cfg : Cfg) (st : State) (t : Int) (dsts : List Pos) (labels : List Nat) : State :=
  let kept := st.srcs.filterMap (fun s =>
    if labels.contains s.track then none
    else if s.age < cfg.memory then some { s with age := s.age + 1 } else none)
  let lvl := (dsts.zip labels).map (fun (p, l) => ({ pos := p, track := l, t := t, age := 0 } : Source))
  { srcs := lvl ++ kept, used := labels ++ st.used }

def stepCands (cfg : Cfg) (st : State) (t : Int) (dsts : List Pos) : List (List Cand) :=
  st.srcs.map (candsOf cfg t dsts)

def stepGroups (cfg : Cfg) (st : State) (t : Int) (dsts : List Pos) : List Group :=
  subnets dsts.length (stepCands cfg st t dsts)

/-- candidate list of source number `i` -/
def srcOf (cands : List (List Cand)) (i : Nat) : Src := getD' cands i []

/-- what the implementation chose for source number `i` -/
def asgOf (cfg : Cfg) (st : State) (labels : List Nat) (cands : List (List Cand)) (i : Nat) : Cand :=
  match st.srcs[i]? with
  | some s => chosenOf cfg labels (getD' cands i []) s
  | none => (none, cfg.B)

/-- candidate lists of the sources of each sub-net -/
def gSrcs (cands : List (List Cand)) (groups : List Group) : List (List Src) :=
  groups.map (fun g => g.1.map (srcOf cands))

/-- what the implementation chose for the sources of each sub-net -/
def gAsg (cfg : Cfg) (st : State) (labels : List Nat) (cands : List (List Cand))
    (groups : List Group) : List (List Cand) :=
  groups.map (fun g => g.1.map (asgOf cfg st labels cands))

/-- more sources within range of one destination than `MAX_NEIGHBORS` -/
def cappedB (cfg : Cfg) (st : State) (t : Int) (dsts : List Pos) : Bool :=
  dsts.any (fun q => nNeighbors cfg t st.srcs q > cfg.maxNeighbors)

def oversizeB (cfg : Cfg) (groups : List Group) : Bool :=
  groups.any (fun g => g.1.length > cfg.maxSize && !(g.1.length == 1 && g.2.length == 1))

/-- the labels that do not continue a source's trajectory -/
def freshLabels (st : State) (labels : List Nat) : List Nat :=
  labels.filter (fun l => !((st.srcs.map (·.track)).contains l))

/-- every link stays within range of the (predicted) position of the source it continues -/
def linksOkB (cfg : Cfg) (st : State) (t : Int) (dsts : List Pos) (labels : List Nat) : Bool :=
  (dsts.zip labels).all (fun (q, l) =>
    match st.srcs.find? (fun s => s.track == l) with
    | none => true
    | some s => dist2 cfg.w (view cfg t s) q ≤ cfg.B)

/-- C01 part of the relation; returns the reason of the first failed test -/
def validWhy (cfg : Cfg) (st : State) (t : Int) (dsts : List Pos) (labels : List Nat) :
    Option String :=
  if labels.length ≠ dsts.length then some "one label per feature expected" else
  if !(decide labels.Nodup) then some "label used twice in one level" else
  if (freshLabels st labels).any (fun l => st.used.contains l) then
    some "a new trajectory re-uses an old label" else
  if !(linksOkB cfg st t dsts labels) then some "link longer than search_range" else none

/-- optimality of one sub-net: the chosen candidates are admissible and cost what the proven
optimum costs ('drop': contested sub-nets stay entirely unlinked) -/
def groupOkB (cfg : Cfg) (ss : List Src) (a : List Cand) (g : Group) : Bool :=
  if ss.isEmpty then true
  else if cfg.drop && !(g.1.length == 1 && g.2.length == 1) then a.all (fun c => c.1.isNone)
  else
    ss.all sortedB && admissibleB ss a [] &&
    (match solveOrdered ss with
     | some (c, _) => cost a == c
     | none => false)

/-- C02 part of the relation -/
def optWhy (cfg : Cfg) (st : State) (t : Int) (dsts : List Pos) (labels : List Nat) :
    Option String :=
  let cands := stepCands cfg st t dsts
  let groups := stepGroups cfg st t dsts
  let gs := gSrcs cands groups
  let ga := gAsg cfg st labels cands groups
  if !(pairwiseDisjointB (gs.map groupDests)) then some "internal: sub-nets share a destination" else
  if !((gs.zip (ga.zip groups)).all (fun (ss, a, g) => groupOkB cfg ss a g)) then
    some (if cfg.drop then "drop strategy linked inside a contested sub-net"
          else "links are not a minimum-cost assignment")
  else none

/-- The step relation.  `labels? = none` encodes "the implementation raised
SubnetOversizeException". -/
def stepCheck (cfg : Cfg) (st : State) (t : Int) (dsts : List Pos) (labels? : Option (List Nat)) :
    Verdict :=
  let groups := stepGroups cfg st t dsts
  let capped := cappedB cfg st t dsts
  let oversize := oversizeB cfg groups
  match labels? with
  | none => if capped then .capped else
            if oversize then .expectOversize
            else if cfg.numbaCap && (stepCands cfg st t dsts).any (fun cs => cs.length > 9) then .capped
            else .bad "raised SubnetOversizeException but no sub-net is oversize"
  | some labels =>
  if oversize && !capped then .bad "returned labels although a sub-net is oversize" else
  match validWhy cfg st t dsts labels with
  | some why => .bad why
  | none =>
  let contested := (groups.filter (fun g => g.1.length ≥ 2 || (g.1.length == 1 && g.2.length ≥ 2))).length
  let relinks := (st.srcs.filter (fun s => s.age > 0 && labels.contains s.track)).length
  let births := (freshLabels st labels).length
  -- beyond the neighbour cap the code uses the nearest `maxNeighbors` only: outside C02's quantifier
  if capped || cfg.noOpt then .ok (nextState cfg st t dsts labels) contested relinks births true else
  match optWhy cfg st t dsts labels with
  | some why => .bad why
  | none => .ok (nextState cfg st t dsts labels) contested relinks births false

/-- placeholder configuration for the first level (no sources exist yet) -/
def initCfg : Cfg :=
  { w := [], B := 0, memory := 0, maxNeighbors := 0, maxSize := 0, vel := none, drop := false }

/-- first level: everything starts a trajectory (`init_level`) -/
def initCheck (t : Int) (dsts : List Pos) (labels : List Nat) : Verdict :=
  if labels.length ≠ dsts.length then .bad "one label per feature expected" else
  if !(decide labels.Nodup) then .bad "label used twice in one level" else
  .ok (nextState initCfg { srcs := [], used := [] } t dsts labels) 0 0 labels.length false

structure Level where
  t : Int
  dsts : List Pos
  labels : Option (List Nat)

structure RunResult where
  verdict : String      -- "ok" | "bad" | "expect-oversize" | "capped"
  cappedSteps : Nat := 0
  step : Nat
  reason : String
  contested : Nat
  relinks : Nat
  births : Nat

/-- run the monitor over a whole movie -/
def runCheck (cfg : Cfg) (levels : List Level) : RunResult :=
  match levels with
  | [] => { verdict := "ok", step := 0, reason := "", contested := 0, relinks := 0, births := 0 }
  | l0 :: rest =>
    match l0.labels with
    | none => { verdict := "bad", step := 0, reason := "first level raised", contested := 0, relinks := 0, births := 0 }
    | some lab0 =>
    match initCheck l0.t l0.dsts lab0 with
    | .ok st0 _ _ b0 _ =>
      let rec loop (st : State) (k : Nat) (ls : List Level) (c r b : Nat) (cp : Nat := 0) : RunResult :=
        match ls with
        | [] => { verdict := "ok", step := k, reason := "", contested := c, relinks := r, births := b, cappedSteps := cp }
        | l :: ls' =>
          match stepCheck cfg st l.t l.dsts l.labels with
          | .ok st' c' r' b' cap => loop st' (k + 1) ls' (c + c') (r + r') (b + b') (cp + (if cap then 1 else 0))
          | .expectOversize => { verdict := "expect-oversize", step := k, reason := "", contested := c, relinks := r, births := b }
          | .capped => { verdict := "capped", step := k, reason := "", contested := c, relinks := r, births := b }
          | .bad why => { verdict := "bad", step := k, reason := why, contested := c, relinks := r, births := b }
      loop st0 1 rest 0 0 b0
    | .bad why => { verdict := "bad", step := 0, reason := why, contested := 0, relinks := 0, births := 0 }
    | _ => { verdict := "bad", step := 0, reason := "internal", contested := 0, relinks := 0, births := 0 }

/-- is the optimum of this step not unique (or too large to enumerate)?  Driver statistic used to
decide whether two runs must produce the same partition or only the same cost. -/
def stepTied (cfg : Cfg) (st : State) (t : Int) (dsts : List Pos) : Bool :=
  let cands := stepCands cfg st t dsts
  let groups := stepGroups cfg st t dsts
  (gSrcs cands groups).any (fun ss =>
    if ss.isEmpty then false
    else if (ss.map List.length).foldl (· * ·) 1 > 50000 then true
    else countOptimal ss != 1)

/-- number of steps with a tied optimum along a labelled movie (state evolves by `nextState`) -/
def runTies (cfg : Cfg) (levels : List Level) : Nat :=
  match levels with
  | [] => 0
  | l0 :: rest =>
    let st0 := nextState initCfg { srcs := [], used := [] } l0.t l0.dsts (l0.labels.getD [])
    (rest.foldl (fun (acc : State × Nat) l =>
      let tied := stepTied cfg acc.1 l.t l.dsts
      (nextState cfg acc.1 l.t l.dsts (l.labels.getD []), acc.2 + (if tied then 1 else 0)))
      (st0, 0)).2

end TrackpyV.Linker
