/-
Model of WHICH FRAME every cluster of `refine_leastsq` is fitted against
(`trackpy/refine/least_squares.py`: `prepare_subimages` L443-460, the call plan of
`refine_leastsq` L813-853/870-873; `trackpy/static.py: cluster_iter / cluster` L452-516 for the
row order and for "a cluster never spans two frames").  No Mathlib.

ROW ORDER.  `refine_leastsq` first calls `f = cluster(f, separation, pos_columns, t_column)`
(L784): `cluster_iter` walks `f.groupby(f[t_column].values)` — ASCENDING frame value, rows of one
frame in their original relative order — clusters every frame on its own, offsets the cluster ids
by `next_id` (ids are unique over the whole table and increase with the frame) and `cluster`
concatenates the per-frame results.  Then `f.index = np.arange(len(f))` (L788).  `rows` below is
the `t_column` of THIS table: `rows[i]` = frame number of the row at position `i` (sorted by
frame, stable).  `clusters` are lists of such positions, ascending inside a cluster, clusters in
ascending cluster-id order (= `groupby('cluster')` order = `groupby(['frame','cluster'])` order,
because ids increase with the frame).

ONE SOLVER CALL (one iteration of `for _, f_iter in iterable`, L842) sees `f_iter` (some rows of
`f`), `frame_nos = f_iter[t_column].values` (L850) and `groups` (L845-849: `None`, or the
clusters as positions INSIDE `f_iter`), and calls `prepare_subimages(coords, groups, frame_nos,
frames, radius)` once per re-centring round (L870-873; at most `max_iter` times, always with the
same `groups`/`frame_nos`).

* no parameter in mode 2 ('global'), L829-834: `iterable = f.groupby(['frame', 'cluster'])`, i.e.
  one solver call PER CLUSTER, `groups = None`, `f_iter` = the rows of that cluster;
* some parameter in mode 2, L815-828: `iterable = [(None, f)]`, ONE solver call for the whole
  table with `groups = [clusters]`.
-/
namespace TrackpyV.LeastsqFrames

/-- `frame_nos[i]`.  Positions come from `groupby(...).indices` of the same table, so the default
`0` (Python: IndexError) is unreachable; the theorems carry the range as a hypothesis
(`ClustersWithinFrames`) and the driver reports it (`cwf=`). -/
def frameAt (rows : List Int) (i : Nat) : Int := rows.getD i 0

/-- mirrors L454: `frame_no = frame_nos[cl_inds[0]]` — the frame of the FIRST member.
(`groupby` never yields an empty group; `[]` ↦ position 0 is unreachable.) -/
def clusterFrame (rows : List Int) (cl : List Nat) : Int := frameAt rows (cl.headD 0)

/-- mirrors `prepare_subimages` L443-460: the frame (index into `reader`) each sub-image is cut
from, in the order of the returned `images` list.
`groups is None` (L445-448): ONE image, `reader[frame_nos[0]]`;
otherwise (L453-455) one image per cluster of `groups[0]`, `reader[frame_nos[cl_inds[0]]]`. -/
def framesRead (rows : List Int) : Option (List (List Nat)) → List Int
  | none => [frameAt rows 0]
  | some cls => cls.map (clusterFrame rows)

/-- per sub-image of one `prepare_subimages` call: the rows (positions in `frame_nos`) whose
pixels are compared with it, paired with the frame read.  `groups is None`: every row of `f_iter`
shares the one image (L446 passes all `coords`); otherwise the rows of the cluster (L455
`coords[cl_inds]`). -/
def rowsRead (rows : List Int) : Option (List (List Nat)) → List (Nat × Int)
  | none => (List.range rows.length).map (fun i => (i, frameAt rows 0))
  | some cls => cls.flatMap (fun cl => cl.map (fun i => (i, clusterFrame rows cl)))

/-- one iteration of the outer loop L842: `rowIdx` = `f_iter.index` (positions in the whole table),
`groups` as handed to `prepare_subimages` (positions inside `f_iter`). -/
structure Call where
  rowIdx : List Nat
  groups : Option (List (List Nat))
deriving Repr, DecidableEq

/-- `frame_nos = f_iter[t_column].values` (L850) -/
def Call.frameNos (rows : List Int) (c : Call) : List Int := c.rowIdx.map (frameAt rows)

/-- the outer loop of `refine_leastsq`, L813-842 (see the header): which solver calls are made, in
order.  `n` = number of rows of the table, `clusters` in cluster-id order. -/
def planCalls (isGlobal : Bool) (n : Nat) (clusters : List (List Nat)) : List Call :=
  if isGlobal then [{ rowIdx := List.range n, groups := some clusters }]
  else clusters.map (fun cl => { rowIdx := cl, groups := none })

/-- per solver call, the frames read by (each of) its `prepare_subimages` call(s) -/
def plan (isGlobal : Bool) (rows : List Int) (clusters : List (List Nat)) : List (List Int) :=
  (planCalls isGlobal rows.length clusters).map (fun c => framesRead (c.frameNos rows) c.groups)

/-- (row position in the whole table, frame its pixels are taken from) over the whole plan -/
def planPairs (isGlobal : Bool) (rows : List Int) (clusters : List (List Nat)) : List (Nat × Int) :=
  (planCalls isGlobal rows.length clusters).flatMap (fun c =>
    (rowsRead (c.frameNos rows) c.groups).map (fun p => (c.rowIdx.getD p.1 0, p.2)))

/-- every cluster is non-empty, inside the table, and all its members carry one frame number
(what `cluster_iter` guarantees by clustering frame by frame) -/
def ClustersWithinFrames (rows : List Int) (clusters : List (List Nat)) : Prop :=
  ∀ cl ∈ clusters, cl ≠ [] ∧ ∃ fr : Int, ∀ i ∈ cl, rows[i]? = some fr

/-- run-time check of `ClustersWithinFrames` (reported by the driver as `cwf=`) -/
def cwfCheck (rows : List Int) (clusters : List (List Nat)) : Bool :=
  clusters.all (fun cl =>
    match cl with
    | [] => false
    | i :: _ =>
      match rows[i]? with
      | none => false
      | some fr => cl.all (fun j => rows[j]? == some fr))

/-- clustering frame by frame (`cluster_iter` L472-479): `parts` lists, per frame number, the
clusters found among the rows of that frame; each is non-empty and made of rows of that frame. -/
def PerFrameClustering (rows : List Int) (parts : List (Int × List (List Nat))) : Prop :=
  ∀ p ∈ parts, ∀ cl ∈ p.2, cl ≠ [] ∧ ∀ i ∈ cl, rows[i]? = some p.1

/-- `pandas_concat` of the per-frame results (L510): the clusters of the whole table -/
def clustersOf (parts : List (Int × List (List Nat))) : List (List Nat) :=
  parts.flatMap (fun p => p.2)

end TrackpyV.LeastsqFrames
