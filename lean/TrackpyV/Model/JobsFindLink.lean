import TrackpyV.Model.JobsLinker
import TrackpyV.Model.FindLinkAlgo
import TrackpyV.Model.Relocate
/-!
Model of SEVERAL linking jobs of TWO kinds stepped in an arbitrary interleaving inside one Python
process (C04): plain jobs (`link_iter` / `link_df_iter`, as in `Model/JobsLinker`) and `find_link`
jobs (`find_link_iter`), whose step is the deterministic `FindLink.flAlgoStep`
(`Model/FindLinkAlgo`) with the job's OWN relocation oracle.

The file has two layers.

1. **A generic system** `GSys σ` over an arbitrary job component `σ`: a map `job → σ`, the
   process-wide uuid counter of the base class `Point` and the ghost log of the uuids handed out.
   A job is described by a `JStep σ`: how many uuids one `next()` draws (`need`, a function of the
   job's OWN component and frame) and the component after the step (`next`, a function of the
   job's OWN component, the uuids it was handed and its frame).  `gStep` is then THE step of "any
   system whose step for job `j` reads and writes only component `j` plus the uuid counter"; the
   uuid discipline (`UidMode`) is that of `Model/JobsLinker`.
2. **The instance**: component `FJob`, steps `plainStep cfg` and `flStepJ cfg orc`, chosen per job
   by `kinds : Nat → Kind`.

What a `find_link` job owns in addition to what a plain job owns (`Model/JobsLinker` header): its
`FindLinker` with the image reader and the current frame's image (`find_link.py:343-351`), so that
`get_relocate_candidates` (`find_link.py:374-451`) is a function of the job's own current frame
(number `t`) and of the positions it is asked about — the family `orc : Int → Oracle`, indexed by
the frame number.  One `next()` of a `find_link_iter` generator (`find_link.py:164-260`) creates the
points of the detected features and, inside `assign_links` (`find_link.py:491-492`), the points of
the relocated features: the uuids of the whole EMITTED level are drawn within the one atomic step.

Not modelled (as in `Model/FindLinkAlgo`): `SubnetOversizeException` of a find_link step (a
find_link job never dies in the model), threads.

No Mathlib import: compiled into the native driver.
-/
namespace TrackpyV.JobsFindLink
open TrackpyV.Linker TrackpyV.JobsLinker TrackpyV.FindLink
open TrackpyV.Relocate (FLevel)

/-! ## 1. the generic system -/

/-- what the system has to see of a job component (nothing else is read by `gStep`) -/
structure Iface (σ : Type) where
  dead : σ → Bool                 -- the generator has raised: further `next()` do nothing
  fresh : σ → Bool                -- the generator has not produced its first level (`init_level` next)
  nextUid : σ → Nat               -- the job's own point counter
  uids : σ → List (List Nat)      -- the uuids recorded per level

/-- one `next()` of a job's generator as a function of the job's own component -/
structure JStep (σ : Type) where
  /-- how many points (uuids) the step creates -/
  need : σ → Int → List Pos → Nat
  /-- the component after the step, given the uuids handed to the points -/
  next : σ → List Nat → Int → List Pos → σ

structure GSys (σ : Type) where
  jobs : Nat → σ
  uid : Nat                          -- the process-wide counter of the base class `Point`
  handed : List (Nat × Nat) := []    -- ghost: every (job, uuid) handed out so far, in order of issue

def GSys.init0 {σ : Type} (init : σ) (u0 : Nat) : GSys σ := { jobs := fun _ => init, uid := u0 }

/-- first uuid of the level the job is about to create (`JobsLinker.uidBase`) -/
-- mirrors trackpy/linking/utils.py:112-118 (Point.counter, uuid), linking.py:469-473, 462-463
def gBase {σ : Type} (I : Iface σ) (m : UidMode) (uid : Nat) (jb : σ) : Nat :=
  match m with
  | .perLinker => if I.fresh jb then 0 else I.nextUid jb
  | .sharedReset => if I.fresh jb then 0 else uid
  | .shared => uid

/-- the process-wide counter after the level was created (`JobsLinker.uidAfter`) -/
def gAfter {σ : Type} (I : Iface σ) (m : UidMode) (uid : Nat) (jb : σ) (n : Nat) : Nat :=
  match m with
  | .perLinker => if I.fresh jb then 0 else uid     -- `Point.reset_counter()` in `init_level`
  | .sharedReset => (if I.fresh jb then 0 else uid) + n
  | .shared => uid + n

/-- one operation of the system: job `j`'s step reads component `j` and the uuid counter, writes
component `j`, the uuid counter and the ghost log; a dead job ignores further frames -/
-- mirrors trackpy/linking/linking.py:20-110 and find_link.py:164-260 (one `next()` of a generator)
def gStep {σ : Type} (I : Iface σ) (m : UidMode) (steps : Nat → JStep σ) (s : GSys σ) : Op → GSys σ
  | .frame j t dsts =>
    let jb := s.jobs j
    if I.dead jb then s else
    let n := (steps j).need jb t dsts
    let us := List.range' (gBase I m s.uid jb) n
    { jobs := upd s.jobs j ((steps j).next jb us t dsts),
      uid := gAfter I m s.uid jb n,
      handed := s.handed ++ us.map (fun u => (j, u)) }

/-- run a schedule from the empty process (every job in state `init`, base counter at `u0`) -/
def gRun {σ : Type} (I : Iface σ) (m : UidMode) (steps : Nat → JStep σ) (init : σ) (u0 : Nat)
    (ops : List Op) : GSys σ :=
  ops.foldl (gStep I m steps) (GSys.init0 init u0)

/-! ## 2. plain and find_link jobs -/

inductive Kind where
  | plain | findLink
  deriving Repr, DecidableEq

/-- the component of one job (either kind) -/
structure FJob where
  st : Option State := none        -- `none`: the generator has not produced its first level yet
  out : List FLevel := []          -- the levels yielded so far (features, labels, which were added)
  uids : List (List Nat) := []     -- `Point.uuid` of the points created for each level
  nextUid : Nat := 0               -- the job's own point counter (`self.point_cls.counter`)
  failed : Bool := false           -- the generator raised SubnetOversizeException: it is dead

def FJob.iface : Iface FJob :=
  { dead := (·.failed), fresh := (·.st.isNone), nextUid := (·.nextUid), uids := (·.uids) }

/-- what a job shows to its consumer: linker state, emitted levels, dead or alive -/
def FJob.vis (jb : FJob) : Option State × List FLevel × Bool := (jb.st, jb.out, jb.failed)

/-- the first level of either kind (`init_level`: every feature starts a trajectory, nothing is
relocated, the job's counter restarts) -/
-- mirrors trackpy/linking/linking.py:468-491 (init_level); find_link.py:220 (first frame of find_link_iter)
def FJob.first (jb : FJob) (us : List Nat) (t : Int) (dsts : List Pos) : FJob :=
  { st := some (firstState t dsts),
    out := jb.out ++ [{ t := t, dsts := dsts, labels := List.range dsts.length, added := [] }],
    uids := jb.uids ++ [us], nextUid := us.length, failed := false }

/-- a plain job: `JobsLinker.Job.frame` (the level emitted is the level handed in) -/
-- mirrors trackpy/linking/linking.py:468-491 (init_level), 516-522 (next_level)
def plainStep (cfg : Cfg) : JStep FJob where
  need := fun _ _ dsts => dsts.length
  next := fun jb us t dsts =>
    match jb.st with
    | none => jb.first us t dsts
    | some st =>
      match jobLabels cfg st t dsts with
      | none => { jb with uids := jb.uids ++ [us], nextUid := jb.nextUid + us.length, failed := true }
      | some labels =>
        { jb with st := some (nextState cfg st t dsts labels),
                  out := jb.out ++ [{ t := t, dsts := dsts, labels := labels, added := [] }],
                  uids := jb.uids ++ [us], nextUid := jb.nextUid + us.length }

/-- the level a find_link step emits -/
def flLevel (cfg : Cfg) (st : State) (t : Int) (orc : Oracle) (dsts : List Pos) : FLevel :=
  { t := t, dsts := (flAlgoStep cfg st t orc dsts).dsts,
    labels := (flAlgoStep cfg st t orc dsts).labels,
    added := (flAlgoStep cfg st t orc dsts).added }

/-- a find_link job with the relocation oracles `orc t` of its own frames: the step is
`flAlgoStep`, the state advances on the EMITTED level (detected + relocated features), which is
also the level whose points draw uuids -/
-- mirrors trackpy/linking/find_link.py:343-351 (next_level), 453-501 (assign_links)
def flStepJ (cfg : Cfg) (orc : Int → Oracle) : JStep FJob where
  need := fun jb t dsts =>
    match jb.st with
    | none => dsts.length
    | some st => (flAlgoStep cfg st t (orc t) dsts).dsts.length
  next := fun jb us t dsts =>
    match jb.st with
    | none => jb.first us t dsts
    | some st =>
      { jb with st := some (nextState cfg st t (flAlgoStep cfg st t (orc t) dsts).dsts
                  (flAlgoStep cfg st t (orc t) dsts).labels),
                out := jb.out ++ [flLevel cfg st t (orc t) dsts],
                uids := jb.uids ++ [us], nextUid := jb.nextUid + us.length }

/-- the step of job `j`: its kind, its configuration, its oracles -/
def jobStep (kinds : Nat → Kind) (cfgs : Nat → Cfg) (orcs : Nat → Int → Oracle) (j : Nat) :
    JStep FJob :=
  match kinds j with
  | .plain => plainStep (cfgs j)
  | .findLink => flStepJ (cfgs j) (orcs j)

abbrev FLSys := GSys FJob

def stepFL (m : UidMode) (kinds : Nat → Kind) (cfgs : Nat → Cfg) (orcs : Nat → Int → Oracle) :
    FLSys → Op → FLSys :=
  gStep FJob.iface m (jobStep kinds cfgs orcs)

/-- run a schedule of plain and find_link jobs from the empty process -/
def runSchedFL (m : UidMode) (kinds : Nat → Kind) (cfgs : Nat → Cfg) (orcs : Nat → Int → Oracle)
    (u0 : Nat) (ops : List Op) : FLSys :=
  gRun FJob.iface m (jobStep kinds cfgs orcs) {} u0 ops

/-- job `j`'s frames with the oracle of each, as `FindLink.flAlgoRun` takes them -/
def flFramesOf (orc : Int → Oracle) (fr : List (Int × List Pos)) : List (Int × List Pos × Oracle) :=
  fr.map (fun f => (f.1, f.2, orc f.1))

end TrackpyV.JobsFindLink
