import TrackpyV.Model.Locate
import TrackpyV.Model.LocatePost
/-
`locate` up to and including the mass filter, as the COMPOSITION of the existing stage models
(`trackpy/feature.py:L367-422` with `maxsize=None`, `topn=None`): `Locate.locateModel` (bandpass →
convert_to_int → grey_dilation(precise=False) → refine_com, C09/C06/C07/C10) followed by
`LocatePost.stage12` (where_close de-duplication on the refined positions + rescaling) and
`LocatePost.massSizeFilter` (C08).  Nothing is re-modelled here; the definitions are imported.

Also the DECIDABLE hypotheses of the C05 theorems, evaluated by the driver on every case:
`reflect` / `symmetricB` (the neighbourhood of a pixel is point-symmetric on the mask),
`admissibleB` (the pixel is an admissible maximum: `Find.isMax` + `Find.outsideMargin`),
`peaksSeparatedB` (all pairs at least `separation` apart).  No Mathlib (compiled into the driver).
-/
namespace TrackpyV.LocateFull
open TrackpyV

/-! ## the composition -/

/-- one row of `refine_com`'s table as `LocatePost` sees it: row number, position, mass, signal,
raw mass (size / ecc are carried by `locate` but play no role without `maxsize`) -/
def toFeat (x : Nat × Refine.Measure) : LocatePost.Feat :=
  { tag := x.1, pos := x.2.pos, mass := x.2.mass, size := none,
    signal := some (x.2.signal : Rat), rawMass := x.2.rawMass, extra := [] }

/-- the table `refine_com` returns: one row per local maximum, numbered in `np.where` order -/
def rows (ms : List Refine.Measure) : List LocatePost.Feat := (Find.indexFrom 0 ms).map toFeat

/-- mirrors feature.py:L367-422 (`maxsize=None`): `locateModel`, then the duplicate rule on the
refined positions (`where_close(refined_coords[pos], separation, mass)`), `mass /= scale_factor`,
`mass > minmass`.  `scale` is `convert_to_int`'s scale factor (1 for integer images). -/
def locateFull (P : Locate.Params) (scale minmass : Rat) (shape : List Nat) (raw : Array Nat) :
    Option (List LocatePost.Feat) :=
  (Locate.locateModel P shape raw).map (fun ms =>
    LocatePost.massSizeFilter minmass none (LocatePost.stage12 P.sep scale (rows ms)))

/-! ## decidable hypotheses of the C05 theorems -/

/-- the mask array index opposite to `off` through the mask centre: `2r_i − o_i` per axis -/
def reflect : List Nat → List Nat → List Nat
  | r :: rs, o :: os => (2 * r - o) :: reflect rs os
  | _, _ => []

/-- the image restricted to the mask centred at pixel `c` is point-symmetric about `c`:
`img(c + o) = img(c − o)` for every mask offset -/
def symmetricB (img : Refine.Image) (radius : List Nat) (c : List Int) : Bool :=
  (Refine.maskOffsets radius).all (fun off =>
    img (Refine.addOff (Refine.origin radius c) (reflect radius off))
      == img (Refine.addOff (Refine.origin radius c) off))

/-- `p` is an admissible maximum (find.py:117,126): above the threshold, equal to the dilation,
outside the margin -/
def admissibleB (img : Find.Image) (sep : List Rat) (thr : Rat) (margin : List Nat) (p : Find.Pos) : Bool :=
  Find.isMax img (sep.map (Find.boxSize img.shape.length)) thr p && Find.outsideMargin img.shape margin p

/-- all pairs of distinct listed pixels are at least `separation` apart (`Σ((pᵢ−qᵢ)/sᵢ)² ≥ 1`) -/
def peaksSeparatedB (sep : List Rat) (ps : List Find.Pos) : Bool :=
  ps.all (fun p => ps.all (fun q =>
    p == q || decide (1 ≤ Find.dist2 sep (p.map Int.ofNat) (q.map Int.ofNat))))

/-- one lattice step from `q` towards `c` (every coordinate that differs moves by one) -/
def stepToward : Find.Pos → Find.Pos → Find.Pos
  | c :: cs, q :: qs => (if q < c then q + 1 else if c < q then q - 1 else q) :: stepToward cs qs
  | _, _ => []

end TrackpyV.LocateFull
