/-
Model of `trackpy/motion.py: compute_drift, subtract_drift` (smoothing = 0) and of the part of
`trackpy/utils.py: pandas_sort` they use.  No Mathlib (compiled into the native driver).

A trajectory table is a `List Row`.  pandas works column by column: `diff`, the boolean `mask`
(computed from the `particle` and `frame` columns only), `groupby('frame').mean()`, `cumsum` and
`Series.sub` all act on each position column separately with the same row selection.  The model
mirrors that: `maskedPairs` is the row selection (shared by all columns), `computeDriftCol k` is
the pipeline of position column `k`.  Exact arithmetic over `Rat`.
-/
namespace TrackpyV.Drift

/-- One row of the table.  `pos` = the position columns (in `pos_columns` order); `tag` stands for
every other cell of the row (other columns, index label): it is carried, never inspected. -/
structure Row where
  particle : Int
  frame : Int
  pos : List Rat
  tag : Nat
deriving Repr, DecidableEq

/-- value of position column `k` -/
def Row.x (r : Row) (k : Nat) : Rat := r.pos.getD k 0

/-! ## sorting (stable insertion sort = what a stable `sort_values` / `sort_index` computes) -/

def insertBy {α} (le : α → α → Bool) (r : α) : List α → List α
  | [] => [r]
  | a :: l => if le r a then r :: a :: l else a :: insertBy le r l

def sortBy {α} (le : α → α → Bool) (l : List α) : List α := l.foldr (insertBy le) []

/-- lexicographic order on (particle, frame).
    mirrors trackpy/motion.py:275 `pandas_sort(traj, ['particle', 'frame'])`
    (trackpy/utils.py:277-289 -> `DataFrame.sort_values(by=[...])`, stable lexsort) -/
def lePF (a b : Row) : Bool :=
  decide (a.particle < b.particle ∨ (a.particle = b.particle ∧ a.frame ≤ b.frame))

/-- lexicographic order on (frame, particle).
    mirrors trackpy/motion.py:312-317 `set_index(['frame','particle'])` +
    `sort_index(level='frame')` (sort_remaining=True: remaining level sorted too) -/
def leFP (a b : Row) : Bool :=
  decide (a.frame < b.frame ∨ (a.frame = b.frame ∧ a.particle ≤ b.particle))

/-- strict version of `lePF` (used for "sorted, no two rows with the same (particle, frame)") -/
def ltPF (a b : Row) : Prop :=
  a.particle < b.particle ∨ (a.particle = b.particle ∧ a.frame < b.frame)

def sortPF (t : List Row) : List Row := sortBy lePF t
def sortFP (t : List Row) : List Row := sortBy leFP t

/-- sorted list of the distinct values (group keys of `groupby`, which sorts them) -/
def insertU (f : Int) : List Int → List Int
  | [] => [f]
  | a :: l => if f < a then f :: a :: l else if f = a then a :: l else a :: insertU f l

def sortDedup (l : List Int) : List Int := l.foldr insertU []

/-! ## compute_drift -/

/-- mirrors trackpy/motion.py:278-287: `f_sort[...].diff()` gives, for every row but the first, the
difference to the row before it; `mask = (particle diff == 0) & (frame diff == 1)`.
The first row's diff is NaN, so its mask is False. -/
def mask (a b : Row) : Bool :=
  decide (b.particle - a.particle = 0 ∧ b.frame - a.frame = 1)

/-- the adjacent (previous row, row) pairs kept by the mask, in table order -/
def maskedPairs : List Row → List (Row × Row)
  | a :: b :: l => (if mask a b then [(a, b)] else []) ++ maskedPairs (b :: l)
  | _ => []

/-- `f_diff.loc[mask, [col, 'frame']]` for position column `k`: (frame of the row, difference) -/
def maskedDiffs (k : Nat) (s : List Row) : List (Int × Rat) :=
  (maskedPairs s).map (fun p => (p.2.frame, p.2.x k - p.1.x k))

def mean (v : List Rat) : Rat := v.sum / (v.length : Rat)

/-- mirrors trackpy/motion.py:287 `.groupby('frame').mean()`: one row per distinct frame present,
sorted by frame, value = arithmetic mean of the group -/
def groupMean (m : List (Int × Rat)) : List (Int × Rat) :=
  (sortDedup (m.map Prod.fst)).map
    (fun f => (f, mean ((m.filter (fun e => e.1 == f)).map Prod.snd)))

/-- mirrors trackpy/motion.py:290 `dx.cumsum()` (running sum down the frame index) -/
def cumsum : Rat → List (Int × Rat) → List (Int × Rat)
  | _, [] => []
  | acc, (f, v) :: l => (f, acc + v) :: cumsum (acc + v) l

/-- mirrors trackpy/motion.py:246-290 (smoothing = 0) for position column `k` -/
def computeDriftCol (k : Nat) (t : List Row) : List (Int × Rat) :=
  cumsum 0 (groupMean (maskedDiffs k (sortPF t)))

/-! ## subtract_drift -/

/-- value of a drift curve at frame `f`; frames without a value count as 0.
    mirrors trackpy/motion.py:319 `.sub(drift[col], fill_value=0, level='frame')` -/
def driftAt (d : List (Int × Rat)) (f : Int) : Rat := (d.lookup f).getD 0

/-- `ds` = one drift curve per position column (`[]` for a column the drift table lacks).
    mirrors trackpy/motion.py:318-319 (`for col in drift.columns: traj[col] = traj[col].sub(...)`);
    particle, frame and all other cells are carried unchanged -/
def subRow (ds : List (List (Int × Rat))) (r : Row) : Row :=
  { r with pos := r.pos.mapIdx (fun k x => x - driftAt (ds.getD k []) r.frame) }

/-- mirrors trackpy/motion.py:293-320 with an explicit `drift` -/
def subtractDrift (ds : List (List (Int × Rat))) (t : List Row) : List Row :=
  sortFP (t.map (subRow ds))

/-- `drift=None`: the drift of all `d` position columns is computed from the table itself
    (trackpy/motion.py:308-309) -/
def ownDrift (d : Nat) (t : List Row) : List (List (Int × Rat)) :=
  (List.range d).map (fun k => computeDriftCol k t)

def subtractOwnDrift (d : Nat) (t : List Row) : List Row := subtractDrift (ownDrift d t) t

/-! ## specification vocabulary (order-free, written from the property statement) -/

/-- `a` is the observation of `r`'s particle in the frame before `r`'s frame -/
def isPrev (r a : Row) : Bool := decide (a.particle = r.particle ∧ a.frame + 1 = r.frame)

/-- all (previous observation, observation) pairs of the table whose later frame is `f`:
"particles observed in both that frame and the previous one" -/
def pairsAt (t : List Row) (f : Int) : List (Row × Row) :=
  t.flatMap (fun r => if r.frame = f then (t.filter (isPrev r)).map (fun a => (a, r)) else [])

/-- the displacements into frame `f`, column `k` -/
def disps (k : Nat) (t : List Row) (f : Int) : List Rat :=
  (pairsAt t f).map (fun p => p.2.x k - p.1.x k)

def meanDisp (k : Nat) (t : List Row) (f : Int) : Rat := mean (disps k t f)

/-- the measured frames: frames that contribute at least one displacement, ascending -/
def mframes (t : List Row) : List Int :=
  sortDedup ((t.map (·.frame)).filter (fun f => !(pairsAt t f).isEmpty))

/-- cumulative sum of the mean displacements over the measured frames up to `f` -/
def specDrift (k : Nat) (t : List Row) (f : Int) : Rat :=
  (((mframes t).filter (fun g => decide (g ≤ f))).map (meanDisp k t)).sum

/-- no two rows share (particle, frame): a valid trajectory table -/
def KeysNodup (t : List Row) : Prop :=
  t.Pairwise (fun a b => ¬ (a.particle = b.particle ∧ a.frame = b.frame))

def keysNodupB : List Row → Bool
  | [] => true
  | a :: l => l.all (fun b => !(decide (a.particle = b.particle ∧ a.frame = b.frame))) && keysNodupB l

/-- every measured frame other than the first has a measured predecessor frame -/
def Contig (fs : List Int) : Prop :=
  ∀ m0 rest, fs = m0 :: rest → ∀ f ∈ rest, (f - 1) ∈ fs

def contigB : List Int → Bool
  | [] => true
  | m0 :: rest => rest.all (fun f => (m0 :: rest).contains (f - 1))

/-- the hypothesis as the property words it: every frame of the table after the first measured
one contributes at least one displacement -/
def LaterFramesMeasured (t : List Row) : Prop :=
  ∀ m0 rest, mframes t = m0 :: rest → ∀ r ∈ t, m0 < r.frame → r.frame ∈ mframes t

def laterFramesMeasuredB (t : List Row) : Bool :=
  match mframes t with
  | [] => true
  | m0 :: rest => t.all (fun r => decide (r.frame ≤ m0) || (m0 :: rest).contains r.frame)

/-- all rows have exactly `d` position columns -/
def rectB (d : Nat) (t : List Row) : Bool := t.all (fun r => r.pos.length == d)

/-- a frame-dependent common displacement `c k f` added to column `k` of every row -/
def shiftRow (c : Nat → Int → Rat) (r : Row) : Row :=
  { r with pos := r.pos.mapIdx (fun k x => x + c k r.frame) }

end TrackpyV.Drift
