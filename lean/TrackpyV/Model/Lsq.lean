import TrackpyV.Model.Pack
/-
Formulas of the least-squares objective of `trackpy/refine/least_squares.py`
(`r2_*`, `dr2_*` L1012-1107, `gauss_fun/gauss_dfun/ring_fun/ring_dfun` L1110-1144, the closures
`residual` / `jacobian` of `FitFunctions.get_residual` L288-339), written ONCE, generically in the
number type: arithmetic through the standard operator classes, `exp`/`sqrt` through `ExpSqrt`,
numerals through `NatCast`.  `Props/C15.lean` instantiates the same definitions at `ℝ` (theorems),
the driver at `Float` (executable mirror, section `FloatMirror` below).  No Mathlib.

What is data here and parameter dependent in the code (made explicit, see Props/C15):
* `act f q` - feature `f` contributes to pixel `q`: `mask[q]` and the exponent is above
  `safe_exp`'s underflow cut (`trackpy/utils.py:L374-382`);
* the pixel list of a cluster contains only the pixels whose `diff` is not NaN (the `_safe`
  variants of `r2_*` put NaN within 1 px of a centre, `np.nansum` then drops the pixel); `L` stays
  `len(image)`.
`disc` and `inv_series` have no `dfun` (`has_jacobian = False`): not modelled.
-/
namespace TrackpyV.Lsq

class ExpSqrt (α : Type) where
  exp : α → α
  sqrt : α → α

/-- which `r2_fun`/`dr2_fun` pair `FitFunctions.__init__` selects.  mirrors L248-263 -/
inductive Geo where
  | iso2 | aniso2 | iso3 | aniso3
  deriving Repr, DecidableEq

def Geo.ndim : Geo → Nat
  | .iso2 => 2 | .aniso2 => 2 | .iso3 => 3 | .aniso3 => 3

/-- number of centre + size parameters (`p[2:2+k]`) -/
def Geo.nShape : Geo → Nat
  | .iso2 => 3 | .aniso2 => 4 | .iso3 => 4 | .aniso3 => 6

/-- the two model functions that have an analytic derivative.  mirrors L1184-1190 -/
inductive Fn where
  | gauss | ring
  deriving Repr, DecidableEq

def Fn.nParams : Fn → Nat
  | .gauss => 0 | .ring => 1

section Generic
variable {α : Type} [Add α] [Sub α] [Mul α] [Div α] [Neg α] [NatCast α] [ExpSqrt α]

def zero : α := ((0 : Nat) : α)
def one : α := ((1 : Nat) : α)
def two : α := ((2 : Nat) : α)
/-- the literal `0.5` -/
def half : α := ((1 : Nat) : α) / ((2 : Nat) : α)
/-- `x**2` -/
def sq (x : α) : α := x * x
/-- `x**3` -/
def cube (x : α) : α := x * x * x
/-- running sum `result = 0.; result += x` -/
def lsum (l : List α) : α := l.foldl (· + ·) zero

/-- `(x-cx)**2 + (y-cy)**2 [+ (z-cz)**2]`: the quantity the `_safe` variants compare with 1.
`q` = pixel coordinates `mesh[:, q]`, `θ = p[2:2+nShape]`.  mirrors L1021, L1044, L1068, L1092 -/
def dist : Geo → List α → List α → α
  | .iso2, [y, x], [cy, cx, _] => sq (x - cx) + sq (y - cy)
  | .aniso2, [y, x], [cy, cx, _, _] => sq (x - cx) + sq (y - cy)
  | .iso3, [z, y, x], [cz, cy, cx, _] => sq (x - cx) + sq (y - cy) + sq (z - cz)
  | .aniso3, [z, y, x], [cz, cy, cx, _, _, _] => sq (x - cx) + sq (y - cy) + sq (z - cz)
  | _, _, _ => zero

/-- `r2_fun(mesh[:, q], p)`.  mirrors L1012-1015, L1035-1038, L1059-1062, L1083-1086 (and the
non-NaN entries of the `_safe` variants) -/
def r2 : Geo → List α → List α → α
  | .iso2, [y, x], [cy, cx, s] => (sq (x - cx) + sq (y - cy)) / sq s
  | .aniso2, [y, x], [cy, cx, sy, sx] => sq (x - cx) / sq sx + sq (y - cy) / sq sy
  | .iso3, [z, y, x], [cz, cy, cx, s] => (sq (x - cx) + sq (y - cy) + sq (z - cz)) / sq s
  | .aniso3, [z, y, x], [cz, cy, cx, sz, sy, sx] =>
      sq (x - cx) / sq sx + sq (y - cy) / sq sy + sq (z - cz) / sq sz
  | _, _, _ => zero

/-- `dr2_fun(mesh[:, q], p)`: one entry per centre coordinate and size.
mirrors L1027-1032, L1050-1056, L1074-1080, L1099-1107 -/
def dr2 : Geo → List α → List α → List α
  | .iso2, [y, x], [cy, cx, s] =>
      [(cy - y) * (two / sq s), (cx - x) * (two / sq s),
       (sq (x - cx) + sq (y - cy)) * (-two / cube s)]
  | .aniso2, [y, x], [cy, cx, sy, sx] =>
      [(cy - y) * (two / sq sy), (cx - x) * (two / sq sx),
       sq (y - cy) * (-two / cube sy), sq (x - cx) * (-two / cube sx)]
  | .iso3, [z, y, x], [cz, cy, cx, s] =>
      [(cz - z) * (two / sq s), (cy - y) * (two / sq s), (cx - x) * (two / sq s),
       (sq (x - cx) + sq (y - cy) + sq (z - cz)) * (-two / cube s)]
  | .aniso3, [z, y, x], [cz, cy, cx, sz, sy, sx] =>
      [(cz - z) * (two / sq sz), (cy - y) * (two / sq sy), (cx - x) * (two / sq sx),
       sq (z - cz) * (-two / cube sz), sq (y - cy) * (-two / cube sy),
       sq (x - cx) * (-two / cube sx)]
  | _, _, _ => []

/-- the argument handed to `safe_exp`.  `nd` = `ndim` as a number, `fp` = `params[i, -n_fun_params:]`.
mirrors L1111/1115 (gauss) and L1133-1135/1139-1142 (ring) -/
def expArg : Fn → α → α → List α → α
  | .gauss, nd, r2, _ => -half * nd * r2
  | .ring, nd, r2, [t] => -half * nd * sq ((ExpSqrt.sqrt r2 - one + t) / t)
  | .ring, _, _, _ => zero

/-- `model_fun(r2, fp, ndim)` above the underflow cut -/
def fnVal (fn : Fn) (nd r2 : α) (fp : List α) : α := ExpSqrt.exp (expArg fn nd r2 fp)

/-- the list `deriv` returned by `model_dfun`: `[d/dr2] ++ [d/dfp...]`.
mirrors L1116 (gauss) and L1143-1144 (ring) -/
def fnDeriv : Fn → α → α → List α → List α
  | .gauss, nd, r2, fp => [-half * nd * fnVal .gauss nd r2 fp]
  | .ring, nd, r2, [t] =>
      let r := ExpSqrt.sqrt r2
      let num := r - one + t
      let func := fnVal .ring nd r2 [t]
      [func * (-half * nd / (r * sq t)) * num,
       func * nd * (sq num / cube t - num / sq t)]
  | .ring, _, _, _ => []

/-- one row of `params` split as the code reads it: `params[i, 0]`, `params[i, 1]`, `p[2:2+k]`,
`params[i, -n_fun_params:]`; `id` = position of the feature (looked up in `act`) -/
structure Feat (α : Type) where
  id : Nat
  bg : α
  signal : α
  θ : List α
  fp : List α

/-- one pixel of a cluster image: position in the image, `mesh[:, q]`, `image[q]` -/
structure Pix (α : Type) where
  id : Nat
  xs : List α
  val : α

variable (g : Geo) (fn : Fn) (nd : α)

/-- `signal * model_fun(r2, …)` at one pixel.  mirrors L298-300 / L320-325 -/
def term (f : Feat α) (q : Pix α) : α := f.signal * fnVal fn nd (r2 g q.xs f.θ) f.fp

/-- `derivs[j, :, q]` for a pixel inside the mask: signal, centres and sizes (chain rule), function
parameters.  mirrors L327-333 -/
def dterm (f : Feat α) (q : Pix α) : List α :=
  let r := r2 g q.xs f.θ
  let d := fnDeriv fn nd r f.fp
  [fnVal fn nd r f.fp] ++ (dr2 g q.xs f.θ).map (fun e => f.signal * (d.headD zero * e)) ++
    d.tail.map (fun e => f.signal * e)

/-- `background = params[indices[0], 0]`.  mirrors L295 / L315 -/
def bgOf (feats : List (Feat α)) : α := (feats.head?.map (·.bg)).getD zero

/-- `diff[q]` after the loop over the features of the cluster.  mirrors L296-300 / L316-325 -/
def diffAt (act : Nat → Nat → Bool) (feats : List (Feat α)) (q : Pix α) : α :=
  feats.foldl (fun d f => if act f.id q.id then d - term g fn nd f q else d) (q.val - bgOf feats)

/-- `np.nansum(diff**2) / len(image)` for one cluster.  mirrors L301 -/
def clusterRes (act : Nat → Nat → Bool) (L : α) (feats : List (Feat α)) (pixels : List (Pix α)) : α :=
  lsum (pixels.map (fun q => sq (diffAt g fn nd act feats q))) / L

/-- `result[i, 1:]` for feature `f` of the cluster: `np.nansum(-2 * diff * derivs, axis=2) / len(image)`.
mirrors L335 -/
def gradRow (act : Nat → Nat → Bool) (L : α) (feats : List (Feat α)) (pixels : List (Pix α))
    (f : Feat α) : List α :=
  (List.range (1 + f.θ.length + f.fp.length)).map (fun k =>
    lsum (pixels.map (fun q =>
      if act f.id q.id then -two * diffAt g fn nd act feats q * (dterm g fn nd f q).getD k zero
      else zero)) / L)

/-- `result[indices, 0]`: `np.nansum(-2 * diff) / (n_cluster * len(image))`.  mirrors L337 -/
def gradBg (act : Nat → Nat → Bool) (L : α) (feats : List (Feat α)) (pixels : List (Pix α)) : α :=
  lsum (pixels.map (fun q => -two * diffAt g fn nd act feats q)) /
    (((feats.length : Nat) : α) * L)

/-- a cluster as the closures see it: activity table, `len(image)`, its features (rows
`params[indices]`), its non-NaN pixels -/
structure Cluster (α : Type) where
  act : Nat → Nat → Bool
  L : α
  feats : List (Feat α)
  pixels : List (Pix α)

/-- `residual(vect)` after `vect_to_params`.  mirrors L292-302 -/
def residual (norm : α) (cls : List (Cluster α)) : α :=
  lsum (cls.map (fun c => clusterRes g fn nd c.act c.L c.feats c.pixels)) / norm

/-- the rows `result[indices]` of one cluster: `background :: gradRow`.  mirrors L335-337 -/
def gradRows (c : Cluster α) : List (List α) :=
  c.feats.map (fun f => gradBg g fn nd c.act c.L c.feats c.pixels ::
    gradRow g fn nd c.act c.L c.feats c.pixels f)

end Generic

/-! ### The `Float` instance: the executable mirror run by the driver -/
section FloatMirror

instance : NatCast Float := ⟨Float.ofNat⟩
instance : ExpSqrt Float := ⟨Float.exp, Float.sqrt⟩

/-- `EXPONENT_EPS_FLOAT64 = np.log(np.finfo(np.float64).eps)`.  mirrors utils.py:L374 -/
def expCut : Float := Float.log (Float.ofScientific 1 true 0 / Float.ofNat 4503599627370496)

/-- `continuous` flag of the template.  mirrors L1184-1190 -/
def Fn.continuous : Fn → Bool
  | .gauss => true | .ring => false

/-- is pixel `q` NaN for feature row `θ` (only the `_safe` variants, i.e. non-continuous
functions): `dist < 1.`  mirrors L1022, L1045, L1068-1070, L1092-1095 -/
def nanPix (g : Geo) (fn : Fn) (q : List Float) (θ : List Float) : Bool :=
  !fn.continuous && decide (dist g q θ < 1.0)

/-- above `safe_exp`'s cut: `arr > EXPONENT_EPS_FLOAT64`.  mirrors utils.py:L380 -/
def aboveCut (g : Geo) (fn : Fn) (nd : Float) (q : List Float) (θ fp : List Float) : Bool :=
  decide (expArg fn nd (r2 g q θ) fp > expCut)

end FloatMirror

end TrackpyV.Lsq
