import TrackpyV.Model.Lsq
/-
The two closures of `FitFunctions.get_residual` (`trackpy/refine/least_squares.py` L290-341) as
functions of the optimisation vector: `objective v = residual(vect)` and `jacobian v =
jacobian(vect)`, i.e. `Pack.unpack` (vect_to_params), the row/column transposition between the
`params[feature, parameter]` rows the closures read and the column model of `Pack`, the formulas of
`Model/Lsq.lean`, `result = params.copy(); result[indices] = …`, and
`vect_from_params(result, modes, groups, operation=np.sum) / norm`.

Generic in the number type like `Model/Lsq.lean`: `Props/C15Chain.lean` reasons about the instance at
`ℝ`, the driver (`Driver/C15.lean`, op `LSQ`) runs THESE definitions at `Float`.  The parameter
dependent masks (NaN pixels, `safe_exp`'s cut) are data here (`Frame`): the driver computes them from
the unpacked parameters (Float only), the theorems hold them fixed.  No Mathlib.
-/
namespace TrackpyV.Lsq
open TrackpyV.Pack

/-- rows <-> columns of a rectangular array: `transpose w a` has `w` lists, the `i`-th collecting
entry `i` of every list of `a` (`params[:, i]` from the rows, `params[r]` from the columns) -/
def transpose {β : Type} [Inhabited β] (w : Nat) (a : List (List β)) : List (List β) :=
  (List.range w).map (fun i => a.map (fun r => r.getD i default))

/-- `cl_groups`: `[np.arange(n)]` if `groups is None` else `groups[0]`.  mirrors L278-281 -/
def clGroups (n : Nat) : Option Groups → List (List Nat)
  | none => [List.range n]
  | some G => G.headD []

section Generic
variable {α : Type} [Add α] [Sub α] [Mul α] [Div α] [Neg α] [NatCast α] [ExpSqrt α] [Inhabited α]

/-- how the closures read row `params[i]`: `params[i, 0]`, `params[i, 1]`, `p[2:2+nShape]` (inside
`r2_fun`), `params[i, -n_fun_params:]`; `j` = position of the feature in its cluster (`masks_cl[j]`).
mirrors L297-302 / L317-327 -/
def mkFeat (g : Geo) (j : Nat) (row : List α) : Feat α :=
  { id := j, bg := row.getD 0 zero, signal := row.getD 1 zero,
    θ := (row.drop 2).take g.nShape, fp := row.drop (2 + g.nShape) }

/-- the part of a cluster that does not depend on the optimisation vector once the masks are fixed:
`indices` (one entry of `cl_groups`), the activity table, `len(image)`, the non-NaN pixels -/
structure Frame (α : Type) where
  indices : List Nat
  act : Nat → Nat → Bool
  L : α
  pixels : List (Pix α)

/-- the rows `params[indices]` of one cluster -/
def featsOf (g : Geo) (rows : List (List α)) (indices : List Nat) : List (Feat α) :=
  indices.zipIdx.map (fun x => mkFeat g x.2 (rows.getD x.1 []))

def clusterOf (g : Geo) (rows : List (List α)) (fr : Frame α) : Cluster α :=
  { act := fr.act, L := fr.L, feats := featsOf g rows fr.indices, pixels := fr.pixels }

/-- `result[i] = row` for every pair, in order -/
def scatter (rows : List (List α)) (pairs : List (Nat × List α)) : List (List α) :=
  pairs.foldl (fun a p => a.set p.1 p.2) rows

variable (g : Geo) (fn : Fn) (nd norm : α) (n : Nat) (groups : Option Groups) (modes : List Nat)
  (pconst : List (List α)) (frames : List (Frame α))

/-- `residual(vect)`: `vect_to_params`, then the sum over the clusters.  `pconst` = the COLUMNS of
`params_const`.  mirrors L290-304 -/
def objective (v : List α) : Option α :=
  (unpack n groups modes v pconst).map (fun cols =>
    residual g fn nd norm (frames.map (clusterOf g (transpose n cols))))

/-- `jacobian(vect)`: `vect_to_params`, `result = params.copy()`, `result[indices] =` the rows of every
cluster (`gradRows`), `vect_from_params(result, modes, groups, operation=np.sum) / norm`.
mirrors L309-341 -/
def jacobian (v : List α) : Option (List α) :=
  match unpack n groups modes v pconst with
  | none => none
  | some cols =>
    let rows := transpose n cols
    let result := scatter rows (frames.flatMap (fun fr =>
      fr.indices.zip (gradRows g fn nd (clusterOf g rows fr))))
    (pack (sumOp zero) groups modes (transpose modes.length result)).map
      (fun jv => jv.map (· / norm))

end Generic

end TrackpyV.Lsq
