import TrackpyV.Model.Linker
/-!
Model of adaptive search (`trackpy/linking/linking.py:284-309` adaptive_link_wrap,
`trackpy/linking/subnet.py:263-297` split_subnet).

A sub-net whose number of sources exceeds `maxSizeA` is not solved; instead the range is
multiplied by `step = p/q`, every source's candidate list is pruned at the first entry beyond the
new range, the sub-net is split into the connected groups of the pruned graph, and each group is
treated the same way, until it fits or the range in force is ≤ `adaptive_stop` (then the call
raises).  Sources left without a candidate belong to no group (they end up in `Subnets.lost`).

Costs stay exact naturals: after `k` reductions a candidate of cost `c` is within range iff
`c·q^(2k) ≤ B·p^(2k)`; the group is solved with costs `c·q^(2k)` and null cost `B·p^(2k)`
(a common positive factor does not change the solver's answer: Props/C03 `scale_invariant`).
-/
namespace TrackpyV.Adaptive
open TrackpyV.Assign TrackpyV.Linker

structure ACfg where
  p : Nat            -- adaptive_step = p / q   (0 < p < q)
  q : Nat
  stopNum : Nat      -- (adaptive_stop / search_range)² = stopNum / stopDen, in internal units
  stopDen : Nat
  maxSizeA : Nat     -- Linker.MAX_SUB_NET_SIZE_ADAPTIVE
  deriving Repr

/-- a sub-net being processed: source numbers with their REAL candidates (sorted by cost, costs on
the original scale), and its destinations -/
structure Net where
  srcs : List (Nat × List Cand)   -- (source number, real candidates `(some destination, cost)`)
  dsts : List Nat
  deriving Repr

/-- a group that is finally handed to the solver after `k` range reductions -/
structure Final where
  net : Net
  k : Nat
  deriving Repr

/-- within the range in force after `k` reductions -/
def inForce (a : ACfg) (B k c : Nat) : Bool := c * a.q ^ (2 * k) ≤ B * a.p ^ (2 * k)

/-- `search_range <= adaptive_stop` for the range in force after `k` reductions -/
def atStop (a : ACfg) (k : Nat) : Bool := a.p ^ (2 * k) * a.stopDen ≤ a.stopNum * a.q ^ (2 * k)

/-- prune at the first candidate beyond the new range (`break`: the list is sorted) -/
def prune (a : ACfg) (B k : Nat) : List Cand → List Cand
  | [] => []
  | (d, c) :: cs => if inForce a B k c then (d, c) :: prune a B k cs else []

/-- `split_subnet`: every destination its own group, pruned sources join / merge (sources left
without candidates join nothing) -/
def split (a : ACfg) (B k : Nat) (n : Net) : List Net :=
  let pruned := n.srcs.map (fun (i, cs) => (i, prune a B k cs))
  let init : List Group := n.dsts.map (fun j => ([], [j]))
  let groups := pruned.foldl (fun gs (i, cs) => addSource i (realDests cs) gs) init
  groups.map (fun g =>
    { srcs := g.1.reverse.filterMap (fun i => (pruned.find? (fun x => x.1 == i))),
      dsts := g.2 })

/-- the shortcut cases of the `subnet_linker_*` wrappers return before the size test -/
def shortcut (n : Net) : Bool :=
  (n.srcs.length == 0 && n.dsts.length == 1) || (n.srcs.length == 1 && n.dsts.length == 1) ||
  (n.srcs.length == 1 && n.dsts.length == 0)

/-- all results present → the list of them -/
def allSome {α} : List (Option α) → Option (List α)
  | [] => some []
  | none :: _ => none
  | some x :: xs => (allSome xs).map (x :: ·)

/-- `adaptive_link_wrap`: `none` = SubnetOversizeException -/
def plan (a : ACfg) (B : Nat) : Nat → Nat → Net → Option (List Final)
  | 0, _, _ => none                      -- fuel exhausted (unreachable when fuel ≥ #reductions)
  | fuel + 1, k, n =>
    if shortcut n || n.srcs.length ≤ a.maxSizeA then some [{ net := n, k := k }]
    else if atStop a k then none
    else (allSome ((split a B (k + 1) n).map (plan a B fuel (k + 1)))).map List.flatten

/-- scaled candidate lists of a final group (null candidate appended) -/
def finalSrcs (a : ACfg) (B : Nat) (f : Final) : List Src :=
  f.net.srcs.map (fun (_, cs) =>
    cs.map (fun (d, c) => ((d, c * a.q ^ (2 * f.k)) : Cand)) ++ [(none, B * a.p ^ (2 * f.k))])

/-- real candidates of a row of distances (`candsOfRow` without the null candidate) -/
def realOfRow (B : Nat) (row : List Nat) : List Cand :=
  ((row.zipIdx).filterMap (fun (d, j) => if d ≤ B then some ((some j, d) : Cand) else none)).foldr insCand []

/-- the sub-nets of a step as `Net`s -/
def stepNets (cfg : Cfg) (st : State) (t : Int) (dsts : List Pos) : List Net :=
  let rows := st.srcs.map (distRow cfg t dsts)
  (stepGroups cfg st t dsts).map (fun g =>
    { srcs := g.1.reverse.map (fun i => (i, realOfRow cfg.B (getD' rows i []))), dsts := g.2 })

/-- what the implementation chose for source `i` inside a final group (cost on the scaled scale;
a destination that is not among the candidates in force yields a pair that fails admissibility) -/
def chosenA (a : ACfg) (cfg : Cfg) (st : State) (labels : List Nat) (k : Nat) (i : Nat)
    (cs : List Cand) : Cand :=
  match st.srcs[i]? with
  | none => (none, cfg.B * a.p ^ (2 * k))
  | some s =>
    match labels.idxOf? s.track with
    | none => (none, cfg.B * a.p ^ (2 * k))
    | some j =>
      match cs.find? (fun c => c.1 == some j) with
      | some c => (c.1, c.2 * a.q ^ (2 * k))
      | none => (some j, 0)

def finalAsg (a : ACfg) (cfg : Cfg) (st : State) (labels : List Nat) (f : Final) : List Cand :=
  f.net.srcs.map (fun (i, cs) => chosenA a cfg st labels f.k i cs)

/-- one final group is solved optimally with the range in force as the cost of not linking -/
def finalOkB (a : ACfg) (cfg : Cfg) (st : State) (labels : List Nat) (f : Final) : Bool :=
  let ss := finalSrcs a cfg.B f
  let asg := finalAsg a cfg st labels f
  if ss.isEmpty then true else
  ss.all sortedB && admissibleB ss asg [] &&
  (match solveOrdered ss with
   | some (c, _) => cost asg == c
   | none => false)

/-- sources of a sub-net that ended up in no final group must stay unlinked -/
def orphansOkB (st : State) (labels : List Nat) (n : Net) (fs : List Final) : Bool :=
  n.srcs.all (fun (i, _) =>
    fs.any (fun f => f.net.srcs.any (fun x => x.1 == i)) ||
    (match st.srcs[i]? with
     | some s => !(labels.contains s.track)
     | none => true))

inductive AVerdict where
  | ok (st : State) (reduced : Nat) (finals : Nat) (capped : Bool)
      -- #groups that needed a reduction, #final groups; `capped`: only C01 validity was judged
  | expectOversize
  | capped
  | bad (reason : String)

/-- The step relation under adaptive search. -/
def stepCheckA (a : ACfg) (cfg : Cfg) (st : State) (t : Int) (dsts : List Pos)
    (labels? : Option (List Nat)) : AVerdict :=
  let nets := stepNets cfg st t dsts
  -- `numba_link` (strategies numba / hybrid) raises SubnetOversizeException for a source with more
  -- than 9 forward candidates (null candidate included); adaptive_link_wrap treats that like an
  -- oversize group.  Such steps, and steps beyond the neighbour cap, are outside the adaptive
  -- claims: a raise gets verdict `capped`; returned labels are still judged for C01 validity.
  if cappedB cfg st t dsts ||
      (cfg.numbaCap && nets.any (fun n => n.srcs.any (fun s => decide (s.2.length ≥ 9)))) then
    (match labels? with
     | none => .capped
     | some labels =>
       match validWhy cfg st t dsts labels with
       | some why => .bad why
       | none => .ok (nextState cfg st t dsts labels) 0 0 true)
  else
  let plans := nets.map (fun n => (n, plan a cfg.B 64 0 n))
  let raises := plans.any (fun x => x.2.isNone)
  match labels? with
  | none => if raises then .expectOversize else .bad "raised SubnetOversizeException although every group can be reduced to fit"
  | some labels =>
  if raises then .bad "returned labels although an oversize group has reached adaptive_stop" else
  match validWhy cfg st t dsts labels with
  | some why => .bad why
  | none =>
  let ok := plans.all (fun x =>
    match x.2 with
    | none => false
    | some fs => fs.all (finalOkB a cfg st labels) && orphansOkB st labels x.1 fs)
  if !ok then .bad "a (sub-)group is not solved optimally within the range in force" else
  let reduced := (plans.filter (fun x => match x.2 with
    | some fs => fs.any (fun f => f.k > 0) || fs.isEmpty
    | none => false)).length
  let finals := (plans.map (fun x => match x.2 with | some fs => fs.length | none => 0)).foldl (· + ·) 0
  .ok (nextState cfg st t dsts labels) reduced finals false

structure ARun where
  verdict : String
  step : Nat
  reason : String
  reduced : Nat
  finals : Nat
  cappedSteps : Nat := 0

def runCheckA (a : ACfg) (cfg : Cfg) (levels : List Level) : ARun :=
  match levels with
  | [] => { verdict := "ok", step := 0, reason := "", reduced := 0, finals := 0 }
  | l0 :: rest =>
    match l0.labels with
    | none => { verdict := "bad", step := 0, reason := "first level raised", reduced := 0, finals := 0 }
    | some lab0 =>
    match initCheck l0.t l0.dsts lab0 with
    | .ok st0 _ _ _ _ =>
      let rec loop (st : State) (k : Nat) (ls : List Level) (r f cp : Nat) : ARun :=
        match ls with
        | [] => { verdict := "ok", step := k, reason := "", reduced := r, finals := f, cappedSteps := cp }
        | l :: ls' =>
          match stepCheckA a cfg st l.t l.dsts l.labels with
          | .ok st' r' f' c' => loop st' (k + 1) ls' (r + r') (f + f') (cp + (if c' then 1 else 0))
          | .expectOversize => { verdict := "expect-oversize", step := k, reason := "", reduced := r, finals := f }
          | .capped => { verdict := "capped", step := k, reason := "", reduced := r, finals := f }
          | .bad why => { verdict := "bad", step := k, reason := why, reduced := r, finals := f }
      loop st0 1 rest 0 0 0
    | .bad why => { verdict := "bad", step := 0, reason := why, reduced := 0, finals := 0 }
    | _ => { verdict := "bad", step := 0, reason := "internal", reduced := 0, finals := 0 }

end TrackpyV.Adaptive
