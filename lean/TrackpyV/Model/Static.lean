/-
Model of `trackpy/static.py` (clusters, proximity, pair-correlation normalisation).

* `Clusters`, `Clusters.init/add/fromPairs/clusterSize` mirror the class `Clusters`
  (static.py:388-429) field by field: `pos_ids` is a list, the dict `clusters` an association list
  in insertion order.
* `pairs` models `cKDTree(coords / separation).query_pairs(1)` followed by the strictness
  filter of `Clusters.from_coords` (static.py:402-405 as repaired by
  repo-fixes/C19-cluster-strict-separation.patch): all `i < j` whose rescaled squared distance is
  `< 1` (STRICT: "closer than separation").  The KD-tree itself is a modelled external (brute force).
* `clusterIter` mirrors `cluster_iter` (static.py:432-457): `next_id` runs across frames.
* `proximity` models `tree.query(tree.data, 2)[0][:, 1]` (static.py:42-44) as the smallest squared
  distance to another row (`none` = `inf` for a single row).
* `pairCorr` mirrors `pair_correlation_2d/3d` (static.py:92-147, 191-250) for explicit `boundary`,
  `fraction = 1`, in exact rationals on squared distances, with the edge correction `arc` an
  abstract function of `(dist², h)` where `h` are the distances to the box sides
  (exactly the data `arclen_2d_bounded/area_3d_bounded` look at, static.py:311-385).

No Mathlib imports: this file is compiled into the native driver.
-/
namespace TrackpyV.Static

abbrev Point := List Rat

/-! ### geometry -/

/-- squared Euclidean distance (cKDTree default metric, squared) -/
def dist2 (p q : Point) : Rat := (List.zipWith (fun a b => (a - b) * (a - b)) p q).sum

/-- `np.array(coords) / separation` for one row (separation already broadcast to one value per
axis) -/
def scaled (sep p : Point) : Point := List.zipWith (fun a s => a / s) p sep

/-- rescaled squared distance `Σ ((pᵢ − qᵢ)/sepᵢ)²` -/
def sdist2 (sep p q : Point) : Rat := dist2 (scaled sep p) (scaled sep q)

/-- the pair test of `from_coords` (static.py:402-405, repaired): strictly closer than
`separation` -/
def near (sep p q : Point) : Bool := decide (sdist2 sep p q < 1)

/-- all index pairs `i < j` that are `near` — the set `query_pairs` + filter produces
(order is the model's own; the code iterates a Python `set`) -/
def pairs (sep : Point) (pts : List Point) : List (Nat × Nat) :=
  (List.range pts.length).flatMap fun i =>
    ((List.range pts.length).filter fun j =>
        decide (i < j) && near sep (pts.getD i []) (pts.getD j [])).map fun j => (i, j)

/-! ### class Clusters (static.py:388-429) -/

structure Clusters where
  /-- `self.pos_ids` -/
  posIds : List Nat
  /-- `self.clusters` (dict in insertion order: id ↦ members) -/
  clusters : List (Nat × List Nat)
deriving Repr

/-- `__init__(range(length))` (static.py:407-409) -/
def Clusters.init (n : Nat) : Clusters :=
  { posIds := List.range n, clusters := (List.range n).map fun i => (i, [i]) }

/-- `self.clusters[k]` -/
def Clusters.members (c : Clusters) (k : Nat) : List Nat := (c.clusters.lookup k).getD []

/-- `for f in members: pos_ids[f] = v` -/
def setAll (ids : List Nat) (members : List Nat) (v : Nat) : List Nat :=
  members.foldl (fun p f => p.set f v) ids

/-- `add(a, b)` (static.py:414-421): when the ids differ, the class of `b` is merged into the
class of `a`, its members are relabelled, its dict entry deleted -/
def Clusters.add (c : Clusters) (a b : Nat) : Clusters :=
  let i1 := c.posIds.getD a 0
  let i2 := c.posIds.getD b 0
  if i1 = i2 then c
  else
    let m1 := c.members i1
    let m2 := c.members i2
    { posIds := setAll c.posIds m2 i1
      clusters := (c.clusters.map fun e => if e.1 = i1 then (i1, m1 ++ m2) else e).filter
                    fun e => e.1 != i2 }

/-- `from_pairs(pairs, length)` (static.py:390-395) -/
def Clusters.fromPairs (E : List (Nat × Nat)) (n : Nat) : Clusters :=
  E.foldl (fun c p => c.add p.1 p.2) (Clusters.init n)

/-- `cluster_size` (static.py:423-429) -/
def Clusters.clusterSize (c : Clusters) : List (Option Nat) :=
  c.clusters.foldl (fun res e => e.2.foldl (fun r f => r.set f (some e.2.length)) res)
    (List.replicate c.posIds.length none)

/-- `from_coords(coords, separation)` with the model's own pair order -/
def Clusters.fromCoords (sep : Point) (pts : List Point) : Clusters :=
  Clusters.fromPairs (pairs sep pts) pts.length

/-! ### cluster_iter (static.py:432-457) -/

/-- one frame's output: the `cluster` and `cluster_size` columns -/
structure FrameOut where
  ids : List Nat
  sizes : List (Option Nat)
deriving Repr

/-- `result['cluster'].max() + 1` -/
def nextId (ids : List Nat) (cur : Nat) : Nat :=
  match ids with
  | [] => cur          -- not reachable through `groupby` (groups are never empty)
  | x :: xs => xs.foldl max x + 1

/-- the loop of `cluster_iter`; `orders` gives, per frame, the order in which the pairs are fed
to `from_pairs` -/
def clusterIterFrom (next : Nat) : List (List (Nat × Nat) × Nat) → List FrameOut
  | [] => []
  | (E, n) :: rest =>
    let c := Clusters.fromPairs E n
    let ids := c.posIds.map (· + next)
    { ids := ids, sizes := c.clusterSize } :: clusterIterFrom (nextId ids next) rest

/-- `cluster_iter` on frames already grouped by `groupby(t_column)` (ascending frame number) -/
def clusterIter (sep : Point) (frames : List (List Point)) : List FrameOut :=
  clusterIterFrom 0 (frames.map fun pts => (pairs sep pts, pts.length))

/-! ### proximity (static.py:13-48) -/

/-- squared distances from row `i` to every other row -/
def otherDists (pts : List Point) (i : Nat) : List Rat :=
  ((List.range pts.length).filter (· != i)).map fun j => dist2 (pts.getD i []) (pts.getD j [])

/-- squared distance to the nearest other row; `none` = `inf` -/
def proximity (pts : List Point) (i : Nat) : Option Rat := (otherDists pts i).min?

/-! ### pair correlation (static.py:51-250), explicit `boundary`, `fraction = 1` -/

/-- `boundary`: one `(min, max)` per axis, in the order of the coordinate columns -/
abbrev Box := List (Rat × Rat)

/-- `(feat.x >= xmin) & (feat.x <= xmax) & …` (static.py:99-100, 199-201): inclusive -/
def inBox (box : Box) (p : Point) : Bool :=
  (List.zipWith (fun v (b : Rat × Rat) => decide (b.1 ≤ v) && decide (v ≤ b.2)) p box).all id

/-- `h` of `arclen_2d_bounded/area_3d_bounded` (static.py:314-315, 356-358): distance to the low
and to the high side, axis after axis -/
def sideDists (box : Box) (p : Point) : List Rat :=
  (List.zipWith (fun v (b : Rat × Rat) => [v - b.1, b.2 - v]) p box).flatten

/-- `(xmax - xmin) * (ymax - ymin) [* (zmax - zmin)]` -/
def volume (box : Box) : Rat := (box.map fun b => b.2 - b.1).foldl (· * ·) 1

/-- number of bins: `len(np.arange(0, cutoff + dr, dr)) - 1 = ceil(cutoff / dr)` -/
def nbins (cutoff dr : Rat) : Nat := (cutoff / dr).ceil.toNat

/-- `np.histogram` bin `k` = `[k·dr, (k+1)·dr)` on distances, expressed on squared distances.
(The last bin of `np.histogram` is closed on the right, but `query(distance_upper_bound=cutoff)`
only returns `dist < cutoff ≤ last edge`, so that edge is never hit.) -/
def inBin (dr : Rat) (k : Nat) (d2 : Rat) : Bool :=
  decide ((k * dr) * (k * dr) ≤ d2) && decide (d2 < ((k + 1) * dr) * ((k + 1) * dr))

/-- one retained neighbour: squared distance and the side distances of the CENTRE particle -/
abbrev Sample := Rat × List Rat

/-- the neighbours of `p` kept by `query(..., distance_upper_bound=cutoff)` (strict) and the mask
`dist > 0` (static.py:129-137): self and exact duplicates are dropped -/
def neighbours (box : Box) (cutoff : Rat) (inside : List Point) (p : Point) : List Sample :=
  inside.filterMap fun q =>
    let d2 := dist2 p q
    if 0 < d2 ∧ d2 < cutoff * cutoff then some (d2, sideDists box p) else none

/-- all (ordered) retained pairs -/
def samples (box : Box) (cutoff : Rat) (inside : List Point) : List Sample :=
  inside.flatMap (neighbours box cutoff inside)

def sumRat (l : List Rat) : Rat := l.foldr (· + ·) 0

/-- weighted histogram value of one bin: `Σ 1/arc`; `none` = NaN as soon as one `arc` OF THIS BIN
is NaN (static.py `_weighted_histogram`, as repaired by
repo-fixes/C19-paircorr-nan-weight-own-bin.patch; the unrepaired `np.histogram(weights=…)`
propagates a NaN into every higher bin through its cumulative sum) -/
def binSum (arc : Rat → List Rat → Option Rat) (dr : Rat) (ss : List Sample) (k : Nat) :
    Option Rat :=
  let ws := (ss.filter fun s => inBin dr k s.1).map fun s => arc s.1 s.2
  if ws.any Option.isNone then none
  else some (sumRat (ws.map fun w => 1 / w.getD 1))

/-- `ndensity` (static.py:102-103): given, or `(N - 1) / volume` -/
def density (box : Box) (n : Nat) (nd : Option Rat) : Rat :=
  match nd with
  | some d => d
  | none => ((n : Rat) - 1) / volume box

/-- `g_r / (ndensity * len(pos) * dr)` for every bin -/
def pairCorr (arc : Rat → List Rat → Option Rat) (box : Box) (cutoff dr : Rat)
    (nd : Option Rat) (pts : List Point) : List (Option Rat) :=
  let inside := pts.filter (inBox box)
  let ss := samples box cutoff inside
  let norm := density box inside.length nd * inside.length * dr
  (List.range (nbins cutoff dr)).map fun k => (binSum arc dr ss k).map (· / norm)

/-- `arc` given as a finite table (the driver plugs in the code's own edge-correction values) -/
def arcOfTable (tbl : List (Sample × Option Rat)) (d2 : Rat) (h : List Rat) : Option Rat :=
  match tbl.lookup (d2, h) with
  | some w => w
  | none => none

/-! ### specification vocabulary (used by Props/C19) -/

/-- reflexive-transitive closure: `a = x₀, x₁, …, x_k = b` with `R xᵢ xᵢ₊₁` — a *chain* -/
inductive Reach (R : Nat → Nat → Prop) : Nat → Nat → Prop
  | refl (a : Nat) : Reach R a a
  | step {a b c : Nat} : Reach R a b → R b c → Reach R a c

/-- two different features of the frame that are closer than `separation` -/
def Close (sep : Point) (pts : List Point) (x y : Nat) : Prop :=
  x < pts.length ∧ y < pts.length ∧ x ≠ y ∧ sdist2 sep (pts.getD x []) (pts.getD y []) < 1

/-- the undirected graph of an edge list -/
def Adj (E : List (Nat × Nat)) (x y : Nat) : Prop := (x, y) ∈ E ∨ (y, x) ∈ E

end TrackpyV.Static
