/-
Model of `trackpy/static.py` (clusters, proximity, pair-correlation normalisation).

* `Clusters`, `Clusters.init/add/fromPairs/clusterSize` mirror the class `Clusters`
  (static.py:388-429) field by field: `pos_ids` is a list, the dict `clusters` an association list
  in insertion order.
* `pairs` models `cKDTree(coords / separation).query_pairs(1)` followed by the strictness
  filter of `Clusters.from_coords` (static.py:402-405 as repaired by
  repo-fixes/C19-cluster-strict-separation.patch): all `i < j` whose rescaled squared distance is
  `< 1` (STRICT: "closer than separation").  The KD-tree itself is a modelled external (brute force).
* `clusterIter` mirrors `cluster_iter` (static.py:432-457): `next_id` runs across frames.
* `proximity` models `tree.query(tree.data, 2)[0][:, 1]` (static.py:42-44) as the smallest squared
  distance to another row (`none` = `inf` for a single row).
* `pairCorr` mirrors `pair_correlation_2d/3d` (static.py:92-147, 191-250) for explicit `boundary`,
  `fraction = 1`, in exact rationals on squared distances, with the edge correction `arc` an
  abstract function of `(dist², h)` where `h` are the distances to the box sides
  (exactly the data `arclen_2d_bounded/area_3d_bounded` look at, static.py:311-385).

No Mathlib imports: this file is compiled into the native driver.
-/
namespace TrackpyV.Static

abbrev Point := List Rat

/-! ### geometry -/

/-- squared Euclidean distance (cKDTree default metric, squared) -/
def dist2 (p q : Point) : Rat := (List.zipWith (fun a b => (a - b) * (a - b)) p q).sum

/-- `np.array(coords) / separation` for one row (separation already broadcast to one value per
axis) -/
def scaled (sep p : Point) : Point := List.zipWith (fun a s => a / s) p sep

/-- rescaled squared distance `Σ ((pᵢ − qᵢ)/sepᵢ)²` -/
def sdist2 (sep p q : Point) : Rat := dist2 (scaled sep p) (scaled sep q)

/-- the pair test of `from_coords` (static.py:402-405, repaired): strictly closer than
`separation` -/
def near (sep p q : Point) : Bool := decide (sdist2 sep p q < 1)

/-- all index pairs `i < j` that are `near` — the set `query_pairs` + filter produces
(order is the model's own; the code iterates a Python `set`) -/
def pairs (sep : Point) (pts : List Point) : List (Nat × Nat) :=
  (List.range pts.length).flatMap fun i =>
    ((List.range pts.length).filter fun j =>
        decide (i < j) && near sep (pts.getD i []) (pts.getD j [])).map fun j => (i, j)

/-! ### class Clusters (static.py:388-429) -/

structure Clusters where
  /-- `self.pos_ids` -/
  posIds : List Nat
  /-- `self.clusters` (dict in insertion order: id ↦ members) -/
  clusters : List (Nat × List Nat)
deriving Repr

/-- `__init__(range(length))` (static.py:407-409) -/
def Clusters.init (n : Nat) : Clusters :=
  { posIds := List.range n, clusters := (List.range n).map fun i => (i, [i]) }

/-- `self.clusters[k]` -/
def Clusters.members (c : Clusters) (k : Nat) : List Nat := (c.clusters.lookup k).getD []

/-- `for f in members: pos_ids[f] = v` -/
def setAll (ids : List Nat) (members : List Nat) (v : Nat) : List Nat :=
  members.foldl (fun p f => p.set f v) ids

/-- `add(a, b)` (static.py:414-421): when the ids differ, the class of `b` is merged into the
class of `a`, its members are relabelled, its dict entry deleted -/
def Clusters.add (c : Clusters) (a b : Nat) : Clusters :=
  let i1 := c.posIds.getD a 0
  let i2 := c.posIds.getD b 0
  if i1 = i2 then c
  else
    let m1 := c.members i1
    let m2 := c.members i2
    { posIds := setAll c.posIds m2 i1
      clusters := (c.clusters.map fun e => if e.1 = i1 then (i1, m1 ++ m2) else e).filter
                    fun e => e.1 != i2 }

/-- `from_pairs(pairs, length)` (static.py:390-395) -/
def Clusters.fromPairs (E : List (Nat × Nat)) (n : Nat) : Clusters :=
  E.foldl (fun c p => c.add p.1 p.2) (Clusters.init n)

/-- `cluster_size` (static.py:423-429) -/
def Clusters.clusterSize (c : Clusters) : List (Option Nat) :=
  c.clusters.foldl (fun res e => e.2.foldl (fun r f => r.set f (some e.2.length)) res)
    (List.replicate c.posIds.length none)

/-- `from_coords(coords, separation)` with the model's own pair order -/
def Clusters.fromCoords (sep : Point) (pts : List Point) : Clusters :=
  Clusters.fromPairs (pairs sep pts) pts.length

/-! ### cluster_iter (static.py:432-457) -/

/-- one frame's output: the `cluster` and `cluster_size` columns -/
structure FrameOut where
  ids : List Nat
  sizes : List (Option Nat)
deriving Repr

/-- `result['cluster'].max() + 1` -/
def nextId (ids : List Nat) (cur : Nat) : Nat :=
  match ids with
  | [] => cur          -- not reachable through `groupby` (groups are never empty)
  | x :: xs => xs.foldl max x + 1

/-- the loop of `cluster_iter`; `orders` gives, per frame, the order in which the pairs are fed
to `from_pairs` -/
def clusterIterFrom (next : Nat) : List (List (Nat × Nat) × Nat) → List FrameOut
  | [] => []
  | (E, n) :: rest =>
    let c := Clusters.fromPairs E n
    let ids := c.posIds.map (· + next)
    { ids := ids, sizes := c.clusterSize } :: clusterIterFrom (nextId ids next) rest

/-- `cluster_iter` on frames already grouped by `groupby(t_column)` (ascending frame number) -/
def clusterIter (sep : Point) (frames : List (List Point)) : List FrameOut :=
  clusterIterFrom 0 (frames.map fun pts => (pairs sep pts, pts.length))

/-! ### proximity (static.py:13-48) -/

/-- squared distances from row `i` to every other row -/
def otherDists (pts : List Point) (i : Nat) : List Rat :=
  ((List.range pts.length).filter (· != i)).map fun j => dist2 (pts.getD i []) (pts.getD j [])

/-- squared distance to the nearest other row; `none` = `inf` -/
def proximity (pts : List Point) (i : Nat) : Option Rat := (otherDists pts i).min?

/-! ### specification vocabulary (used by Props/C19) -/

/-- reflexive-transitive closure: `a = x₀, x₁, …, x_k = b` with `R xᵢ xᵢ₊₁` — a *chain* -/
inductive Reach (R : Nat → Nat → Prop) : Nat → Nat → Prop
  | refl (a : Nat) : Reach R a a
  | step {a b c : Nat} : Reach R a b → R b c → Reach R a c

/-- two different features of the frame that are closer than `separation` -/
def Close (sep : Point) (pts : List Point) (x y : Nat) : Prop :=
  x < pts.length ∧ y < pts.length ∧ x ≠ y ∧ sdist2 sep (pts.getD x []) (pts.getD y []) < 1

/-- the undirected graph of an edge list -/
def Adj (E : List (Nat × Nat)) (x y : Nat) : Prop := (x, y) ∈ E ∨ (y, x) ∈ E

end TrackpyV.Static
