import TrackpyV.Model.Adaptive
import TrackpyV.Model.LinkerAlgo
/-!
A deterministic ADAPTIVE linking step — the mirror of `Linker.assign_links`
(`trackpy/linking/linking.py:524-540`) with `subnet_linker = adaptive_link_wrap`
(`linking.py:284-309`) once every implementation freedom is fixed: sub-nets from `stepNets`, each
sub-net cut into final groups by `plan` (mirror of the recursion `adaptive_link_wrap` →
`split_subnet`, `trackpy/linking/subnet.py:263-297`), each final group solved by `solveOrdered`
(mirror of `do_recur`) on its sources in the group's order with the reduced range as the cost of
not linking, new trajectories named `freshBase + j` as in `Model/LinkerAlgo.lean`.

`Props/C12Algo.algoA_accepted` shows that the adaptive step relation `stepCheckA` accepts this
algorithm's output for EVERY reachable state and level, and expects the raise exactly when the
algorithm raises: the relation is satisfiable on every input and not stricter than the algorithm
it was written to judge.

No Mathlib imports: this file is compiled into the native driver.
-/
namespace TrackpyV.Adaptive
open TrackpyV.Assign TrackpyV.Linker

/-- source numbers of a net, in the net's order -/
def netIds (n : Net) : List Nat := n.srcs.map (·.1)

/-- one final group: its sources (by number) paired with the candidate the solver chose for them
(costs on the scale of `finalSrcs`).  Mirrors the `subnet_linker` call inside
`adaptive_link_wrap` (linking.py:288-289) that does not raise. -/
def finalChoice (a : ACfg) (B : Nat) (f : Final) : Option (List (Nat × Cand)) :=
  if f.net.srcs.isEmpty then some []
  else match solveOrdered (finalSrcs a B f) with
    | some (_, asg) => some ((netIds f.net).zip asg)
    | none => none

/-- one sub-net: `none` = `adaptive_link_wrap` raises SubnetOversizeException; otherwise the
choices of all its final groups (`sn_spl.extend / sn_dpl.extend`, linking.py:302-307) -/
def netChoice (a : ACfg) (B : Nat) (n : Net) : Option (List (Nat × Cand)) :=
  match plan a B 64 0 n with
  | none => none
  | some fs => (allSome (fs.map (finalChoice a B))).map List.flatten

/-- all (source number, chosen candidate) pairs of the step (`assign_links`, linking.py:526-533);
sources in no final group do not occur (they are `Subnets.lost`: linked to nothing) -/
def algoChoicesA (a : ACfg) (cfg : Cfg) (st : State) (t : Int) (dsts : List Pos) :
    Option (List (Nat × Cand)) :=
  (allSome ((stepNets cfg st t dsts).map (netChoice a cfg.B))).map List.flatten

/-- the labels of the deterministic adaptive step; `none` = the step raises -/
def algoLabelsA (a : ACfg) (cfg : Cfg) (st : State) (t : Int) (dsts : List Pos) :
    Option (List Nat) :=
  (algoChoicesA a cfg st t dsts).map (fun ch => (List.range dsts.length).map (labelOf st ch))

/-- is the optimum of some final group of this step not unique (or too large to enumerate)?
Driver statistic, as `Linker.stepTied`: decides whether the implementation must produce the
algorithm's partition or only an assignment of the same cost.  A raising step counts as tied. -/
def stepTiedA (a : ACfg) (cfg : Cfg) (st : State) (t : Int) (dsts : List Pos) : Bool :=
  (stepNets cfg st t dsts).any (fun n =>
    match plan a cfg.B 64 0 n with
    | none => true
    | some fs => fs.any (fun f =>
        let ss := finalSrcs a cfg.B f
        if ss.isEmpty then false
        else if (ss.map List.length).foldl (· * ·) 1 > 50000 then true
        else countOptimal ss != 1))

/-- number of steps with a tied optimum along a labelled movie (state evolves by `nextState`) -/
def runTiesA (a : ACfg) (cfg : Cfg) (levels : List Level) : Nat :=
  match levels with
  | [] => 0
  | l0 :: rest =>
    let st0 := nextState initCfg { srcs := [], used := [] } l0.t l0.dsts (l0.labels.getD [])
    (rest.foldl (fun (acc : State × Nat) l =>
      let tied := stepTiedA a cfg acc.1 l.t l.dsts
      (nextState cfg acc.1 l.t l.dsts (l.labels.getD []), acc.2 + (if tied then 1 else 0)))
      (st0, 0)).2

/-- the labels of the deterministic adaptive algorithm for a whole movie (first level labelled
`0 … n-1`); `none` as soon as a step raises -/
def algoMovieA (a : ACfg) (cfg : Cfg) (levels : List Level) : Option (List (List Nat)) :=
  match levels with
  | [] => some []
  | l0 :: rest =>
    let lab0 := List.range l0.dsts.length
    let st0 := nextState initCfg { srcs := [], used := [] } l0.t l0.dsts lab0
    let r := rest.foldl (fun (acc : State × List (List Nat) × Bool) l =>
      if acc.2.2 then acc else
      match algoLabelsA a cfg acc.1 l.t l.dsts with
      | none => (acc.1, acc.2.1, true)
      | some labels => (nextState cfg acc.1 l.t l.dsts labels, acc.2.1 ++ [labels], false))
      (st0, [lab0], false)
    if r.2.2 then none else some r.2.1

end TrackpyV.Adaptive
