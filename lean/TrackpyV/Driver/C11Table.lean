import TrackpyV.Model.Proto
import TrackpyV.Model.PredictTable
import TrackpyV.Driver.C01Table

/-! Driver op for the single-table entry of the predictor classes (`Model/PredictTable.lean`).

row / rows / ids as in `Driver/C01Table` (`idx frame c,c,.. tag`, rows separated by `;`).

`PTABLE rows | ids`
   the model groups the rows by frame value (ascending), builds the levels that reach the linker
   and writes the given ids back (`wrapSingle (fun _ => ids) rows`)
   -> `status=<ok|raise|empty> asc=<0|1> levels=t:c,c+c,c;t:...  groups=tag,tag;tag;...
       rows=idx:frame:c,c:tag:label;...  first=t:c,c+..;...`
   levels = `levelsHanded rows` in the order handed over; groups = the tags (row identities) of
   every level in level order; asc = the frame values handed over are strictly increasing
   (conclusion of `wrapSingle_frames_ascending`, re-checked here); rows = the returned table in
   output order; first = the levels of the `sort=False` variant (for the report only).
-/
namespace TrackpyV.Driver.C11Table
open TrackpyV.Proto TrackpyV.LinkTable TrackpyV.PredictTable TrackpyV.Driver.C01Table

def ascending : List (Option Rat) → Bool
  | some a :: some b :: rest => decide (a < b) && ascending (some b :: rest)
  | [some _] => true
  | [] => true
  | _ => false

def showGroups (ts : List (List Row)) : String :=
  joinWith ";" (ts.map (fun t => joinWith "," (t.map (fun r => toString r.payload))))

def handlePTable (rest : String) : String :=
  match splitKeep rest "|" with
  | [rs, is] =>
    match parseRows? rs, parseIds? is with
    | some rows, some ids =>
      let levels := levelsHanded rows
      let asc := ascending (framesHanded rows)
      let common := s!"asc={b2s asc} levels={dash (showIterLevels levels)} " ++
        s!"groups={dash (showGroups (framesOf rows))} " ++
        s!"first={dash (showIterLevels (levelsHandedFirstAppearance rows))}"
      if rows.isEmpty then s!"status=empty {common}"
      else
        match wrapSingle (fun _ => ids) rows with
        | none => s!"status=raise {common}"
        | some out => s!"status=ok {common} rows={dash (joinWith ";" (out.map showIRow))}"
    | _, _ => "bad-op"
  | _ => "bad-op"

def handlers : List (String × (String → String)) := [("PTABLE", handlePTable)]

end TrackpyV.Driver.C11Table
