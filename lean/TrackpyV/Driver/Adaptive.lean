import TrackpyV.Model.Proto
import TrackpyV.Model.Adaptive
import TrackpyV.Model.AdaptiveAlgo
import TrackpyV.Model.AdaptiveNumba
import TrackpyV.Driver.Linker

/-! `ARUN p=3 q=4 sn=1 sd=4 maxa=3 w=.. B=.. mem=.. maxn=.. maxsize=.. vel=- drop=0 ; <levels as LRUN>`
  -> `verdict=<ok|bad|expect-oversize|capped> step=<k> reduced=<n> finals=<n> capsteps=<n> ties=<n|?> reason=<..>`
  (`ties` = number of steps in which some final group's optimum is not unique, only when `ok`)
  Optional token `nmode=1|2` (numba | hybrid): judge with `stepCheckAN` (Model/AdaptiveNumba.lean: the
  9-candidate cap of `numba_link` is part of the plan, `ncap=` is ignored); the response then also
  carries `ndiff=<number of steps whose plan differs from the cap-free plan>`. -/
namespace TrackpyV.Driver.Adaptive
open TrackpyV.Proto TrackpyV.Linker TrackpyV.Adaptive TrackpyV.Driver.Linker

def parseACfg? (s : String) : Option ACfg := do
  let m := parseKV s
  let p ← parseNat? (← m.lookup "p")
  let q ← parseNat? (← m.lookup "q")
  let sn ← parseNat? (← m.lookup "sn")
  let sd ← parseNat? (← m.lookup "sd")
  let maxa ← parseNat? (← m.lookup "maxa")
  some { p := p, q := q, stopNum := sn, stopDen := sd, maxSizeA := maxa }

def handleRun (rest : String) : String :=
  match splitKeep rest ";" with
  | [] => "bad-op"
  | c :: ls =>
    match parseACfg? c, parseCfg? c, parseAll parseLevel? ls with
    | some a, some cfg, some levels =>
      let nmode := ((parseKV c).lookup "nmode").bind parseNat? |>.getD 0
      if nmode != 0 then
        let rn := runCheckAN a cfg nmode levels
        let r := rn.run
        let why := r.reason.replace " " "_"
        let ties := if r.verdict == "ok" then toString rn.ties else "?"
        s!"verdict={r.verdict} step={r.step} reduced={r.reduced} finals={r.finals} capsteps={r.cappedSteps} ties={ties} ndiff={rn.numbaSteps} reason={why}"
      else
      let r := runCheckA a cfg levels
      let why := r.reason.replace " " "_"
      let ties := if r.verdict == "ok" then toString (runTiesA a cfg levels) else "?"
      s!"verdict={r.verdict} step={r.step} reduced={r.reduced} finals={r.finals} capsteps={r.cappedSteps} ties={ties} reason={why}"
    | _, _, _ => "bad-op"

def handlers : List (String × (String → String)) := [("ARUN", handleRun)]
end TrackpyV.Driver.Adaptive
