import TrackpyV.Model.Proto
import TrackpyV.Model.Bandpass

/-! Driver ops for C10 (bandpass).  Fields are separated by `|`; lists by `,`; the per-axis kernels
by `;`.  Rationals travel as `p/q`.

`BP   <shape> | <lshort> | <kernels> | <llong> | <thr or d> | <pixels>`
        -> `err=<badLength|scales|evenSize>` | `ok <pixels>`
`LOW  <shape> | <sigma> | <kernels> | <pixels>`        -> `ok <pixels>`   (Bandpass.lowpass)
`BOX  <shape> | <size> | <pixels>`                      -> `err=…` | `ok <pixels>`  (Bandpass.boxcar)
`DIFF <shape> | <lshort> | <kernels> | <llong> | <pixels>` -> `ok <pixels>` (unclipped lowpass − boxcar)
`TR2  <H> <W> | <pixels>`                               -> `ok <pixels>`   (Bandpass.transpose2)
`SWAP <k> | <shape> | <pixels>`                         -> `ok <pixels>`   (Bandpass.swapImg: axes k, k+1 exchanged)
-/
namespace TrackpyV.Driver.C10
open TrackpyV.Proto TrackpyV.Bandpass

def parseKernels? (s : String) : Option (List (Array Rat)) :=
  (parseAll (fun t => ratList? t) (splitKeep s ";")).map (·.map List.toArray)

def showErr : Err → String
  | .badLength => "err=badLength"
  | .scales => "err=scales"
  | .evenSize => "err=evenSize"

def showArr (a : Array Rat) : String := "ok " ++ showRatList a.toList

def okShape (shape : List Nat) (px : List Rat) : Bool := shape.prod == px.length

def handleBP (rest : String) : String :=
  match splitKeep rest "|" with
  | [sh, ls, ks, ll, th, px] =>
    match natList? sh, ratList? ls, parseKernels? ks, intList? ll, ratList? px with
    | some shape, some lshort, some kernels, some llong, some pixels =>
      let thr? : Option (Option Rat) := if th = "d" then some none else (parseRat? th).map some
      match thr? with
      | none => "bad-op"
      | some thr =>
        if !okShape shape pixels then "bad-shape" else
        match bandpass shape pixels.toArray lshort kernels llong thr with
        | .error e => showErr e
        | .ok out => showArr out
    | _, _, _, _, _ => "bad-op"
  | _ => "bad-op"

def handleLow (rest : String) : String :=
  match splitKeep rest "|" with
  | [sh, ls, ks, px] =>
    match natList? sh, ratList? ls, parseKernels? ks, ratList? px with
    | some shape, some sigma, some kernels, some pixels =>
      if !okShape shape pixels then "bad-shape" else
      showArr (lowpass shape pixels.toArray sigma kernels)
    | _, _, _, _ => "bad-op"
  | _ => "bad-op"

def handleBox (rest : String) : String :=
  match splitKeep rest "|" with
  | [sh, ll, px] =>
    match natList? sh, intList? ll, ratList? px with
    | some shape, some size, some pixels =>
      if !okShape shape pixels then "bad-shape" else
      match boxcar shape pixels.toArray size with
      | .error e => showErr e
      | .ok out => showArr out
    | _, _, _ => "bad-op"
  | _ => "bad-op"

def handleDiff (rest : String) : String :=
  match splitKeep rest "|" with
  | [sh, ls, ks, ll, px] =>
    match natList? sh, ratList? ls, parseKernels? ks, intList? ll, ratList? px with
    | some shape, some lshort, some kernels, some llong, some pixels =>
      if !okShape shape pixels then "bad-shape" else
      showArr (diff shape pixels.toArray lshort kernels llong)
    | _, _, _, _, _ => "bad-op"
  | _ => "bad-op"

def handleTr2 (rest : String) : String :=
  match splitKeep rest "|" with
  | [hw, px] =>
    match natList? hw " ", ratList? px with
    | some [h, w], some pixels =>
      if h * w != pixels.length then "bad-shape" else showArr (transpose2 h w pixels.toArray)
    | _, _ => "bad-op"
  | _ => "bad-op"

def handleSwap (rest : String) : String :=
  match splitKeep rest "|" with
  | [ks, sh, px] =>
    match parseNat? ks, natList? sh, ratList? px with
    | some k, some shape, some pixels =>
      if !okShape shape pixels then "bad-shape" else showArr (swapImg k shape pixels.toArray)
    | _, _, _ => "bad-op"
  | _ => "bad-op"

def handlers : List (String × (String → String)) :=
  [("BP", handleBP), ("LOW", handleLow), ("BOX", handleBox), ("DIFF", handleDiff),
   ("TR2", handleTr2), ("SWAP", handleSwap)]

end TrackpyV.Driver.C10
