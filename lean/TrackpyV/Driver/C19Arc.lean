import TrackpyV.Model.Proto
import TrackpyV.Model.Arc

/-! Driver ops for the 2-D edge correction of C19 (static.py:264-277, 322-342), executed at
`Float`.  IEEE doubles travel as the decimal value of their 64-bit pattern (exact both ways, same
convention as Driver/C15): nothing is rounded by the protocol.

`ARCCAP <h> <r>`                       -> `v=<bits>`   `circle_cap_arclen(h, r)`
`ARCCORNER <h1> <h2> <r>`              -> `v=<bits>`   `circle_corner_arclen(h1, h2, r)`
`ARC2D <dist> <x> <y> <x0> <x1> <y0> <y1>` -> `v=<bits> raw=<bits>`
      `arclen_2d_bounded` for one pair (with / before the NaN guard)
-/
namespace TrackpyV.Driver.C19Arc
open TrackpyV.Proto TrackpyV.Arc

def floats? (s : String) : Option (List Float) :=
  (parseAll parseNat? (words s)).map fun l => l.map fun b => Float.ofBits (UInt64.ofNat b)

def showFloat (x : Float) : String := toString x.toBits.toNat

def handleCap (rest : String) : String :=
  match floats? rest with
  | some [h, r] => s!"v={showFloat (circleCapArclen h r)}"
  | _ => "bad-op"

def handleCorner (rest : String) : String :=
  match floats? rest with
  | some [h1, h2, r] => s!"v={showFloat (circleCornerArclen h1 h2 r)}"
  | _ => "bad-op"

def handleArc2d (rest : String) : String :=
  match floats? rest with
  | some [d, x, y, x0, x1, y0, y1] =>
    s!"v={showFloat (arclen2dBounded d x y x0 x1 y0 y1)} raw={showFloat (arclenRaw (x - x0) (x1 - x) (y - y0) (y1 - y) d)}"
  | _ => "bad-op"

def handlers : List (String × (String → String)) :=
  [("ARCCAP", handleCap), ("ARCCORNER", handleCorner), ("ARC2D", handleArc2d)]

end TrackpyV.Driver.C19Arc
