import TrackpyV.Model.Proto
import TrackpyV.Model.LocatePost

/-! Driver op for C08 (post-refinement part of `locate`).

`C08POST sep=a,b scale=q black=<q|nan> noise=<q|nan> npx=q iso=<0|1> nsz=a,b cm=a,b
         | feat ; feat ; ... | mm ms tn ; mm ms tn ; ...`        (ms = q|n, tn = k|n)
   feat = `tag p1,p2[,p3] mass size|nan signal|nan raw_mass e1,e2,..|-`   (e_i rational or `nan`)
-> `ok=1 sorted=<0|1> n0=<rows in> nd=<rows after dedupe>
    dpairs=<duplicate pairs> dties=<duplicate pairs of equal mass> dmargin=<min |d²-1| or n>`
   followed, per triple, by ` | nf=<rows after mass/size filter>
    mmargin=<min |mass/scale - minmass| or n> smargin=<min |size - maxsize| or n>
    cuttie=<0|1>  (a kept and a dropped row of topn have equal mass)
    anytie=<0|1>  (two rows entering topn have equal mass)
    rows=tag:mass:signal:ep1,ep2;tag:...`            (output order; ep cells `nan`/`inf`/`-inf`/q)
-/
namespace TrackpyV.Driver.C08
open TrackpyV.Proto TrackpyV.LocatePost

def parseOptRat? (s : String) : Option (Option Rat) :=
  if s = "nan" || s = "n" then some none else (parseRat? s).map some

def parseFeat? (s : String) : Option Feat :=
  match words s with
  | [tag, pos, mass, size, signal, raw, extra] => do
      let t ← parseNat? tag
      let p ← ratList? pos
      let m ← parseRat? mass
      let sz ← parseOptRat? size
      let sg ← parseOptRat? signal
      let r ← parseRat? raw
      let ex ← if extra = "-" then some [] else parseAll parseOptRat? (splitTrim extra ",")
      some { tag := t, pos := p, mass := m, size := sz, signal := sg, rawMass := r, extra := ex }
  | _ => none

def lookupKV (kvs : List (String × String)) (k : String) : Option String := kvs.lookup k

def parseKVs (s : String) : List (String × String) :=
  (words s).filterMap (fun w => match w.splitOn "=" with
    | [k, v] => some (k, v)
    | _ => none)

def showXR : XR → String
  | .nan => "nan"
  | .pinf => "inf"
  | .ninf => "-inf"
  | .fin q => showRat q

def showOptRat : Option Rat → String
  | none => "nan"
  | some q => showRat q

def showOptMargin : Option Rat → String
  | none => "n"
  | some q => showRat q

def b2s (b : Bool) : String := if b then "1" else "0"

def showOut (o : Out) : String :=
  joinWith ":" [toString o.feat.tag, showRat o.feat.mass, showOptRat o.feat.signal,
    joinWith "," (o.ep.map showXR)]

def minList (l : List Rat) : Option Rat := l.foldl minOpt none

/-- one pass over all pairs: (duplicate pairs, duplicate pairs of equal mass, min |d² − 1|) -/
def pairStats (sep : List Rat) (l : List Feat) : Nat × Nat × Option Rat :=
  l.foldl (fun acc x => l.foldl (fun (acc : Nat × Nat × Option Rat) y =>
    if x.tag < y.tag then
      let d := dist2 sep x.pos y.pos
      let c := decide (d < 1)
      (acc.1 + (if c then 1 else 0), acc.2.1 + (if c && decide (x.mass = y.mass) then 1 else 0),
        minOpt acc.2.2 (absR (d - 1)))
    else acc) acc) (0, 0, none)

def parseTriple? (s : String) : Option Filt :=
  match words s with
  | [mm, ms, tn] => do
      let mm ← parseRat? mm
      let ms ← parseOptRat? ms
      let tn ← parseOptNat? tn
      some { minmass := mm, maxsize := ms, topn := tn }
  | _ => none

/-- the answer for one filter triple; `s12 = stage12 sep scale l` is shared between the triples
(`locatePost N sep scale F l` is by definition `(select F s12).map (withEp N)`) -/
def answerTriple (N : Noise) (s12 : List Feat) (F : Filt) : String :=
  let flt := massSizeFilter F.minmass F.maxsize s12
  let sel := select F s12
  let out := sel.map (withEp N)
  let mmargin := minList (s12.map (fun f => absR (f.mass - F.minmass)))
  let smargin := match F.maxsize with
    | none => none
    | some s => minList (s12.filterMap (fun f => f.size.map (fun z => absR (z - s))))
  let droppedT := flt.filter (fun f => !(sel.any (fun g => g.tag == f.tag)))
  let cuttie := sel.any (fun g => droppedT.any (fun f => f.mass == g.mass))
  let anytie := flt.any (fun f => flt.any (fun g => f.tag != g.tag && f.mass == g.mass))
  s!"nf={flt.length} mmargin={showOptMargin mmargin} smargin={showOptMargin smargin} " ++
    s!"cuttie={b2s cuttie} anytie={b2s anytie} rows={joinWith ";" (out.map showOut)}"

def handlePost (rest : String) : String :=
  match splitKeep rest "|" with
  | [hdr, feats, triples] =>
    let kvs := parseKVs hdr
    let r : Option String := do
      let sep ← (lookupKV kvs "sep") >>= ratList?
      let scale ← (lookupKV kvs "scale") >>= parseRat?
      let black ← (lookupKV kvs "black") >>= parseOptRat?
      let noise ← (lookupKV kvs "noise") >>= parseOptRat?
      let npx ← (lookupKV kvs "npx") >>= parseRat?
      let iso ← (lookupKV kvs "iso")
      let nsz ← (lookupKV kvs "nsz") >>= ratList?
      let cm ← (lookupKV kvs "cm") >>= ratList?
      let l ← parseAll parseFeat? (splitTrim feats ";")
      let Fs ← parseAll parseTriple? (splitTrim triples ";")
      let N : Noise := { black := black, noise := noise, npx := npx, iso := iso == "1",
                         nsz := nsz, cm := cm }
      let s12 := stage12 sep scale l
      let st := pairStats sep l
      some (joinWith " | " (
        (s!"ok=1 sorted={b2s (tagsSortedB l)} n0={l.length} nd={s12.length} " ++
         s!"dpairs={st.1} dties={st.2.1} dmargin={showOptMargin st.2.2}") ::
        Fs.map (answerTriple N s12)))
    match r with
    | some s => s
    | none => "bad-op"
  | _ => "bad-op"

def handlers : List (String × (String → String)) := [("C08POST", handlePost)]

end TrackpyV.Driver.C08
