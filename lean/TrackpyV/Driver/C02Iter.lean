import TrackpyV.Model.Proto
import TrackpyV.Model.AssignIter
import TrackpyV.Driver.C02

/-! Driver ops for the iterative solvers (C02, function mode).  `<srcs>` as for `SOLVE`
(null candidate written explicitly as the last entry of every source).

`RECUR  <srcs>` -> `none` | `cost=<c> assign=<d,d,n> perm=<i,i,..>`
      `SubnetLinker(list)`: stable sort by number of candidates, then `do_recur` (`solve`);
      `assign` is in SORTED order, `perm[k]` = input index of the k-th sorted source.
`NONREC <srcs>` -> `none` | `nofuel` | `cost=<c> assign=<..> iters=<n> perm=<..>`
      `nonrecursive_link(list)`: same sort, then the loop model `nonrecFuel (levelBound ·)`.
`NUMBA  <srcs>` -> `oversize` | `nofuel` | `none iters=<n>` | `cost=<c> assign=<..> iters=<n>`
      `numba_link(list)`: 9-candidate cap, NO sort, the kernel model `numbaLoop`.
-/
namespace TrackpyV.Driver.C02Iter
open TrackpyV.Proto TrackpyV.Assign TrackpyV.Driver.C02

/-- `insLen` on index-tagged sources (driver-only: recovers the permutation of the stable sort;
checked at run time against `sortByLen`) -/
def insLenI (s : Nat × Src) : List (Nat × Src) → List (Nat × Src)
  | [] => [s]
  | t :: ts => if s.2.length ≤ t.2.length then s :: t :: ts else t :: insLenI s ts

def sortPerm (srcs : List Src) : Option (List Nat) :=
  let tagged := ((List.range srcs.length).zip srcs).foldr insLenI []
  if tagged.map (·.2) == sortByLen srcs then some (tagged.map (·.1)) else none

def showDests (a : List (Option Nat)) : String := joinWith "," (a.map showOptNat)

def handleRecur (rest : String) : String :=
  match parseSrcs? rest with
  | none => "bad-op"
  | some srcs =>
    match sortPerm srcs, solve srcs with
    | none, _ => "bad-perm"
    | _, none => "none"
    | some p, some (c, a) => s!"cost={c} assign={showAssign a} perm={showNatList p}"

def handleNonrec (rest : String) : String :=
  match parseSrcs? rest with
  | none => "bad-op"
  | some srcs =>
    let cl := sortByLen srcs
    match sortPerm srcs, nonrecFuel (levelBound cl) cl with
    | none, _ => "bad-perm"
    | _, none => if cl.isEmpty then "none" else "nofuel"
    | _, some (none, _) => "none"
    | some p, some (some (c, a), n) =>
      s!"cost={c} assign={showAssign a} iters={n} perm={showNatList p}"

def handleNumba (rest : String) : String :=
  match parseSrcs? rest with
  | none => "bad-op"
  | some srcs =>
    if !numbaCapOK srcs then "oversize"
    else
      match numbaLoop srcs with
      | none => if srcs.isEmpty then "none" else "nofuel"
      | some (none, _, n) => s!"none iters={n}"
      | some (some c, ds, n) => s!"cost={c} assign={showDests ds} iters={n}"

def handlers : List (String × (String → String)) :=
  [("RECUR", handleRecur), ("NONREC", handleNonrec), ("NUMBA", handleNumba)]

end TrackpyV.Driver.C02Iter
