import TrackpyV.Model.Proto
import TrackpyV.Model.Linker
import TrackpyV.Model.LinkerAlgo

/-! Driver op for the linker monitor (C01, C02 step level, C03, C04, C11).

`LRUN w=16,16 B=9 mem=1 maxn=10 maxsize=30 vel=-|1,0 drop=0 ; t=0 | 1,2 3,4 | 0 1 ; t=1 | 5,5 | R`
  -> `verdict=<ok|bad|expect-oversize|capped> step=<k> contested=<n> relinks=<n> births=<n> capped=<n> reason=<text_with_underscores>`
-/
namespace TrackpyV.Driver.Linker
open TrackpyV.Proto TrackpyV.Linker

def parseKV (s : String) : List (String × String) :=
  (words s).filterMap (fun tok =>
    match tok.splitOn "=" with
    | [k, v] => some (k, v)
    | _ => none)

def parseCfg? (s : String) : Option Cfg := do
  let m := parseKV s
  let w ← natList? (← m.lookup "w")
  let B ← parseNat? (← m.lookup "B")
  let mem ← parseNat? (← m.lookup "mem")
  let maxn ← parseNat? (← m.lookup "maxn")
  let maxsize ← parseNat? (← m.lookup "maxsize")
  let velS ← m.lookup "vel"
  let vel ← if velS = "-" then some none else (intList? velS).map some
  let drop := (m.lookup "drop") == some "1"
  let noOpt := (m.lookup "opt") == some "0"
  let ncap := (m.lookup "ncap") == some "1"
  some { w := w, B := B, memory := mem, maxNeighbors := maxn, maxSize := maxsize, vel := vel,
         drop := drop, noOpt := noOpt, numbaCap := ncap }

def parseLevel? (s : String) : Option Level := do
  match splitKeep s "|" with
  | [ts, cs, ls] =>
    let t ← match (parseKV ts).lookup "t" with
      | some v => parseInt? v
      | none => none
    let dsts ← parseAll (fun p => intList? p) (words cs)
    let labels ← if ls = "R" then some none else (parseAll parseNat? (words ls)).map some
    some { t := t, dsts := dsts, labels := labels }
  | _ => none

def handleRun (rest : String) : String :=
  match splitKeep rest ";" with
  | [] => "bad-op"
  | c :: ls =>
    match parseCfg? c, parseAll parseLevel? ls with
    | some cfg, some levels =>
      let r := runCheck cfg levels
      let why := r.reason.replace " " "_"
      let ties := if r.verdict == "ok" then toString (runTies cfg levels) else "?"
      s!"verdict={r.verdict} step={r.step} contested={r.contested} relinks={r.relinks} births={r.births} capped={r.cappedSteps} ties={ties} reason={why}"
    | _, _ => "bad-op"

/-- `LSELF <cfg> ; <levels (labels ignored)>`: label every level with the deterministic algorithm
`algoLabels` and judge it with `stepCheck`; returns `selfok=<#accepted steps> of=<#steps> first=<reason>` -/
def handleSelf (rest : String) : String :=
  match splitKeep rest ";" with
  | [] => "bad-op"
  | c :: ls =>
    match parseCfg? c, parseAll parseLevel? ls with
    | some cfg, some (l0 :: levels) =>
      let lab0 := List.range l0.dsts.length
      let st0 := nextState initCfg { srcs := [], used := [] } l0.t l0.dsts lab0
      let (_, ok, n, why) := levels.foldl (fun (acc : State × Nat × Nat × String) l =>
        let (st, ok, n, why) := acc
        match algoLabels cfg st l.t l.dsts with
        | none => (st, ok, n + 1, if why == "" then "algo-none" else why)
        | some labels =>
          match stepCheck cfg st l.t l.dsts (some labels) with
          | .ok st' _ _ _ _ => (st', ok + 1, n + 1, why)
          | .bad w => (nextState cfg st l.t l.dsts labels, ok, n + 1, if why == "" then w.replace " " "_" else why)
          | .capped => (nextState cfg st l.t l.dsts labels, ok, n + 1, if why == "" then "capped" else why)
          | .expectOversize => (nextState cfg st l.t l.dsts labels, ok, n + 1, if why == "" then "oversize" else why))
        (st0, 0, 0, "")
      s!"selfok={ok} of={n} first={why}"
    | _, _ => "bad-op"

/-- `LALGO <cfg> ; <levels (labels ignored)>`: the labels of the deterministic algorithm for the
whole movie (`algoMovie`, Model/LinkerAlgo.lean), `ok 0,1|0,2,3|...` (`none` if a step is oversize) -/
def handleAlgo (rest : String) : String :=
  match splitKeep rest ";" with
  | [] => "bad-op"
  | c :: ls =>
    match parseCfg? c, parseAll parseLevel? ls with
    | some cfg, some (l0 :: levels) =>
      let r := algoMovie cfg ((l0 :: levels).map (fun l => (l.t, l.dsts)))
      if r.2 then "none" else "ok " ++ joinWith "|" (r.1.map showNatList)
    | _, _ => "bad-op"

def handlers : List (String × (String → String)) :=
  [("LRUN", handleRun), ("LSELF", handleSelf), ("LALGO", handleAlgo)]

end TrackpyV.Driver.Linker
