import TrackpyV.Model.Proto
import TrackpyV.Model.Linker

/-! Driver op for the linker monitor (C01, C02 step level, C03, C04, C11).

`LRUN w=16,16 B=9 mem=1 maxn=10 maxsize=30 vel=-|1,0 drop=0 ; t=0 | 1,2 3,4 | 0 1 ; t=1 | 5,5 | R`
  -> `verdict=<ok|bad|expect-oversize|capped> step=<k> contested=<n> relinks=<n> births=<n> capped=<n> reason=<text_with_underscores>`
-/
namespace TrackpyV.Driver.Linker
open TrackpyV.Proto TrackpyV.Linker

def parseKV (s : String) : List (String × String) :=
  (words s).filterMap (fun tok =>
    match tok.splitOn "=" with
    | [k, v] => some (k, v)
    | _ => none)

def parseCfg? (s : String) : Option Cfg := do
  let m := parseKV s
  let w ← natList? (← m.lookup "w")
  let B ← parseNat? (← m.lookup "B")
  let mem ← parseNat? (← m.lookup "mem")
  let maxn ← parseNat? (← m.lookup "maxn")
  let maxsize ← parseNat? (← m.lookup "maxsize")
  let velS ← m.lookup "vel"
  let vel ← if velS = "-" then some none else (intList? velS).map some
  let drop := (m.lookup "drop") == some "1"
  let noOpt := (m.lookup "opt") == some "0"
  some { w := w, B := B, memory := mem, maxNeighbors := maxn, maxSize := maxsize, vel := vel,
         drop := drop, noOpt := noOpt }

def parseLevel? (s : String) : Option Level := do
  match splitKeep s "|" with
  | [ts, cs, ls] =>
    let t ← match (parseKV ts).lookup "t" with
      | some v => parseInt? v
      | none => none
    let dsts ← parseAll (fun p => intList? p) (words cs)
    let labels ← if ls = "R" then some none else (parseAll parseNat? (words ls)).map some
    some { t := t, dsts := dsts, labels := labels }
  | _ => none

def handleRun (rest : String) : String :=
  match splitKeep rest ";" with
  | [] => "bad-op"
  | c :: ls =>
    match parseCfg? c, parseAll parseLevel? ls with
    | some cfg, some levels =>
      let r := runCheck cfg levels
      let why := r.reason.replace " " "_"
      let ties := if r.verdict == "ok" then toString (runTies cfg levels) else "?"
      s!"verdict={r.verdict} step={r.step} contested={r.contested} relinks={r.relinks} births={r.births} capped={r.cappedSteps} ties={ties} reason={why}"
    | _, _ => "bad-op"

def handlers : List (String × (String → String)) := [("LRUN", handleRun)]

end TrackpyV.Driver.Linker
