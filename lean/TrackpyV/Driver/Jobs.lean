import TrackpyV.Model.Proto
import TrackpyV.Model.Jobs

/-! `JOBS perjob|shared i:<job>:<n> s:<job>:<births> ...`  ->  ids handed out per operation,
`0,1,2 | 0 | 3` -/
namespace TrackpyV.Driver.Jobs
open TrackpyV.Proto TrackpyV.Jobs

def parseOp? (s : String) : Option Op :=
  match s.splitOn ":" with
  | ["i", j, n] => do some (Op.init (← parseNat? j) (← parseNat? n))
  | ["s", j, b] => do some (Op.step (← parseNat? j) (← parseNat? b))
  | _ => none

def handle (rest : String) : String :=
  match words rest with
  | variant :: ops =>
    match parseAll parseOp? ops with
    | some os =>
      let tr := if variant = "shared" then traceShared os else tracePerJob os
      joinWith " | " (tr.map showNatList)
    | none => "bad-op"
  | _ => "bad-op"

def handlers : List (String × (String → String)) := [("JOBS", handle)]
end TrackpyV.Driver.Jobs
