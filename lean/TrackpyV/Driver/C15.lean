import TrackpyV.Model.Proto
import TrackpyV.Model.Pack
import TrackpyV.Model.LsqJac

/-! Driver ops for C15 (packing + gradient mirror).  All fields are whitespace separated integers;
lists are length-prefixed; float64 values travel as their IEEE bit pattern (exact both ways).

`<G>` = `0` (groups=None) | `1 <#lists> { <#groups> { <len> <members…> } }`

`PACK <op> <n> <k> <modes…k> <G> <cols: k*n ints, column major>`      op 0 first 1 sum 2 min 3 max
   -> `none` | `wf=<0|1> len=<packedLen> v=<a,b,…>`
`UNPACK <n> <k> <modes…k> <G> <cols: k*n> <vlen> <vect…>`
   -> `none` | `wf=<0|1> len=<packedLen> cols=<a,b;c,d;…>`   (column major)
`LSQ <geo 0-3> <fn 0|1> <n> <nvars> <modes…> <G> <params_const: n*nvars bits, row major> <vlen>
     <vect bits…> <norm bits> <#clusters> { <ncf> <indices…> <npix> <image bits…npix>
     <mesh bits: npix*ndim, pixel major> <masks: ncf*npix 0|1> }`
   -> `err=<reason>` | `res=<bits> jac=<bits,…> nan=<#NaN-dropped pixels> cut=<#masked (feature,pixel)
      below safe_exp's cut> act=<#active (feature,pixel)> p=<unpacked params bits, row major>`
-/
namespace TrackpyV.Driver.C15
open TrackpyV.Proto TrackpyV.Pack TrackpyV.Lsq

abbrev P := StateT (List Int) Option

def pInt : P Int := do
  match (← get) with
  | [] => failure
  | x :: xs => set xs; pure x

def pNat : P Nat := do
  let x ← pInt
  if x < 0 then failure else pure x.toNat

def pMany {β} (n : Nat) (p : P β) : P (List β) := (List.range n).mapM (fun _ => p)

def pGroups : P (Option Groups) := do
  let flag ← pNat
  if flag = 0 then pure none else
    let nl ← pNat
    let G ← pMany nl (do
      let ng ← pNat
      pMany ng (do let l ← pNat; pMany l pNat))
    pure (some G)

def pFloat : P Float := do
  let b ← pNat
  pure (Float.ofBits (UInt64.ofNat b))

def showFloat (x : Float) : String := toString x.toBits.toNat

def showFloats (l : List Float) : String := joinWith "," (l.map showFloat)

def tokens (s : String) : Option (List Int) := parseAll parseInt? (words s)

def intOp (code : Nat) : List Int → Int
  | l => match code with
    | 0 => first l
    | 1 => sumOp 0 l
    | 2 => match l with | [] => 0 | a :: t => t.foldl min a
    | _ => match l with | [] => 0 | a :: t => t.foldl max a

def b01 (b : Bool) : String := if b then "1" else "0"

def handlePack (rest : String) : String :=
  let r : Option String := do
    let toks ← tokens rest
    let (out, _) ← (do
      let op ← pNat; let n ← pNat; let k ← pNat
      let modes ← pMany k pNat
      let G ← pGroups
      let cols ← pMany k (pMany n pInt)
      pure (match pack (intOp op) G modes cols with
        | none => "none"
        | some v => s!"wf={b01 (modesOK n G modes && shapeOK n cols)} len={packedLen n G modes} v={showIntList v}") : P String).run toks
    pure out
  r.getD "bad-op"

def handleUnpack (rest : String) : String :=
  let r : Option String := do
    let toks ← tokens rest
    let (out, _) ← (do
      let n ← pNat; let k ← pNat
      let modes ← pMany k pNat
      let G ← pGroups
      let cols ← pMany k (pMany n pInt)
      let vl ← pNat
      let vect ← pMany vl pInt
      pure (match unpack n G modes vect cols with
        | none => "none"
        | some cs => s!"wf={b01 (modesOK n G modes && shapeOK n cols)} len={packedLen n G modes} cols={joinWith ";" (cs.map showIntList)}") : P String).run toks
    pure out
  r.getD "bad-op"

def geoOf : Nat → Option Geo
  | 0 => some .iso2 | 1 => some .aniso2 | 2 => some .iso3 | 3 => some .aniso3 | _ => none
def fnOf : Nat → Option Fn
  | 0 => some .gauss | 1 => some .ring | _ => none

structure RawCluster where
  indices : List Nat
  image : Array Float
  mesh : Array (List Float)
  masks : Array (Array Bool)

def pCluster (ndim : Nat) : P RawCluster := do
  let ncf ← pNat
  let indices ← pMany ncf pNat
  let npix ← pNat
  let image ← pMany npix pFloat
  let mesh ← pMany npix (pMany ndim pFloat)
  let masks ← pMany ncf (pMany npix (do let b ← pNat; pure (b != 0)))
  pure ⟨indices, image.toArray, mesh.toArray, (masks.map List.toArray).toArray⟩

structure Built where
  cl : Cluster Float
  nNan : Nat
  nCut : Nat
  nAct : Nat

/-- turns the arrays of one cluster into the `Cluster` the generic formulas take: NaN pixels
(`nanPix`) are dropped, `act` = mask and above the `safe_exp` cut (`aboveCut`) -/
def build (g : Geo) (fn : Fn) (nd : Float) (rows : List (List Float)) (rc : RawCluster) : Built :=
  let feats := featsOf g rows rc.indices
  let npix := rc.image.size
  let masked (j q : Nat) : Bool := (rc.masks.getD j #[]).getD q false
  let isNan (q : Nat) : Bool :=
    feats.any (fun f => masked f.id q && nanPix g fn (rc.mesh.getD q []) f.θ)
  let table : Array (Array Bool) := (feats.map (fun f =>
    (List.range npix).map (fun q => masked f.id q &&
      aboveCut g fn nd (rc.mesh.getD q []) f.θ f.fp) |>.toArray)).toArray
  let act (j q : Nat) : Bool := (table.getD j #[]).getD q false
  let valid := (List.range npix).filter (fun q => !isNan q)
  let pixels := valid.map (fun q => ({ id := q, xs := rc.mesh.getD q [], val := rc.image.getD q 0.0 } : Pix Float))
  let nAct := (feats.map (fun f => (valid.filter (fun q => act f.id q)).length)).foldl (· + ·) 0
  let nMasked := (feats.map (fun f => (valid.filter (fun q => masked f.id q)).length)).foldl (· + ·) 0
  { cl := { act := act, L := Float.ofNat npix, feats := feats, pixels := pixels },
    nNan := npix - valid.length, nCut := nMasked - nAct, nAct := nAct }

def lsqP : P String := do
  let g ← (do let c ← pNat; (geoOf c : Option Geo))
  let fn ← (do let c ← pNat; (fnOf c : Option Fn))
  let n ← pNat; let nvars ← pNat
  let modes ← pMany nvars pNat
  let G ← pGroups
  let pconst ← pMany n (pMany nvars pFloat)
  let vl ← pNat
  let vect ← pMany vl pFloat
  let norm ← pFloat
  let ncl ← pNat
  let raws ← pMany ncl (pCluster g.ndim)
  if nvars != 2 + g.nShape + fn.nParams then pure "err=nvars" else
  let pcols := transpose nvars pconst
  match unpack n G modes vect pcols with
  | none => pure "err=unpack"
  | some cols =>
    let rows := transpose n cols
    let nd : Float := ((g.ndim : Nat) : Float)
    -- Float only: the masks at the unpacked parameters; everything else is `Model/LsqJac.lean`
    let built := raws.map (build g fn nd rows)
    let frames := (raws.zip built).map (fun (rc, b) =>
      ({ indices := rc.indices, act := b.cl.act, L := b.cl.L, pixels := b.cl.pixels } : Frame Float))
    match objective g fn nd norm n G modes pcols frames vect,
        jacobian g fn nd norm n G modes pcols frames vect with
    | some res, some jac =>
      let sumN (f : Built → Nat) := (built.map f).foldl (· + ·) 0
      let jacS := showFloats jac
      let pS := showFloats rows.flatten
      pure s!"res={showFloat res} jac={jacS} nan={sumN (·.nNan)} cut={sumN (·.nCut)} act={sumN (·.nAct)} p={pS}"
    | _, _ => pure "err=pack"

def handleLsq (rest : String) : String :=
  let r : Option String := do
    let toks ← tokens rest
    let (out, _) ← lsqP.run toks
    pure out
  r.getD "bad-op"

def handlers : List (String × (String → String)) :=
  [("PACK", handlePack), ("UNPACK", handleUnpack), ("LSQ", handleLsq)]

end TrackpyV.Driver.C15
