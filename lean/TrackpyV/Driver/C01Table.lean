import TrackpyV.Model.Proto
import TrackpyV.Model.LinkTable

/-! Driver ops for the table adapters of C01 (`Model/LinkTable.lean`).

row    = `idx frame c,c,.. tag`        (idx: integer token, frame: rational `p/q`, tag: natural)
rows   = `row ; row ; ...`
level  = `t c,c c,c ...`               (first word the frame number, then the points; maybe none)
ids    = `l l l ; l l ; ; ...`         (one group per level, possibly empty)

`LTABLE rows | sigma (words) | level ; level ; ... | ids`
   the model recomputes the levels from the table (sorted by `sigma`) and writes the given ids back
   -> `status=<ok|raise|empty> sortperm=<0|1> lvmatch=<0|1> lencond=<0|1>
       levels=t:c,c+c,c;t:;...  rows=idx:frame:c,c:tag:label;...`
   sortperm = `SortPerm sigma rows` (hypothesis of the theorems, checked here);
   lvmatch  = the given levels are exactly `coordsFromDf (sortedTable sigma rows)`;
   lencond  = one id per feature of every level (hypothesis of `linkTable_labels_match`).
`LTITER rows # rows # ... | ids`
   -> `status=<ok|raise> levels=t:c,c+c,c;n:;... tables=idx:frame:c,c:tag:label;...#...`
-/
namespace TrackpyV.Driver.C01Table
open TrackpyV.Proto TrackpyV.LinkTable

def parseRow? (s : String) : Option Row :=
  match words s with
  | [i, f, cs, tag] => do
      let i' ← parseInt? i
      let f' ← parseRat? f
      let cs' ← intList? cs
      let t' ← parseNat? tag
      some { index := i', frame := f', coords := cs', payload := t' }
  | _ => none

def parseRows? (s : String) : Option (List Row) := parseAll parseRow? (splitTrim s ";")

def parseLevel? (s : String) : Option (Int × List Pos) :=
  match words s with
  | t :: ps => do
      let t' ← parseInt? t
      let ps' ← parseAll (fun p => intList? p) ps
      some (t', ps')
  | [] => none

def parseIds? (s : String) : Option (List (List Nat)) :=
  if s.trimAscii.toString = "-" then some []
  else parseAll (fun g => parseAll parseNat? (words g)) (splitKeep s ";")

def b2s (b : Bool) : String := if b then "1" else "0"

def showPts (ps : List Pos) : String := joinWith "+" (ps.map showIntList)

def showLevels (ls : List (Int × List Pos)) : String :=
  joinWith ";" (ls.map (fun l => s!"{l.1}:{showPts l.2}"))

def showORow (o : ORow) : String :=
  s!"{o.row.index}:{o.row.frame}:{showIntList o.row.coords}:{o.row.payload}:{o.particle}"

def dash (s : String) : String := if s = "" then "-" else s

def handleTable (rest : String) : String :=
  match splitKeep rest "|" with
  | [rs, sg, ls, is] =>
    match parseRows? rs, parseAll parseNat? (words sg), parseAll parseLevel? (splitTrim ls ";"),
        parseIds? is with
    | some rows, some σ, some given, some ids =>
      let sp := decide (SortPerm σ rows)
      let sorted := sortedTable σ rows
      match coordsFromDf sorted with
      | none => s!"status=empty sortperm={b2s sp}"
      | some levels =>
        let lvmatch := decide (levels = given)
        let lencond := decide (ids.map List.length = levels.map (fun lv => lv.2.length))
        match linkTable (fun _ => ids) σ rows with
        | none =>
          s!"status=raise sortperm={b2s sp} lvmatch={b2s lvmatch} lencond={b2s lencond} " ++
          s!"levels={dash (showLevels levels)}"
        | some out =>
          s!"status=ok sortperm={b2s sp} lvmatch={b2s lvmatch} lencond={b2s lencond} " ++
          s!"levels={dash (showLevels levels)} rows={dash (joinWith ";" (out.map showORow))}"
    | _, _, _, _ => "bad-op"
  | _ => "bad-op"

def showT : Option Rat → String
  | none => "n"
  | some q => showRat q

def showIterLevels (ls : List (Option Rat × List Pos)) : String :=
  joinWith ";" (ls.map (fun l => s!"{showT l.1}:{showPts l.2}"))

def showIRow (o : Row × Nat) : String :=
  s!"{o.1.index}:{showRat o.1.frame}:{showIntList o.1.coords}:{o.1.payload}:{o.2}"

def handleIter (rest : String) : String :=
  match splitKeep rest "|" with
  | [ts, is] =>
    match parseAll parseRows? (splitKeep ts "#"), parseIds? is with
    | some tables, some ids =>
      let levels := coordsFromDfIter tables
      match linkDfIter (fun _ => ids) tables with
      | none => s!"status=raise levels={dash (showIterLevels levels)}"
      | some out =>
        let shown := joinWith "#" (out.map (fun t => joinWith ";" (t.map showIRow)))
        s!"status=ok levels={dash (showIterLevels levels)} tables={dash shown}"
    | _, _ => "bad-op"
  | _ => "bad-op"

def handlers : List (String × (String → String)) :=
  [("LTABLE", handleTable), ("LTITER", handleIter)]

end TrackpyV.Driver.C01Table
