import TrackpyV.Model.Proto
import TrackpyV.Model.Find

/-! Driver ops for local-maximum finding (C06; the Find model is shared with C08/C09/C14).

`GD   <shape> | <sep rats> | <pct rat> | <margin nats or 'd'> | <precise 0/1> | <pixels nats>`
   -> `reject` | `ok black=<0|1> thr=<rat|nan> ks=<k,k> n=<count> pts=<p;p;...>`  (p = `i,j[,k]`,
      in the model's (np.where) order)
`GDF  … same, pixels are rationals (float image): convert_to_int first`
   -> as GD, plus ` img=<converted pixels>`
`CONV <pixel rats>`                      -> `img=<nats>`
`PCT  <pct rat> | <values nats>`         -> `thr=<rat|nan>`
`WC   <sep rats> | <feat>;<feat>;…`     feat = `x,y[,z]:inten:key`
   -> `drop=<i,j,…>` (sorted) ` keep=<n>`
`DK   <shape> | <sep> | <pct> | <margin> | <pixels> | <keys rats, one per candidate>`
   greyDilationK precise=true with the supplied tie-break key per candidate (np.where order)
   -> as GD (keys beyond / missing -> `reject`)
-/
namespace TrackpyV.Driver.C06
open TrackpyV.Proto TrackpyV.Find

def showPos (p : Pos) : String := showNatList p
def showPts (ps : List Pos) : String := joinWith ";" (ps.map showPos)

def parseMargin? (s : String) : Option (Option (List Nat)) :=
  if s = "d" then some none else (natList? s).map some

def showThr : Option Rat → String
  | none => "nan"
  | some r => showRat r

def gdResponse (img : Image) (sep : List Rat) (pct : Rat) (res : Option (List Pos)) : String :=
  match res with
  | none => "reject"
  | some pts =>
    let thr := percentileThr img pct
    let ks := sep.map (boxSize img.shape.length)
    s!"ok black={if thr.isNone then 1 else 0} thr={showThr thr} ks={showNatList ks} n={pts.length} pts={showPts pts}"

def handleGD (float : Bool) (rest : String) : String :=
  match splitKeep rest "|" with
  | [sh, sp, pc, mg, pr, px] =>
    match natList? sh, ratList? sp, parseRat? pc, parseMargin? mg, parseNat? pr with
    | some shape, some sep, some pct, some margin, some prec =>
      if float then
        match ratList? px with
        | some xs =>
          let conv := convertToInt xs
          let img : Image := ⟨shape, conv.toArray⟩
          gdResponse img sep pct (greyDilationFloat shape xs sep pct margin (prec != 0))
            ++ s!" img={showNatList conv}"
        | none => "bad-op"
      else
        match natList? px with
        | some data =>
          let img : Image := ⟨shape, data.toArray⟩
          gdResponse img sep pct (greyDilation img sep pct margin (prec != 0))
        | none => "bad-op"
    | _, _, _, _, _ => "bad-op"
  | _ => "bad-op"

/-- key function from a table (candidate position -> supplied key); positions not in the table
get key 0 (the handler rejects when the table does not match the candidate list) -/
def keyTable (tbl : List (Pos × Rat)) (p : Pos) : Rat := (tbl.lookup p).getD 0

def handleDK (rest : String) : String :=
  match splitKeep rest "|" with
  | [sh, sp, pc, mg, px, ky] =>
    match natList? sh, ratList? sp, parseRat? pc, parseMargin? mg, natList? px, ratList? ky with
    | some shape, some sep, some pct, some margin, some data, some keys =>
      let img : Image := ⟨shape, data.toArray⟩
      match greyDilation img sep pct margin false with
      | none => "reject"
      | some cands =>
        if cands.length != keys.length then "reject"
        else
          gdResponse img sep pct
            (greyDilationK (keyTable (cands.zip keys)) img sep pct margin true)
    | _, _, _, _, _, _ => "bad-op"
  | _ => "bad-op"

def handleConv (rest : String) : String :=
  match ratList? rest with
  | some xs => s!"img={showNatList (convertToInt xs)}"
  | none => "bad-op"

def handlePct (rest : String) : String :=
  match splitKeep rest "|" with
  | [pc, vs] =>
    match parseRat? pc, natList? vs with
    | some pct, some xs => s!"thr={showThr (percentileOf (xs.filter (fun v => v != 0)) pct)}"
    | _, _ => "bad-op"
  | _ => "bad-op"

def parseFeat? (s : String) : Option Feat :=
  match s.splitOn ":" with
  | [p, i, k] => do
      let pos ← intList? p
      let inten ← parseNat? i
      let key ← parseRat? k
      some { pos := pos, inten := inten, key := key }
  | _ => none

def handleWC (rest : String) : String :=
  match splitKeep rest "|" with
  | [sp, fsS] =>
    match ratList? sp, parseAll parseFeat? (splitTrim fsS ";") with
    | some sep, some fs =>
      s!"drop={showNatList (whereClose sep fs)} keep={(dropClose sep fs).length}"
    | _, _ => "bad-op"
  | _ => "bad-op"

def handlers : List (String × (String → String)) :=
  [("GD", handleGD false), ("GDF", handleGD true), ("DK", handleDK), ("CONV", handleConv),
   ("PCT", handlePct), ("WC", handleWC)]

end TrackpyV.Driver.C06
