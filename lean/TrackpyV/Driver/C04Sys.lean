import TrackpyV.Model.Proto
import TrackpyV.Model.JobsLinker
import TrackpyV.Driver.Linker

/-! Driver op for the multi-job system model (C04, Model/JobsLinker.lean).

`JSCHED mode=<perlinker|sharedreset|shared> u0=<n> njobs=<N> ; <cfg of job 0> ; … ; <cfg of job N-1> ; j=<job> t=<t> | <points> | R ; j=… `
  (cfg and level syntax of `LRUN`; the label part of a level is ignored)
  -> `job=0 failed=<0|1> n=<#levels yielded> labels=0,1|0,2,3 uids=0,1|2,3,4 ; job=1 …`   (one group per job, in job order;
     `labels`: the levels the job yielded, `uids`: the uuids of the points of every level it created)
-/
namespace TrackpyV.Driver.C04Sys
open TrackpyV.Proto TrackpyV.Linker TrackpyV.JobsLinker TrackpyV.Driver.Linker

def parseMode? (s : String) : Option UidMode :=
  if s = "perlinker" then some .perLinker
  else if s = "sharedreset" then some .sharedReset
  else if s = "shared" then some .shared
  else none

def parseOp? (s : String) : Option Op := do
  let lvl ← parseLevel? s
  let j ← match splitKeep s "|" with
    | ts :: _ => (parseKV ts).lookup "j"
    | [] => none
  some (Op.frame (← parseNat? j) lvl.t lvl.dsts)

def showLevels (ls : List (List Nat)) : String := joinWith "|" (ls.map showNatList)

def handle (rest : String) : String :=
  match splitKeep rest ";" with
  | [] => "bad-op"
  | h :: segs =>
    let m := parseKV h
    match (m.lookup "mode").bind parseMode?, (m.lookup "u0").bind parseNat?,
          (m.lookup "njobs").bind parseNat? with
    | some mode, some u0, some n =>
      match parseAll parseCfg? (segs.take n), parseAll parseOp? (segs.drop n) with
      | some cfgs, some ops =>
        if cfgs.length ≠ n || ops.any (fun op => op.job ≥ n) then "bad-op" else
        let s := runSched mode (fun j => (cfgs[j]?).getD initCfg) u0 ops
        joinWith " ; " ((List.range n).map (fun j =>
          let jb := s.jobs j
          s!"job={j} failed={if jb.failed then 1 else 0} n={jb.out.length} labels={showLevels jb.out} uids={showLevels jb.uids}"))
      | _, _ => "bad-op"
    | _, _, _ => "bad-op"

def handlers : List (String × (String → String)) := [("JSCHED", handle)]
end TrackpyV.Driver.C04Sys
