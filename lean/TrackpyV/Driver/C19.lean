import TrackpyV.Model.Proto
import TrackpyV.Model.Static

/-! Driver ops for C19 (static.py).

`CLUSTER <sep> # <frame> ; <frame> ... # <ord> ; <ord> ...`
    sep   = comma-separated rationals (one per axis)
    frame = space-separated points, point = comma-separated rationals
    ord   = `*` (the model's own pair order) | `.` (no pairs) | space-separated `i-j`
            (the order in which the implementation fed `from_pairs`)
  -> `ids=<f1>;<f2> sizes=<f1>;<f2> npairs=<n1>;<n2> orderok=<0|1>`
     `orderok` = every explicit order has exactly the members of the model's `pairs`
     (hypothesis `hE` of `cluster_iff_connected`, checked at run time)
`PROX <frame>`  -> `d2=<r>,<r>,n`   squared distance to the nearest other row (`n` = inf)
-/
namespace TrackpyV.Driver.C19
open TrackpyV.Proto TrackpyV.Static

def parsePoint? (s : String) : Option Point := ratList? s ","

def parseFrame? (s : String) : Option (List Point) := parseAll parsePoint? (words s)

def parsePair? (s : String) : Option (Nat × Nat) :=
  match s.splitOn "-" with
  | [a, b] => do some ((← parseNat? a), (← parseNat? b))
  | _ => none

def parseOrd? (s : String) : Option (Option (List (Nat × Nat))) :=
  if s = "*" then some none
  else if s = "." then some (some [])
  else (parseAll parsePair? (words s)).map some

def showOptNatList (xs : List (Option Nat)) : String :=
  joinWith "," (xs.map showOptNat)

def sameMembers (E P : List (Nat × Nat)) : Bool :=
  E.all (fun p => P.contains p) && P.all (fun p => E.contains p)

def handleCluster (rest : String) : String :=
  match splitKeep rest "#" with
  | [s, fs, os] =>
    match parsePoint? s, parseAll parseFrame? (splitKeep fs ";"), parseAll parseOrd? (splitKeep os ";") with
    | some sep, some frames, some ords =>
      if frames.length ≠ ords.length then "bad-op" else
      let P := frames.map (fun pts => pairs sep pts)
      let L := (List.zip frames (List.zip P ords)).map (fun (pts, p, o) =>
        (match o with | none => p | some e => e, pts.length))
      let ok := (List.zip P ords).all (fun (p, o) =>
        match o with | none => true | some e => sameMembers e p)
      let out := clusterIterFrom 0 L
      let ids := joinWith ";" (out.map (fun o => showNatList o.ids))
      let sizes := joinWith ";" (out.map (fun o => showOptNatList o.sizes))
      let np := joinWith ";" (P.map (fun p => toString p.length))
      s!"ids={ids} sizes={sizes} npairs={np} orderok={if ok then 1 else 0}"
    | _, _, _ => "bad-op"
  | _ => "bad-op"

def handleProx (rest : String) : String :=
  match parseFrame? rest with
  | some pts =>
    let ds := (List.range pts.length).map (fun i =>
      match proximity pts i with | none => "n" | some d => showRat d)
    s!"d2={joinWith "," ds}"
  | none => "bad-op"

def parseBox? (s : String) : Option Box :=
  parseAll (fun t => match ratList? t "," with
    | some [a, b] => some (a, b)
    | _ => none) (splitTrim s ";")

def parseArcEntry? (s : String) : Option (Sample × Option Rat) :=
  match splitKeep s "|" with
  | [d, h, w] => do
      let d2 ← parseRat? d
      let hs ← ratList? h ","
      let wv ← if w = "n" then some none else (parseRat? w).map some
      some ((d2, hs), wv)
  | _ => none

/-- `PCORR <box lo,hi;lo,hi> # <cutoff> # <dr> # <ndensity|-> # <points> # <arc table d2|h,h,..|w ...>`
  -> `g=<r|n>,... n=<inside> samples=<count> missing=<samples without table entry>` -/
def handlePcorr (rest : String) : String :=
  match splitKeep rest "#" with
  | [b, c, d, n, ps, tb] =>
    match parseBox? b, parseRat? c, parseRat? d, parseFrame? ps, parseAll parseArcEntry? (words tb) with
    | some box, some cutoff, some dr, some pts, some tbl =>
      let nd := if n = "-" then none else parseRat? n
      let g := pairCorr (arcOfTable tbl) box cutoff dr nd pts
      let inside := pts.filter (inBox box)
      let ss := samples box cutoff inside
      let missing := (ss.filter (fun s => (tbl.lookup s).isNone)).length
      let gs := joinWith "," (g.map (fun v => match v with | none => "n" | some r => showRat r))
      s!"g={gs} n={inside.length} samples={ss.length} missing={missing}"
    | _, _, _, _, _ => "bad-op"
  | _ => "bad-op"

def handlers : List (String × (String → String)) :=
  [("CLUSTER", handleCluster), ("PROX", handleProx), ("PCORR", handlePcorr)]

end TrackpyV.Driver.C19
