import TrackpyV.Model.Proto
import TrackpyV.Model.Partial

/-! Driver ops for C13 (link_partial / reconnect_traj_patch).

`PARTIAL <orig|fixed> <start> <stop> | <order csv> | f,old,new;f,old,new;…`
   rows in the row order of the sorted table; `new` = the `particle` column when
   `reconnect_traj_patch` is entered (in-range: inner link labels; outside: old label)
   -> `raise=<why>` | `mode=<reconnect|full|norange> labels=<csv> validold=<0|1> validnew=<0|1>
       contignew=<0|1> ordok=<0|1> start=<clamped> stop=<clamped> nrem=<k> npend=<k>`
`RECONNECT <orig|fixed> <start> <stop> | <order csv> | rows`   (no clamping; start < stop required)
   -> same fields
-/
namespace TrackpyV.Driver.C13
open TrackpyV.Proto TrackpyV.Partial

def parseRow? (s : String) : Option Row :=
  match intList? s with
  | some [f, o, n] => some ⟨f, o, n⟩
  | _ => none

def parseRule? (s : String) : Option Rule :=
  if s = "orig" then some Rule.orig else if s = "fixed" then some Rule.fixed else none

structure Req where
  rule : Rule
  start : Int
  stop : Int
  order : List Int
  rows : List Row

def parseReq? (rest : String) : Option Req :=
  match splitKeep rest "|" with
  | [hd, ord, rs] =>
    match words hd with
    | [r, a, b] => do
      let rule ← parseRule? r
      let start ← parseInt? a
      let stop ← parseInt? b
      let order ← intList? ord
      let rows ← parseAll parseRow? (splitTrim rs ";")
      some ⟨rule, start, stop, order, rows⟩
    | _ => none
  | _ => none

def b01 (b : Bool) : String := if b then "1" else "0"

/-- the facts the theorems take as hypotheses, evaluated on this case -/
def report (rule : Rule) (start stop : Int) (order : List Int) (rows : List Row) : String :=
  let mp1 := loop1 start rows []
  let st := loop2 (blocked rule start stop rows mp1) stop rows ⟨mp1, [], []⟩
  let rem := remCanon start stop rows st.mp
  -- the hint, restricted to `remaining`, is a duplicate-free enumeration of `remaining`
  let ord := order.filter (fun t => rem.contains t)
  let ordok := decide (ord.Nodup) && rem.all (fun t => ord.contains t)
  s!"validold={b01 (validOldB rows)} validnew={b01 (decide (ValidNew start stop rows))} " ++
  s!"contignew={b01 (decide (ContigNew start stop rows))} ordok={b01 ordok} start={start} stop={stop} " ++
  s!"nrem={rem.length} npend={st.pend.length}"

def handlePartial (rest : String) : String :=
  match parseReq? rest with
  | none => "bad-op"
  | some q =>
    match linkPartial q.rule q.start q.stop q.order q.rows, minFrame q.rows, maxFrame q.rows with
    | .raises why, _, _ => s!"raise={why}"
    | .labels mode ls, some lo, some mx =>
      let start' := if q.start < lo then lo else q.start
      let stop' := if mx + 1 < q.stop then mx + 1 else q.stop
      s!"mode={mode} labels={showIntList ls} " ++ report q.rule start' stop' q.order q.rows
    | .labels mode ls, _, _ => s!"mode={mode} labels={showIntList ls}"

def handleReconnect (rest : String) : String :=
  match parseReq? rest with
  | none => "bad-op"
  | some q =>
    if ¬ q.start < q.stop then "raise=assert" else
    s!"mode=reconnect labels={showIntList (reconnect q.rule q.start q.stop q.order q.rows)} " ++
      report q.rule q.start q.stop q.order q.rows

def handlers : List (String × (String → String)) :=
  [("PARTIAL", handlePartial), ("RECONNECT", handleReconnect)]

end TrackpyV.Driver.C13
