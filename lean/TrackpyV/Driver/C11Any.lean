import TrackpyV.Model.Proto
import TrackpyV.Model.LinkerAny

/-! Driver op for the predictor-independent linker monitor (C11, stateful predictors).

`LANY w=16,16 B=9 mem=1 ; t=0 | 1,2 3,4 | 0 1 | ; t=1 | 5,5 | 0 | 0:0:1,2:3,4 1:0:3,4:5,6`

A level is `t=<frame> | <features> | <labels> | <recorded predictions>`; a recorded prediction is
`<track>:<t_obs>:<position the predictor was given>:<position it returned>` (all integers: the
harness multiplies every coordinate of the movie by one common denominator and `B` by its square).
`pred` of `stepCheckAny` is instantiated by the table: `pred s t` = the position recorded for track
`s.track` in the level with frame number `t`.

  -> `verdict=<ok|bad> step=<k> relinks=<n> births=<n> srcmatch=<1|0> srcstep=<k> reason=<text>`

`srcmatch=1`: at every step with at least one feature, the points the real predictor was asked
about are exactly the monitor's candidate sources (same tracks, same observation times, same
positions; previous level and remembered points alike).  `srcstep` = first step where not.
-/
namespace TrackpyV.Driver.C11Any
open TrackpyV.Proto TrackpyV.Linker

structure Rec where
  track : Nat
  tobs : Int
  pos : Pos
  pred : Pos

def parseKV (s : String) : List (String × String) :=
  (words s).filterMap (fun tok =>
    match tok.splitOn "=" with
    | [k, v] => some (k, v)
    | _ => none)

def parseCfg? (s : String) : Option Cfg := do
  let m := parseKV s
  let w ← natList? (← m.lookup "w")
  let B ← parseNat? (← m.lookup "B")
  let mem ← parseNat? (← m.lookup "mem")
  some { w := w, B := B, memory := mem, maxNeighbors := 0, maxSize := 0, vel := none,
         drop := false, noOpt := true }

def parseRec? (s : String) : Option Rec :=
  match s.splitOn ":" with
  | [a, b, c, d] => do
    let track ← parseNat? a
    let tobs ← parseInt? b
    let pos ← intList? c
    let pred ← intList? d
    some { track := track, tobs := tobs, pos := pos, pred := pred }
  | _ => none

def parseLevel? (s : String) : Option (Level × List Rec) := do
  match splitKeep s "|" with
  | [ts, cs, ls, ps] =>
    let t ← match (parseKV ts).lookup "t" with
      | some v => parseInt? v
      | none => none
    let dsts ← parseAll (fun p => intList? p) (words cs)
    let labels ← parseAll parseNat? (words ls)
    let recs ← parseAll parseRec? (words ps)
    some ({ t := t, dsts := dsts, labels := some labels }, recs)
  | _ => none

/-- `pred` from the table of recorded predictions (a source without a recorded prediction keeps its
position; `srcmatch` reports whether that ever happens) -/
def tablePred (tbl : List (Int × List Rec)) : Pred := fun s t =>
  match tbl.lookup t with
  | some row =>
    match row.find? (fun r => r.track == s.track) with
    | some r => r.pred
    | none => s.pos
  | none => s.pos

/-- the recorded points are exactly the candidate sources -/
def srcsMatch (st : State) (recs : List Rec) : Bool :=
  recs.length == st.srcs.length &&
  st.srcs.all (fun s =>
    match recs.find? (fun r => r.track == s.track) with
    | some r => r.tobs == s.t && r.pos == s.pos
    | none => false)

def firstMismatch : Nat → List State → List (Level × List Rec) → Option Nat
  | k, st :: sts, (l, recs) :: rest =>
    if l.dsts.isEmpty || st.srcs.isEmpty then
      -- nothing to link: the tree of the sources is never queried, the predictor usually not called
      (if recs.isEmpty || srcsMatch st recs then firstMismatch (k + 1) sts rest else some k)
    else if srcsMatch st recs then firstMismatch (k + 1) sts rest else some k
  | _, _, _ => none

def handleAny (rest : String) : String :=
  match splitKeep rest ";" with
  | [] => "bad-op"
  | c :: ls =>
    match parseCfg? c, parseAll parseLevel? ls with
    | some cfg, some lrs =>
      let levels := lrs.map (·.1)
      let tbl := lrs.map (fun (l, recs) => (l.t, recs))
      let r := runCheckAny cfg (tablePred tbl) levels
      let why := r.reason.replace " " "_"
      let mm := firstMismatch 1 (statesAlong cfg levels) (lrs.drop 1)
      let (sm, ss) := match mm with
        | none => ("1", "-")
        | some k => ("0", toString k)
      s!"verdict={r.verdict} step={r.step} relinks={r.relinks} births={r.births} srcmatch={sm} srcstep={ss} reason={why}"
    | _, _ => "bad-op"

def handlers : List (String × (String → String)) := [("LANY", handleAny)]

end TrackpyV.Driver.C11Any
