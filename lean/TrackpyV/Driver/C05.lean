import TrackpyV.Model.Proto
import TrackpyV.Model.LocateFull
import TrackpyV.Driver.C09

/-! Driver ops for C05 (locate finds every resolved blob exactly once, sub-pixel accurate).
Fields separated by `|`, lists by `,`.

`C05LOC <shape> | <pre 0/1> | <lshort> | <kernels ;> | <llong> | <thr or d> | <sep> | <pct> |
        <margin> | <radius> | <shiftThr> | <maxIter> | <scale> | <minmass> | <pixels>`
    `LocateFull.locateFull` (= `Locate.locateModel`, then `LocatePost.stage12`, then
    `LocatePost.massSizeFilter`) together with the decidable hypotheses of the C05 theorems
    -> `reject` | `bad-op` |
       `n=<rows kept> m=<maxima> thr=<rat|nan> adm=<0|1> sepok=<0|1> far=<0|1> dm=<rat|none>
        ties=<k> work=<pixels> # <feature> # …`, one feature per maximum (in `np.where` order):
       `start=p,p centre=c,c pos=q,q mass=q raw=q signal=n sym=<0|1> exact=<0|1> mg=<rat|none>
        kept=<0|1>`
    adm    every returned maximum passes `admissibleB` and no other pixel of the image does
           (hypotheses `hin`/`hout` of `one_feature_per_peak` with `P` = the returned list)
    sepok  `peaksSeparatedB` on the maxima (hypothesis of `one_feature_per_peak_precise`)
    far    every two rows of the refine table are ≥ separation apart (hypothesis `hfar` of
           `locateFull_symmetric_peaks_exact`)
    dm     `LocatePost.dedupeMargin` (smallest `|d² − 1|` over the row pairs), ties = number of close
           pairs of equal mass (`dedupeMassTies`)
    sym    `symmetricB` of the work image at the start pixel; exact = position equals the start
           pixel on every axis with mask centre = start (conclusion of
           `symmetric_blob_centroid_exact`)
    mg     smallest `| |off_i| − shift_thresh |` over every evaluated mask centre and axis
           (borderline detector for the float comparison of the code)
    kept   the row survives de-duplication and the mass cut (`mass/scale > minmass`)
-/
namespace TrackpyV.Driver.C05
open TrackpyV.Proto TrackpyV.Find TrackpyV.Locate TrackpyV.LocateFull
open TrackpyV.Driver.C09 (b2s showPos showThr parseKernels?)

def absQ (q : Rat) : Rat := if q < 0 then -q else q

def minOptQ (a : Option Rat) (b : Rat) : Option Rat :=
  match a with
  | none => some b
  | some x => some (if b < x then b else x)

/-- smallest `| |off_i| − thr |` over the trace of the refinement from `start` -/
def branchMargin (thr : Rat) (img : Refine.Image) (radius shape : List Nat) (maxIter : Nat)
    (start : List Int) : Option Rat :=
  let mask := Refine.maskOffsets radius
  (Refine.trace thr img mask radius shape (Refine.fuelOf maxIter) start).foldl (fun acc c =>
    (Refine.offCentre img mask radius c).foldl (fun acc o => minOptQ acc (absQ (absQ o - thr))) acc) none

def showOptRat : Option Rat → String
  | none => "none"
  | some r => showRat r

def handleLoc (rest : String) : String :=
  match splitKeep rest "|" with
  | [sh, pre, ls, ks, ll, th, sp, pc, mg, rd, st, mi, sc, mm, px] =>
    match natList? sh, parseNat? pre, ratList? ls, parseKernels? ks, intList? ll, ratList? sp,
          parseRat? pc, natList? mg, natList? rd, parseRat? st, parseNat? mi, parseRat? sc,
          parseRat? mm, natList? px with
    | some shape, some pre, some lshort, some kernels, some llong, some sep, some pct,
      some margin, some radius, some shiftThr, some maxIter, some scale, some minmass, some data =>
      let thr? : Option (Option Rat) := if th = "d" then some none else (parseRat? th).map some
      match thr? with
      | none => "bad-op"
      | some thr =>
        if shape.prod != data.length then "bad-op" else
        let P : Params := { preprocess := pre != 0, lshort := lshort, kernels := kernels,
                            llong := llong, thr := thr, sep := sep, pct := pct, margin := margin,
                            radius := radius, shiftThr := shiftThr, maxIter := maxIter }
        let raw := data.toArray
        match workImage P shape raw with
        | none => "reject"
        | some work =>
          let wimg : Find.Image := ⟨shape, work⟩
          match greyDilation wimg sep pct (some margin) false, locateModel P shape raw,
                locateFull P scale minmass shape raw with
          | some coords, some feats, some out =>
            let pthr := percentileThr wimg pct
            let adm := match pthr with
              | none => coords.isEmpty
              | some t => (allIdx shape).all (fun p => admissibleB wimg sep t margin p == coords.contains p)
            let rws := rows feats
            let far := rws.all (fun x => rws.all (fun y =>
              !(decide (x.tag < y.tag)) || decide (1 ≤ LocatePost.dist2 sep x.pos y.pos)))
            let wI := Refine.ofArray shape work
            let recs := (indexFrom 0 (coords.zip feats)).map (fun x =>
              let i := x.1
              let p := x.2.1
              let f := x.2.2
              let start := p.map Int.ofNat
              let exact := f.centre == start &&
                (List.range radius.length).all (fun a => f.pos.getD a 0 == ((start.getD a 0 : Int) : Rat))
              let kept := out.any (fun o => o.tag == i)
              s!"start={showPos p} centre={showIntList f.centre} pos={showRatList f.pos} " ++
              s!"mass={showRat f.mass} raw={showRat f.rawMass} signal={f.signal} " ++
              s!"sym={b2s (symmetricB wI radius start)} exact={b2s exact} " ++
              s!"mg={showOptRat (branchMargin shiftThr wI radius shape maxIter start)} kept={b2s kept}")
            joinWith " # "
              ((s!"n={out.length} m={coords.length} thr={showThr pthr} adm={b2s adm} " ++
                s!"sepok={b2s (peaksSeparatedB sep coords)} far={b2s far} " ++
                s!"dm={showOptRat (LocatePost.dedupeMargin sep rws)} " ++
                s!"ties={LocatePost.dedupeMassTies sep rws} work={showNatList work.toList}") :: recs)
          | _, _, _ => "reject"
    | _, _, _, _, _, _, _, _, _, _, _, _, _, _ => "bad-op"
  | _ => "bad-op"

def handlers : List (String × (String → String)) :=
  [("C05LOC", handleLoc)]

end TrackpyV.Driver.C05
