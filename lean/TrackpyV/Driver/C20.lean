import TrackpyV.Model.Proto
import TrackpyV.Model.Filter
import TrackpyV.Model.Pipeline

/-! Driver ops for C20.

`FSTUBS <thr> | f,p,size ; f,p,size ; ...`   rows in storage order (rid = position)
   -> `keep=<rid,rid,…> obs=<p:n;p:n;…>`
`FCLUST <cut> | rows`                        (cut and sizes rational `p/q`)
   -> `keep=<rid,…> means=<p:mean;…>`
`TCLOSED <init layouts> # <excl prod:stage ...> # <stage:layout:R | stage:layout:A<0|1>:out,out ...>`
   stages / layouts / producers by their position in `Stage.all` / `Layout.all` / `Producer.all`
   -> `closed=<0|1> reach=<prod:layout;…>`
-/
namespace TrackpyV.Driver.C20
open TrackpyV.Proto TrackpyV.Filter TrackpyV.Pipeline

def parseRow? (rid : Nat) (s : String) : Option Row :=
  match splitKeep s "," with
  | [f, p, z] => do
      let f' ← parseInt? f
      let p' ← parseInt? p
      let z' ← parseRat? z
      some ⟨f', p', z', rid⟩
  | _ => none

def parseRows? (s : String) : Option (List Row) :=
  let parts := splitTrim s ";"
  (parts.zipIdx).mapM (fun (x, i) => parseRow? i x)

def showRids (rs : List Row) : String := showNatList (rs.map (·.rid))

def handleStubs (rest : String) : String :=
  match splitKeep rest "|" with
  | [a, b] =>
    match parseInt? a, parseRows? b with
    | some thr, some rows =>
      let ks := keys rows
      let o := joinWith ";" (ks.map fun p => s!"{p}:{obs p rows}")
      s!"keep={showRids (filterStubs thr rows)} obs={o}"
    | _, _ => "bad-op"
  | _ => "bad-op"

def handleClust (rest : String) : String :=
  match splitKeep rest "|" with
  | [a, b] =>
    match parseRat? a, parseRows? b with
    | some cut, some rows =>
      let ks := keys rows
      let o := joinWith ";" (ks.map fun p => s!"{p}:{showRat (trajMean p rows)}")
      s!"keep={showRids (filterClusters cut rows)} means={o}"
    | _, _ => "bad-op"
  | _ => "bad-op"

def nthLayout? (i : Nat) : Option Layout := Layout.all[i]?
def nthStage? (i : Nat) : Option Stage := Stage.all[i]?
def nthProd? (i : Nat) : Option Producer := Producer.all[i]?

def parseLine? (s : String) : Option (Stage × Layout × Outcome) :=
  match splitKeep s ":" with
  | [st, l, "R"] => do
      let st' ← (parseNat? st) >>= nthStage?
      let l' ← (parseNat? l) >>= nthLayout?
      some (st', l', .rejects)
  | [st, l, a, os] => do
      let st' ← (parseNat? st) >>= nthStage?
      let l' ← (parseNat? l) >>= nthLayout?
      let os' ← (natList? os) >>= (fun xs => xs.mapM nthLayout?)
      if a = "A1" then some (st', l', .accepts os' true)
      else if a = "A0" then some (st', l', .accepts os' false)
      else none
  | _ => none

def parseExcl? (s : String) : Option (Producer × Stage) :=
  match splitKeep s ":" with
  | [p, st] => do
      let p' ← (parseNat? p) >>= nthProd?
      let st' ← (parseNat? st) >>= nthStage?
      some (p', st')
  | _ => none

def idxOf {α} [BEq α] (xs : List α) (x : α) : Nat := xs.idxOf x

def handleClosed (rest : String) : String :=
  match splitKeep rest "#" with
  | [a, b, c] =>
    match (natList? a " ") >>= (fun xs => xs.mapM nthLayout?),
          parseAll parseExcl? (words b), parseAll parseLine? (words c) with
    | some init, some excl, some rows =>
      let T := tableOf rows
      let R := reach T excl init Layout.all.length
      let r := joinWith ";" (R.map fun n => s!"{idxOf Producer.all n.1}:{idxOf Layout.all n.2}")
      s!"closed={if tableClosedExcept T init excl then 1 else 0} reach={r}"
    | _, _, _ => "bad-op"
  | _ => "bad-op"

def handlers : List (String × (String → String)) :=
  [("FSTUBS", handleStubs), ("FCLUST", handleClust), ("TCLOSED", handleClosed)]

end TrackpyV.Driver.C20
