import TrackpyV.Model.Proto
import TrackpyV.Model.MSD

/-! Driver ops for C17 (MSD statistics).

`MSD d mpp fps maxlag | f x.. ; f x.. ; ...`      one trajectory, rows in the order given
   -> `path=fft|gaps nodup=<0|1> rows=<lag:lagt:disp,..:sq,..:msd:N;...>`      (`nan` = NaN, `-` = empty)
`ENS d mpp fps maxlag | p f x.. ; p f x.. ; ...`  several particles
   -> `ids=<p,..> nlag=<k> imsd=<cell,..;..> emsd=<disp,..:sq,..:msd:N;...>`  (imsd: one `;` group per lag,
      one cell per particle; emsd: one group per lag)
-/
namespace TrackpyV.Driver.C17
open TrackpyV.Proto TrackpyV.MSD

def showOpt : Option Rat → String
  | none => "nan"
  | some r => showRat r

def showOpts (l : List (Option Rat)) : String :=
  if l.isEmpty then "-" else joinWith "," (l.map showOpt)

def showOut (o : Out) : String :=
  s!"{o.lag}:{showRat o.lagt}:{showOpts o.disp}:{showOpts o.sqd}:{showOpt o.msd}:{showRat o.n}"

def showGroups (l : List String) : String := if l.isEmpty then "-" else joinWith ";" l

def parseRow? (s : String) : Option FullRow :=
  match words s with
  | f :: xs => do
      let f' ← parseInt? f
      let xs' ← parseAll parseRat? xs
      some (f', xs')
  | [] => none

def parsePRow? (s : String) : Option PRow :=
  match words s with
  | p :: f :: xs => do
      let p' ← parseNat? p
      let f' ← parseInt? f
      let xs' ← parseAll parseRat? xs
      some (p', f', xs')
  | _ => none

structure Hdr where
  d : Nat
  mpp : Rat
  fps : Rat
  maxLag : Nat

def parseHdr? (s : String) : Option Hdr :=
  match words s with
  | [d, mpp, fps, ml] => do
      some { d := ← parseNat? d, mpp := ← parseRat? mpp, fps := ← parseRat? fps,
             maxLag := ← parseNat? ml }
  | _ => none

def nodupFrames (rows : List FullRow) : Bool :=
  let fs := rows.map (·.1)
  fs.eraseDups.length == fs.length

def handleMsd (rest : String) : String :=
  match rest.splitOn "|" with
  | [h, body] =>
    match parseHdr? h, parseAll parseRow? (splitTrim body ";") with
    | some hd, some rows =>
      let outs := msd rows hd.d hd.mpp hd.fps hd.maxLag
      let path := if isContiguous rows then "fft" else "gaps"
      s!"path={path} nodup={if nodupFrames rows then 1 else 0} rows={showGroups (outs.map showOut)}"
    | _, _ => "bad-op"
  | _ => "bad-op"

def handleEns (rest : String) : String :=
  match rest.splitOn "|" with
  | [h, body] =>
    match parseHdr? h, parseAll parsePRow? (splitTrim body ";") with
    | some hd, some t =>
      let per := perParticle t hd.d hd.mpp hd.fps hd.maxLag
      let ids := per.map (·.1)
      let k := lagCount per
      let lags := (List.range k).map (· + 1)
      let im := lags.map fun lag => showOpts (ids.map fun p => imsdCell per Out.msd p lag)
      let em := lags.map fun lag =>
        let disp := (List.range hd.d).map fun c => emsdAt per (fun o => (o.disp.getD c none)) lag
        let sqd := (List.range hd.d).map fun c => emsdAt per (fun o => (o.sqd.getD c none)) lag
        s!"{showOpts disp}:{showOpts sqd}:{showOpt (emsdAt per Out.msd lag)}:{showRat (emsdN per lag)}"
      s!"ids={showNatList ids} nlag={k} imsd={showGroups im} emsd={showGroups em}"
    | _, _ => "bad-op"
  | _ => "bad-op"

def handlers : List (String × (String → String)) :=
  [("MSD", handleMsd), ("ENS", handleEns)]

end TrackpyV.Driver.C17
