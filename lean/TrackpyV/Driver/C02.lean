import TrackpyV.Model.Proto
import TrackpyV.Model.Assign

/-! Driver ops for the solver level (C02/C03).

`SOLVE  <src> | <src> | ...`   with `<src>` = `d:c d:c n:c` (destination or `n`, colon, cost)
   -> `none` | `cost=<c> assign=<d,d,n> unique=<0|1> sorted=<0|1>`   (sources in the order given)
`ADM    <srcs> # <chosen>`    chosen = `d:c d:c ...` one per source
   -> `adm=<0|1> cost=<c>`
-/
namespace TrackpyV.Driver.C02
open TrackpyV.Proto TrackpyV.Assign

def parseCand? (s : String) : Option Cand :=
  match s.splitOn ":" with
  | [d, c] => do
      let d' ← parseOptNat? d
      let c' ← parseNat? c
      some (d', c')
  | _ => none

def parseSrc? (s : String) : Option Src := parseAll parseCand? (words s)

def parseSrcs? (s : String) : Option (List Src) := parseAll parseSrc? (splitKeep s "|")

def showAssign (a : List Cand) : String := joinWith "," (a.map (fun c => showOptNat c.1))

def handleSolve (rest : String) : String :=
  match parseSrcs? rest with
  | none => "bad-op"
  | some srcs =>
    let srt := srcs.all sortedB
    match solveOrdered srcs with
    | none => "none"
    | some (c, a) =>
      let small := (srcs.map List.length).foldl (· * ·) 1 ≤ 200000
      let uniq := if small then (if countOptimal srcs == 1 then "1" else "0") else "?"
      s!"cost={c} assign={showAssign a} unique={uniq} sorted={if srt then 1 else 0}"

def handleAdm (rest : String) : String :=
  match rest.splitOn "#" with
  | [a, b] =>
    match parseSrcs? a, parseSrc? b with
    | some srcs, some chosen =>
      s!"adm={if admissibleB srcs chosen [] then 1 else 0} cost={cost chosen}"
    | _, _ => "bad-op"
  | _ => "bad-op"

def handlers : List (String × (String → String)) :=
  [("SOLVE", handleSolve), ("ADM", handleAdm)]

end TrackpyV.Driver.C02
