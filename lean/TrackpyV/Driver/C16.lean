import TrackpyV.Model.Proto
import TrackpyV.Model.LeastsqCtl

/-! Driver ops for C16 (bounds + control flow of refine_leastsq).

Fields are separated by `|`.  `n` = NaN / not given.

`C16BOUNDS params | radius | dict | modes | groups | block`
   params : `name:kind` tokens, kind ∈ b (background) s (signal) p<axis> z (size) o (other)
   radius : rationals `r,r`
   dict   : tokens `key=v` (scalar) or `key=lo:hi`
   modes  : `m,m,..`      groups : `-` (None) or `i,i;i;..`
   block  : columns `v,v;v,v;..` (one per parameter)
   -> `abs=lo:hi,.. diff=.. rel=.. x0=v,.. lo=b,.. hi=b,.. infeasible=0|1`

`C16REFINE params | radius | shape | dict | maxiter maxshift maxdev feas ndim | modes | clusters |
           table | trace`
   table  : columns `v,v;..` with `n` for NaN;   clusters : `i,i;i;..` (iteration order)
   trace  : per outer iteration (`!`-separated) the recorded optimiser outcomes per round
            (`;`-separated): `F` | `R` | `N:dev` | `K:dev:x,x,..`; a missing entry answers `R`
   -> `status=ok level=g|c cost=c,c,.. cols=v,v;.. used=k,k,..`  or  `status=error:<err>`
      (`used` = optimiser calls the model made per outer iteration, `x` if the trace contains `R`)
-/
namespace TrackpyV.Driver.C16
open TrackpyV.Proto TrackpyV.Bounds

def parseB? (s : String) : Option B :=
  if s = "n" then some none else (parseRat? s).map some

def showB : B → String
  | none => "n"
  | some r => showRat r

def parseKind? (s : String) : Option Kind :=
  if s = "b" then some .background
  else if s = "s" then some .signal
  else if s = "z" then some .size
  else if s = "o" then some .other
  else if s.startsWith "p" then (parseNat? (s.drop 1).toString).map Kind.pos
  else none

def parseParam? (s : String) : Option Param :=
  match s.splitOn ":" with
  | [n, k] => (parseKind? k).map (fun k => { name := n, kind := k })
  | _ => none

def parseVal? (s : String) : Option Val :=
  match s.splitOn ":" with
  | [v] => (parseRat? v).map Val.scalar
  | [l, h] => do
      let l' ← parseB? l
      let h' ← parseB? h
      some (.pair l' h')
  | _ => none

def parseEntry? (s : String) : Option (String × Val) :=
  match s.splitOn "=" with
  | [k, v] => (parseVal? v).map (fun v => (k, v))
  | _ => none

def parseDict? (s : String) : Option Dict := parseAll parseEntry? (words s)

def parseGroups? (s : String) : Option (List (List Nat)) :=
  parseAll (fun g => natList? g) (splitTrim s ";")

def parseOptGroups? (s : String) : Option (Option (List (List Nat))) :=
  if s = "-" then some none else (parseGroups? s).map some

def parseCols? (s : String) : Option (List (List Rat)) :=
  parseAll (fun c => ratList? c) (splitTrim s ";")

def parseOCols? (s : String) : Option (List (List (Option Rat))) :=
  parseAll (fun c => parseAll parseB? (splitTrim c ",")) (splitTrim s ";")

def showPair (p : B × B) : String := s!"{showB p.1}:{showB p.2}"

def b2s (b : Bool) : String := if b then "1" else "0"

def handleBounds (rest : String) : String :=
  match splitKeep rest "|" with
  | [ps, rad, dict, modes, groups, block] =>
    match parseAll parseParam? (words ps), ratList? rad, parseDict? dict, natList? modes,
          parseOptGroups? groups, parseCols? block with
    | some ps, some rad, some d, some modes, some groups, some block =>
      if modes.any (fun m => decide (3 < m)) || modes.length ≠ ps.length
          || block.length ≠ ps.length then "reject"
      else
        let specs := validateBounds d rad ps
        if specs.any (fun s => s.rel.1 == some 0) then "reject"   -- division by zero is ±inf in numpy
        else
        let bs := computeBounds specs modes groups block
        s!"abs={joinWith "," (specs.map (fun s => showPair s.abs))} " ++
        s!"diff={joinWith "," (specs.map (fun s => showPair s.diff))} " ++
        s!"rel={joinWith "," (specs.map (fun s => showPair s.rel))} " ++
        s!"x0={showRatList (packCols mean groups modes block)} " ++
        s!"lo={joinWith "," (bs.map (fun b => showB b.1))} " ++
        s!"hi={joinWith "," (bs.map (fun b => showB b.2))} " ++
        s!"infeasible={b2s (infeasible bs)}"
    | _, _, _, _, _, _ => "bad-op"
  | _ => "bad-op"

def parseOut? (s : String) : Option OptOut :=
  match s.splitOn ":" with
  | ["F"] => some .fail
  | ["R"] => some .raise
  | ["N", d] => (parseB? d).map OptOut.nanx
  | ["K", d, xs] => do
      let d' ← parseB? d
      let xs' ← ratList? xs
      some (.ok xs' d')
  | _ => none

def parseTrace? (s : String) : Option (List (List OptOut)) :=
  parseAll (fun t => parseAll parseOut? (splitTrim t ";")) (splitKeep s "!")

/-- the replayed optimiser: the recorded outcome of (outer iteration, round); nothing recorded -> R -/
def replay (tr : List (List OptOut)) (pb : Problem) : OptOut :=
  match (tr.getD pb.tag [])[pb.round]? with
  | some o => o
  | none => .raise

def isRaise : OptOut → Bool
  | .raise => true
  | _ => false

def showCost : Cost → String
  | .unset => "u"
  | .nan => "n"
  | .val r => showRat r

def showErr : Err → String
  | .optimiserRaised => "optimiserRaised"
  | .unboundRmsDev => "unboundRmsDev"

/-- number of optimiser calls of one outer iteration: the least `m` such that the trace cut to `m`
rounds no longer runs into a missing entry -/
def usedRounds (run : List OptOut → Except Err Outcome) (tr : List OptOut) : String :=
  if tr.any isRaise then "x"
  else
    match (List.range (tr.length + 1)).find? (fun m =>
        match run (tr.take m) with
        | .error .optimiserRaised => false
        | _ => true) with
    | some m => toString m
    | none => "x"

def handleRefine (rest : String) : String :=
  match splitKeep rest "|" with
  | [ps, rad, shape, dict, scal, modes, clusters, table, trace] =>
    match parseAll parseParam? (words ps), intList? rad, intList? shape, parseDict? dict,
          words scal, natList? modes, parseGroups? clusters, parseOCols? table,
          parseTrace? trace with
    | some ps, some rad, some shape, some d, [mi, ms, md, fe, nd], some modes, some clusters,
      some cols, some tr =>
      match parseNat? mi, parseRat? ms, parseRat? md, parseNat? fe, parseNat? nd with
      | some mi, some ms, some md, some fe, some nd =>
        if modes.any (fun m => decide (3 < m)) || modes.length ≠ ps.length
            || cols.length ≠ ps.length then "reject"
        else
          let specs := validateBounds d (rad.map (fun (r : Int) => (r : Rat))) ps
          if specs.any (fun s => s.rel.1 == some 0) then "reject" else
          let cfg : Cfg := { specs := specs, modes := modes, ndim := nd, shape := shape,
                             radius := rad, maxIter := mi, maxShift := ms, maxDev := md,
                             feasCheck := fe ≠ 0 }
          let nrows := (cols.headD []).length
          let t : Table := { cols := cols, cost := List.replicate nrows Cost.unset }
          let isGlobal := modes.any (fun m => decide (m = 2))
          let used : List String :=
            if isGlobal then
              let idx := List.range nrows
              [usedRounds (fun tr1 => fitBlock cfg (replay [tr1]) (some clusters) clusters 0
                              idx.length (extract t idx)) (tr.getD 0 [])]
            else
              clusters.zipIdx.map (fun (idx, tag) =>
                usedRounds (fun tr1 => fitBlock cfg (fun pb => replay [tr1] { pb with tag := 0 })
                              none [List.range idx.length] tag idx.length (extract t idx))
                  (tr.getD tag []))
          match refineCtl cfg (replay tr) t clusters with
          | .error e => s!"status=error:{showErr e} used={joinWith "," used}"
          | .ok t' =>
            s!"status=ok level={if isGlobal then "g" else "c"} " ++
            s!"cost={joinWith "," (t'.cost.map showCost)} " ++
            s!"cols={joinWith ";" (t'.cols.map (fun c => joinWith "," (c.map showB)))} " ++
            s!"used={joinWith "," used}"
      | _, _, _, _, _ => "bad-op"
    | _, _, _, _, _, _, _, _, _ => "bad-op"
  | _ => "bad-op"

def handlers : List (String × (String → String)) :=
  [("C16BOUNDS", handleBounds), ("C16REFINE", handleRefine)]

end TrackpyV.Driver.C16
