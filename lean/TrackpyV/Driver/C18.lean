import TrackpyV.Model.Proto
import TrackpyV.Model.Drift
import TrackpyV.Model.DriftSmooth

/-! Driver ops for C18 (drift).

rows  = `p f tag x0 x1 .. ; p f tag x0 x1 .. ; ...`   (rationals `n/d`)
curve = `f:v,f:v,...`

`C18DRIFT d | rows`
   -> `nodup=<0|1> rect=<0|1> contig=<0|1> later=<0|1> frames=f,f,.. c0=curve c1=curve ..`
      (c_k = computeDriftCol k; frames = mframes, the specification's measured frames)
`C18SUB d | rows | own`            subtractOwnDrift d
`C18SUB d | rows | x | curve ; curve ; ..`   subtractDrift with one explicit curve per column
   -> `rows=tag:x0:x1,tag:x0:x1,.. r0=curve r1=curve ..`   (output order; r_k = drift re-measured
      on the output)
`C18SMOOTH w d | rows`             compute_drift(t, smoothing = w)
   -> `nodup=<0|1> rect=<0|1> frames=f,f,.. s0=curve s1=curve ..`   (s_k = driftSmoothedCol w k)
-/
namespace TrackpyV.Driver.C18
open TrackpyV.Proto TrackpyV.Drift

def parseRow? (s : String) : Option Row :=
  match words s with
  | p :: f :: tag :: xs => do
      let p' ← parseInt? p
      let f' ← parseInt? f
      let t' ← parseNat? tag
      let xs' ← parseAll parseRat? xs
      some { particle := p', frame := f', pos := xs', tag := t' }
  | _ => none

def parseRows? (s : String) : Option (List Row) := parseAll parseRow? (splitTrim s ";")

def parseEntry? (s : String) : Option (Int × Rat) :=
  match s.splitOn ":" with
  | [f, v] => do
      let f' ← parseInt? f
      let v' ← parseRat? v
      some (f', v')
  | _ => none

def parseCurve? (s : String) : Option (List (Int × Rat)) := parseAll parseEntry? (splitTrim s ",")

def showCurve (c : List (Int × Rat)) : String :=
  joinWith "," (c.map (fun e => s!"{e.1}:{showRat e.2}"))

def showCurves (pre : String) (cs : List (List (Int × Rat))) : String :=
  joinWith " " (cs.zipIdx.map (fun (c, k) => s!"{pre}{k}={showCurve c}"))

def b2s (b : Bool) : String := if b then "1" else "0"

def handleDrift (rest : String) : String :=
  match splitKeep rest "|" with
  | [d, rows] =>
    match parseNat? d, parseRows? rows with
    | some d, some t =>
      let fs := mframes t
      s!"nodup={b2s (keysNodupB t)} rect={b2s (rectB d t)} contig={b2s (contigB fs)} " ++
      s!"later={b2s (laterFramesMeasuredB t)} frames={showIntList fs} " ++
      showCurves "c" (ownDrift d t)
    | _, _ => "bad-op"
  | _ => "bad-op"

def showRows (t : List Row) : String :=
  joinWith "," (t.map (fun r => joinWith ":" (toString r.tag :: r.pos.map showRat)))

def handleSub (rest : String) : String :=
  match splitKeep rest "|" with
  | d :: rows :: mode :: more =>
    match parseNat? d, parseRows? rows with
    | some d, some t =>
      let ds? : Option (List (List (Int × Rat))) :=
        match mode, more with
        | "own", [] => some (ownDrift d t)
        | "x", [curves] => parseAll parseCurve? (splitKeep curves ";")
        | _, _ => none
      match ds? with
      | none => "bad-op"
      | some ds =>
        let out := subtractDrift ds t
        s!"rows={showRows out} " ++ showCurves "r" (ownDrift d out)
    | _, _ => "bad-op"
  | _ => "bad-op"

def handleSmooth (rest : String) : String :=
  match splitKeep rest "|" with
  | [wd, rows] =>
    match words wd with
    | [w, d] =>
      match parseNat? w, parseNat? d, parseRows? rows with
      | some w, some d, some t =>
        s!"nodup={b2s (keysNodupB t)} rect={b2s (rectB d t)} frames={showIntList (mframes t)} " ++
        showCurves "s" (ownDriftSmoothed w d t)
      | _, _, _ => "bad-op"
    | _ => "bad-op"
  | _ => "bad-op"

def handlers : List (String × (String → String)) :=
  [("C18DRIFT", handleDrift), ("C18SUB", handleSub), ("C18SMOOTH", handleSmooth)]

end TrackpyV.Driver.C18
