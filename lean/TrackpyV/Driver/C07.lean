import TrackpyV.Model.Proto
import TrackpyV.Model.Refine

/-! Driver ops for C07 (centre-of-mass refinement).

`C07MASK r0,r1[,r2]`
   -> `n=<count> offs=o0:o1;o0:o1;...`           (maskOffsets, row-major array indices)

`C07REF shape | radius | thr | maxIter | img pixels | raw pixels | start ; start ; ...`
   (shape/radius/start comma separated, pixels comma separated row-major, thr = `p/q`)
   -> one record per start, records separated by ` # `:
   `inside=<0|1> zeromass=<0|1> evals=<n> conv=<0|1> clips=<n> margin=<p/q> trace=c0:c1;c0:c1;..
    centre=c0,c1 pos=p/q,p/q mass=<q> rg2=<q>[,<q>..] ecc=<e1>,<e2>,<cpx>|nan signal=<n> raw=<q>`
   inside  = the start satisfies r_i ≤ c_i ≤ shape_i-1-r_i (hypothesis of the theorems)
   zeromass= some evaluated mask was black (outside the property's hypothesis)
   evals   = number of evaluated iterations; conv = the last one passed the break test
   clips   = moves that the clip changed; margin = min over evaluations/axes of | |off_i| - thr |
-/
namespace TrackpyV.Driver.C07
open TrackpyV.Proto TrackpyV.Refine

def b2s (b : Bool) : String := if b then "1" else "0"

def ratAbs (x : Rat) : Rat := if x < 0 then -x else x

def showVec (c : List Int) (sep : String) : String := joinWith sep (c.map toString)

def handleMask (rest : String) : String :=
  match natList? rest with
  | some radius =>
    let m := maskOffsets radius
    s!"n={m.length} offs=" ++ joinWith ";" (m.map (fun o => joinWith ":" (o.map toString)))
  | none => "bad-op"

def one (thr : Rat) (img raw : Image) (mask : List (List Nat)) (radius shape : List Nat)
    (maxIter : Nat) (start : List Int) : String :=
  let fuel := fuelOf maxIter
  let tr := trace thr img mask radius shape fuel start
  let c := lastCentre thr img mask radius shape fuel start
  let ocs := tr.map (offCentre img mask radius)
  let margins := ocs.flatMap (fun oc => oc.map (fun o => ratAbs (ratAbs o - thr)))
  let margin := margins.foldl min (match margins with | [] => 0 | a :: _ => a)
  let zero := tr.any (fun c' => massAt img mask (origin radius c') == 0)
  let conv := converged thr (offCentre img mask radius c)
  -- moves whose clip was active: recompute each step
  let clips := (tr.zip ocs).foldl (fun n (p : List Int × List Rat) =>
      let moved := (List.range radius.length).map (fun i => moveAxis thr (p.2.getD i 0) (p.1.getD i 0))
      if moved == next thr radius shape p.2 p.1 then n else n + 1) 0
  let m := measure img raw mask radius c
  let ecc := match m.ecc with
    | some (a, b, cp) => s!"{showRat a},{showRat b},{cp}"
    | none => "nan"
  s!"inside={b2s (insideB radius shape start)} zeromass={b2s zero} evals={tr.length} " ++
  s!"conv={b2s conv} clips={clips} margin={showRat margin} " ++
  s!"trace={joinWith ";" (tr.map (fun c' => showVec c' ":"))} centre={showVec m.centre ","} " ++
  s!"pos={showRatList m.pos} mass={showRat m.mass} rg2={showRatList m.rg2} ecc={ecc} " ++
  s!"signal={m.signal} raw={showRat m.rawMass}"

def handleRef (rest : String) : String :=
  match splitKeep rest "|" with
  | [shape, radius, thr, maxIter, img, raw, starts] =>
    match natList? shape, natList? radius, parseRat? thr, parseNat? maxIter,
          natList? img, natList? raw, parseAll (fun s => intList? s) (splitTrim starts ";") with
    | some shape, some radius, some thr, some maxIter, some img, some raw, some starts =>
      let n := shape.foldl (· * ·) 1
      if img.length ≠ n ∨ raw.length ≠ n ∨ shape.length ≠ radius.length then "bad-op" else
      let im := ofArray shape img.toArray
      let rw := ofArray shape raw.toArray
      let mask := maskOffsets radius
      joinWith " # " (starts.map (one thr im rw mask radius shape maxIter))
    | _, _, _, _, _, _, _ => "bad-op"
  | _ => "bad-op"

def handlers : List (String × (String → String)) :=
  [("C07MASK", handleMask), ("C07REF", handleRef)]

end TrackpyV.Driver.C07
