import TrackpyV.Model.Proto
import TrackpyV.Model.Relocate
import TrackpyV.Model.FindLinkAlgo
import TrackpyV.Model.FindLinkOpt
import TrackpyV.Driver.Linker

/-! Driver ops for C14 (find_link relocation).

`RELOC <shape> | <radius nats> | <sep rats> | <sr rats> | <pct> | <minmass> | <pos p;p> | <hash p;p> | <n or '-'> | <pixels>`
   positions are `i,j[,k]` integer lists; `n` = shortage (first `n` candidates) or `-` for all
   -> `reject` (not well-formed) |
      `ok thr=<rat|nan> slice=<o,o:s,s|none> nraw=<k> n=<k> pts=<p;p> mass=<m,m> bgq=<b;b> uncovered=<k> tiekey=<0|1> tiemass=<0|1>`
      (pts in the order the code returns them: heaviest first)
`FLRUN <linker cfg> ; t=0 | 1,2 3,4 | 0 1 | <added indices> ; ...`
   -> `verdict=ok` | `verdict=bad step=<k>`
`FLSTEP <linker cfg> ; t=0 | 1,2 3,4 | 0 1 ; … (the labelled levels before the step) ; CUR t=3 | <handed detections> ; ORC <pos pos> | <cand cand> | <mass mass> ; ORC … [; OUT t=3 | <emitted pts> | <labels> | <added indices>]`
   one `FindLinker.next_level` by the model `FindLink.flAlgoStep`; the state is rebuilt from the
   labelled levels with `nextState`; the oracle answers a call for the source positions `pos` (as a
   set) with the recorded candidates of that call, `[]` (and `miss` + 1) for a set it was never asked
   -> `ok dsts=<p;p> added=<i,i> labels=<l,l> fresh=<first unused label> miss=<k> unused=<k> tied=<0|1> capped=<0|1> oversize=<0|1> groups=<n> short=<n> merged=<n> local=<0|1> lostonly=<0|1> implopt=<ok|bad|->`
   `local` = the side condition `FindLink.addedLocalB` of `Props/C14Opt.flAlgo_accepted_opt_partial` on the
   model's step (every added feature is seen by the sources of one sub-net only); `lostonly` = the
   hypothesis of `flAlgo_accepted_opt_of_lost` (sub-nets with a shortage consist of lost sources only);
   `implopt` = `flStep` in OPTIMALITY mode (`noOpt := false`) on the implementation's labelled level
   `OUT` from the same state (`-` when no `OUT` item was sent)
-/
namespace TrackpyV.Driver.C14
open TrackpyV.Proto TrackpyV.Find TrackpyV.Relocate

def posList? (s : String) : Option (List IPos) := parseAll (fun p => intList? p) (splitTrim s ";")

def showIPts (ps : List IPos) : String := joinWith ";" (ps.map showIntList)
def showPts (ps : List Pos) : String := joinWith ";" (ps.map showNatList)

/-- is there a close pair of equal brightness whose exact tie-break keys are equal (the float sums
the code compares may then order them either way) -/
def tieKey (sep : List Rat) : List Feat → Bool
  | [] => false
  | f :: fs => fs.any (fun g => close sep f g && f.inten == g.inten && f.key == g.key) || tieKey sep fs

def hasDupNat : List Nat → Bool
  | [] => false
  | x :: xs => xs.contains x || hasDupNat xs

def handleReloc (rest : String) : String :=
  match splitKeep rest "|" with
  | [sh, rd, sp, srS, pc, mm, ps, hs, nS, px] =>
    match natList? sh, natList? rd, ratList? sp, ratList? srS, parseRat? pc, parseRat? mm,
          posList? ps, posList? hs, natList? px with
    | some shape, some radius, some sep, some sr, some pct, some minmass, some pos, some hash,
      some data =>
      let cfg : Cfg := { radius := radius, sep := sep, sr := sr, pct := pct, minmass := minmass }
      let img : Image := ⟨shape, data.toArray⟩
      if !(Relocate.wellFormed cfg img) then "reject" else
      let bg := queryPoints cfg hash pos
      let all := relocateWith cfg img bg pos
      let res := match parseNat? nS with
        | some n => all.take n
        | none => all
      let thr := percentileThr img pct
      let slS := match getSlice img.shape (sliceRadius cfg) pos with
        | some sl => s!"{showNatList sl.origin}:{showNatList sl.shape}"
        | none => "none"
      let (nraw, tk) := match getSlice img.shape (sliceRadius cfg) pos, thr with
        | some sl, some t =>
          let m := maskedImage cfg img sl pos bg
          let raw := rawCandidates cfg img sl m t pos
          (raw.length, tieKey sep (raw.map (featOf m (exactKeyPos sep))))
        | _, _ => (0, false)
      let thrS := match thr with
        | some t => showRat t
        | none => "nan"
      s!"ok thr={thrS} slice={slS} nraw={nraw} n={res.length} pts={showPts (res.map (·.1))} mass={showNatList (res.map (·.2))} bgq={showIPts bg} uncovered={(uncovered cfg hash bg res).length} tiekey={if tk then 1 else 0} tiemass={if hasDupNat (all.map (·.2)) then 1 else 0}"
    | _, _, _, _, _, _, _, _, _ => "bad-op"
  | _ => "bad-op"

def parseFLevel? (s : String) : Option FLevel := do
  match splitKeep s "|" with
  | [ts, cs, ls, ad] =>
    let t ← match (Driver.Linker.parseKV ts).lookup "t" with
      | some v => parseInt? v
      | none => none
    let dsts ← parseAll (fun p => intList? p) (words cs)
    let labels ← parseAll parseNat? (words ls)
    let added ← parseAll parseNat? (words ad)
    some { t := t, dsts := dsts, labels := labels, added := added }
  | _ => none

def handleFLRun (rest : String) : String :=
  match splitKeep rest ";" with
  | [] => "bad-op"
  | c :: ls =>
    match Driver.Linker.parseCfg? c, parseAll parseFLevel? ls with
    | some cfg, some levels =>
      match flRun cfg levels with
      | none => "verdict=ok"
      | some k => s!"verdict=bad step={k}"
    | _, _ => "bad-op"

open TrackpyV.Linker TrackpyV.FindLink in
/-- are two position lists equal as sets -/
def sameSet (a b : List Linker.Pos) : Bool :=
  a.length == b.length && a.all (fun x => b.contains x) && b.all (fun x => a.contains x)

structure OrcEntry where
  pos : List Linker.Pos
  cands : List FindLink.RFeat

def parseOrc? (s : String) : Option OrcEntry := do
  match splitKeep s "|" with
  | [ps, cs, ms] =>
    let pos ← parseAll (fun p => intList? p) (words ps)
    let cands ← parseAll (fun p => intList? p) (words cs)
    let masses ← parseAll parseNat? (words ms)
    if cands.length != masses.length then none else
    some { pos := pos, cands := cands.zip masses }
  | _ => none

/-- the oracle instantiated by the recorded calls -/
def tableOracle (tab : List OrcEntry) : FindLink.Oracle := fun _ pos =>
  match tab.find? (fun e => sameSet e.pos pos) with
  | some e => e.cands
  | none => []

/-- is the optimum of one of the sub-problems that `flAlgoStep` itself solves (group by group, each
with the features added so far) not unique?  On a step where an added feature is also in range of a
source of another group (`local=0`) these are NOT the groups of the emitted level, so
`Linker.stepTied` on the emitted level does not see such a tie.  Driver statistic. -/
def flTied (cfg : TrackpyV.Linker.Cfg) (st : TrackpyV.Linker.State) (t : Int)
    (orc : TrackpyV.FindLink.Oracle) (dsts : List TrackpyV.Linker.Pos) : Bool :=
  open TrackpyV.Linker TrackpyV.FindLink TrackpyV.Assign in
  ((flGroups cfg st t dsts).foldl (fun (acc : Acc × Bool) g =>
      let a' := processGroup cfg st t orc dsts.length acc.1 g
      let ss := g.1.map (fcands cfg st t dsts.length acc.1.lvl.length a'.lvl)
      let tied := if ss.isEmpty then false
        else if (ss.map List.length).foldl (· * ·) 1 > 50000 then true
        else countOptimal ss != 1
      (a', acc.2 || tied))
    ({ lvl := dsts, masses := [], choices := [] }, false)).2

open TrackpyV.Linker TrackpyV.FindLink in
def handleFLStep (rest : String) : String :=
  match splitKeep rest ";" with
  | [] => "bad-op"
  | c :: items =>
    let lvS := items.filter (fun x => !(x.startsWith "CUR") && !(x.startsWith "ORC") &&
      !(x.startsWith "OUT") && x != "")
    let curS := items.filter (fun x => x.startsWith "CUR")
    let orcS := items.filter (fun x => x.startsWith "ORC")
    let outS := items.filter (fun x => x.startsWith "OUT")
    match Driver.Linker.parseCfg? c, parseAll Driver.Linker.parseLevel? lvS, curS,
          parseAll (fun x => parseOrc? (x.drop 3).toString) orcS with
    | some cfg, some (l0 :: levels), [cur], some tab =>
      match splitKeep (cur.drop 3).toString "|" with
      | [ts, cs] =>
        match ((Driver.Linker.parseKV ts).lookup "t").bind parseInt?,
              parseAll (fun p => intList? p) (words cs) with
        | some t, some dsts =>
          let st0 := nextState initCfg { srcs := [], used := [] } l0.t l0.dsts (l0.labels.getD [])
          let st := levels.foldl (fun st l => nextState cfg st l.t l.dsts (l.labels.getD [])) st0
          let orc := tableOracle tab
          let out := flAlgoStep cfg st t orc dsts
          let gs := flGroups cfg st t dsts
          let g1 := groups1 cfg st t dsts
          let keys := (gs.filter short).map (fun g => g.1.map (viewOf cfg st t))
          let miss := (keys.filter (fun k => !(tab.any (fun e => sameSet e.pos k)))).length
          let unused := (tab.filter (fun e => !(keys.any (fun k => sameSet e.pos k)))).length
          let b := fun (x : Bool) => if x then 1 else 0
          let lost := lostSources g1
          let lostOnly := (gs.filter short).all (fun g => g.1.all (fun i => lost.contains i))
          let implopt := match outS with
            | [o] => match parseFLevel? (o.drop 3).toString with
              | some lv => (match Relocate.flStep { cfg with noOpt := false } st lv.t lv.dsts lv.labels lv.added with
                | some _ => "ok"
                | none => "bad")
              | none => "unparsed"
            | _ => "-"
          s!"ok dsts={showIPts out.dsts} added={showNatList out.added} labels={showNatList out.labels} fresh={freshBase st} miss={miss} unused={unused} tied={b (stepTied cfg st t out.dsts || flTied cfg st t orc dsts)} capped={b (cappedB cfg st t out.dsts)} oversize={b (oversizeB cfg (stepGroups cfg st t out.dsts) || gs.any (fun g => decide (g.1.length > cfg.maxSize)))} groups={gs.length} short={(gs.filter short).length} merged={g1.length - gs.length} local={b (addedLocalB cfg st t gs dsts.length out.dsts)} lostonly={b lostOnly} implopt={implopt}"
        | _, _ => "bad-op"
      | _ => "bad-op"
    | _, _, _, _ => "bad-op"

def handlers : List (String × (String → String)) :=
  [("RELOC", handleReloc), ("FLRUN", handleFLRun), ("FLSTEP", handleFLStep)]

end TrackpyV.Driver.C14
