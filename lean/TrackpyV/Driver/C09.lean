import TrackpyV.Model.Proto
import TrackpyV.Model.Locate

/-! Driver ops for C09 (feature finding does not depend on where / how the image is processed).
Fields separated by `|`, lists by `,`.

`C09GD  <shape> | <canvas> | <off1> | <off2> | <sep rats> | <pct> | <margin nats or d> | <pixels>`
    the content image embedded (`Locate.embed`) at `off1` and at `off2` in a black canvas, then
    `Find.greyDilation … precise=False` on both
    -> `reject` | `hyp=<0|1> emb=<0|1> same=<0|1> thr0=<rat|nan> thr1=… thr2=… pts1=<p;p;…> pts2=<p;p;…>`
    hyp  = the decidable hypotheses of `maxima_shift` hold (`padOK` for both offsets)
    emb  = `isEmbedB` accepts both embedded images (=> `Find.IsEmbed`, `isEmbedB_sound`)
    same = `pts2 = pts1.map (shiftPos off1 off2)` (as lists, order included)
`C09GDT <shape> | <sep> | <pct> | <margin or d> | <pixels>`
    `greyDilation` on the image and on `Locate.revImg` of it with reversed per-axis parameters
    -> `reject` | `same=<0|1> tr=<0|1|na> pts=<…> ptsT=<…>`   (same: equal as sets after reversing
       back; tr: `isTransposeB` accepts the pair (2-D) => `Find.IsTranspose`)
`C09CLIP <radius> | <shape> | <maxIter> | <start ints>`  -> `ok=<0|1>`   (`Locate.clipFree`)
`C09BATCH <row counts> | <frame numbers, n = no frame_no>`
    `Locate.batchModel` on frames whose `locate` result has the given number of rows (row `j` of
    frame `i` is the token `j`)      -> `rows=<frame>:<j>;…`  (`rows=` when empty)
`C09LOC <shape> | <pre 0/1> | <lshort> | <kernels ;> | <llong> | <thr or d> | <sep> | <pct> |
        <margin> | <radius> | <shiftThr> | <maxIter> | <pixels>`
    `Locate.locateModel`  -> `reject` | `n=<k> work=<pixels> # <feature> # …`, a feature being
    `centre=c,c pos=q,q mass=q rg2=q[,q] ecc=a,b,cpx|nan signal=n raw=q`
-/
namespace TrackpyV.Driver.C09
open TrackpyV.Proto TrackpyV.Find TrackpyV.Locate

def b2s (b : Bool) : String := if b then "1" else "0"
def showPos (p : Pos) : String := showNatList p
def showPts (ps : List Pos) : String := joinWith ";" (ps.map showPos)
def showThr : Option Rat → String
  | none => "nan"
  | some r => showRat r

def parseMargin? (s : String) : Option (Option (List Nat)) :=
  if s = "d" then some none else (natList? s).map some

def handleGD (rest : String) : String :=
  match splitKeep rest "|" with
  | [sh, cv, o1, o2, sp, pc, mg, px] =>
    match natList? sh, natList? cv, natList? o1, natList? o2, ratList? sp, parseRat? pc,
          parseMargin? mg, natList? px with
    | some shape, some canvas, some off1, some off2, some sep, some pct, some margin?, some data =>
      let content : Image := ⟨shape, data.toArray⟩
      let big1 := embed canvas off1 content
      let big2 := embed canvas off2 content
      let margin := margin?.getD (defaultMargin sep)
      match greyDilation big1 sep pct margin? false, greyDilation big2 sep pct margin? false with
      | some p1, some p2 =>
        let hyp := padOK canvas off1 shape margin && padOK canvas off2 shape margin
        let same := p2 == p1.map (shiftPos off1 off2)
        let emb := isEmbedB content off1 big1 && isEmbedB content off2 big2
        s!"hyp={b2s hyp} emb={b2s emb} same={b2s same} thr0={showThr (percentileThr content pct)} " ++
        s!"thr1={showThr (percentileThr big1 pct)} thr2={showThr (percentileThr big2 pct)} " ++
        s!"pts1={showPts p1} pts2={showPts p2}"
      | _, _ => "reject"
    | _, _, _, _, _, _, _, _ => "bad-op"
  | _ => "bad-op"

def handleGDT (rest : String) : String :=
  match splitKeep rest "|" with
  | [sh, sp, pc, mg, px] =>
    match natList? sh, ratList? sp, parseRat? pc, parseMargin? mg, natList? px with
    | some shape, some sep, some pct, some margin?, some data =>
      let img : Image := ⟨shape, data.toArray⟩
      let imgT := revImg img
      match greyDilation img sep pct margin? false,
            greyDilation imgT sep.reverse pct (margin?.map List.reverse) false with
      | some p, some pT =>
        let back := pT.map List.reverse
        let same := p.length == back.length && p.all (fun q => back.contains q)
                      && back.all (fun q => p.contains q)
        let tr := match shape with
          | [H, W] => b2s (isTransposeB img imgT H W)
          | _ => "na"
        s!"same={b2s same} tr={tr} pts={showPts p} ptsT={showPts pT}"
      | _, _ => "reject"
    | _, _, _, _, _ => "bad-op"
  | _ => "bad-op"

def handleClip (rest : String) : String :=
  match splitKeep rest "|" with
  | [r, sh, mi, st] =>
    match natList? r, natList? sh, parseNat? mi, intList? st with
    | some radius, some shape, some maxIter, some start =>
      s!"ok={b2s (clipFree radius shape (Refine.fuelOf maxIter) start)}"
    | _, _, _, _ => "bad-op"
  | _ => "bad-op"

def parseFno? (s : String) : Option (Option Int) :=
  if s = "n" then some none else (parseInt? s).map some

def handleBatch (rest : String) : String :=
  match splitKeep rest "|" with
  | [cs, fs] =>
    match natList? cs, parseAll parseFno? (splitTrim fs ",") with
    | some counts, some fnos =>
      if counts.length ≠ fnos.length then "bad-op" else
      let frames : List (Frame Nat) := (fnos.zip counts).map (fun x => ⟨x.1, x.2⟩)
      let out := batchModel (fun n => List.range n) frames
      "rows=" ++ joinWith ";" (out.map (fun x => s!"{x.1}:{x.2}"))
    | _, _ => "bad-op"
  | _ => "bad-op"

def parseKernels? (s : String) : Option (List (Array Rat)) :=
  (parseAll (fun t => ratList? t) (splitKeep s ";")).map (·.map List.toArray)

def showMeasure (m : Refine.Measure) : String :=
  let ecc := match m.ecc with
    | some (a, b, cp) => s!"{showRat a},{showRat b},{cp}"
    | none => "nan"
  s!"centre={showIntList m.centre} pos={showRatList m.pos} mass={showRat m.mass} " ++
  s!"rg2={showRatList m.rg2} ecc={ecc} signal={m.signal} raw={showRat m.rawMass}"

def handleLoc (rest : String) : String :=
  match splitKeep rest "|" with
  | [sh, pre, ls, ks, ll, th, sp, pc, mg, rd, st, mi, px] =>
    match natList? sh, parseNat? pre, ratList? ls, parseKernels? ks, intList? ll, ratList? sp,
          parseRat? pc, natList? mg, natList? rd, parseRat? st, parseNat? mi, natList? px with
    | some shape, some pre, some lshort, some kernels, some llong, some sep, some pct,
      some margin, some radius, some shiftThr, some maxIter, some data =>
      let thr? : Option (Option Rat) := if th = "d" then some none else (parseRat? th).map some
      match thr? with
      | none => "bad-op"
      | some thr =>
        if shape.prod != data.length then "bad-op" else
        let P : Params := { preprocess := pre != 0, lshort := lshort, kernels := kernels,
                            llong := llong, thr := thr, sep := sep, pct := pct, margin := margin,
                            radius := radius, shiftThr := shiftThr, maxIter := maxIter }
        match workImage P shape data.toArray, locateModel P shape data.toArray with
        | some work, some feats =>
          joinWith " # " (s!"n={feats.length} work={showNatList work.toList}" :: feats.map showMeasure)
        | _, _ => "reject"
    | _, _, _, _, _, _, _, _, _, _, _, _ => "bad-op"
  | _ => "bad-op"

def handlers : List (String × (String → String)) :=
  [("C09GD", handleGD), ("C09GDT", handleGDT), ("C09CLIP", handleClip), ("C09BATCH", handleBatch),
   ("C09LOC", handleLoc)]

end TrackpyV.Driver.C09
