import TrackpyV.Model.Proto
import TrackpyV.Model.LeastsqFrames

/-! Driver op for C16 (X15): which frame every cluster of `refine_leastsq` is fitted against.

Fields are separated by `|`.

`LSQFRAMES call | rows | groups`
   rows   : `f,f,..` = `frame_nos` of ONE `prepare_subimages` call (integers)
   groups : `-` (None) or `i,i;i;..` (`groups[0]`: clusters as positions in `frame_nos`)
   -> `read=f,f,.. cwf=0|1`   (frames read, one per returned sub-image, in order;
                               `cwf` = ClustersWithinFrames holds, `1` for `-`)

`LSQFRAMES plan g|c | rows | clusters`
   rows     : frame number per row of the clustered table (positional order)
   clusters : `i,i;i;..` in cluster-id order;  `g` = some parameter is 'global', `c` = none is
   -> `read=f,f;f;.. cwf=0|1 pairs=i:f,i:f,..`   (per solver call `;` the frames read; `pairs` =
                               (row, frame read) over the whole plan, sorted by row)
-/
namespace TrackpyV.Driver.C16Frames
open TrackpyV.Proto TrackpyV.LeastsqFrames

def parseGroups? (s : String) : Option (List (List Nat)) :=
  parseAll (fun g => natList? g) (splitTrim s ";")

def parseOptGroups? (s : String) : Option (Option (List (List Nat))) :=
  if s = "-" then some none else (parseGroups? s).map some

def b2s (b : Bool) : String := if b then "1" else "0"

/-- insertion sort by row (canonical output) -/
def insertPair (p : Nat × Int) : List (Nat × Int) → List (Nat × Int)
  | [] => [p]
  | q :: t => if p.1 ≤ q.1 then p :: q :: t else q :: insertPair p t

def sortPairs (ps : List (Nat × Int)) : List (Nat × Int) := ps.foldr insertPair []

def handle (rest : String) : String :=
  match splitKeep rest "|" with
  | ["call", rows, groups] =>
    match intList? rows, parseOptGroups? groups with
    | some rows, some groups =>
      let ok := match groups with
        | none => true
        | some cls => cwfCheck rows cls
      s!"read={showIntList (framesRead rows groups)} cwf={b2s ok}"
    | _, _ => "bad-op"
  | [kind, rows, clusters] =>
    match words kind, intList? rows, parseGroups? clusters with
    | ["plan", lv], some rows, some cls =>
      if lv ≠ "g" ∧ lv ≠ "c" then "bad-op" else
      let g := decide (lv = "g")
      let pairs := sortPairs (planPairs g rows cls)
      s!"read={joinWith ";" ((plan g rows cls).map showIntList)} cwf={b2s (cwfCheck rows cls)} " ++
      s!"pairs={joinWith "," (pairs.map (fun p => s!"{p.1}:{p.2}"))}"
    | _, _, _ => "bad-op"
  | _ => "bad-op"

def handlers : List (String × (String → String)) := [("LSQFRAMES", handle)]
end TrackpyV.Driver.C16Frames
