import TrackpyV.Model.Proto
import TrackpyV.Model.AdaptiveAlgo
import TrackpyV.Driver.Adaptive

/-! `AALGO <same header as ARUN> ; <levels as ARUN (labels ignored)>`
  -> `ok 0,1|0,2,3|...` : the labels of the deterministic adaptive algorithm `algoLabelsA`
     (Model/AdaptiveAlgo.lean; first level labelled `0 … n-1`) for every level, or
  -> `none` if a step of the algorithm raises (an oversize group reached adaptive_stop). -/
namespace TrackpyV.Driver.AdaptiveAlgo
open TrackpyV.Proto TrackpyV.Linker TrackpyV.Adaptive TrackpyV.Driver.Linker TrackpyV.Driver.Adaptive

def handleAlgo (rest : String) : String :=
  match splitKeep rest ";" with
  | [] => "bad-op"
  | c :: ls =>
    match parseACfg? c, parseCfg? c, parseAll parseLevel? ls with
    | some a, some cfg, some (l0 :: levels) =>
      match algoMovieA a cfg (l0 :: levels) with
      | none => "none"
      | some out => "ok " ++ joinWith "|" (out.map showNatList)
    | _, _, _ => "bad-op"

def handlers : List (String × (String → String)) := [("AALGO", handleAlgo)]
end TrackpyV.Driver.AdaptiveAlgo
