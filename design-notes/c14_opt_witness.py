"""Replay of Props/C14Opt.lean `flAlgo_opt_witness` / `flAlgo_cross_witness` on the real code
(run with /venv/bin/python).

find_link's links are NOT always a minimum-cost assignment on the level it emits.
`Subnets.merge_lost_subnets` (subnet.py:440-477) merges around LOST sources only (sources of a sub-net
with a shortage before merging); `Subnets.add_dest_points` (subnet.py:383-424) admits a relocated
feature within search_range of ANY source of the merged sub-net.  A feature admitted through a
non-lost member can be within range of a source of ANOTHER sub-net, which never sees it.

Frame 0: Y=(10,10), S'=(10,28), S=(10,44).  Frame 1: blobs at (16,28), (18,46) and (10,36); Y is gone;
the detection (10,36) is withheld from the linker (before_link).  search_range 10, separation 7.
  * Y has no candidate: lost.  |Y-S'| = 18 <= 20: merged with S' -> sub-net {S',Y} x {(16,28)},
    shortage 1.  |Y-S| = 34 > 20 and S', S are not lost: S keeps its own sub-net {S} x {(18,46)}.
  * relocation for {S',Y} finds (10,36) (8 from S').  It is also 8 from S.
  * links made: S' -> (16,28) (36), S -> (18,46) (68), (10,36) starts a new trajectory.
  * on the emitted level S' and S are one connected component and the optimum is
    S' -> (16,28) (36), S -> (10,36) (64): 100 < 104.  `trackpy.link` on the emitted coordinates
    finds exactly that.
C14 does not claim that the links are optimal, so this is an observation, not a violation.

Expected output (last lines):
  find_link : {(10, 28): (16, 28), (10, 44): (18, 46)}  new trajectories at [(10, 36)]  cost 104
  link      : {(10, 28): (16, 28), (10, 44): (10, 36)}  new trajectories at [(18, 46)]  cost 100
  NOT OPTIMAL on the emitted level
"""
import os
import sys

sys.path.insert(0, os.environ.get("VERIF_REPO", "/repo"))
import numpy as np  # noqa: E402
import pandas as pd  # noqa: E402
import trackpy as tp  # noqa: E402

tp.quiet()


class Img(np.ndarray):
    """minimal pims-free frame: an ndarray with `frame_no`"""
    def __new__(cls, arr, frame_no):
        o = np.asarray(arr).view(cls)
        o.frame_no = frame_no
        return o

    def __array_finalize__(self, obj):
        self.frame_no = getattr(obj, "frame_no", None)


def render(shape, blobs):
    img = np.zeros(shape)
    yy, xx = np.mgrid[0:shape[0], 0:shape[1]]
    for (y, x) in blobs:
        img += 200 * np.exp(-((yy - y) ** 2 + (xx - x) ** 2) / (2 * 1.5 ** 2))
    return np.clip(np.floor(img + 0.5), 0, 255).astype(np.uint8)


SHAPE = (32, 60)
SR, SEP = 10, 7
F0 = [(10, 10), (10, 28), (10, 44)]
F1 = [(16, 28), (10, 36), (18, 46)]
WITHHELD = (10, 36)
frames = [Img(render(SHAPE, F0), 0), Img(render(SHAPE, F1), 1)]


def before_link(coords, image, **kw):
    coords = np.asarray(coords)
    if image.frame_no == 1:
        keep = [i for i, p in enumerate(coords) if tuple(int(c) for c in p) != WITHHELD]
        print("frame 1: detected", coords.tolist(), "-> handed to the linker", coords[keep].tolist())
        return coords[keep]
    return coords


def links(df):
    a = df[df["frame"] == 0]
    b = df[df["frame"] == 1]
    prev = {int(r.particle): (int(r.y), int(r.x)) for r in a.itertuples()}
    lk, new = {}, []
    for r in b.itertuples():
        if int(r.particle) in prev:
            lk[prev[int(r.particle)]] = (int(r.y), int(r.x))
        else:
            new.append((int(r.y), int(r.x)))
    cost = sum((p[0] - q[0]) ** 2 + (p[1] - q[1]) ** 2 for p, q in lk.items())
    return lk, sorted(new), cost


out = tp.find_link(frames, search_range=SR, separation=SEP, preprocess=False, before_link=before_link)
print(out[["frame", "y", "x", "mass", "particle"]].to_string(index=False))
fl, fl_new, fl_cost = links(out)
ref = tp.link(pd.DataFrame(out[["y", "x", "frame"]]), SR, pos_columns=["y", "x"])
lk, lk_new, lk_cost = links(ref)
print("find_link :", dict(sorted(fl.items())), " new trajectories at", fl_new, " cost", fl_cost)
print("link      :", dict(sorted(lk.items())), " new trajectories at", lk_new, " cost", lk_cost)
# both leave exactly one source (Y) unlinked, so the squared displacements compare the totals
print("NOT OPTIMAL on the emitted level" if fl_cost > lk_cost else "optimal on the emitted level")
sys.exit(0 if fl_cost > lk_cost else 1)
