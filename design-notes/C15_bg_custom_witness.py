"""Replay of Props/C15Chain.lean `jacobian_bg_custom_witness` on the real code (run with /venv/bin/python).

A CUSTOM background mode (4) whose groups cut a cluster is outside C15's quantifier
{const, var, global, cluster}; it is the reason `BgCompat` is a hypothesis of `jacobian_is_gradient`:
`residual` reads the background of the first feature of a cluster only, `jacobian` hands equal shares
to every feature.  Expected output: jac [-0.1276 -0.1276]  fd [-0.2553  0.]
"""
import os
import sys
import warnings

sys.path.insert(0, os.environ.get("VERIF_REPO", "/repo"))
import numpy as np  # noqa: E402

warnings.simplefilter("ignore")
from trackpy.refine.least_squares import FitFunctions  # noqa: E402

ff = FitFunctions('gauss', ndim=2, isotropic=True,
                  param_mode={'background': 4, 'signal': 0, 'y': 0, 'x': 0, 'size': 0})
yy, xx = np.mgrid[0:5, 0:5]
mesh = np.array([yy.ravel(), xx.ravel()], dtype=float)
image = np.random.RandomState(0).rand(25)
masks = [[np.ones(25, bool), np.ones(25, bool)]]
params = np.array([[0.1, 1.0, 1., 1., 1.5], [0.3, 0.7, 3., 3., 1.2]])
groups = [[[0, 1]], [[0], [1]]]
res, jac = ff.get_residual([image], [mesh], masks, params, groups=groups, norm=1.)
v = np.array([0.1, 0.3])
h = 1e-6
fd = np.array([(res(v + h * e) - res(v - h * e)) / (2 * h) for e in np.eye(2)])
print('jac', jac(v), 'fd', fd)
