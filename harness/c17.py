"""C17 — msd / imsd / emsd compute the defined statistic, gaps and units included.

One case = a small ensemble of particles (1-6), each a trajectory with its own start frame, length and
gap pattern, positions on a k/8 grid in 1-3 dimensions, rows of the table shuffled, plus mpp, fps and
max_lagtime.  Per case

  * every particle goes through the real `msd(..., detail=True)`; the result is compared with
      - the DIRECT ORACLE: an O(N^2) enumeration of all pairs of observations `lag` frames apart in
        Python Fractions, written from the property statement (mean displacement, mean squared
        displacement per coordinate, msd = mean of the summed squared displacement, NaN iff no pair,
        index = lag, lagt = lag/fps);
      - the Lean model (`MSD` op: Model/MSD.lean `msd`, the function the theorems of Props/C17 are
        about), including the `N` column and the set of lags;
  * the whole table goes through `imsd` and `emsd` (detail on and off): imsd cells must be the
    per-particle numbers (NaN where the particle has no pair / no row), emsd must be
    sum(N_p v_p)/sum(N_p) over the particles that have a pair at the lag, with N_p the weights the
    implementation itself publishes in `msd(detail=True)`; both are also compared with the model
    (`ENS` op).
"""
import math
from fractions import Fraction

import numpy as np

from . import common
from .common import Result

PROP = "C17"
RULE = ("ensembles of 1-6 particles; per particle: start frame 0-1000, 1-40 rows, gap pattern in "
        "{none, single, periodic (lags without any pair), random, long, two-rows}; random-walk "
        "positions on a k/8 grid in 1-3 dimensions; table rows shuffled in 3 of 4 cases; index layout "
        "range/shuffled/duplicated; mpp dyadic (incl. 2^-24, 3*2^-25 and 1024: absolute tolerances show at small magnitudes), fps in {1/2,1,2,4,8,24,30}; max_lagtime below, at and "
        "above the frame span.  Non-trivial = some particle has >= 3 rows and at least one lag with a "
        "pair; distinct = distinct canonical input.")
ASSUMPTIONS = [
    "positions k/8 and dyadic mpp: every product/difference/sum on the gaps path is exact in float64 "
    "up to the final division, compared at 1e-9 relative",
    "FFT path: compared at 1e-7 relative plus an absolute slack of 1e-10 * max(r^2) (float FFT round-off "
    "scales with sum r^2, not with the possibly tiny result)",
    "np.fft is modelled as the exact autocorrelation sum; np.cumsum as prefix sums; pandas reindex / "
    "groupby / unstack as list look-ups",
    "one observation per frame and particle (duplicate frames are outside the property's domain)",
    "emsd oracle uses as weights the N column the implementation publishes per particle; N itself is "
    "tied to the model's exact Qian formula (correspondence)",
]
MIN_NONTRIVIAL = 20

COLNAMES = ["x", "y", "z"]


def init(ctx):
    common.setup_repo_path()


# ------------------------------------------------------------------------------------------
# generation

def gen_frames(rng, pattern, n, start):
    if pattern == "none":
        fr = list(range(start, start + n))
    elif pattern == "single":
        fr = list(range(start, start + n + 1))
        if len(fr) > 2:
            del fr[rng.randint(1, len(fr) - 2)]
    elif pattern == "periodic":
        step = rng.choice([2, 2, 3, 4])
        fr = [start + step * k for k in range(n)]
        if rng.random() < 0.3 and n >= 2:      # one extra frame breaks the period somewhere
            extra = start + step * rng.randint(0, n - 2) + 1
            fr = sorted(set(fr + [extra]))
    elif pattern == "random":
        fr = [start] + [start + k for k in range(1, n + n // 2) if rng.random() < 0.6]
        fr.append(start + n + n // 2)
    elif pattern == "long":
        a = max(1, n // 2)
        gap = rng.randint(3, 15)
        fr = list(range(start, start + a)) + list(range(start + a + gap, start + gap + n))
    else:  # two-rows
        fr = [start, start + rng.randint(1, 9)]
    return sorted(set(fr))


def gen_particle(rng, d, pid):
    pattern = rng.choice(["none", "none", "single", "periodic", "periodic", "random", "long",
                          "two-rows"])
    n = rng.choice([1, 2, 3, 4, 5, 6, 8, 10, 13, 20, 30, 40]) if rng.random() < 0.8 else rng.randint(1, 40)
    start = rng.choice([0, 0, 1, 7, rng.randint(0, 1000)])
    fr = gen_frames(rng, pattern, n, start)
    pos = [rng.randint(-400, 400) for _ in range(d)]
    amp = rng.choice([0, 1, 3, 8, 20])
    drift = [rng.randint(-4, 4) for _ in range(d)]
    rows = []
    prev = fr[0]
    for f in fr:
        for _ in range(f - prev if f > prev else 0):
            pos = [p + dr + (rng.randint(-amp, amp) if amp else 0) for p, dr in zip(pos, drift)]
        prev = f
        rows.append([f, list(pos)])
    return dict(pid=pid, rows=rows, pattern=pattern)


def gen_case(rng, thorough=False):
    d = rng.choice([1, 2, 2, 2, 3])
    npart = rng.choice([1, 1, 2, 2, 3, 4, 6])
    pids = rng.sample(range(0, 12), npart)
    parts = [gen_particle(rng, d, p) for p in pids]
    if all(len(p["rows"]) < 2 for p in parts):
        parts[0] = gen_particle(rng, d, parts[0]["pid"])
        while len(parts[0]["rows"]) < 2:
            parts[0] = gen_particle(rng, d, parts[0]["pid"])
    span = max(p["rows"][-1][0] - p["rows"][0][0] for p in parts)
    ml = rng.choice([1, 2, 3, max(1, span // 2), max(1, span - 1), max(1, span), span + 5, 100])
    int_pos = None
    if rng.random() < 0.15:
        # whole-pixel positions held in an INTEGER column (uint16 pixel coordinates, int32 / int64), far
        # enough apart for their squares to exceed the dtype; the conversion factor then is an int too
        lo = min(x for p in parts for _, pos in p["rows"] for x in pos)
        zoom = rng.choice([8, 40, 400])
        for p in parts:
            p["rows"] = [(f, [zoom * (x - lo) for x in pos]) for f, pos in p["rows"]]
        hi = max(x for p in parts for _, pos in p["rows"] for x in pos) // 8
        int_pos = rng.choice(["uint16", "int32", "int64"]) if hi < 60000 else rng.choice(["int32", "int64"])
    return dict(d=d, int_pos=int_pos,
                mpp=(rng.choice(["1", "1", "2", "3"]) if int_pos else
                     rng.choice(["1", "1", "1/2", "1/4", "2", "3/8", "5/32", "1/16777216", "3/33554432", "1024"])),
                fps=rng.choice(["1", "1", "2", "4", "1/2", "8", "24", "30"]),
                max_lagtime=ml, particles=parts,
                shuffle=None if rng.random() < 0.25 else rng.randint(0, 10 ** 6),
                index=rng.choice(["range", "shuffled", "dup"]),
                extra_cols=rng.random() < 0.5,
                default_cols=(d == 2 and rng.random() < 0.3),
                statistic=rng.choice(["msd", "msd", "<x>", "<x^2>"]))


def gen_cases(ctx):
    for inp in ctx.corpus():
        yield inp
    for i in range(ctx.n(700, 20000)):
        yield gen_case(ctx.rng("ens", i), ctx.thorough)


# ------------------------------------------------------------------------------------------
# the direct oracle (from the property statement; independent of the Lean model)

NAN = None


def oracle_msd(rows, d, mpp, fps, max_lagtime):
    """rows: list of (frame, [Fraction]*d) in ANY order.  Returns {lag: dict} for every lag
    1..max_lagtime for which at least one pair of observations `lag` frames apart exists."""
    out = {}
    for lag in range(1, max_lagtime + 1):
        pairs = [(a, b) for a in rows for b in rows if b[0] - a[0] == lag]
        if not pairs:
            continue
        k = len(pairs)
        disp = [sum((b[1][c] - a[1][c]) * mpp for a, b in pairs) / k for c in range(d)]
        sqd = [sum(((b[1][c] - a[1][c]) * mpp) ** 2 for a, b in pairs) / k for c in range(d)]
        msd = sum(sum(((b[1][c] - a[1][c]) * mpp) ** 2 for c in range(d)) for a, b in pairs) / k
        out[lag] = dict(disp=disp, sqd=sqd, msd=msd, lagt=Fraction(lag) / fps, npairs=k)
    return out


def fnum(v):
    """float -> Fraction or None for NaN"""
    v = float(v)
    if math.isnan(v):
        return NAN
    if math.isinf(v):
        return "inf"
    return Fraction(v)


def close(impl, exact, rel, absslack=0):
    """impl: Fraction|None|'inf'; exact: Fraction|None"""
    if exact is NAN or impl is NAN:
        return exact is NAN and impl is NAN
    if impl == "inf":
        return False
    return abs(impl - exact) <= rel * abs(exact) + absslack


# ------------------------------------------------------------------------------------------
# table construction / implementation runners

def _mpp_arg(inp, mpp):
    """microns per pixel as the caller writes it: an int for whole-pixel integer tables"""
    return int(mpp) if inp.get("int_pos") and Fraction(mpp).denominator == 1 else float(mpp)


def build_table(inp):
    import pandas as pd
    import random
    d = inp["d"]
    recs = []
    for p in inp["particles"]:
        for k, (f, pos) in enumerate(p["rows"]):
            r = dict(frame=int(f), particle=int(p["pid"]), _k=k)
            for c in range(d):
                r[COLNAMES[c]] = pos[c] / 8.0
            if inp.get("extra_cols"):
                r["mass"] = 100.0 + k
                r["size"] = 1.5
            recs.append(r)
    if inp.get("shuffle") is not None:
        random.Random(inp["shuffle"]).shuffle(recs)
    df = pd.DataFrame(recs)
    if inp.get("int_pos"):
        for c in range(d):
            df[COLNAMES[c]] = df[COLNAMES[c]].astype(inp["int_pos"])
    layout = inp.get("index", "range")
    if layout == "shuffled":
        lab = list(range(len(df)))
        random.Random((inp.get("shuffle") or 0) + 1).shuffle(lab)
        df.index = lab
    elif layout == "dup":
        df.index = df["_k"].values
    return df.drop(columns=["_k"])


def parse_model_rows(s):
    """rows=<lag:lagt:disp,..:sq,..:msd:N;...> -> {lag: dict}"""
    out = {}
    if s == "-":
        return out

    def o(t):
        return NAN if t == "nan" else Fraction(t)
    for g in s.split(";"):
        lag, lagt, disp, sqd, msd, n = g.split(":")
        out[int(lag)] = dict(lagt=Fraction(lagt),
                             disp=[] if disp == "-" else [o(t) for t in disp.split(",")],
                             sqd=[] if sqd == "-" else [o(t) for t in sqd.split(",")],
                             msd=o(msd), N=Fraction(n))
    return out


def rows_line(rows):
    return " ; ".join("%d %s" % (f, " ".join(common.rat_str(Fraction(x, 8)) for x in pos))
                      for f, pos in rows)


def frac_rows(rows):
    return [(int(f), [Fraction(x, 8) for x in pos]) for f, pos in rows]


def run_case(ctx, inp):
    import pandas as pd
    from trackpy.motion import msd, imsd, emsd
    res = Result()
    d = inp["d"]
    mpp, fps = Fraction(inp["mpp"]), Fraction(inp["fps"])
    ML = int(inp["max_lagtime"])
    cols = COLNAMES[:d]
    pos_columns = None if inp.get("default_cols") else cols
    df = build_table(inp)
    hdr = "%d %s %s %d" % (d, common.rat_str(mpp), common.rat_str(fps), ML)
    shuffled = inp.get("shuffle") is not None
    res.stat("cases")
    res.stat("particles", len(inp["particles"]))
    res.stat("dim_%d" % d)
    res.stat("table_shuffled" if shuffled else "table_sorted")
    res.stat("index_" + inp.get("index", "range"))

    per = {}          # pid -> dict(oracle=, implN=, ok=, cause=)
    nontrivial = False
    for p in inp["particles"]:
        pid = p["pid"]
        rows = p["rows"]
        frows = frac_rows(rows)
        sub = df[df["particle"] == pid]
        order = [int(f) for f in sub["frame"].values]
        unsorted = order != sorted(order)
        span = rows[-1][0] - rows[0][0]
        orc = oracle_msd(frows, d, mpp, fps, min(ML, span))
        res.stat("pattern_" + p.get("pattern", "corpus"))
        res.stat("rows_unsorted" if unsorted else "rows_in_order")
        if len(rows) >= 3 and orc:
            nontrivial = True
        pairless = [lag for lag in range(1, min(ML, span) + 1) if lag not in orc]
        if pairless:
            res.stat("particles_with_pairless_lags")
        res.stat("lags_checked", len(orc))
        res.stat("lags_pairless", len(pairless))
        if ML < span:
            res.stat("maxlag_below_span")
        elif ML > span:
            res.stat("maxlag_above_span")
        else:
            res.stat("maxlag_eq_span")

        # ---- model
        body = " ; ".join("%d %s" % (int(r["frame"]),
                                     " ".join(common.rat_str(Fraction(float(r[c]))) for c in cols))
                          for r in sub.to_dict("records"))
        m = common.kv(ctx.ask("MSD " + hdr + " | " + body))
        if "rows" not in m:
            res.violation("harness-error", "model returned %r" % m)
            return res
        path = m["path"]
        res.stat("path_" + path)
        mrows = parse_model_rows(m["rows"])
        # model against oracle (guards the harness encoding and the model itself)
        for lag in range(1, min(ML, span) + 1):
            mr = mrows.get(lag)
            if mr is None:
                res.violation("harness-error", "model has no row at lag %d (pid %d)" % (lag, pid))
                return res
            o = orc.get(lag)
            exp = (o["disp"], o["sqd"], o["msd"]) if o else ([NAN] * d, [NAN] * d, NAN)
            if (mr["disp"], mr["sqd"], mr["msd"]) != exp or mr["lagt"] != Fraction(lag) / fps:
                res.violation("harness-error", "model %r != oracle %r at lag %d (pid %d)"
                              % (mr, exp, lag, pid))
                return res
        if len(mrows) != max(0, min(ML, span)):
            res.violation("harness-error", "model lag set %s" % sorted(mrows))
            return res

        # ---- implementation
        info = dict(oracle=orc, ok=True, cause=None, N={}, span=span, pairless=pairless)
        per[pid] = info
        try:
            out = msd(sub, _mpp_arg(inp, mpp), float(fps), ML, detail=True, pos_columns=pos_columns)
        except Exception as e:  # the property says msd returns the statistic for every trajectory
            info["ok"] = False
            info["cause"] = "exception"
            res.violation("property-violation",
                          "msd raised %s: %s (pid %d, %d rows)" % (type(e).__name__, e, pid, len(rows)),
                          impl=repr(e), model=m["rows"][:300], broken="defect-class msd/exception",
                          signature=dict(fn="msd", what="exception", path=path, unsorted=unsorted))
            continue
        scale = max([abs(Fraction(x, 8) * mpp) ** 2 for _, pos in rows for x in pos] + [0])
        rel, slack = (Fraction(1, 10 ** 7), Fraction(1, 10 ** 10) * scale) if path == "fft" \
            else (Fraction(1, 10 ** 9), 0)
        impl = {}
        for lag, r in zip(out.index.values, out.to_dict("records")):
            impl[int(lag)] = r
        bad = []            # (lag, column, impl, expected)
        for lag, o in orc.items():
            r = impl.get(lag)
            if r is None:
                bad.append((lag, "missing-lag", None, float(o["msd"])))
                continue
            for c in range(d):
                if not close(fnum(r["<%s>" % cols[c]]), o["disp"][c], rel, slack):
                    bad.append((lag, "<%s>" % cols[c], r["<%s>" % cols[c]], float(o["disp"][c])))
                if not close(fnum(r["<%s^2>" % cols[c]]), o["sqd"][c], rel, slack):
                    bad.append((lag, "<%s^2>" % cols[c], r["<%s^2>" % cols[c]], float(o["sqd"][c])))
            if not close(fnum(r["msd"]), o["msd"], rel, slack):
                bad.append((lag, "msd", r["msd"], float(o["msd"])))
            if not close(fnum(r["lagt"]), o["lagt"], Fraction(1, 10 ** 12)):
                bad.append((lag, "lagt", r["lagt"], float(o["lagt"])))
        nan_bad = []
        for lag, r in impl.items():
            if lag in orc:
                continue
            # a returned lag without any pair: every statistic must be NaN
            for k in ["msd"] + ["<%s>" % c for c in cols] + ["<%s^2>" % c for c in cols]:
                if not math.isnan(float(r[k])):
                    nan_bad.append((lag, k, r[k], "nan"))
            if lag >= 1 and not close(fnum(r["lagt"]), Fraction(lag) / fps, Fraction(1, 10 ** 12)):
                bad.append((lag, "lagt", r["lagt"], float(Fraction(lag) / fps)))
        if bad or nan_bad:
            info["ok"] = False
            what = "value"
            if bad and unsorted:
                try:
                    out2 = msd(sub.sort_values("frame", kind="stable") if sub.index.name != "frame"
                               else sub, _mpp_arg(inp, mpp), float(fps), ML, detail=True,
                               pos_columns=pos_columns)
                    ok2 = all(close(fnum(out2["msd"].get(lag, float("nan"))), o["msd"], rel, slack)
                              for lag, o in orc.items())
                except Exception:
                    ok2 = False
                if ok2:
                    what = "row-order"
            if what == "value" and not bad and all(k == "msd" and float(v) == 0.0
                                                   for _, k, v, _ in nan_bad):
                what = "zero-for-nan"
            info["cause"] = what
            first = (bad + nan_bad)[0]
            # the property statement speaks of the squared displacement, the index and NaN; a
            # mismatch confined to the mean-displacement columns <c> is reported as a broken
            # correspondence (model vs code), not as a violation of the statement
            only_disp = all(k in ["<%s>" % c for c in cols] for _, k, _, _ in bad + nan_bad)
            res.violation("correspondence-break" if only_disp else "property-violation",
                          "msd (pid %d, %s path%s): lag %d column %s is %r, all-pairs definition "
                          "gives %r (%d bad cells)"
                          % (pid, path, ", rows not in frame order" if unsorted else "",
                             first[0], first[1], first[2], first[3], len(bad) + len(nan_bad)),
                          impl=dict(cells=[list(map(str, b)) for b in (bad + nan_bad)[:6]]),
                          model=m["rows"][:300],
                          broken="MSD.fftRow / gapsRow (mean displacement column)" if only_disp
                          else "defect-class msd/" + what,
                          signature=dict(fn="msd", what=what, path=path))
        # ---- correspondence with the model: set of lags, N column
        corr = None
        if sorted(impl) != sorted(mrows):
            corr = "lags %s, model %s" % (sorted(impl)[:8], sorted(mrows)[:8])
        else:
            for lag, r in impl.items():
                if not close(fnum(r["N"]), mrows[lag]["N"], Fraction(1, 10 ** 9)):
                    corr = "N at lag %d is %r, model %s" % (lag, r["N"], mrows[lag]["N"])
                    break
        if corr and info["ok"]:
            res.violation("correspondence-break", "msd (pid %d, %s path): %s" % (pid, path, corr),
                          impl=corr, model=m["rows"][:300], broken="MSD.msd (lag set / N column)",
                          signature=dict(fn="msd", what="lags-or-N", path=path))
        for lag, r in impl.items():
            info["N"][lag] = fnum(r["N"])

    res.nontrivial = nontrivial
    if len(inp["particles"]) >= 1:
        _check_ensemble(ctx, inp, res, df, per, hdr, cols, pos_columns, mpp, fps, ML)
    if not res.viol and len(inp["particles"]) >= 1:
        _check_frame_shift(inp, res, df, pos_columns, mpp, fps, ML)
    if nontrivial and not res.viol:
        p0 = inp["particles"][0]
        res.sample = dict(particles=len(inp["particles"]), d=d, mpp=inp["mpp"], fps=inp["fps"],
                          max_lagtime=ML, first_particle_frames=[r[0] for r in p0["rows"]][:12],
                          oracle_msd_lag1=str(per[p0["pid"]]["oracle"].get(1, {}).get("msd")))
    return res


def _check_frame_shift(inp, res, df, pos_columns, mpp, fps, ML):
    """The statistic is defined through pairs of observations n frames APART (and the weights through
    the shape of each trajectory): renumbering all frames by a constant cannot change msd / emsd, its
    index, nor the weights N.  The table is shifted so that it starts at frame 0 and by +1000."""
    import numpy as np
    from trackpy.motion import emsd, imsd
    f0 = int(df["frame"].min())
    shifts = [k for k in (-f0, 1000) if k != 0]

    def run(tab):
        em = emsd(tab, _mpp_arg(inp, mpp), float(fps), ML, detail=True, pos_columns=pos_columns)
        im = imsd(tab, _mpp_arg(inp, mpp), float(fps), ML, pos_columns=pos_columns)
        return em, im
    try:
        em0, im0 = run(df)
    except Exception:
        return                                          # judged by the ensemble check
    # the same trajectories with the position columns called otherwise (pos_columns=new names): the
    # result columns are named after them, the numbers are the same
    cols0 = list(pos_columns) if pos_columns is not None else None
    if cols0 is not None and (len(df) + int(f0)) % 3 == 0:
        new = [["x0", "x1", "x2"], ["xc", "yc", "zc"], ["x_um", "y_um", "z_um"], ["col", "row", "plane"],
               ["X", "Y", "Z"]][(len(df) // 3) % 5][:len(cols0)]
        fwd = dict(zip(cols0, new))
        try:
            tab = df.rename(columns=fwd)
            em1 = emsd(tab, _mpp_arg(inp, mpp), float(fps), ML, detail=True, pos_columns=new)
            im1 = imsd(tab, _mpp_arg(inp, mpp), float(fps), ML, pos_columns=new)
        except Exception as e:
            res.violation("property-violation", "position columns called %s: %s: %s (no exception with "
                          "%s)" % (new, type(e).__name__, str(e)[:200], cols0), impl=repr(e),
                          broken="defect-class msd/renamed-columns",
                          signature=dict(fn="emsd", what="renamed-columns-exception"))
            return
        res.stat("renamed_columns_compared")
        back = {}
        for a, b in zip(new, cols0):
            back["<%s>" % a] = "<%s>" % b
            back["<%s^2>" % a] = "<%s^2>" % b
        em1 = em1.rename(columns=back)
        bad = None
        if list(em1.columns) != list(em0.columns) or len(em1) != len(em0):
            bad = "emsd: columns/rows change (%s)" % list(em1.columns)
        else:
            for name, a, b in (("emsd", em0, em1), ("imsd", im0, im1)):
                va, vb = a.values.astype(float), b.values.astype(float)
                if va.shape != vb.shape or not ((np.isnan(va) & np.isnan(vb))
                                                | np.isclose(va, vb, rtol=1e-12, atol=0)).all():
                    bad = "%s values differ" % name
                    break
        if bad:
            res.violation("property-violation", "position columns called %s instead of %s: %s"
                          % (new, cols0, bad), impl=bad, broken="defect-class msd/renamed-columns",
                          signature=dict(fn="emsd", what="renamed-columns"))
            return
    for k in shifts:
        tab = df.copy()
        tab["frame"] = tab["frame"] + k
        try:
            em1, im1 = run(tab)
        except Exception as e:
            res.violation("property-violation", "frames renumbered by %+d: %s: %s (no exception "
                          "with the original numbering)" % (k, type(e).__name__, e), impl=repr(e),
                          broken="defect-class msd/frame-shift",
                          signature=dict(fn="emsd", what="frame-shift-exception"))
            return
        res.stat("frame_shift_compared")
        bad = None
        for name, a, b in (("emsd", em0, em1), ("imsd", im0, im1)):
            if list(a.index.values) != list(b.index.values) and not (
                    len(a) == len(b) and np.allclose(np.asarray(a.index.values, float),
                                                     np.asarray(b.index.values, float), rtol=1e-12)):
                bad = "%s: the lags listed change (%d vs %d rows)" % (name, len(a), len(b))
                break
            if list(a.columns) != list(b.columns):
                bad = "%s: columns change" % name
                break
            va, vb = a.values.astype(float), b.values.astype(float)
            ok = (np.isnan(va) & np.isnan(vb)) | np.isclose(va, vb, rtol=1e-9, atol=0)
            if not ok.all():
                i, j = [int(x[0]) for x in np.where(~ok)]
                bad = ("%s: row %d column %s is %r, with the original numbering %r"
                       % (name, i, a.columns[j], vb[i, j], va[i, j]))
                break
        if bad:
            res.violation("property-violation",
                          "frames renumbered by %+d (same trajectories): %s" % (k, bad),
                          impl=bad, broken="defect-class msd/frame-shift",
                          signature=dict(fn="emsd", what="frame-shift"))
            return


def _check_ensemble(ctx, inp, res, df, per, hdr, cols, pos_columns, mpp, fps, ML):
    from trackpy.motion import imsd, emsd
    d = inp["d"]
    pids = sorted(per)
    all_ok = all(per[p]["ok"] for p in pids)
    causes = sorted({per[p]["cause"] for p in pids if per[p]["cause"]})
    # model
    body = " ; ".join("%d %d %s" % (int(r["particle"]), int(r["frame"]),
                                    " ".join(common.rat_str(Fraction(float(r[c]))) for c in cols))
                      for r in df.to_dict("records"))
    m = common.kv(ctx.ask("ENS " + hdr + " | " + body))
    if "ids" not in m:
        res.violation("harness-error", "model returned %r" % m)
        return
    mids = [int(t) for t in m["ids"].split(",")] if m["ids"] else []
    nlag = int(m["nlag"])

    def o(t):
        return NAN if t == "nan" else Fraction(t)
    mimsd = [] if m["imsd"] == "-" else [[o(t) for t in g.split(",")] for g in m["imsd"].split(";")]
    memsd = []
    if m["emsd"] != "-":
        for g in m["emsd"].split(";"):
            a, b, c, n = g.split(":")
            memsd.append(dict(disp=[o(t) for t in a.split(",")], sqd=[o(t) for t in b.split(",")],
                              msd=o(c), N=Fraction(n)))
    if mids != pids:
        res.violation("harness-error", "model ids %s != %s" % (mids, pids))
        return
    maxL = max([min(ML, per[p]["span"]) for p in pids] + [0])
    if nlag != maxL:
        res.violation("harness-error", "model nlag %d != %d" % (nlag, maxL))
        return
    if maxL == 0:
        res.stat("ensemble_without_lags")
        return
    tol = Fraction(1, 10 ** 7)
    scale = max([abs(Fraction(x, 8) * mpp) ** 2 for p in inp["particles"] for _, pos in p["rows"]
                 for x in pos] + [0])
    slack = Fraction(1, 10 ** 10) * scale

    # ---------------- imsd
    stat = inp.get("statistic", "msd")
    if stat not in ["msd"] + ["<%s>" % c for c in cols] + ["<%s^2>" % c for c in cols]:
        stat = "msd"

    def oracle_stat(o_):
        if stat == "msd":
            return o_["msd"]
        c = cols.index(stat.strip("<>^2"))
        return o_["sqd"][c] if stat.endswith("^2>") else o_["disp"][c]
    try:
        im = imsd(df, _mpp_arg(inp, mpp), float(fps), ML, statistic=stat, pos_columns=pos_columns)
    except Exception as e:
        im = None
        res.violation("property-violation", "imsd raised %s: %s" % (type(e).__name__, e),
                      impl=repr(e), broken="defect-class imsd/exception",
                      signature=dict(fn="imsd", what="exception", cause=",".join(causes) or "own"))
    if im is not None:
        res.stat("imsd_checked")
        bad = []
        idx = [fnum(v) for v in im.index.values]
        for i, lagt in enumerate(idx):
            lag = i + 1
            if not close(lagt, Fraction(lag) / fps, Fraction(1, 10 ** 12)):
                bad.append((lag, "index", str(lagt), str(Fraction(lag) / fps)))
        for p in pids:
            orc = per[p]["oracle"]
            if p not in im.columns:
                if orc:
                    bad.append((0, "missing-particle-%d" % p, None, None))
                continue
            colv = [fnum(v) for v in im[p].values]
            for lag in range(1, max(len(colv), maxL) + 1):
                got = colv[lag - 1] if lag <= len(colv) else "absent"
                exp = oracle_stat(orc[lag]) if lag in orc else NAN
                if got == "absent":
                    if exp is not NAN:
                        bad.append((lag, p, "absent", float(exp)))
                elif not close(got, exp, tol, slack):
                    bad.append((lag, p, None if got is NAN else float(got),
                                None if exp is NAN else float(exp)))
        if bad:
            cause = ",".join(causes) if not all_ok else "own"
            disp_stat = stat in ["<%s>" % c for c in cols]
            res.violation("correspondence-break" if disp_stat else "property-violation",
                          "imsd[%s]: lag %s particle %s is %r, per-particle definition gives %r "
                          "(%d bad cells)" % (stat, bad[0][0], bad[0][1], bad[0][2], bad[0][3], len(bad)),
                          impl=[list(map(str, b)) for b in bad[:6]], model=m["imsd"][:300],
                          broken="MSD.imsdCell (mean displacement statistic)" if disp_stat
                          else ("defect-class imsd/value" if cause == "own" else "defect-class msd/" + cause),
                          signature=dict(fn="imsd", what="value", cause=cause))
        elif stat == "msd":
            # correspondence with the model matrix
            for lag in range(1, maxL + 1):
                for j, p in enumerate(pids):
                    got = fnum(im[p].values[lag - 1]) if (p in im.columns and lag <= len(im)) else NAN
                    if not close(got, mimsd[lag - 1][j], tol, slack):
                        res.violation("correspondence-break",
                                      "imsd cell lag %d particle %d: %r vs model %r"
                                      % (lag, p, got, mimsd[lag - 1][j]), impl=str(got),
                                      model=str(mimsd[lag - 1][j]), broken="MSD.imsdCell",
                                      signature=dict(fn="imsd", what="model-cell"))
                        break

    # ---------------- emsd
    if not all(per[p]["N"] or not min(ML, per[p]["span"]) for p in pids) or "exception" in causes:
        res.stat("emsd_skipped_msd_raised")
        return
    for detail in (True, False):
        try:
            em = emsd(df, _mpp_arg(inp, mpp), float(fps), ML, detail=detail, pos_columns=pos_columns)
        except Exception as e:
            res.violation("property-violation", "emsd(detail=%s) raised %s: %s"
                          % (detail, type(e).__name__, e), impl=repr(e),
                          broken="defect-class emsd/exception",
                          signature=dict(fn="emsd", what="exception", cause=",".join(causes) or "own"))
            continue
        res.stat("emsd_checked")
        bad = []
        noncontrib_lag = False
        if detail:
            lags = [int(v) for v in em.index.values]
            recs = em.to_dict("records")
        else:
            lags = list(range(1, len(em) + 1))
            recs = [dict(msd=v, lagt=t) for t, v in zip(em.index.values, em.values)]
        for lag in range(1, maxL + 1):
            if lag not in lags:
                if any(lag in per[p]["oracle"] for p in pids):
                    bad.append((lag, "missing-lag", None, None))
                continue
            r = recs[lags.index(lag)]
            contrib = [p for p in pids if lag in per[p]["oracle"]]
            rowonly = [p for p in pids if lag not in per[p]["oracle"] and lag in per[p]["N"]]
            if rowonly:
                noncontrib_lag = True
                res.stat("emsd_lags_with_noncontributing_particle")
            if not contrib:
                res.stat("emsd_lags_without_any_pair")
            if any(lag not in per[p]["N"] for p in contrib):
                res.stat("emsd_lags_skipped_msd_row_missing")   # already reported for msd
                continue
            wsum = sum(per[p]["N"][lag] for p in contrib) if contrib else None
            names = [("msd", lambda o_: o_["msd"])]
            if detail:
                for c in range(d):
                    names.append(("<%s>" % cols[c], lambda o_, c=c: o_["disp"][c]))
                    names.append(("<%s^2>" % cols[c], lambda o_, c=c: o_["sqd"][c]))
            for name, get in names:
                exp = (sum(per[p]["N"][lag] * get(per[p]["oracle"][lag]) for p in contrib) / wsum
                       if contrib else NAN)
                got = fnum(r[name])
                if not close(got, exp, tol, slack):
                    bad.append((lag, name, None if got in (NAN, "inf") else float(got),
                                None if exp is NAN else float(exp), bool(rowonly)))
            if not close(fnum(r["lagt"]), Fraction(lag) / fps, Fraction(1, 10 ** 9)):
                bad.append((lag, "lagt", r["lagt"], float(Fraction(lag) / fps), bool(rowonly)))
        if bad:
            if not all_ok:
                what, cause = "value", ",".join(causes)
            elif all(len(b) > 4 and b[4] for b in bad):
                what, cause = "noncontributing-weight", "own"
            else:
                what, cause = "value", "own"
            only_disp = all(b[1] in ["<%s>" % c for c in cols] for b in bad)
            res.violation("correspondence-break" if only_disp else "property-violation",
                          "emsd(detail=%s): lag %s column %s is %r, weighted mean over contributing "
                          "particles gives %r (%d bad cells)"
                          % (detail, bad[0][0], bad[0][1], bad[0][2], bad[0][3], len(bad)),
                          impl=[list(map(str, b)) for b in bad[:6]], model=m["emsd"][:300],
                          broken="MSD.emsdAt (mean displacement column)" if only_disp
                          else ("defect-class emsd/" + what if cause == "own" else "defect-class msd/" + cause),
                          signature=dict(fn="emsd", what=what, cause=cause))
        elif detail:
            for lag in range(1, maxL + 1):
                if lag not in lags:
                    continue
                r = recs[lags.index(lag)]
                mm = memsd[lag - 1]
                mism = None
                if not close(fnum(r["msd"]), mm["msd"], tol, slack):
                    mism = ("msd", r["msd"], mm["msd"])
                elif not close(fnum(r["N"]), mm["N"], Fraction(1, 10 ** 9)):
                    mism = ("N", r["N"], mm["N"])
                else:
                    for c in range(d):
                        if not close(fnum(r["<%s>" % cols[c]]), mm["disp"][c], tol, slack) or \
                           not close(fnum(r["<%s^2>" % cols[c]]), mm["sqd"][c], tol, slack):
                            mism = (cols[c], r["<%s^2>" % cols[c]], mm["sqd"][c])
                if mism:
                    res.violation("correspondence-break",
                                  "emsd lag %d column %s: %r vs model %s" % (lag, mism[0], mism[1], mism[2]),
                                  impl=str(mism[1]), model=str(mism[2]), broken="MSD.emsdAt / emsdN",
                                  signature=dict(fn="emsd", what="model-cell"))
                    break
