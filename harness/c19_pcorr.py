"""C19 pair-correlation and edge-correction streams (see harness/c19.py).

pcorr : pair_correlation_2d/3d (explicit boundary, fraction=1, default max_rel_ndensity) against
        (a) the model `PCORR` with the code's own arclen/area values as the abstract `arc`
            (tolerance 1e-9 relative),
        (b) a brute-force oracle whose 2-D edge correction is computed by angle-interval
            arithmetic, independent of the code's formulas (tolerance 1e-6),
        (c) the code itself on a permuted and on a translated copy (tolerance 1e-9).
gr    : the public signatures with all keyword options on inhomogeneous point sets against a
        brute-force g(r) over ALL pairs within the cutoff (2-D arcs by vectorised angle-interval
        arithmetic, 3-D areas from the code's own area_3d_bounded); the documented RuntimeError
        "too many particle pairs" is answered by doubling max_rel_ndensity and must be justified.
arc   : arclen_2d_bounded against angle-interval arithmetic (1e-6 of the full circle),
        area_3d_bounded against slice quadrature (1e-4 of the full sphere; supporting evidence).
arcfn : function mode for the 2-D edge correction: circle_cap_arclen, circle_corner_arclen and
        arclen_2d_bounded (batch and single-pair path) against the Lean model Model/Arc.lean run at
        Float (`ARCCAP`, `ARCCORNER`, `ARC2D`; doubles travel as bit patterns; 1e-12 relative) AND
        against angle-interval arithmetic (1e-6).  The model's definitions, instantiated at the
        reals, are the subject of the theorems of Props/C19Arc.lean.
"""
import struct
import math
from fractions import Fraction

import numpy as np

from . import common
from .common import Result

F = Fraction


def fr(s):
    return Fraction(s)


def rs(x):
    return common.rat_str(x)


# ------------------------------------------------------------------------------------------
# independent geometry

def inside_angle(px, py, r, box, eps=None):
    """total angle (radians) of the circle of radius r around (px, py) lying inside the closed
    rectangle box = ((xmin, xmax), (ymin, ymax)); crossing angles + midpoint tests
    (`eps`: slack of the midpoint test; default 1e-12 * max(1, r))"""
    (x0, x1), (y0, y1) = box
    crit = [-math.pi, math.pi]
    for c in ((x0 - px) / r, (x1 - px) / r):
        if -1 < c < 1:
            a = math.acos(c)
            crit += [a, -a]
    for s in ((y0 - py) / r, (y1 - py) / r):
        if -1 < s < 1:
            a = math.asin(s)
            crit += [a, math.pi - a if a >= 0 else -math.pi - a]
    crit = sorted(set(crit))
    tot = 0.0
    if eps is None:
        eps = 1e-12 * max(1.0, r)
    for a, b in zip(crit[:-1], crit[1:]):
        if b - a <= 0:
            continue
        m = 0.5 * (a + b)
        x, y = px + r * math.cos(m), py + r * math.sin(m)
        if x0 - eps <= x <= x1 + eps and y0 - eps <= y <= y1 + eps:
            tot += b - a
    return tot


def sphere_area_inside(p, r, box, order=24):
    """area of the sphere part inside the box: A = r * integral over z of the inside angle of the
    horizontal circle (Archimedes), composite Gauss-Legendre between the kinks"""
    px, py, pz = p
    (x0, x1), (y0, y1), (z0, z1) = box
    lo, hi = max(z0, pz - r), min(z1, pz + r)
    if hi <= lo:
        return 0.0
    # kinks: heights where the horizontal radius meets a side or a corner distance
    ds = [abs(px - x0), abs(x1 - px), abs(py - y0), abs(y1 - py)]
    ds += [math.hypot(a, b) for a in ds[:2] for b in ds[2:]]
    br = {lo, hi}
    for d in ds:
        if d < r:
            dz = math.sqrt(r * r - d * d)
            for z in (pz - dz, pz + dz):
                if lo < z < hi:
                    br.add(z)
    for z in (pz - r, pz + r):
        if lo < z < hi:
            br.add(z)
    br = sorted(br)
    xs, ws = np.polynomial.legendre.leggauss(order)
    tot = 0.0
    for a, b in zip(br[:-1], br[1:]):
        # substitution z = a + (b-a) * (1 - cos(t))/2 smooths the sqrt end-point behaviour
        for x, w in zip(xs, ws):
            t = 0.5 * math.pi * (x + 1)
            z = a + (b - a) * 0.5 * (1 - math.cos(t))
            jac = (b - a) * 0.5 * math.sin(t) * 0.5 * math.pi
            rho2 = r * r - (z - pz) ** 2
            if rho2 <= 0:
                continue
            tot += w * jac * inside_angle(px, py, math.sqrt(rho2), ((x0, x1), (y0, y1)))
    return r * tot


# ------------------------------------------------------------------------------------------
# generation

def gen_pcorr(rng):
    dim = rng.choice([2, 2, 3])
    L = [rng.choice([16, 24, 32, 48]) for _ in range(dim)]        # box size in 1/8
    org = [rng.randint(-16, 16) for _ in range(dim)]
    n = rng.choice([4, 6, 10, 16, 25]) if dim == 2 else rng.choice([4, 6, 10, 14])
    pts = []
    for _ in range(n):
        r = rng.random()
        p = [org[a] + rng.randint(0, L[a]) for a in range(dim)]
        if r < 0.25:                         # on a side / edge / corner of the box
            for a in range(dim):
                if rng.random() < 0.6:
                    p[a] = org[a] + rng.choice([0, L[a]])
        elif r < 0.33 and pts:               # duplicate
            p = list(rng.choice(pts))
        elif r < 0.40:                       # outside the box (must be disregarded)
            a = rng.randrange(dim)
            p[a] = org[a] + rng.choice([-1, -8, L[a] + 1, L[a] + 8])
        pts.append(p)
    dr = rng.choice([2, 4, 8])               # 1/8 units (dyadic)
    cutoff = rng.choice([dr * rng.randint(1, 6), rng.randint(4, 2 * max(L))])
    return dict(stream="pcorr", dim=dim, box=[["%d/8" % org[a], "%d/8" % (org[a] + L[a])]
                                              for a in range(dim)],
                pts=[["%d/8" % v for v in p] for p in pts], cutoff="%d/8" % cutoff,
                dr="%d/8" % dr, ndensity=rng.choice([None, None, "3/8", "2"]),
                handle_edge=rng.random() < 0.9, perm=rng.randint(0, 10 ** 6),
                shift=["%d/8" % rng.randint(-40, 40) for _ in range(dim)])


def gen_arc(rng):
    dim = rng.choice([2, 2, 3])
    L = [rng.choice([8, 16, 24, 40]) for _ in range(dim)]
    org = [rng.randint(-16, 16) for _ in range(dim)]
    m = rng.randint(1, 6)
    items = []
    for _ in range(m):
        p = [org[a] + rng.randint(0, L[a]) for a in range(dim)]
        for a in range(dim):
            if rng.random() < 0.3:
                p[a] = org[a] + rng.choice([0, L[a]])
        kind = rng.random()
        if kind < 0.6:
            r = rng.randint(1, max(L))
        elif kind < 0.85:
            r = rng.randint(max(L), 2 * max(L))        # larger than the box
        else:
            r = rng.randint(1, 4)
        items.append([p, r])
    return dict(stream="arc", dim=dim, box=[["%d/8" % org[a], "%d/8" % (org[a] + L[a])]
                                            for a in range(dim)],
                items=[[["%d/8" % v for v in p], "%d/8" % r] for p, r in items])


def gen_arcfn(rng):
    """(box, [(x, y, r)]) as float.hex strings: grid values, generic doubles, and radii placed ON
    and one ulp around the two kinds of mask thresholds (h == r, h1^2 + h2^2 == r^2)"""
    kind = rng.choice(["grid", "generic", "generic", "critical", "critical"])
    if kind == "grid":
        L = [rng.choice([8, 16, 24, 40]) / 8.0 for _ in range(2)]
        org = [rng.randint(-16, 16) / 8.0 for _ in range(2)]
    else:
        L = [rng.choice([1.0, 3.0, 10.0, 512.0]) * (0.25 + rng.random()) for _ in range(2)]
        org = [rng.uniform(-100, 100) if rng.random() < 0.5 else 0.0 for _ in range(2)]
    box = [[org[a], org[a] + L[a]] for a in range(2)]
    L = [box[a][1] - box[a][0] for a in range(2)]
    items = []
    for _ in range(rng.randint(1, 6)):
        if kind == "grid":
            p = [box[a][0] + rng.randint(0, int(L[a] * 8)) / 8.0 for a in range(2)]
        else:
            p = [min(max(box[a][0] + rng.random() * L[a], box[a][0]), box[a][1]) for a in range(2)]
        for a in range(2):
            u = rng.random()
            if u < 0.12:
                p[a] = box[a][0]
            elif u < 0.24:
                p[a] = box[a][1]
        h = [p[0] - box[0][0], box[0][1] - p[0], p[1] - box[1][0], box[1][1] - p[1]]
        u = rng.random()
        diag = math.hypot(L[0], L[1])
        if kind == "critical":
            if u < 0.5:
                r = rng.choice(h)                                  # circle tangent to a side
            else:
                r = math.hypot(rng.choice(h[:2]), rng.choice(h[2:]))   # circle through a corner
            v = rng.random()
            if v < 0.3:
                r = math.nextafter(r, math.inf)
            elif v < 0.6:
                r = math.nextafter(r, 0.0)
            elif v < 0.8:
                r = r * (1 + rng.choice([-1, 1]) * 10.0 ** rng.randint(-12, -3))
        elif u < 0.68:
            r = rng.random() * max(L)
        elif u < 0.8:
            r = max(L) * (1 + rng.random())                        # larger than the box
        elif u < 0.9:
            r = diag * (1 + rng.choice([-1, 1]) * 10.0 ** rng.randint(-9, -2))
        else:
            r = max(L) * 10.0 ** rng.randint(-6, -1)
        if kind == "grid" and u >= 0.5 and rng.random() < 0.7:
            r = max(1, round(r * 8)) / 8.0
        if not (r >= 1e-7 * max(L)) or not math.isfinite(r):    # no degenerate (zero/denormal) radii
            r = max(L) / 8.0
        items.append([p[0], p[1], r])
    return dict(stream="arcfn", kind=kind, box=[[float(v).hex() for v in b] for b in box],
                items=[[float(v).hex() for v in it] for it in items])


# ------------------------------------------------------------------------------------------
# gr stream: the public signatures of pair_correlation_2d/3d on inhomogeneous point sets

GQ = 1024            # coordinates are integers / 1024: sums, differences and translations are float-exact


def _blob(rng, dim, c, rad, m):
    """m points uniform in the ball of radius `rad` around c"""
    out = []
    while len(out) < m:
        v = [rng.uniform(-1, 1) for _ in range(dim)]
        if sum(t * t for t in v) <= 1:
            out.append([c[a] + rad * v[a] for a in range(dim)])
    return out


def gen_gr(rng):
    """point set classes: uniform / one aggregate in a dilute background / two clusters of very
    different density / a dense line / a jittered lattice; options of the public signature:
    boundary given or automatic, ndensity, max_rel_ndensity, fraction = 1 explicitly, p_indices,
    handle_edge, dr dividing the cutoff or not (or larger than it), cutoff larger than the box"""
    dim = rng.choice([2, 2, 2, 3])
    kind = rng.choice(["uniform", "aggregate", "aggregate", "two_clusters", "line", "lattice"])
    L = [rng.choice([6.0, 10.0, 20.0, 40.0]) * rng.uniform(0.7, 1.3) for _ in range(dim)]
    org = [rng.choice([0.0, rng.uniform(-50, 50)]) for _ in range(dim)]
    n = rng.choice([8, 20, 40, 80, 150]) if dim == 2 else rng.choice([8, 20, 40, 80])

    def unif(m):
        return [[rng.uniform(0, L[a]) for a in range(dim)] for _ in range(m)]

    def centre():
        c = [rng.uniform(0, L[a]) for a in range(dim)]
        for a in range(dim):
            u = rng.random()
            if u < 0.15:
                c[a] = 0.0                        # aggregate at a side / in a corner of the box
            elif u < 0.3:
                c[a] = L[a]
        return c
    scale = min(L)
    if kind == "uniform":
        pts = unif(n)
        rad = scale / 4
    elif kind == "aggregate":
        m = max(3, int(n * rng.choice([0.2, 0.4, 0.6, 0.8])))
        rad = scale * rng.choice([0.02, 0.05, 0.1, 0.2])
        pts = _blob(rng, dim, centre(), rad, m) + unif(max(3, n - m))
    elif kind == "two_clusters":
        m1 = max(3, int(n * rng.choice([0.3, 0.5, 0.6])))
        m2 = max(3, int(n * rng.choice([0.1, 0.2, 0.3])))
        rad = scale * rng.choice([0.03, 0.08, 0.15])
        pts = (_blob(rng, dim, centre(), rad, m1)
               + _blob(rng, dim, centre(), rad * rng.choice([1.0, 2.0, 4.0]), m2)
               + unif(max(3, n - m1 - m2)))
    elif kind == "line":
        m = max(3, int(n * rng.choice([0.4, 0.6, 0.8])))
        a0, a1 = centre(), centre()
        if rng.random() < 0.4:                    # parallel to an axis (possibly ON a side of the box)
            ax = rng.randrange(dim)
            a1 = [a1[a] if a == ax else a0[a] for a in range(dim)]
        jit = rng.choice([0.0, 0.01, 0.05]) * scale
        rad = scale * rng.choice([0.05, 0.1, 0.3])
        f = rng.choice([1.0, 0.3, 0.1])           # the dense part may be a short stretch of the segment
        pts = []
        for _ in range(m):
            t = rng.random() * f
            pts.append([a0[a] + t * (a1[a] - a0[a]) + rng.uniform(-jit, jit) for a in range(dim)])
        pts += unif(max(3, n - m))
    else:
        per = max(2, int(round(n ** (1.0 / dim))))
        sp = [L[a] / (per - 1) for a in range(dim)]
        jit = rng.choice([0.0, 0.0, 0.02, 0.2])
        pts = [[]]
        for a in range(dim):
            pts = [p + [k * sp[a]] for p in pts for k in range(per)]
        pts = [[p[a] + rng.uniform(-jit, jit) * sp[a] for a in range(dim)] for p in pts]
        rad = max(sp)
    def fold(v, hi_):                            # reflect at the sides of the generating box
        v = -v if v < 0 else v
        v = 2 * hi_ - v if v > hi_ else v
        return min(max(v, 0.0), hi_)
    pts = [[fold(p[a], L[a]) for a in range(dim)] for p in pts]
    for _ in range(rng.choice([0, 0, 0, 1, 3])):  # coincident particles
        pts.append(list(rng.choice(pts)))
    # boundary: automatic (bounding box of the particles) or given: exactly the generating box,
    # (some particles then sit on its sides / corners), a wider one, or one that cuts particles off
    bmode = rng.choice(["auto", "auto", "given", "given-corners", "given-wide", "given-cuts"])
    lo, hi = [0.0] * dim, list(L)
    if bmode == "given-corners":
        for _ in range(rng.randint(1, 3)):
            pts.append([rng.choice([0.0, L[a]]) for a in range(dim)])
    elif bmode == "given-wide":
        lo = [-rng.choice([0.0, 0.5, 3.0]) for _ in range(dim)]
        hi = [L[a] + rng.choice([0.0, 0.5, 3.0]) for a in range(dim)]
    elif bmode == "given-cuts":
        a = rng.randrange(dim)
        if rng.random() < 0.5:
            lo[a] = L[a] * rng.choice([0.05, 0.2])
        else:
            hi[a] = L[a] * rng.choice([0.95, 0.8])
    rng.shuffle(pts)
    ipts = [[int(round((org[a] + p[a]) * GQ)) for a in range(dim)] for p in pts]
    box = None if bmode == "auto" else [[int(round((org[a] + lo[a]) * GQ)),
                                         int(round((org[a] + hi[a]) * GQ))] for a in range(dim)]
    # cutoff: around the size of the dense structure, a few mean spacings, or larger than the box
    u = rng.random()
    if u < 0.45:
        cutoff = rad * rng.choice([0.5, 1.0, 2.0, 4.0])
    elif u < 0.9:
        vol = 1.0
        for a in range(dim):
            vol *= L[a]
        cutoff = (vol / len(pts)) ** (1.0 / dim) * rng.choice([1.0, 2.0, 3.0, 5.0])
    else:
        cutoff = math.sqrt(sum(v * v for v in L)) * rng.choice([0.6, 1.05, 1.3])
    cutoff *= rng.uniform(0.9, 1.1)
    u = rng.random()
    nb = rng.randint(2, 14)
    if u < 0.45:
        dr = cutoff / nb                                   # divides (up to rounding)
    elif u < 0.9:
        dr = cutoff / (nb + rng.uniform(0.1, 0.9))         # does not divide: partial last bin
    elif u < 0.95:
        dr = cutoff * rng.uniform(1.1, 3.0)                # a single bin wider than the cutoff
    else:
        dr = 0.5                                           # the default
    if rng.random() < 0.3:                                 # dyadic: bin edges are exact
        dr = max(1, round(dr * 64)) / 64.0
        cutoff = round(cutoff * 64) / 64.0 if rng.random() < 0.5 else cutoff
    if cutoff / dr > 60:
        dr = cutoff / 60
    nall = len(ipts)
    p_indices, p_kind = None, None
    if bmode != "given-cuts" and rng.random() < 0.35:
        k = rng.choice([1, 2, max(1, nall // 4), max(1, nall // 2), nall])
        p_indices = rng.sample(range(nall), k)
        if rng.random() < 0.5:
            p_indices.sort()
        p_kind = rng.choice(["list", "array"])
    return dict(stream="gr", dim=dim, kind=kind, bmode=bmode, pts=ipts, box=box,
                cutoff=float(cutoff).hex(), dr=float(dr).hex(),
                ndensity_factor=rng.choice([None, None, None, 0.25, 0.5, 2.0, 4.0]),
                max_rel_ndensity=rng.choice([None, None, None, 1, 2, 3.5, 5, 20, 50]),
                fraction=rng.choice([None, None, 1.0, 1]), p_indices=p_indices, p_kind=p_kind,
                handle_edge=rng.random() < 0.85, index=rng.choice(["range", "offset", "shuffled"]),
                extra_col=rng.random() < 0.3, perm=rng.randint(0, 10 ** 6),
                shift=[rng.randint(-60 * GQ, 60 * GQ) for _ in range(dim)])


def gen_cases(ctx):
    for i in range(ctx.n(250, 4000)):
        yield gen_pcorr(ctx.rng("pcorr", i))
    for i in range(ctx.n(400, 6000)):
        yield gen_gr(ctx.rng("gr", i))
    for i in range(ctx.n(250, 4000)):
        yield gen_arc(ctx.rng("arc", i))
    for i in range(ctx.n(300, 6000)):
        yield gen_arcfn(ctx.rng("arcfn", i))


# ------------------------------------------------------------------------------------------
# pair correlation

COLS = ["x", "y", "z"]


def call_pcorr(static, dim, pts, box, cutoff, dr, nd, handle_edge):
    import pandas as pd
    f = pd.DataFrame({COLS[k]: [float(p[k]) for p in pts] for k in range(dim)})
    fn = static.pair_correlation_2d if dim == 2 else static.pair_correlation_3d
    bnd = tuple(float(v) for b in box for v in b)
    kw = dict(cutoff=float(cutoff), dr=float(dr), boundary=bnd, handle_edge=handle_edge)
    if nd is not None:
        kw["ndensity"] = float(nd)
    return fn(f, **kw)


def close(a, b, tol):
    if a is None or b is None:
        return a is None and b is None
    return abs(a - b) <= tol * max(1.0, abs(a), abs(b))


def run_pcorr_case(ctx, inp):
    from trackpy import static
    res = Result()
    res.stat("pcorr_cases")
    dim = inp["dim"]
    box = [[fr(a), fr(b)] for a, b in inp["box"]]
    pts = [[fr(v) for v in p] for p in inp["pts"]]
    cutoff, dr = fr(inp["cutoff"]), fr(inp["dr"])
    nd = None if inp["ndensity"] is None else fr(inp["ndensity"])
    he = inp["handle_edge"]
    inside = [p for p in pts if all(box[k][0] <= p[k] <= box[k][1] for k in range(dim))]
    n = len(inside)
    res.stat("pcorr_outside_rows", len(pts) - n)
    vol = 1
    for b in box:
        vol *= (b[1] - b[0])
    dens = nd if nd is not None else F(n - 1) / vol
    if n < 2 or dens <= 0:
        res.stat("pcorr_degenerate_skipped")
        return res
    nb = math.ceil(cutoff / dr)
    # documented failure mode: more neighbours than max_p_count -> RuntimeError; outside the claim
    ball = math.pi * float(nb * dr + dr) ** 2 if dim == 2 else 4. / 3 * math.pi * float(nb * dr + dr) ** 3
    max_p = int(ball * float(dens) * 10)
    c2 = cutoff * cutoff
    cnt = max(sum(1 for q in inside if sum((p[k] - q[k]) ** 2 for k in range(dim)) < c2)
              for p in inside)
    if cnt >= max_p or max_p < 2 or n * max_p > 1e8:
        res.stat("pcorr_neighbour_cap_skipped")
        return res

    def run(ptsv, boxv):
        try:
            edges, g = call_pcorr(static, dim, ptsv, boxv, cutoff, dr, nd, he)
        except Exception as e:  # noqa
            return ("raise", repr(e))
        return ("ok", [float(v) for v in edges], [None if math.isnan(v) else float(v) for v in g])
    out = run(pts, box)
    if out[0] != "ok":
        res.violation("property-violation", "pair_correlation raised " + out[1],
                      signature=dict(stream="pcorr", what="raises"))
        return res
    _, edges, g = out
    if len(g) != nb or any(abs(e - float(k * dr)) > 1e-12 for k, e in enumerate(edges)):
        res.violation("property-violation", "bin edges are not k*dr, k = 0..ceil(cutoff/dr)",
                      impl=edges, signature=dict(stream="pcorr", what="edges"))
        return res

    # samples (exact) -----------------------------------------------------------------------
    samp = []
    for p in inside:
        h = [v for k in range(dim) for v in (p[k] - box[k][0], box[k][1] - p[k])]
        for q in inside:
            d2 = sum((p[k] - q[k]) ** 2 for k in range(dim))
            if 0 < d2 < c2:
                samp.append((d2, tuple(h), tuple(p)))
    res.stat("pcorr_samples", len(samp))
    boxf = np.array([[float(a), float(b)] for a, b in box])
    keys = sorted({(d2, h, p) for d2, h, p in samp})
    code_arc = {}
    if keys:
        dist = np.array([math.sqrt(float(d2)) for d2, _, _ in keys])
        posa = np.array([[float(v) for v in p] for _, _, p in keys])
        if not he:
            vals = 2 * np.pi * dist if dim == 2 else 4 * np.pi * dist ** 2
        elif dim == 2:
            vals = static.arclen_2d_bounded(dist.copy(), posa, boxf)
        else:
            vals = static.area_3d_bounded(dist.copy(), posa, boxf)
        for (d2, h, p), v in zip(keys, vals):
            code_arc[(d2, h)] = None if math.isnan(v) else F(float(v))
    cut = sum(1 for (d2, h) in code_arc if any(hh * hh < d2 for hh in h))
    res.stat("pcorr_edge_corrected_keys", cut)

    # (a) model ------------------------------------------------------------------------------
    tbl = " ".join("%s|%s|%s" % (rs(d2), ",".join(rs(v) for v in h), "n" if w is None else rs(w))
                   for (d2, h), w in code_arc.items())
    line = "PCORR %s # %s # %s # %s # %s # %s" % (
        ";".join("%s,%s" % (rs(a), rs(b)) for a, b in box), rs(cutoff), rs(dr),
        "-" if nd is None else rs(nd), " ".join(",".join(rs(v) for v in p) for p in pts), tbl)
    m = common.kv(ctx.ask(line))
    res.model_calls += 1
    if "g" not in m or m.get("missing") != "0" or int(m["n"]) != n or int(m["samples"]) != len(samp):
        res.violation("harness-error", "model/harness sample sets differ: %r" % (m,))
        return res
    mg = [None if t == "n" else float(fr(t)) for t in m["g"].split(",")]

    # (b) oracle -----------------------------------------------------------------------------
    norm = float(dens) * n * float(dr)
    og = [0.0] * nb
    degenerate = [False] * nb
    for d2, h, p in samp:
        d = math.sqrt(float(d2))
        k = int(math.floor(d / float(dr) + 1e-12))
        if dim == 2 and he:
            a = d * inside_angle(float(p[0]), float(p[1]), d, [[float(v) for v in b] for b in box])
        else:
            w = code_arc[(d2, h)]
            a = 0.0 if w is None else float(w)
        if a < 1e-5 * d * (1 if dim == 2 else d):
            degenerate[k] = True              # the circle only touches the box: weight undefined
        else:
            og[k] += 1.0 / a
    og = [None if degenerate[k] else og[k] / norm for k in range(nb)]
    res.stat("pcorr_degenerate_bins", sum(degenerate))
    # np.histogram accumulates weights with a cumulative sum: a NaN weight (zero arc) in bin j turns
    # every bin >= j into NaN although those bins have a well-defined corrected histogram
    poisoned = [k for k in range(nb) if not degenerate[k] and g[k] is None and og[k] is not None
                and any(degenerate[:k])]
    if poisoned:
        res.violation("property-violation", "g[%d] is NaN although its corrected pair histogram is "
                      "%r: an undefined weight in lower bin %d poisons all higher bins"
                      % (poisoned[0], og[poisoned[0]], degenerate.index(True)), impl=g,
                      broken="pair_correlation: NaN weight in a lower bin",
                      signature=dict(stream="pcorr", what="nan-weight-poisons-later-bins"))
        for k in poisoned:
            degenerate[k] = True          # not compared any further
    bad = [k for k in range(nb) if not degenerate[k] and not close(g[k], og[k], 1e-6)]
    if bad:
        k = bad[0]
        res.violation("property-violation", "g[%d] = %r but the edge-corrected, density-normalised "
                      "pair histogram is %r" % (k, g[k], og[k]), impl=g, model=m,
                      signature=dict(stream="pcorr", what="g-value", dim=dim))
    else:
        badm = [k for k in range(nb) if not degenerate[k] and not close(g[k], mg[k], 1e-9)]
        if badm:
            res.violation("correspondence-break", "g[%d]: implementation %r, model %r"
                          % (badm[0], g[badm[0]], mg[badm[0]]), impl=g, model=m,
                          broken="pairCorr / paircorr_norm",
                          signature=dict(stream="pcorr", what="model-g", dim=dim))

    # (c) invariance on the code itself ---------------------------------------------------------
    import random
    order = list(range(len(pts)))
    random.Random(inp["perm"]).shuffle(order)
    outp = run([pts[i] for i in order], box)
    t = [fr(v) for v in inp["shift"]]
    outt = run([[p[k] + t[k] for k in range(dim)] for p in pts],
               [[b[0] + t[k], b[1] + t[k]] for k, b in enumerate(box)])
    for name, o in (("permutation", outp), ("translation", outt)):
        if o[0] != "ok" or len(o[2]) != nb or any(
                not degenerate[k] and not close(g[k], o[2][k], 1e-9) for k in range(nb)):
            res.violation("property-violation", "g(r) changes under %s of the particles" % name,
                          impl=dict(g=g, other=o), signature=dict(stream="pcorr",
                                                                  what=name + "-variant", dim=dim))
    nonempty = sum(1 for v in g if v not in (None, 0.0))
    res.stat("pcorr_nonempty_bins", nonempty)
    res.stat("pcorr_3d" if dim == 3 else "pcorr_2d")
    res.nontrivial = cut >= 1 and nonempty >= 2
    if res.nontrivial and not res.viol and dim == 2:
        res.sample = dict(stream="pcorr", n=n, cutoff=inp["cutoff"], dr=inp["dr"], g=g)
    return res


# ------------------------------------------------------------------------------------------
# gr stream: run + brute-force oracle (floats; independent of the Lean model)

def inside_angle_vec(px, py, r, box):
    """vectorised `inside_angle`: total angle of each circle (px[i], py[i], r[i]) inside the closed
    rectangle; crossing angles with the four side lines + midpoint tests"""
    (x0, x1), (y0, y1) = box
    m = len(r)
    crit = np.full((m, 10), -np.pi)
    crit[:, 1] = np.pi
    col = 2
    for c in ((x0 - px) / r, (x1 - px) / r):
        ok = (c > -1) & (c < 1)
        a = np.arccos(np.clip(c, -1, 1))
        crit[:, col] = np.where(ok, a, -np.pi)
        crit[:, col + 1] = np.where(ok, -a, -np.pi)
        col += 2
    for sv in ((y0 - py) / r, (y1 - py) / r):
        ok = (sv > -1) & (sv < 1)
        a = np.arcsin(np.clip(sv, -1, 1))
        crit[:, col] = np.where(ok, a, -np.pi)
        crit[:, col + 1] = np.where(ok, np.where(a >= 0, np.pi - a, -np.pi - a), -np.pi)
        col += 2
    crit.sort(axis=1)
    lo, hi = crit[:, :-1], crit[:, 1:]
    mid = 0.5 * (lo + hi)
    x = px[:, None] + r[:, None] * np.cos(mid)
    y = py[:, None] + r[:, None] * np.sin(mid)
    eps = 1e-12 * np.maximum(1.0, r)[:, None]
    ins = (x >= x0 - eps) & (x <= x1 + eps) & (y >= y0 - eps) & (y <= y1 + eps)
    return np.where(ins, hi - lo, 0.0).sum(axis=1)


TOO_MANY = "too many particle pairs"
GR_MAX_ARRAY = 4e6          # harness-side bound on len(pos) * max_p_count (the code's own is 1e8)


def _gr_call(static, dim, X, idx, extra, box, cutoff, dr, nd, mrd, fraction, p_indices, p_kind, he):
    import pandas as pd
    data = {COLS[k]: X[:, k] for k in range(dim)}
    if extra:
        data["mass"] = np.arange(len(X), dtype=float)
    f = pd.DataFrame(data, index=idx)
    fn = static.pair_correlation_2d if dim == 2 else static.pair_correlation_3d
    kw = dict(dr=dr, handle_edge=he)
    if box is not None:
        kw["boundary"] = tuple(float(v) for b in box for v in b)
    if nd is not None:
        kw["ndensity"] = nd
    if mrd is not None:
        kw["max_rel_ndensity"] = mrd
    if fraction is not None:
        kw["fraction"] = fraction
    if p_indices is not None:
        kw["p_indices"] = np.array(p_indices) if p_kind == "array" else list(p_indices)
    return fn(f, cutoff, **kw)


def run_gr_case(ctx, inp):
    import random
    from trackpy import static
    res = Result()
    res.stat("gr_cases")
    dim = inp["dim"]
    res.stat("gr_kind_" + inp["kind"])
    res.stat("gr_boundary_" + inp["bmode"])
    X = np.array(inp["pts"], dtype=float) / GQ
    cutoff, dr = float.fromhex(inp["cutoff"]), float.fromhex(inp["dr"])
    box = None if inp["box"] is None else [[b[0] / GQ, b[1] / GQ] for b in inp["box"]]
    he = inp["handle_edge"]
    nall = len(X)
    if inp["index"] == "range":
        idx = list(range(nall))
    elif inp["index"] == "offset":
        idx = list(range(100, 100 + nall))
    else:
        idx = random.Random(inp["perm"] + 1).sample(range(3 * nall + 5), nall)
    P0 = inp["p_indices"]

    def world(Xv, boxv):
        """(inside mask, effective box, density) of a particle table as the property reads it"""
        if boxv is None:
            eb = [[float(Xv[:, k].min()), float(Xv[:, k].max())] for k in range(dim)]
            ins = np.ones(len(Xv), bool)
        else:
            eb = boxv
            ins = np.all([(Xv[:, k] >= eb[k][0]) & (Xv[:, k] <= eb[k][1]) for k in range(dim)], axis=0)
        vol = 1.0
        for b in eb:
            vol *= b[1] - b[0]
        return ins, eb, vol
    ins, ebox, vol = world(X, box)
    n = int(ins.sum())
    res.stat("gr_outside_rows", nall - n)
    if n < 2 or not vol > 0:
        res.stat("gr_degenerate_skipped")
        return res
    natural = (n - 1) / vol
    nd = None if inp["ndensity_factor"] is None else inp["ndensity_factor"] * natural
    dens = natural if nd is None else nd
    Xin = X[ins]
    sel = np.arange(n) if P0 is None else np.array(P0)       # p_indices only without cut-off rows
    Psel = Xin[sel]
    # distances of every selected particle to every particle (the definition: ALL pairs)
    D = np.sqrt(((Psel[:, None, :] - Xin[None, :, :]) ** 2).sum(-1))
    within = D < cutoff
    cnt = within.sum(axis=1)                                   # includes the particle itself
    near_cut = bool((np.abs(D - cutoff) <= 1e-9 * cutoff).any())
    edges0 = np.arange(0, cutoff + dr, dr)

    def slots(mrd):
        ball = np.pi * (edges0.max() + dr) ** 2 if dim == 2 else (4. / 3.) * np.pi * (edges0.max() + dr) ** 3
        v = ball * dens * mrd
        # the code reserves at least two slots (the particle itself + one neighbour)
        return max(int(v), 2), abs(v - round(v)) < 1e-9 * max(1.0, v)
    mrd = inp["max_rel_ndensity"]
    mrd_eff = 10 if mrd is None else mrd
    k0, _ = slots(mrd_eff)
    if k0 <= 2:
        res.stat("gr_sparse_two_slots")       # a sample that is sparse for this cutoff (was a crash: §8.1)
    if len(sel) * k0 > GR_MAX_ARRAY:
        res.stat("gr_too_large_skipped")
        return res
    over0 = int((cnt >= k0).sum())
    if over0 and over0 < len(sel):
        res.stat("gr_first_call_partial_overflow")     # some, not all, particles exceed their slots
    elif over0:
        res.stat("gr_first_call_total_overflow")

    def attempt(Xv, idxv, boxv, ndv, pidx, mrd_first):
        """call as a user would: the documented RuntimeError 'too many particle pairs' is answered
        by doubling max_rel_ndensity; -> ('ok', edges, g, mrd used, refusals) | ('refused', …) |
        ('raise', repr)"""
        cur, refusals = mrd_first, []
        while True:
            eff = 10 if cur is None else cur
            k, k_border = slots(eff)
            if len(sel) * k > GR_MAX_ARRAY:
                return ("refused", refusals)
            try:
                e, g = _gr_call(static, dim, Xv, idxv, inp["extra_col"], boxv, cutoff, dr, ndv, cur,
                                inp["fraction"], pidx, inp["p_kind"], he)
                return ("ok", np.asarray(e, float), np.asarray(g, float), cur, refusals)
            except RuntimeError as ex:
                if TOO_MANY not in str(ex):
                    return ("raise", repr(ex))
                refusals.append((eff, k, k_border))
                cur = eff * 2
            except MemoryError as ex:                      # documented as well; never expected here
                return ("raise", repr(ex))
            except Exception as ex:  # noqa
                return ("raise", repr(ex))
    out = attempt(X, idx, box, nd, P0, mrd)
    if out[0] == "raise":
        res.violation("property-violation", "pair_correlation_%dd raised %s" % (dim, out[1]),
                      signature=dict(stream="gr", what="raises", dim=dim))
        return res
    refusals = out[-1]
    res.stat("gr_refusals", len(refusals))
    if refusals:
        res.stat("gr_cases_refused_at_first")
    # a refusal is the documented answer only when some selected particle has at least max_p_count
    # particles (itself included) within the cutoff
    for eff, k, k_border in refusals:
        if not k_border and not near_cut and not (cnt >= k).any():
            res.violation("property-violation", "RuntimeError 'too many particle pairs' at "
                          "max_rel_ndensity=%r (max_p_count=%d) although no particle has more than %d "
                          "particles within the cutoff (itself included)" % (eff, k, int(cnt.max())),
                          signature=dict(stream="gr", what="unjustified-refusal", dim=dim))
            return res
    if out[0] == "refused":
        res.stat("gr_never_returned")
        return res
    _, edges, g, mrd_used, _ = out
    nb = len(edges) - 1
    # ---- bin edges: 0, dr, 2 dr, ... reaching the cutoff with at most one bin beyond it -------
    ok_edges = (nb >= 1 and len(g) == nb and edges[0] == 0
                and np.all(np.abs(np.diff(edges) - dr) <= 1e-9 * dr)
                and edges[-1] >= cutoff * (1 - 1e-9)
                and (nb < 2 or edges[-2] <= cutoff * (1 + 1e-9)))
    if not ok_edges:
        res.violation("property-violation", "bin edges are not 0, dr, 2 dr, ... up to the first "
                      "edge >= cutoff (cutoff=%r dr=%r)" % (cutoff, dr), impl=[float(v) for v in edges],
                      signature=dict(stream="gr", what="edges", dim=dim))
        return res
    # ---- brute-force g(r) over ALL ordered pairs (selected particle, any particle), 0 < d < cutoff
    ii, jj = np.nonzero(within & (D > 0))
    d = D[ii, jj]
    res.stat("gr_pairs", len(d))
    res.stat("gr_coincident_pairs", int(((D == 0).sum() - len(sel))))
    ebf = [[float(v) for v in b] for b in ebox]
    if not he:
        arc = 2 * np.pi * d if dim == 2 else 4 * np.pi * d ** 2
        undefined = np.zeros(len(d), bool)
        shaky = undefined
    elif dim == 2:
        arc = d * inside_angle_vec(Psel[ii, 0], Psel[ii, 1], d, ebf) if len(d) else d
        undefined = arc < 1e-6 * d                 # the code's own threshold is 1e-5 d
        shaky = (arc >= 1e-6 * d) & (arc < 1e-3 * d)
    else:
        # 3-D: the code's own area_3d_bounded (checked against quadrature in the `arc` stream)
        arc = static.area_3d_bounded(d.copy(), Psel[ii], np.array(ebf)) if len(d) else d
        undefined = np.isnan(arc)
        shaky = (~undefined) & (arc < 1e-5 * d ** 2)
    kbin = np.minimum(np.searchsorted(edges, d, side="right") - 1, nb - 1)
    skip = np.zeros(nb, bool)                       # bins not judged (float-borderline membership)
    for k in range(nb + 1):
        hit = np.abs(d - edges[k]) <= 1e-9 * max(1.0, edges[k])
        if hit.any():
            skip[max(k - 1, 0)] = True
            skip[min(k, nb - 1)] = True
    if near_cut:
        skip[min(int(np.searchsorted(edges, cutoff, side="right")) - 1, nb - 1)] = True
        if nb >= 2 and abs(edges[-2] - cutoff) <= 1e-9 * cutoff:
            skip[nb - 2] = True
    for k in set(kbin[shaky].tolist()):
        skip[k] = True
    res.stat("gr_bins", nb)
    res.stat("gr_bins_not_judged", int(skip.sum()))
    good = ~undefined
    og = np.zeros(nb)
    np.add.at(og, kbin[good], 1.0 / arc[good])
    og /= dens * len(sel) * dr
    undef_bin = np.zeros(nb, bool)
    undef_bin[kbin[undefined]] = True
    res.stat("gr_undefined_bins", int(undef_bin.sum()))
    if edges[-1] > cutoff * (1 + 1e-9):
        res.stat("gr_partial_last_bin")
    npairs_bin = np.bincount(kbin, minlength=nb)

    def compare(gv, what, label):
        for k in range(nb):
            if skip[k]:
                continue
            if undef_bin[k]:
                if not math.isnan(gv[k]):
                    res.violation("property-violation", "%sbin [%g, %g) holds a pair whose circle/"
                                  "sphere has no measurable part inside the box (undefined weight) "
                                  "but g = %r is reported" % (label, edges[k], edges[k + 1], gv[k]),
                                  impl=[None if math.isnan(v) else float(v) for v in gv],
                                  signature=dict(stream="gr", what="undefined-bin-finite", dim=dim))
                    return False
                continue
            if math.isnan(gv[k]) or not close(float(gv[k]), float(og[k]), 1e-6):
                res.violation("property-violation", "%sg(r) in bin [%g, %g) (%d ordered pairs within "
                              "the cutoff) is %r but the edge-corrected pair histogram normalised by "
                              "density, N and dr is %r (kind=%s n=%d max_rel_ndensity=%r after %d "
                              "refusal(s))" % (label, edges[k], edges[k + 1], npairs_bin[k],
                                               float(gv[k]), float(og[k]), inp["kind"], n, mrd_used,
                                               len(refusals)),
                              impl=[None if math.isnan(v) else float(v) for v in gv],
                              model=[float(v) for v in og],
                              signature=dict(stream="gr", what=what, dim=dim))
                return False
        return True
    if compare(g, "g-value", ""):
        # ---- invariance: permuted rows, translated particles (float-exact on the 1/1024 grid) ----
        order = list(range(nall))
        random.Random(inp["perm"]).shuffle(order)
        Xp = X[order]
        pos_of = {old: new for new, old in enumerate(order)}
        Pp = None if P0 is None else [pos_of[i] for i in P0]
        t = np.array(inp["shift"], dtype=float) / GQ
        Xt = X + t
        boxt = None if box is None else [[b[0] + t[k], b[1] + t[k]] for k, b in enumerate(box)]
        for name, o in (("permutation", attempt(Xp, [idx[i] for i in order], box, nd, Pp, mrd_used)),
                        ("translation", attempt(Xt, idx, boxt, nd, P0, mrd_used))):
            if o[0] != "ok" or o[4] or len(o[2]) != nb:
                res.violation("property-violation", "after a %s of the particles the call no longer "
                              "returns a g(r) of the same shape (%s)" % (name, o[0]),
                              signature=dict(stream="gr", what=name + "-variant", dim=dim))
            elif not compare(o[2], name + "-variant", "after a %s of the particles: " % name):
                pass
    judged = ~skip & ~undef_bin
    nonempty = int((judged & (og > 0)).sum())
    res.stat("gr_nonempty_bins_judged", nonempty)
    res.stat("gr_3d" if dim == 3 else "gr_2d")
    for name, on in (("gr_opt_ndensity", nd is not None), ("gr_opt_max_rel_ndensity", mrd is not None),
                     ("gr_opt_fraction_1", inp["fraction"] is not None),
                     ("gr_opt_p_indices", P0 is not None), ("gr_opt_no_edge", not he),
                     ("gr_cutoff_exceeds_box", cutoff > max(b[1] - b[0] for b in ebox)),
                     ("gr_single_bin", nb == 1)):
        if on:
            res.stat(name)
    if he and len(d):
        h = np.concatenate([Psel[ii] - np.array([b[0] for b in ebf]),
                            np.array([b[1] for b in ebf]) - Psel[ii]], axis=1)
        res.stat("gr_edge_corrected_pairs", int((h.min(axis=1) < d).sum()))
    res.nontrivial = nonempty >= 2
    if res.nontrivial and not res.viol and refusals and dim == 2:
        res.sample = dict(stream="gr", kind=inp["kind"], n=n, cutoff=cutoff, dr=dr,
                          refusals=[r[:2] for r in refusals], g=[None if math.isnan(v) else float(v)
                                                                 for v in g])
    return res


# ------------------------------------------------------------------------------------------
# edge correction

def run_arc_case(ctx, inp):
    from trackpy import static
    res = Result()
    res.stat("arc_cases")
    dim = inp["dim"]
    box = [[float(fr(a)), float(fr(b))] for a, b in inp["box"]]
    items = [([float(fr(v)) for v in p], float(fr(r))) for p, r in inp["items"]]
    dist = np.array([r for _, r in items])
    pos = np.array([p for p, _ in items])
    boxa = np.array(box)
    try:
        if dim == 2:
            got = static.arclen_2d_bounded(dist.copy(), pos, boxa)
        else:
            got = static.area_3d_bounded(dist.copy(), pos, boxa)
    except Exception as e:  # noqa
        res.violation("property-violation", "edge correction raised %r" % e,
                      signature=dict(stream="arc", what="raises", dim=dim))
        return res
    # a single item goes through the `_protect_mask` special case: run the first one alone too
    if dim == 2:
        got1 = static.arclen_2d_bounded(dist[:1].copy(), pos[:1], boxa)
    else:
        got1 = static.area_3d_bounded(dist[:1].copy(), pos[:1], boxa)
    if not (got1[0] == got[0] or (math.isnan(got1[0]) and math.isnan(got[0]))):
        res.violation("property-violation", "edge correction of one pair depends on the batch",
                      impl=[float(got1[0]), float(got[0])],
                      signature=dict(stream="arc", what="batch-dependent", dim=dim))
    cuts = 0
    for (p, r), v in zip(items, got):
        h = [x for k in range(dim) for x in (p[k] - box[k][0], box[k][1] - p[k])]
        ncut = sum(1 for x in h if x < r)
        cuts += ncut
        res.stat("arc_sides_cut_%d" % min(ncut, 4))
        if dim == 2:
            want = r * inside_angle(p[0], p[1], r, box)
            full, tol, nanth = 2 * math.pi * r, 1e-6, 1e-5 * r
        else:
            want = sphere_area_inside(p, r, box)
            full, tol, nanth = 4 * math.pi * r * r, 1e-4, 1e-7 * r * r
        v = float(v)
        if math.isnan(v):
            res.stat("arc_nan")
            ok = want <= nanth + tol * full
        else:
            ok = abs(v - want) <= tol * full
        if not ok:
            res.violation("property-violation", "%s = %r but the part of the %s inside the box "
                          "measures %r (pos=%s r=%s box=%s)"
                          % ("arclen_2d_bounded" if dim == 2 else "area_3d_bounded", v,
                             "circle" if dim == 2 else "sphere", want, p, r, box),
                          impl=v, signature=dict(stream="arc", what="edge-correction", dim=dim))
            break
    res.stat("arc_items", len(items))
    res.stat("arc_3d_items" if dim == 3 else "arc_2d_items", len(items))
    res.nontrivial = cuts >= 1
    return res


# ------------------------------------------------------------------------------------------
# edge correction 2-D, function mode against the Lean model (Model/Arc.lean at Float)

def f2b(x):
    return str(struct.unpack("<Q", struct.pack("<d", float(x)))[0])


def b2f(s):
    return struct.unpack("<d", struct.pack("<Q", int(s)))[0]


def _err_bucket(res, name, err):
    if err == 0:
        res.stat(name + "_bit_exact")
    elif err <= 1e-15:
        res.stat(name + "_err_le_1e-15")
    elif err <= 1e-13:
        res.stat(name + "_err_le_1e-13")
    else:
        res.stat(name + "_err_gt_1e-13")


def run_arcfn_case(ctx, inp):
    from trackpy import static
    res = Result()
    res.stat("arcfn_cases")
    res.stat("arcfn_kind_" + inp["kind"])
    box = [[float.fromhex(v) for v in b] for b in inp["box"]]
    items = [[float.fromhex(v) for v in it] for it in inp["items"]]
    dist = np.array([it[2] for it in items])
    pos = np.array([it[:2] for it in items])
    boxa = np.array(box)
    try:
        got = static.arclen_2d_bounded(dist.copy(), pos, boxa)
        singles = [float(static.arclen_2d_bounded(dist[i:i + 1].copy(), pos[i:i + 1], boxa)[0])
                   for i in range(len(items))]
    except Exception as e:  # noqa
        res.violation("property-violation", "arclen_2d_bounded raised %r" % e,
                      signature=dict(stream="arcfn", what="raises"))
        return res
    cuts = 0
    for i, (x, y, r) in enumerate(items):
        v = float(got[i])
        v1 = singles[i]
        if not (v == v1 or (math.isnan(v) and math.isnan(v1))):
            res.violation("property-violation", "arclen_2d_bounded of one pair depends on the batch "
                          "(%r alone, %r in a batch)" % (v1, v), impl=[v1, v],
                          signature=dict(stream="arcfn", what="batch-dependent"))
            break
        # the code's own h (same IEEE operations as the model)
        h = [x - box[0][0], box[0][1] - x, y - box[1][0], box[1][1] - y]
        full = 2 * math.pi * r
        ncut = sum(1 for hh in h if hh < r)
        ncorner = sum(1 for a in h[:2] for b in h[2:] if a * a + b * b < r * r)
        cuts += ncut
        res.stat("arcfn_items")
        res.stat("arcfn_sides_cut_%d" % ncut)
        res.stat("arcfn_corners_in_circle_%d" % ncorner)
        # ---- (b) direct oracle: angle-interval arithmetic ------------------------------------
        # centre-relative coordinates (the h the code itself forms), slack relative to r: an arc
        # piece can only be misjudged when it is shorter than ~1e-6 rad
        want = r * inside_angle(0.0, 0.0, r, [[-h[0], h[1]], [-h[2], h[3]]], eps=1e-13 * r)
        if math.isnan(v):
            res.stat("arcfn_nan")
            ok = want <= 1e-5 * r + 1e-6 * full
        else:
            ok = abs(v - want) <= 1e-6 * full
        oracle_failed = not ok
        if not ok:
            res.violation("property-violation", "arclen_2d_bounded = %r but the part of the circle "
                          "inside the box measures %r (pos=%r r=%r box=%r)" % (v, want, (x, y), r, box),
                          impl=v, signature=dict(stream="arcfn", what="edge-correction", dim=2))
        # ---- (a) model, function mode ------------------------------------------------------------
        m = common.kv(ctx.ask("ARC2D " + " ".join(f2b(t) for t in (r, x, y, box[0][0], box[0][1],
                                                                  box[1][0], box[1][1]))))
        res.model_calls += 1
        if "v" not in m:
            res.violation("harness-error", "model returned %r" % (m,))
            return res
        mv, mraw = b2f(m["v"]), b2f(m["raw"])
        near_guard = abs(mraw - 1e-5 * r) <= 1e-12 * full
        if math.isnan(v) != math.isnan(mv):
            if near_guard:
                res.stat("arcfn_guard_borderline")
            elif not oracle_failed:
                res.violation("correspondence-break", "NaN guard: implementation %r, model %r (raw %r)"
                              % (v, mv, mraw), impl=v, model=m, broken="Arc.arclen2dBounded",
                              signature=dict(stream="arcfn", what="model-nan-guard"))
        elif not math.isnan(v):
            err = abs(v - mv) / full
            _err_bucket(res, "arcfn_arclen", err)
            if err > 1e-12 and not oracle_failed:
                res.violation("correspondence-break", "arclen_2d_bounded = %r, model %r" % (v, mv),
                              impl=v, model=m, broken="Arc.arclenRaw / arclen_inclusion_exclusion",
                              signature=dict(stream="arcfn", what="model-arclen"))
        # ---- caps: every side the circle reaches, code vs model vs one-sided-box oracle ------------
        big = 8 * r + 8
        caps_oracle = {}
        for k, hh in enumerate(h):
            if not (0 <= hh < r):
                continue
            c = float(static.circle_cap_arclen(hh, r))
            ca = float(static.circle_cap_arclen(np.array([hh, hh]), np.array([r, r]))[1])
            mc = b2f(common.kv(ctx.ask("ARCCAP %s %s" % (f2b(hh), f2b(r))))["v"])
            res.model_calls += 1
            oc = r * (2 * math.pi - inside_angle(0.0, 0.0, r, [[-big, hh], [-big, big]], eps=1e-13 * r))
            caps_oracle[k] = oc
            res.stat("arcfn_caps_compared")
            if abs(c - oc) > 1e-6 * full or c != ca:
                res.violation("property-violation", "circle_cap_arclen(%r, %r) = %r (array path %r) "
                              "but the arc beyond the side measures %r" % (hh, r, c, ca, oc), impl=c,
                              signature=dict(stream="arcfn", what="cap"))
            else:
                err = abs(c - mc) / max(abs(c), 1e-300) if c != mc else 0.0
                _err_bucket(res, "arcfn_cap", err)
                if err > 1e-12 and abs(c - mc) > 1e-15 * full:
                    res.violation("correspondence-break", "circle_cap_arclen(%r, %r) = %r, model %r"
                                  % (hh, r, c, mc), impl=c, model=mc,
                                  broken="Arc.circleCapArclen / cap_angles",
                                  signature=dict(stream="arcfn", what="model-cap"))
        # ---- corners: the code's pairs [0,2],[0,3],[1,2],[1,3] -------------------------------------
        for k1, k2 in ((0, 2), (0, 3), (1, 2), (1, 3)):
            a, b = h[k1], h[k2]
            if not (a >= 0 and b >= 0 and a * a + b * b < r * r):
                continue
            c = float(static.circle_corner_arclen(a, b, r))
            mc = b2f(common.kv(ctx.ask("ARCCORNER %s %s %s" % (f2b(a), f2b(b), f2b(r))))["v"])
            res.model_calls += 1
            # oracle: inside = 2 pi r - cap(a) - cap(b) + corner on a two-sided box
            ins = r * inside_angle(0.0, 0.0, r, [[-big, a], [-big, b]], eps=1e-13 * r)
            oc = ins - full + caps_oracle[k1] + caps_oracle[k2]
            res.stat("arcfn_corners_compared")
            if abs(c - oc) > 1e-6 * full:
                res.violation("property-violation", "circle_corner_arclen(%r, %r, %r) = %r but the arc "
                              "beyond both sides measures %r" % (a, b, r, c, oc), impl=c,
                              signature=dict(stream="arcfn", what="corner"))
            else:
                err = abs(c - mc) / (math.pi * r)
                _err_bucket(res, "arcfn_corner", err)
                if err > 1e-12:
                    res.violation("correspondence-break", "circle_corner_arclen(%r, %r, %r) = %r, "
                                  "model %r" % (a, b, r, c, mc), impl=c, model=mc,
                                  broken="Arc.circleCornerArclen / corner_angles",
                                  signature=dict(stream="arcfn", what="model-corner"))
    res.nontrivial = cuts >= 1
    if res.nontrivial and not res.viol and len(items) >= 3:
        res.sample = dict(stream="arcfn", kind=inp["kind"], box=box, items=items,
                          arclen=[None if math.isnan(float(t)) else float(t) for t in got])
    return res


def run_case(ctx, inp):
    s = inp.get("stream")
    if s == "pcorr":
        return run_pcorr_case(ctx, inp)
    if s == "arc":
        return run_arc_case(ctx, inp)
    if s == "arcfn":
        return run_arcfn_case(ctx, inp)
    if s == "gr":
        return run_gr_case(ctx, inp)
    res = Result()
    res.violation("harness-error", "unknown stream %r" % s)
    return res
