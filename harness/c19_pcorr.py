"""C19 pair-correlation and edge-correction streams (see harness/c19.py).

pcorr : pair_correlation_2d/3d (explicit boundary, fraction=1, default max_rel_ndensity) against
        (a) the model `PCORR` with the code's own arclen/area values as the abstract `arc`
            (tolerance 1e-9 relative),
        (b) a brute-force oracle whose 2-D edge correction is computed by angle-interval
            arithmetic, independent of the code's formulas (tolerance 1e-6),
        (c) the code itself on a permuted and on a translated copy (tolerance 1e-9).
arc   : arclen_2d_bounded against angle-interval arithmetic (1e-6 of the full circle),
        area_3d_bounded against slice quadrature (1e-4 of the full sphere; supporting evidence).
arcfn : function mode for the 2-D edge correction: circle_cap_arclen, circle_corner_arclen and
        arclen_2d_bounded (batch and single-pair path) against the Lean model Model/Arc.lean run at
        Float (`ARCCAP`, `ARCCORNER`, `ARC2D`; doubles travel as bit patterns; 1e-12 relative) AND
        against angle-interval arithmetic (1e-6).  The model's definitions, instantiated at the
        reals, are the subject of the theorems of Props/C19Arc.lean.
"""
import struct
import math
from fractions import Fraction

import numpy as np

from . import common
from .common import Result

F = Fraction


def fr(s):
    return Fraction(s)


def rs(x):
    return common.rat_str(x)


# ------------------------------------------------------------------------------------------
# independent geometry

def inside_angle(px, py, r, box, eps=None):
    """total angle (radians) of the circle of radius r around (px, py) lying inside the closed
    rectangle box = ((xmin, xmax), (ymin, ymax)); crossing angles + midpoint tests
    (`eps`: slack of the midpoint test; default 1e-12 * max(1, r))"""
    (x0, x1), (y0, y1) = box
    crit = [-math.pi, math.pi]
    for c in ((x0 - px) / r, (x1 - px) / r):
        if -1 < c < 1:
            a = math.acos(c)
            crit += [a, -a]
    for s in ((y0 - py) / r, (y1 - py) / r):
        if -1 < s < 1:
            a = math.asin(s)
            crit += [a, math.pi - a if a >= 0 else -math.pi - a]
    crit = sorted(set(crit))
    tot = 0.0
    if eps is None:
        eps = 1e-12 * max(1.0, r)
    for a, b in zip(crit[:-1], crit[1:]):
        if b - a <= 0:
            continue
        m = 0.5 * (a + b)
        x, y = px + r * math.cos(m), py + r * math.sin(m)
        if x0 - eps <= x <= x1 + eps and y0 - eps <= y <= y1 + eps:
            tot += b - a
    return tot


def sphere_area_inside(p, r, box, order=24):
    """area of the sphere part inside the box: A = r * integral over z of the inside angle of the
    horizontal circle (Archimedes), composite Gauss-Legendre between the kinks"""
    px, py, pz = p
    (x0, x1), (y0, y1), (z0, z1) = box
    lo, hi = max(z0, pz - r), min(z1, pz + r)
    if hi <= lo:
        return 0.0
    # kinks: heights where the horizontal radius meets a side or a corner distance
    ds = [abs(px - x0), abs(x1 - px), abs(py - y0), abs(y1 - py)]
    ds += [math.hypot(a, b) for a in ds[:2] for b in ds[2:]]
    br = {lo, hi}
    for d in ds:
        if d < r:
            dz = math.sqrt(r * r - d * d)
            for z in (pz - dz, pz + dz):
                if lo < z < hi:
                    br.add(z)
    for z in (pz - r, pz + r):
        if lo < z < hi:
            br.add(z)
    br = sorted(br)
    xs, ws = np.polynomial.legendre.leggauss(order)
    tot = 0.0
    for a, b in zip(br[:-1], br[1:]):
        # substitution z = a + (b-a) * (1 - cos(t))/2 smooths the sqrt end-point behaviour
        for x, w in zip(xs, ws):
            t = 0.5 * math.pi * (x + 1)
            z = a + (b - a) * 0.5 * (1 - math.cos(t))
            jac = (b - a) * 0.5 * math.sin(t) * 0.5 * math.pi
            rho2 = r * r - (z - pz) ** 2
            if rho2 <= 0:
                continue
            tot += w * jac * inside_angle(px, py, math.sqrt(rho2), ((x0, x1), (y0, y1)))
    return r * tot


# ------------------------------------------------------------------------------------------
# generation

def gen_pcorr(rng):
    dim = rng.choice([2, 2, 3])
    L = [rng.choice([16, 24, 32, 48]) for _ in range(dim)]        # box size in 1/8
    org = [rng.randint(-16, 16) for _ in range(dim)]
    n = rng.choice([4, 6, 10, 16, 25]) if dim == 2 else rng.choice([4, 6, 10, 14])
    pts = []
    for _ in range(n):
        r = rng.random()
        p = [org[a] + rng.randint(0, L[a]) for a in range(dim)]
        if r < 0.25:                         # on a side / edge / corner of the box
            for a in range(dim):
                if rng.random() < 0.6:
                    p[a] = org[a] + rng.choice([0, L[a]])
        elif r < 0.33 and pts:               # duplicate
            p = list(rng.choice(pts))
        elif r < 0.40:                       # outside the box (must be disregarded)
            a = rng.randrange(dim)
            p[a] = org[a] + rng.choice([-1, -8, L[a] + 1, L[a] + 8])
        pts.append(p)
    dr = rng.choice([2, 4, 8])               # 1/8 units (dyadic)
    cutoff = rng.choice([dr * rng.randint(1, 6), rng.randint(4, 2 * max(L))])
    return dict(stream="pcorr", dim=dim, box=[["%d/8" % org[a], "%d/8" % (org[a] + L[a])]
                                              for a in range(dim)],
                pts=[["%d/8" % v for v in p] for p in pts], cutoff="%d/8" % cutoff,
                dr="%d/8" % dr, ndensity=rng.choice([None, None, "3/8", "2"]),
                handle_edge=rng.random() < 0.9, perm=rng.randint(0, 10 ** 6),
                shift=["%d/8" % rng.randint(-40, 40) for _ in range(dim)])


def gen_arc(rng):
    dim = rng.choice([2, 2, 3])
    L = [rng.choice([8, 16, 24, 40]) for _ in range(dim)]
    org = [rng.randint(-16, 16) for _ in range(dim)]
    m = rng.randint(1, 6)
    items = []
    for _ in range(m):
        p = [org[a] + rng.randint(0, L[a]) for a in range(dim)]
        for a in range(dim):
            if rng.random() < 0.3:
                p[a] = org[a] + rng.choice([0, L[a]])
        kind = rng.random()
        if kind < 0.6:
            r = rng.randint(1, max(L))
        elif kind < 0.85:
            r = rng.randint(max(L), 2 * max(L))        # larger than the box
        else:
            r = rng.randint(1, 4)
        items.append([p, r])
    return dict(stream="arc", dim=dim, box=[["%d/8" % org[a], "%d/8" % (org[a] + L[a])]
                                            for a in range(dim)],
                items=[[["%d/8" % v for v in p], "%d/8" % r] for p, r in items])


def gen_arcfn(rng):
    """(box, [(x, y, r)]) as float.hex strings: grid values, generic doubles, and radii placed ON
    and one ulp around the two kinds of mask thresholds (h == r, h1^2 + h2^2 == r^2)"""
    kind = rng.choice(["grid", "generic", "generic", "critical", "critical"])
    if kind == "grid":
        L = [rng.choice([8, 16, 24, 40]) / 8.0 for _ in range(2)]
        org = [rng.randint(-16, 16) / 8.0 for _ in range(2)]
    else:
        L = [rng.choice([1.0, 3.0, 10.0, 512.0]) * (0.25 + rng.random()) for _ in range(2)]
        org = [rng.uniform(-100, 100) if rng.random() < 0.5 else 0.0 for _ in range(2)]
    box = [[org[a], org[a] + L[a]] for a in range(2)]
    L = [box[a][1] - box[a][0] for a in range(2)]
    items = []
    for _ in range(rng.randint(1, 6)):
        if kind == "grid":
            p = [box[a][0] + rng.randint(0, int(L[a] * 8)) / 8.0 for a in range(2)]
        else:
            p = [min(max(box[a][0] + rng.random() * L[a], box[a][0]), box[a][1]) for a in range(2)]
        for a in range(2):
            u = rng.random()
            if u < 0.12:
                p[a] = box[a][0]
            elif u < 0.24:
                p[a] = box[a][1]
        h = [p[0] - box[0][0], box[0][1] - p[0], p[1] - box[1][0], box[1][1] - p[1]]
        u = rng.random()
        diag = math.hypot(L[0], L[1])
        if kind == "critical":
            if u < 0.5:
                r = rng.choice(h)                                  # circle tangent to a side
            else:
                r = math.hypot(rng.choice(h[:2]), rng.choice(h[2:]))   # circle through a corner
            v = rng.random()
            if v < 0.3:
                r = math.nextafter(r, math.inf)
            elif v < 0.6:
                r = math.nextafter(r, 0.0)
            elif v < 0.8:
                r = r * (1 + rng.choice([-1, 1]) * 10.0 ** rng.randint(-12, -3))
        elif u < 0.68:
            r = rng.random() * max(L)
        elif u < 0.8:
            r = max(L) * (1 + rng.random())                        # larger than the box
        elif u < 0.9:
            r = diag * (1 + rng.choice([-1, 1]) * 10.0 ** rng.randint(-9, -2))
        else:
            r = max(L) * 10.0 ** rng.randint(-6, -1)
        if kind == "grid" and u >= 0.5 and rng.random() < 0.7:
            r = max(1, round(r * 8)) / 8.0
        if not (r >= 1e-7 * max(L)) or not math.isfinite(r):    # no degenerate (zero/denormal) radii
            r = max(L) / 8.0
        items.append([p[0], p[1], r])
    return dict(stream="arcfn", kind=kind, box=[[float(v).hex() for v in b] for b in box],
                items=[[float(v).hex() for v in it] for it in items])


def gen_cases(ctx):
    for i in range(ctx.n(250, 4000)):
        yield gen_pcorr(ctx.rng("pcorr", i))
    for i in range(ctx.n(250, 4000)):
        yield gen_arc(ctx.rng("arc", i))
    for i in range(ctx.n(300, 6000)):
        yield gen_arcfn(ctx.rng("arcfn", i))


# ------------------------------------------------------------------------------------------
# pair correlation

COLS = ["x", "y", "z"]


def call_pcorr(static, dim, pts, box, cutoff, dr, nd, handle_edge):
    import pandas as pd
    f = pd.DataFrame({COLS[k]: [float(p[k]) for p in pts] for k in range(dim)})
    fn = static.pair_correlation_2d if dim == 2 else static.pair_correlation_3d
    bnd = tuple(float(v) for b in box for v in b)
    kw = dict(cutoff=float(cutoff), dr=float(dr), boundary=bnd, handle_edge=handle_edge)
    if nd is not None:
        kw["ndensity"] = float(nd)
    return fn(f, **kw)


def close(a, b, tol):
    if a is None or b is None:
        return a is None and b is None
    return abs(a - b) <= tol * max(1.0, abs(a), abs(b))


def run_pcorr_case(ctx, inp):
    from trackpy import static
    res = Result()
    res.stat("pcorr_cases")
    dim = inp["dim"]
    box = [[fr(a), fr(b)] for a, b in inp["box"]]
    pts = [[fr(v) for v in p] for p in inp["pts"]]
    cutoff, dr = fr(inp["cutoff"]), fr(inp["dr"])
    nd = None if inp["ndensity"] is None else fr(inp["ndensity"])
    he = inp["handle_edge"]
    inside = [p for p in pts if all(box[k][0] <= p[k] <= box[k][1] for k in range(dim))]
    n = len(inside)
    res.stat("pcorr_outside_rows", len(pts) - n)
    vol = 1
    for b in box:
        vol *= (b[1] - b[0])
    dens = nd if nd is not None else F(n - 1) / vol
    if n < 2 or dens <= 0:
        res.stat("pcorr_degenerate_skipped")
        return res
    nb = math.ceil(cutoff / dr)
    # documented failure mode: more neighbours than max_p_count -> RuntimeError; outside the claim
    ball = math.pi * float(nb * dr + dr) ** 2 if dim == 2 else 4. / 3 * math.pi * float(nb * dr + dr) ** 3
    max_p = int(ball * float(dens) * 10)
    c2 = cutoff * cutoff
    cnt = max(sum(1 for q in inside if sum((p[k] - q[k]) ** 2 for k in range(dim)) < c2)
              for p in inside)
    if cnt >= max_p or max_p < 2 or n * max_p > 1e8:
        res.stat("pcorr_neighbour_cap_skipped")
        return res

    def run(ptsv, boxv):
        try:
            edges, g = call_pcorr(static, dim, ptsv, boxv, cutoff, dr, nd, he)
        except Exception as e:  # noqa
            return ("raise", repr(e))
        return ("ok", [float(v) for v in edges], [None if math.isnan(v) else float(v) for v in g])
    out = run(pts, box)
    if out[0] != "ok":
        res.violation("property-violation", "pair_correlation raised " + out[1],
                      signature=dict(stream="pcorr", what="raises"))
        return res
    _, edges, g = out
    if len(g) != nb or any(abs(e - float(k * dr)) > 1e-12 for k, e in enumerate(edges)):
        res.violation("property-violation", "bin edges are not k*dr, k = 0..ceil(cutoff/dr)",
                      impl=edges, signature=dict(stream="pcorr", what="edges"))
        return res

    # samples (exact) -----------------------------------------------------------------------
    samp = []
    for p in inside:
        h = [v for k in range(dim) for v in (p[k] - box[k][0], box[k][1] - p[k])]
        for q in inside:
            d2 = sum((p[k] - q[k]) ** 2 for k in range(dim))
            if 0 < d2 < c2:
                samp.append((d2, tuple(h), tuple(p)))
    res.stat("pcorr_samples", len(samp))
    boxf = np.array([[float(a), float(b)] for a, b in box])
    keys = sorted({(d2, h, p) for d2, h, p in samp})
    code_arc = {}
    if keys:
        dist = np.array([math.sqrt(float(d2)) for d2, _, _ in keys])
        posa = np.array([[float(v) for v in p] for _, _, p in keys])
        if not he:
            vals = 2 * np.pi * dist if dim == 2 else 4 * np.pi * dist ** 2
        elif dim == 2:
            vals = static.arclen_2d_bounded(dist.copy(), posa, boxf)
        else:
            vals = static.area_3d_bounded(dist.copy(), posa, boxf)
        for (d2, h, p), v in zip(keys, vals):
            code_arc[(d2, h)] = None if math.isnan(v) else F(float(v))
    cut = sum(1 for (d2, h) in code_arc if any(hh * hh < d2 for hh in h))
    res.stat("pcorr_edge_corrected_keys", cut)

    # (a) model ------------------------------------------------------------------------------
    tbl = " ".join("%s|%s|%s" % (rs(d2), ",".join(rs(v) for v in h), "n" if w is None else rs(w))
                   for (d2, h), w in code_arc.items())
    line = "PCORR %s # %s # %s # %s # %s # %s" % (
        ";".join("%s,%s" % (rs(a), rs(b)) for a, b in box), rs(cutoff), rs(dr),
        "-" if nd is None else rs(nd), " ".join(",".join(rs(v) for v in p) for p in pts), tbl)
    m = common.kv(ctx.ask(line))
    res.model_calls += 1
    if "g" not in m or m.get("missing") != "0" or int(m["n"]) != n or int(m["samples"]) != len(samp):
        res.violation("harness-error", "model/harness sample sets differ: %r" % (m,))
        return res
    mg = [None if t == "n" else float(fr(t)) for t in m["g"].split(",")]

    # (b) oracle -----------------------------------------------------------------------------
    norm = float(dens) * n * float(dr)
    og = [0.0] * nb
    degenerate = [False] * nb
    for d2, h, p in samp:
        d = math.sqrt(float(d2))
        k = int(math.floor(d / float(dr) + 1e-12))
        if dim == 2 and he:
            a = d * inside_angle(float(p[0]), float(p[1]), d, [[float(v) for v in b] for b in box])
        else:
            w = code_arc[(d2, h)]
            a = 0.0 if w is None else float(w)
        if a < 1e-5 * d * (1 if dim == 2 else d):
            degenerate[k] = True              # the circle only touches the box: weight undefined
        else:
            og[k] += 1.0 / a
    og = [None if degenerate[k] else og[k] / norm for k in range(nb)]
    res.stat("pcorr_degenerate_bins", sum(degenerate))
    # np.histogram accumulates weights with a cumulative sum: a NaN weight (zero arc) in bin j turns
    # every bin >= j into NaN although those bins have a well-defined corrected histogram
    poisoned = [k for k in range(nb) if not degenerate[k] and g[k] is None and og[k] is not None
                and any(degenerate[:k])]
    if poisoned:
        res.violation("property-violation", "g[%d] is NaN although its corrected pair histogram is "
                      "%r: an undefined weight in lower bin %d poisons all higher bins"
                      % (poisoned[0], og[poisoned[0]], degenerate.index(True)), impl=g,
                      broken="pair_correlation: NaN weight in a lower bin",
                      signature=dict(stream="pcorr", what="nan-weight-poisons-later-bins"))
        for k in poisoned:
            degenerate[k] = True          # not compared any further
    bad = [k for k in range(nb) if not degenerate[k] and not close(g[k], og[k], 1e-6)]
    if bad:
        k = bad[0]
        res.violation("property-violation", "g[%d] = %r but the edge-corrected, density-normalised "
                      "pair histogram is %r" % (k, g[k], og[k]), impl=g, model=m,
                      signature=dict(stream="pcorr", what="g-value", dim=dim))
    else:
        badm = [k for k in range(nb) if not degenerate[k] and not close(g[k], mg[k], 1e-9)]
        if badm:
            res.violation("correspondence-break", "g[%d]: implementation %r, model %r"
                          % (badm[0], g[badm[0]], mg[badm[0]]), impl=g, model=m,
                          broken="pairCorr / paircorr_norm",
                          signature=dict(stream="pcorr", what="model-g", dim=dim))

    # (c) invariance on the code itself ---------------------------------------------------------
    import random
    order = list(range(len(pts)))
    random.Random(inp["perm"]).shuffle(order)
    outp = run([pts[i] for i in order], box)
    t = [fr(v) for v in inp["shift"]]
    outt = run([[p[k] + t[k] for k in range(dim)] for p in pts],
               [[b[0] + t[k], b[1] + t[k]] for k, b in enumerate(box)])
    for name, o in (("permutation", outp), ("translation", outt)):
        if o[0] != "ok" or len(o[2]) != nb or any(
                not degenerate[k] and not close(g[k], o[2][k], 1e-9) for k in range(nb)):
            res.violation("property-violation", "g(r) changes under %s of the particles" % name,
                          impl=dict(g=g, other=o), signature=dict(stream="pcorr",
                                                                  what=name + "-variant", dim=dim))
    nonempty = sum(1 for v in g if v not in (None, 0.0))
    res.stat("pcorr_nonempty_bins", nonempty)
    res.stat("pcorr_3d" if dim == 3 else "pcorr_2d")
    res.nontrivial = cut >= 1 and nonempty >= 2
    if res.nontrivial and not res.viol and dim == 2:
        res.sample = dict(stream="pcorr", n=n, cutoff=inp["cutoff"], dr=inp["dr"], g=g)
    return res


# ------------------------------------------------------------------------------------------
# edge correction

def run_arc_case(ctx, inp):
    from trackpy import static
    res = Result()
    res.stat("arc_cases")
    dim = inp["dim"]
    box = [[float(fr(a)), float(fr(b))] for a, b in inp["box"]]
    items = [([float(fr(v)) for v in p], float(fr(r))) for p, r in inp["items"]]
    dist = np.array([r for _, r in items])
    pos = np.array([p for p, _ in items])
    boxa = np.array(box)
    try:
        if dim == 2:
            got = static.arclen_2d_bounded(dist.copy(), pos, boxa)
        else:
            got = static.area_3d_bounded(dist.copy(), pos, boxa)
    except Exception as e:  # noqa
        res.violation("property-violation", "edge correction raised %r" % e,
                      signature=dict(stream="arc", what="raises", dim=dim))
        return res
    # a single item goes through the `_protect_mask` special case: run the first one alone too
    if dim == 2:
        got1 = static.arclen_2d_bounded(dist[:1].copy(), pos[:1], boxa)
    else:
        got1 = static.area_3d_bounded(dist[:1].copy(), pos[:1], boxa)
    if not (got1[0] == got[0] or (math.isnan(got1[0]) and math.isnan(got[0]))):
        res.violation("property-violation", "edge correction of one pair depends on the batch",
                      impl=[float(got1[0]), float(got[0])],
                      signature=dict(stream="arc", what="batch-dependent", dim=dim))
    cuts = 0
    for (p, r), v in zip(items, got):
        h = [x for k in range(dim) for x in (p[k] - box[k][0], box[k][1] - p[k])]
        ncut = sum(1 for x in h if x < r)
        cuts += ncut
        res.stat("arc_sides_cut_%d" % min(ncut, 4))
        if dim == 2:
            want = r * inside_angle(p[0], p[1], r, box)
            full, tol, nanth = 2 * math.pi * r, 1e-6, 1e-5 * r
        else:
            want = sphere_area_inside(p, r, box)
            full, tol, nanth = 4 * math.pi * r * r, 1e-4, 1e-7 * r * r
        v = float(v)
        if math.isnan(v):
            res.stat("arc_nan")
            ok = want <= nanth + tol * full
        else:
            ok = abs(v - want) <= tol * full
        if not ok:
            res.violation("property-violation", "%s = %r but the part of the %s inside the box "
                          "measures %r (pos=%s r=%s box=%s)"
                          % ("arclen_2d_bounded" if dim == 2 else "area_3d_bounded", v,
                             "circle" if dim == 2 else "sphere", want, p, r, box),
                          impl=v, signature=dict(stream="arc", what="edge-correction", dim=dim))
            break
    res.stat("arc_items", len(items))
    res.stat("arc_3d_items" if dim == 3 else "arc_2d_items", len(items))
    res.nontrivial = cuts >= 1
    return res


# ------------------------------------------------------------------------------------------
# edge correction 2-D, function mode against the Lean model (Model/Arc.lean at Float)

def f2b(x):
    return str(struct.unpack("<Q", struct.pack("<d", float(x)))[0])


def b2f(s):
    return struct.unpack("<d", struct.pack("<Q", int(s)))[0]


def _err_bucket(res, name, err):
    if err == 0:
        res.stat(name + "_bit_exact")
    elif err <= 1e-15:
        res.stat(name + "_err_le_1e-15")
    elif err <= 1e-13:
        res.stat(name + "_err_le_1e-13")
    else:
        res.stat(name + "_err_gt_1e-13")


def run_arcfn_case(ctx, inp):
    from trackpy import static
    res = Result()
    res.stat("arcfn_cases")
    res.stat("arcfn_kind_" + inp["kind"])
    box = [[float.fromhex(v) for v in b] for b in inp["box"]]
    items = [[float.fromhex(v) for v in it] for it in inp["items"]]
    dist = np.array([it[2] for it in items])
    pos = np.array([it[:2] for it in items])
    boxa = np.array(box)
    try:
        got = static.arclen_2d_bounded(dist.copy(), pos, boxa)
        singles = [float(static.arclen_2d_bounded(dist[i:i + 1].copy(), pos[i:i + 1], boxa)[0])
                   for i in range(len(items))]
    except Exception as e:  # noqa
        res.violation("property-violation", "arclen_2d_bounded raised %r" % e,
                      signature=dict(stream="arcfn", what="raises"))
        return res
    cuts = 0
    for i, (x, y, r) in enumerate(items):
        v = float(got[i])
        v1 = singles[i]
        if not (v == v1 or (math.isnan(v) and math.isnan(v1))):
            res.violation("property-violation", "arclen_2d_bounded of one pair depends on the batch "
                          "(%r alone, %r in a batch)" % (v1, v), impl=[v1, v],
                          signature=dict(stream="arcfn", what="batch-dependent"))
            break
        # the code's own h (same IEEE operations as the model)
        h = [x - box[0][0], box[0][1] - x, y - box[1][0], box[1][1] - y]
        full = 2 * math.pi * r
        ncut = sum(1 for hh in h if hh < r)
        ncorner = sum(1 for a in h[:2] for b in h[2:] if a * a + b * b < r * r)
        cuts += ncut
        res.stat("arcfn_items")
        res.stat("arcfn_sides_cut_%d" % ncut)
        res.stat("arcfn_corners_in_circle_%d" % ncorner)
        # ---- (b) direct oracle: angle-interval arithmetic ------------------------------------
        # centre-relative coordinates (the h the code itself forms), slack relative to r: an arc
        # piece can only be misjudged when it is shorter than ~1e-6 rad
        want = r * inside_angle(0.0, 0.0, r, [[-h[0], h[1]], [-h[2], h[3]]], eps=1e-13 * r)
        if math.isnan(v):
            res.stat("arcfn_nan")
            ok = want <= 1e-5 * r + 1e-6 * full
        else:
            ok = abs(v - want) <= 1e-6 * full
        oracle_failed = not ok
        if not ok:
            res.violation("property-violation", "arclen_2d_bounded = %r but the part of the circle "
                          "inside the box measures %r (pos=%r r=%r box=%r)" % (v, want, (x, y), r, box),
                          impl=v, signature=dict(stream="arcfn", what="edge-correction", dim=2))
        # ---- (a) model, function mode ------------------------------------------------------------
        m = common.kv(ctx.ask("ARC2D " + " ".join(f2b(t) for t in (r, x, y, box[0][0], box[0][1],
                                                                  box[1][0], box[1][1]))))
        res.model_calls += 1
        if "v" not in m:
            res.violation("harness-error", "model returned %r" % (m,))
            return res
        mv, mraw = b2f(m["v"]), b2f(m["raw"])
        near_guard = abs(mraw - 1e-5 * r) <= 1e-12 * full
        if math.isnan(v) != math.isnan(mv):
            if near_guard:
                res.stat("arcfn_guard_borderline")
            elif not oracle_failed:
                res.violation("correspondence-break", "NaN guard: implementation %r, model %r (raw %r)"
                              % (v, mv, mraw), impl=v, model=m, broken="Arc.arclen2dBounded",
                              signature=dict(stream="arcfn", what="model-nan-guard"))
        elif not math.isnan(v):
            err = abs(v - mv) / full
            _err_bucket(res, "arcfn_arclen", err)
            if err > 1e-12 and not oracle_failed:
                res.violation("correspondence-break", "arclen_2d_bounded = %r, model %r" % (v, mv),
                              impl=v, model=m, broken="Arc.arclenRaw / arclen_inclusion_exclusion",
                              signature=dict(stream="arcfn", what="model-arclen"))
        # ---- caps: every side the circle reaches, code vs model vs one-sided-box oracle ------------
        big = 8 * r + 8
        caps_oracle = {}
        for k, hh in enumerate(h):
            if not (0 <= hh < r):
                continue
            c = float(static.circle_cap_arclen(hh, r))
            ca = float(static.circle_cap_arclen(np.array([hh, hh]), np.array([r, r]))[1])
            mc = b2f(common.kv(ctx.ask("ARCCAP %s %s" % (f2b(hh), f2b(r))))["v"])
            res.model_calls += 1
            oc = r * (2 * math.pi - inside_angle(0.0, 0.0, r, [[-big, hh], [-big, big]], eps=1e-13 * r))
            caps_oracle[k] = oc
            res.stat("arcfn_caps_compared")
            if abs(c - oc) > 1e-6 * full or c != ca:
                res.violation("property-violation", "circle_cap_arclen(%r, %r) = %r (array path %r) "
                              "but the arc beyond the side measures %r" % (hh, r, c, ca, oc), impl=c,
                              signature=dict(stream="arcfn", what="cap"))
            else:
                err = abs(c - mc) / max(abs(c), 1e-300) if c != mc else 0.0
                _err_bucket(res, "arcfn_cap", err)
                if err > 1e-12 and abs(c - mc) > 1e-15 * full:
                    res.violation("correspondence-break", "circle_cap_arclen(%r, %r) = %r, model %r"
                                  % (hh, r, c, mc), impl=c, model=mc,
                                  broken="Arc.circleCapArclen / cap_angles",
                                  signature=dict(stream="arcfn", what="model-cap"))
        # ---- corners: the code's pairs [0,2],[0,3],[1,2],[1,3] -------------------------------------
        for k1, k2 in ((0, 2), (0, 3), (1, 2), (1, 3)):
            a, b = h[k1], h[k2]
            if not (a >= 0 and b >= 0 and a * a + b * b < r * r):
                continue
            c = float(static.circle_corner_arclen(a, b, r))
            mc = b2f(common.kv(ctx.ask("ARCCORNER %s %s %s" % (f2b(a), f2b(b), f2b(r))))["v"])
            res.model_calls += 1
            # oracle: inside = 2 pi r - cap(a) - cap(b) + corner on a two-sided box
            ins = r * inside_angle(0.0, 0.0, r, [[-big, a], [-big, b]], eps=1e-13 * r)
            oc = ins - full + caps_oracle[k1] + caps_oracle[k2]
            res.stat("arcfn_corners_compared")
            if abs(c - oc) > 1e-6 * full:
                res.violation("property-violation", "circle_corner_arclen(%r, %r, %r) = %r but the arc "
                              "beyond both sides measures %r" % (a, b, r, c, oc), impl=c,
                              signature=dict(stream="arcfn", what="corner"))
            else:
                err = abs(c - mc) / (math.pi * r)
                _err_bucket(res, "arcfn_corner", err)
                if err > 1e-12:
                    res.violation("correspondence-break", "circle_corner_arclen(%r, %r, %r) = %r, "
                                  "model %r" % (a, b, r, c, mc), impl=c, model=mc,
                                  broken="Arc.circleCornerArclen / corner_angles",
                                  signature=dict(stream="arcfn", what="model-corner"))
    res.nontrivial = cuts >= 1
    if res.nontrivial and not res.viol and len(items) >= 3:
        res.sample = dict(stream="arcfn", kind=inp["kind"], box=box, items=items,
                          arclen=[None if math.isnan(float(t)) else float(t) for t in got])
    return res


def run_case(ctx, inp):
    s = inp.get("stream")
    if s == "pcorr":
        return run_pcorr_case(ctx, inp)
    if s == "arc":
        return run_arc_case(ctx, inp)
    if s == "arcfn":
        return run_arcfn_case(ctx, inp)
    res = Result()
    res.violation("harness-error", "unknown stream %r" % s)
    return res
