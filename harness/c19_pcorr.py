"""C19 pair-correlation and edge-correction streams (see harness/c19.py)."""
from . import common
from .common import Result


def gen_cases(ctx):
    return iter(())


def run_case(ctx, inp):
    res = Result()
    res.violation("harness-error", "unknown stream %r" % inp.get("stream"))
    return res
