"""C06 — grey_dilation returns exactly the admissible local maxima.

Streams
  image : an image + (separation, percentile, margin, precise) through the real
          `trackpy.find.grey_dilation` (always with precise=False, and with precise=True when the
          case asks for it) and through the model ops `GD`/`GDF` (lean/TrackpyV/Model/Find.lean,
          the definitions Props/C06.lean is about).  Observable: sorted coordinate set.  The
          threshold (`percentile_threshold`) and, for float images, `convert_to_int` are compared
          as well.
  wc    : `where_close` / `drop_close` driven directly with positions on a 1/8 grid and integer
          intensities (ties frequent); observable: the dropped index set.
  exh   : (thorough) exhaustive enumeration of small images over a small palette.

Direct oracle (independent of the Lean model, written from the property statement): for every
pixel clip the inscribed box to the image and compare; exact rational percentile; for
precise=True subset / pairwise separation / justification of every discarded candidate, all in
exact integer arithmetic.
"""
import itertools
import math
from fractions import Fraction

import numpy as np

from . import common
from .common import Result

PROP = "C06"
RULE = ("image stream: 2-D images 5-40 px, 3-D 4-14 px, uint8/uint16/int32/uint32/int64/float "
        "(wide integer images carry near-ties of relative difference < 1e-5); textures = 2-6 level "
        "palettes, plateaus, checkerboards, spikes on the margin boundary, blobs, all-black, single "
        "pixel; separation scalar or per-axis from {1..7, 1.5, 2.5, 3.5} (odd and even boxes); "
        "percentile from {0,30,64,90,100} or k/8; margin default / 0 / scalar / per-axis; precise "
        "both.  wc stream: 2-30 points in 2-D/3-D on a 1/8 grid, intensities from a 1-4 level "
        "palette or None.  Non-trivial = the admissible set is non-empty and at least one "
        "above-threshold pixel is rejected by the box or the margin, or precise=True drops a "
        "point (image); at least one close pair (wc).  Distinct = distinct canonical input.")
ASSUMPTIONS = [
    "pixel values are non-negative (unsigned dtypes); signed images with negative pixels are outside "
    "the model (scipy's constant border value 0 then exceeds in-image pixels)",
    "float images are generated with max = 255*2^-k and dyadic pixel values, so that the scale "
    "factor of convert_to_int is a power of two and the conversion is exact; the converted image is "
    "compared with the model's convertToInt on every float case",
    "np.percentile is modelled as exact linear interpolation; a case where some pixel value v "
    "compares differently with the float threshold and with the exact one (float rounding of "
    "(n-1)*q/100) is counted as borderline and skipped",
    "the box size int(2*s/sqrt(ndim)) is modelled as the exact floor; for rational s in 2-D/3-D "
    "2s/sqrt(ndim) is irrational and further than 1e-9 from an integer for the separations used",
    "where_close's query_pairs(1 - 1e-7) is modelled as the strict exact test sum((d_i/s_i)^2) < 1; "
    "cases with a candidate pair whose exact value lies in (1-1e-6, 1) are borderline and skipped "
    "(none occurs for integer pixel positions and the separations generated: the smallest gap "
    "below 1 is >= 1e-3)",
    "where_close breaks intensity ties by comparing the FLOAT sums np.sum(pos/separation); the "
    "model takes the tie-break key as a parameter (the theorems hold for every key).  When the "
    "float comparison differs from the exact one on some close equal-intensity pair, the model "
    "is run with the float sums (computed in the harness as np.sum(pos/sep, 1), converted "
    "exactly) instead of the exact keys (counter tiebreak_float_shadow)",
    "for even box sizes the box is placed as scipy does: [p-(k-1)//2, p+k//2]; the oracle uses the "
    "same placement (it is inscribed in the ellipse either way)",
    "the oracle reads 'closer than separation' as sum((d_i/s_i)^2) < 1 for the survivors and accepts "
    "a justifying neighbour at <= 1",
]
MIN_NONTRIVIAL = 20

SEPS = ["1", "3/2", "2", "5/2", "3", "7/2", "4", "5", "6", "7"]


def init(ctx):
    common.setup_repo_path()


# ------------------------------------------------------------------------------------------
# generation

def _texture(rng, shape, kind, maxval):
    nd = len(shape)
    npix = int(np.prod(shape))
    nrng = np.random.default_rng(rng.getrandbits(32))
    if kind == "black":
        return np.zeros(shape, dtype=np.int64)
    if kind == "single":
        a = np.zeros(shape, dtype=np.int64)
        p = tuple(rng.randrange(n) for n in shape)
        a[p] = rng.randint(1, maxval)
        if rng.random() < 0.3:
            a[a == 0] = rng.randint(0, max(0, a[p] - 1))
        return a
    if kind == "palette":
        L = min(rng.randint(2, 6), maxval + 1)
        levels = sorted(rng.sample(range(0, maxval + 1), L))
        if rng.random() < 0.6:
            levels[0] = 0
        w = nrng.random(L) + 0.1
        if rng.random() < 0.7:
            w = np.sort(w)[::-1] ** 2          # bright levels rarer: isolated and clustered maxima
        return nrng.choice(np.array(levels, dtype=np.int64), size=shape, p=w / w.sum())
    if kind == "plateau":
        a = np.full(shape, rng.choice([0, 1, 1, rng.randint(0, maxval // 2)]), dtype=np.int64)
        for _ in range(rng.randint(1, 5)):
            lo = [rng.randrange(n) for n in shape]
            hi = [min(n, l + rng.randint(1, max(1, n // 3))) for l, n in zip(lo, shape)]
            a[tuple(slice(l, h) for l, h in zip(lo, hi))] = rng.choice(
                [maxval, rng.randint(1, maxval), rng.randint(1, maxval)])
        if rng.random() < 0.4:
            k = rng.randint(1, max(1, npix // 10))
            idx = nrng.integers(0, npix, size=k)
            a.ravel()[idx] = nrng.integers(0, maxval + 1, size=k)
        return a
    if kind == "checker":
        per = rng.randint(1, 3)
        v0, v1 = rng.randint(0, maxval), rng.randint(0, maxval)
        grid = np.indices(shape)
        par = sum((g // per) for g in grid) % 2
        a = np.where(par == 0, v0, v1).astype(np.int64)
        if rng.random() < 0.5:
            k = rng.randint(1, 4)
            idx = nrng.integers(0, npix, size=k)
            a.ravel()[idx] = nrng.integers(0, maxval + 1, size=k)
        return a
    if kind == "blobs":
        grid = np.indices(shape).astype(float)
        a = np.zeros(shape)
        for _ in range(rng.randint(1, 6)):
            c = [rng.uniform(0, n - 1) for n in shape]
            s = rng.uniform(0.8, 3.0)
            a += rng.uniform(0.3, 1.0) * np.exp(-sum((g - ci) ** 2 for g, ci in zip(grid, c))
                                                / (2 * s * s))
        a = a / max(a.max(), 1e-9)
        q = min(maxval, rng.choice([maxval, maxval, 15, 6]))   # coarse quantisation -> plateaus
        return np.floor(a * q).astype(np.int64) * (maxval // q)
    raise ValueError(kind)


def _spikes(rng, shape, margin, maxval):
    """isolated spikes on / next to the margin boundary"""
    a = np.full(shape, rng.choice([0, 1, 1, 1, rng.randint(0, maxval // 2)]), dtype=np.int64)
    for _ in range(rng.randint(1, 8)):
        p = []
        for n, m in zip(shape, margin):
            cands = [m - 1, m, n - m - 1, n - m, 0, n - 1, rng.randrange(n)]
            p.append(min(n - 1, max(0, rng.choice(cands))))
        a[tuple(p)] = rng.choice([maxval, rng.randint(1, maxval)])
    return a


def gen_image_case(rng, thorough=False):
    nd = rng.choice([2, 2, 2, 3])
    if nd == 2:
        shape = [rng.randint(5, 40), rng.randint(5, 40)]
        if rng.random() < 0.5:
            shape = [rng.randint(5, 16), rng.randint(5, 16)]
    else:
        shape = [rng.randint(4, 14) for _ in range(3)]
        if rng.random() < 0.5:
            shape = [rng.randint(4, 8) for _ in range(3)]
    dtype = rng.choice(["uint8", "uint8", "uint8", "uint16", "float64", "float32", "int32",
                        "uint32", "int64", "int16"])
    if rng.random() < 0.6:
        s = rng.choice(SEPS)
        sep = [s] * nd
        scalar = rng.random() < 0.7
    else:
        sep = [rng.choice(SEPS) for _ in range(nd)]
        scalar = False
    seps = [Fraction(s) for s in sep]
    mk = rng.choice(["default", "default", "zero", "scalar", "tuple"])
    if mk == "default":
        margin = None
        meff = [int(s / 2) for s in seps]
    elif mk == "zero":
        margin, meff = 0, [0] * nd
    elif mk == "scalar":
        margin = rng.choice([0, 1, 1, 2, 2, 3, 4])
        meff = [margin] * nd
    else:
        margin = [rng.choice([0, 1, 1, 2, 2, 3, 4]) for _ in range(nd)]
        meff = list(margin)
    pct = rng.choice(["0", "30", "64", "64", "64", "90", "%d/8" % rng.randint(0, 800),
                      "%d/8" % rng.randint(0, 800)])
    if rng.random() < 0.04:
        pct = "100"
    kind = rng.choice(["palette"] * 8 + ["plateau"] * 6 + ["checker"] * 4 + ["spikes"] * 4 +
                      ["blobs"] * 4 + ["black", "single"])
    maxval = 65535 if dtype == "uint16" else 255
    wide = dtype in ("int32", "uint32", "int64")
    if wide:      # more than 16 bits of range: grey values of 1e5 and beyond
        maxval = rng.choice([10 ** 5 + 7, 10 ** 6, 2 ** 30, 2 ** 31 - 1])
    if dtype == "uint16" and rng.random() < 0.5:
        maxval = rng.choice([300, 1023, 4095])
    if dtype == "int16" or (dtype in ("int32", "int64") and rng.random() < 0.4):
        # signed containers holding 9-15 bit data: integer images are used as they are (no rescaling
        # to 8 bits), so grey levels one count apart stay distinguishable
        maxval = rng.choice([300, 1000, 4095, 32767])
    if dtype == "uint8" and rng.random() < 0.3:
        maxval = rng.choice([1, 2, 3, 7, 40])
    inp = dict(stream="image", shape=shape, dtype=dtype, sep=sep, sep_scalar=scalar, pct=pct,
               margin=margin, precise=rng.random() < 0.5, kind=kind)
    if rng.random() < 0.01 and not dtype.startswith("float"):
        inp["sep"] = sep + [sep[0]] if rng.random() < 0.5 else sep[:-1]
        inp["sep_scalar"] = False
        inp["margin"] = None
    if dtype.startswith("float"):
        # Q integers, max exactly 255*2^j, possibly some negative; image = Q * 2^-(k+j)
        j = rng.randint(0, 3)
        k = rng.randint(-3, 6)
        a = (_spikes(rng, shape, meff, 255 << j) if kind == "spikes"
             else _texture(rng, shape, kind, 255 << j))
        a = np.ascontiguousarray(a)
        if rng.random() < 0.3 and kind not in ("black",):
            nrng = np.random.default_rng(rng.getrandbits(32))
            idx = nrng.integers(0, a.size, size=max(1, a.size // 8))
            a.ravel()[idx] = -nrng.integers(0, 300, size=idx.size)
        if rng.random() < 0.05:
            a = -np.abs(a)                                       # all non-positive
        elif a.max() > 0:
            a.ravel()[rng.randrange(a.size)] = 255 << j          # pin the max: scale = 2^k exactly
        inp["fexp"] = k + j
        inp["pixels"] = [int(v) for v in a.ravel()]
    else:
        a = _spikes(rng, shape, meff, maxval) if kind == "spikes" else _texture(rng, shape, kind,
                                                                                  maxval)
        if wide and kind != "black" and rng.random() < 0.7:
            # several bright pixels that differ by 0..3 grey levels out of >= 1e5 (relative
            # difference below 1e-5): close to a tie, but not one
            a = np.ascontiguousarray(a)
            flat = a.ravel()
            for _ in range(rng.randint(2, 8)):
                flat[rng.randrange(flat.size)] = maxval - rng.randint(0, 3)
        inp["pixels"] = [int(v) for v in a.ravel()]
    return inp


def gen_wc_case(rng):
    nd = rng.choice([2, 2, 3])
    n = rng.randint(2, 30)
    if rng.random() < 0.6:
        sep = [rng.choice(SEPS)] * nd
    else:
        sep = [rng.choice(SEPS) for _ in range(nd)]
    span = rng.choice([8, 16, 32, 64])        # in 1/8 px
    step = rng.choice([1, 2, 4, 8])
    pos = [[step * rng.randint(0, span // step) for _ in range(nd)] for _ in range(n)]
    if rng.random() < 0.3:                    # exact duplicates and exact-separation neighbours
        for _ in range(rng.randint(1, 3)):
            i = rng.randrange(n)
            q = list(pos[rng.randrange(n)])
            if rng.random() < 0.5:
                ax = rng.randrange(nd)
                q[ax] += int(Fraction(sep[ax]) * 8)
            pos[i] = q
    r = rng.random()
    if r < 0.2:
        inten = None
    else:
        L = rng.randint(1, 4)
        inten = [rng.randint(1, L) * rng.choice([1, 1, 50]) for _ in range(n)]
        if r > 0.8:     # large intensities that are nearly, but not exactly, equal
            base = rng.choice([10 ** 5 + 3, 10 ** 6, 2 ** 31 - 7, 10 ** 9])
            inten = [base + rng.randint(-2, 2) for _ in range(n)]
    if rng.random() < 0.02:
        sep = list(sep)
        sep[rng.randrange(nd)] = "0"
    return dict(stream="wc", ndim=nd, pos8=pos, sep=sep, inten=inten,
                frame=rng.choice(["array", "array", "dataframe"]))


def gen_cases(ctx):
    for inp in ctx.corpus():
        yield inp
    if ctx.thorough:
        # exhaustive families: every image of the shape over the palette, in blocks
        fams = [("3x3/3", [3, 3], 3), ("3x4/2", [3, 4], 2), ("4x4/2", [4, 4], 2), ("2x2x2/3", [2, 2, 2], 3)]
        for name, shape, L in fams:
            total = L ** int(np.prod(shape))
            B = 128
            for start in range(0, total, B):
                yield dict(stream="exh", family=name, shape=shape, levels=L, start=start,
                           count=min(B, total - start))
    for i in range(ctx.n(4000, 100000)):
        yield gen_image_case(ctx.rng("image", i), ctx.thorough)
    for i in range(ctx.n(1500, 30000)):
        yield gen_wc_case(ctx.rng("wc", i))


# ------------------------------------------------------------------------------------------
# exact helpers (oracle side; independent of the Lean model)

def exact_percentile(values, pct):
    """numpy's default (linear) percentile as an exact Fraction; None for an empty list"""
    xs = sorted(int(v) for v in values)
    n = len(xs)
    if n == 0:
        return None
    pos = Fraction(n - 1) * pct / 100
    lo = pos.numerator // pos.denominator
    g = pos - lo
    a = xs[lo]
    b = xs[min(lo + 1, n - 1)]
    return a + (b - a) * g


def box_size(sep, ndim):
    """largest k with k*k*ndim <= 4*sep^2"""
    t = 4 * sep * sep / ndim
    k = math.isqrt(t.numerator // t.denominator)
    return k


def pair_weights(seps):
    """(w, L): sum_i (d_i/s_i)^2 < 1  <=>  sum_i w_i*d_i^2 < L   (exact integers)"""
    L = 1
    for s in seps:
        L *= s.numerator ** 2
    w = [s.denominator ** 2 * (L // s.numerator ** 2) for s in seps]
    return w, L


def pair_matrix(pts, seps):
    """exact integer matrix Q with Q[i,j] = sum_k w_k*(p_i-p_j)_k^2, and L"""
    w, L = pair_weights(seps)
    P = np.asarray(pts, dtype=object if L > 2 ** 40 else np.int64).reshape(len(pts), len(seps))
    Q = 0
    for k in range(len(seps)):
        d = P[:, None, k] - P[None, :, k]
        Q = Q + w[k] * d * d
    return Q, L


def oracle_maxima(img, seps, thr, margin, mirrored=False):
    """the statement, pixel by pixel: brighter than thr, not exceeded inside the clipped box,
    outside the margin.  `mirrored` places an even-sized box the other way round (one pixel more
    towards LOWER indices): also inscribed, but not what the code does."""
    nd = img.ndim
    ks = [box_size(s, nd) for s in seps]
    out = []
    vals_above = {int(v) for v in np.unique(img) if Fraction(int(v)) > thr}
    if not vals_above:
        return out, 0
    above = 0
    mask = np.isin(img, list(vals_above))
    for p in zip(*np.nonzero(mask)):
        above += 1
        if any(p[i] < margin[i] or p[i] > img.shape[i] - margin[i] - 1 for i in range(nd)):
            continue
        lo_hi = [((ks[i] - 1) // 2, ks[i] // 2) if not mirrored else (ks[i] // 2, (ks[i] - 1) // 2)
                 for i in range(nd)]
        sl = tuple(slice(max(0, p[i] - lo_hi[i][0]), min(img.shape[i], p[i] + lo_hi[i][1] + 1))
                   for i in range(nd))
        if img[sl].max() <= img[p]:
            out.append(tuple(int(x) for x in p))
    return sorted(out), above


def oracle_precise(cands, inten, result, seps):
    """subset / separated / justified.  returns (None | (clause, message)), stats"""
    cset = set(cands)
    rset = set(result)
    if len(rset) != len(result):
        return ("subset", "duplicate rows in the result"), {}
    extra = rset - cset
    if extra:
        return ("subset", "points %s are not admissible maxima" % sorted(extra)[:3]), {}
    if not cands:
        return None, dict(close_pairs=0, tie_pairs=0)
    Q, L = pair_matrix(cands, seps)
    n = len(cands)
    closeM = Q < L
    np.fill_diagonal(closeM, False)
    I = np.asarray(inten)
    keep = np.array([c in rset for c in cands])
    # separated
    bad = closeM & keep[:, None] & keep[None, :]
    if bad.any():
        i, j = [int(x) for x in np.argwhere(bad)[0]]
        return ("separated", "survivors %s and %s are closer than separation" % (cands[i], cands[j])), {}
    # justified
    leM = Q <= L
    np.fill_diagonal(leM, False)
    just = (leM & (I[None, :] >= I[:, None])).any(axis=1)
    badj = (~keep) & (~just)
    if badj.any():
        i = int(np.argwhere(badj)[0][0])
        return ("justified", "candidate %s (brightness %d) was discarded but no at-least-as-bright "
                "candidate lies within separation" % (cands[i], int(I[i]))), {}
    iu = np.triu_indices(n, 1)
    cp = closeM[iu]
    st = dict(close_pairs=int(cp.sum()),
              tie_pairs=int((cp & (I[iu[0]] == I[iu[1]])).sum()))
    return None, st


def gap_and_keys(pts, inten, seps, fpos=None, fsep=None):
    """(gap?, float_keys or None): gap? = some pair has sum in (1-1e-6, 1) exclusive;
    float keys (Fractions) are returned when the code's float tie-break comparison
    (np.sum(pos/separation, 1), recomputed here from the float positions `fpos` and separations
    `fsep` the code receives) disagrees with the exact one on some close pair of equal intensity"""
    n = len(pts)
    if n < 2:
        return False, None
    Q, L = pair_matrix(pts, seps)
    iu = np.triu_indices(n, 1)
    q = Q[iu]
    # (1-1e-6)*L < q < L   with integers:  q < L  and  q*10^6 > L*(10^6-1)
    gap = bool(np.any((q < L) & (q * 10 ** 6 > L * (10 ** 6 - 1))))
    close = q < L
    I = np.zeros(n, dtype=np.int64) if inten is None else np.asarray(inten)
    tie = close & (I[iu[0]] == I[iu[1]])
    if not tie.any():
        return gap, None
    sepf = tuple(float(s) for s in seps) if fsep is None else fsep
    fp = np.asarray(pts).reshape(n, len(seps)) if fpos is None else fpos
    fk = np.sum(fp / sepf, 1)
    ek = [sum(Fraction(int(c)) / s for c, s in zip(p, seps)) for p in pts]
    i0, i1 = iu[0][tie], iu[1][tie]
    for a, b in zip(i0.tolist(), i1.tolist()):
        if (fk[a] > fk[b]) != (ek[a] > ek[b]):
            return gap, [Fraction(float(x)) for x in fk]
    return gap, None


# ------------------------------------------------------------------------------------------
# running one image through code + model + oracle

def rs(x):
    return common.rat_str(x)


def parse_pts(m):
    s = m.get("pts", "")
    if s is True or s == "":
        return []
    return sorted(tuple(int(x) for x in q.split(",")) for q in s.split(";"))


def rows(arr):
    return sorted(tuple(int(x) for x in r) for r in np.asarray(arr))


def build_image(inp):
    shape = tuple(inp["shape"])
    px = np.array(inp["pixels"], dtype=np.int64).reshape(shape)
    dt = inp["dtype"]
    if dt.startswith("float"):
        return (px.astype(np.float64) * 2.0 ** (-inp["fexp"])).astype(dt)
    return px.astype(dt)


def check_image(ctx, res, image, seps, sep_arg, pctF, margin_arg, precise, sig_base, stats=True):
    """one (image, parameters) through code, model and oracle.  Appends violations to res.
    returns dict with a few facts (or None when skipped)."""
    from trackpy.find import grey_dilation, percentile_threshold
    from trackpy.preprocessing import convert_to_int
    nd = image.ndim
    shape = image.shape
    pct = float(pctF)
    # ---- integer image the code works on
    _, conv = convert_to_int(image, dtype=np.uint8)
    conv = np.asarray(conv)
    meff = ([int(s / 2) for s in seps] if margin_arg is None else
            [margin_arg] * nd if not isinstance(margin_arg, (list, tuple)) else list(margin_arg))
    mstr = "d" if margin_arg is None else ",".join(str(m) for m in meff)
    head = "%s | %s | %s | %s" % (",".join(map(str, shape)), ",".join(rs(s) for s in seps),
                                  rs(pctF), mstr)
    is_float = not np.issubdtype(image.dtype, np.integer)
    if not is_float and (conv.shape != image.shape or not np.array_equal(conv.astype(object), image.astype(object))):
        # an integer image is searched as it is (documented: "provide an integer-type array"); the
        # oracle below works on the ORIGINAL grey values, so a conversion that merges grey levels
        # shows as wrong maxima
        res.stat("integer_image_altered_by_conversion")
        conv = np.asarray(image)
    if is_float:
        pxs = ",".join(rs(Fraction(float(v))) for v in image.ravel())
        m0 = common.kv(ctx.ask("GDF %s | 0 | %s" % (head, pxs)))
        mconv = [int(x) for x in m0["img"].split(",")] if "img" in m0 else None
        if mconv != [int(v) for v in conv.ravel()]:
            res.violation("correspondence-break", "convert_to_int differs from the model",
                          impl=[int(v) for v in conv.ravel()][:50], model=(mconv or [])[:50],
                          broken="convertToInt", signature=dict(sig_base, clause="convert_to_int"))
            return None
        res.stat("float_conversion_compared")
    ipx = ",".join(str(int(v)) for v in conv.ravel())
    if not is_float:
        m0 = common.kv(ctx.ask("GD %s | 0 | %s" % (head, ipx)))
    if "ok" not in m0:
        res.violation("harness-error", "model rejected a generated case: %r" % (m0,))
        return None
    # ---- threshold
    ithr = percentile_threshold(conv, pct)
    othr = exact_percentile(conv[conv != 0].ravel().tolist(), pctF)       # oracle's own
    mthr = None if m0["thr"] == "nan" else Fraction(m0["thr"])
    if (othr is None) != bool(np.isnan(ithr)) or (mthr is None) != (othr is None):
        res.violation("property-violation" if (othr is None) != bool(np.isnan(ithr))
                      else "correspondence-break",
                      "all-black detection differs", impl=repr(ithr), model=m0["thr"],
                      broken="percentileThr", signature=dict(sig_base, clause="black"))
        return None
    black = othr is None
    if not black:
        if mthr != othr:
            res.violation("harness-error", "model threshold %s != oracle threshold %s" % (mthr, othr))
            return None
        if abs(Fraction(float(ithr)) - othr) > Fraction(1, 10 ** 9) * max(1, abs(othr)):
            res.violation("property-violation", "percentile_threshold %r is not the %s-th percentile "
                          "of the non-zero pixels (%s)" % (float(ithr), pctF, float(othr)),
                          impl=float(ithr), model=str(othr),
                          signature=dict(sig_base, clause="threshold"))
            return None
        fthr = Fraction(float(ithr))
        vals = [int(v) for v in np.unique(conv)]
        if any((v > fthr) != (v > othr) for v in vals):
            res.borderline = True
            res.stat("borderline_threshold_rounding")
            return None
        if stats and any(v == othr for v in vals):
            res.stat("threshold_equals_a_pixel_value")
    # ---- precise = False
    r0 = rows(grey_dilation(image, sep_arg, pct, margin_arg, False))
    if black:
        exp, above = [], 0
    else:
        exp, above = oracle_maxima(conv, seps, othr, meff)
    mod0 = parse_pts(m0)
    facts = dict(n_expected=len(exp), above=above, black=black, dropped=0)
    if r0 != exp and not black and r0 == oracle_maxima(conv, seps, othr, meff, mirrored=True)[0]:
        res.violation("correspondence-break", "grey_dilation(precise=False) places even-sized boxes "
                      "one pixel towards lower indices (still inscribed in the ellipse, so the "
                      "statement is met) but the model mirrors scipy's grey_dilation placement",
                      impl=r0[:40], model=mod0[:40], broken="Find.axisWin / maxima_iff (box placement)",
                      signature=dict(sig_base, clause="maxima_iff", what="even-box-placement"))
        return facts
    if r0 != exp:
        missing = sorted(set(exp) - set(r0))
        extra = sorted(set(r0) - set(exp))
        res.violation("property-violation",
                      "grey_dilation(precise=False) is not the set of admissible maxima: missing %s "
                      "extra %s (box %s, threshold %s, margin %s)"
                      % (missing[:3], extra[:3], [box_size(s, nd) for s in seps],
                         None if black else float(othr), meff),
                      impl=r0[:40], model=mod0[:40],
                      signature=dict(sig_base, clause="maxima_iff",
                                     dir="missing" if missing else "extra"))
        return facts
    if mod0 != r0:
        res.violation("correspondence-break", "model greyDilation(precise=false) differs from the "
                      "code although the oracle accepts the code's answer", impl=r0[:40],
                      model=mod0[:40], broken="Find.greyDilation / maxima_iff",
                      signature=dict(sig_base, clause="maxima_iff", what="model"))
        return facts
    if stats:
        res.stat("imprecise_compared")
    if not precise:
        return facts
    # ---- precise = True
    r1 = rows(grey_dilation(image, sep_arg, pct, margin_arg, True))
    inten = [int(conv[p]) for p in exp]
    gap, fkeys = gap_and_keys(exp, inten, seps)
    if gap:
        res.borderline = True
        res.stat("borderline_pair_in_1e-7_gap")
        return facts
    viol, pst = oracle_precise(exp, inten, r1, seps)
    if viol is not None:
        res.violation("property-violation", "grey_dilation(precise=True): " + viol[1],
                      impl=r1[:40], model=None,
                      signature=dict(sig_base, clause="precise_" + viol[0]))
        return facts
    if fkeys is None:
        line = ("GDF %s | 1 | %s" % (head, pxs)) if is_float else ("GD %s | 1 | %s" % (head, ipx))
        m1 = common.kv(ctx.ask(line))
        if stats:
            res.stat("precise_compared_exact_keys")
    else:
        m1 = common.kv(ctx.ask("DK %s | %s | %s" % (head, ipx, ",".join(rs(k) for k in fkeys))))
        if stats:
            res.stat("tiebreak_float_shadow")
    if "ok" not in m1:
        res.violation("harness-error", "model rejected a generated case: %r" % (m1,))
        return facts
    mod1 = parse_pts(m1)
    facts["dropped"] = len(exp) - len(r1)
    facts.update(pst)
    if mod1 != r1:
        res.violation("correspondence-break", "model greyDilation(precise=true) differs from the code "
                      "although the oracle accepts the code's answer (tie-break / pair rule)",
                      impl=r1[:40], model=mod1[:40], broken="Find.dropClose / whereClose",
                      signature=dict(sig_base, clause="precise", what="model"))
    return facts


def memory_layout(image, k):
    """the same pixel values in another memory layout (what a transposed view, a Fortran-ordered
    copy, a crop of a larger frame or a (y, x, z) stack viewed as (z, y, x) look like)"""
    k = k % 6
    if k == 1:
        return np.asfortranarray(image), "fortran"
    if k == 2:
        return np.ascontiguousarray(image.T).T, "transposed_view"
    if k == 3:
        big = np.zeros(tuple(2 * s + 3 for s in image.shape), dtype=image.dtype)
        sl = tuple(slice(1, 1 + 2 * s, 2) for s in image.shape)
        big[sl] = image
        return big[sl], "strided_crop"
    if k == 4 and image.ndim == 3:
        return np.moveaxis(np.ascontiguousarray(np.moveaxis(image, 0, -1)), -1, 0), "moved_axis"
    if k == 5:
        return np.ascontiguousarray(image[::-1])[::-1], "flipped_view"
    return image, "c"


def run_image_case(ctx, inp):
    res = Result()
    image = build_image(inp)
    image, lay = memory_layout(image, len(inp["pixels"]) + sum(image.shape))
    res.stat("layout_" + lay)
    nd = image.ndim
    seps = [Fraction(s) for s in inp["sep"]]
    if len(seps) != nd:
        # malformed: one separation per axis is required (validate_tuple raises ValueError);
        # the model answers `reject`
        from trackpy.find import grey_dilation
        res.stat("malformed_separation_length")
        try:
            out = grey_dilation(image, tuple(float(s) for s in seps), float(Fraction(inp["pct"])))
            raised = None
        except ValueError as e:
            raised = e
        m = ctx.ask("GD %s | %s | %s | d | 0 | %s" % (
            ",".join(map(str, image.shape)), ",".join(rs(s) for s in seps), rs(Fraction(inp["pct"])),
            ",".join(str(int(v)) for v in np.asarray(image).ravel().astype(np.int64))))
        if raised is None or m != "reject":
            res.violation("correspondence-break", "separation with %d entries for a %d-D image: code "
                          "%s, model %s" % (len(seps), nd, "raised" if raised else "returned", m),
                          impl=repr(raised), model=m, broken="Find.wellFormed",
                          signature=dict(stream="image", clause="malformed"))
        return res
    if inp.get("sep_scalar"):
        s = seps[0]
        sep_arg = int(s) if s.denominator == 1 and (len(inp["pixels"]) % 2 == 0) else float(s)
    else:
        sep_arg = tuple(float(s) for s in seps)
    margin = inp.get("margin")
    margin_arg = tuple(margin) if isinstance(margin, list) else margin
    pctF = Fraction(inp["pct"])
    precise = bool(inp.get("precise"))
    sig = dict(stream="image")
    facts = check_image(ctx, res, image, seps, sep_arg, pctF, margin_arg, precise, sig)
    res.stat("image_cases")
    res.stat("ndim_%d" % nd)
    res.stat("dtype_" + inp["dtype"])
    res.stat("texture_" + inp.get("kind", "corpus"))
    res.stat("precise_%s" % precise)
    res.stat("sep_scalar" if inp.get("sep_scalar") else
             ("sep_isotropic_tuple" if len(set(seps)) == 1 else "sep_per_axis"))
    for k in {box_size(s, nd) for s in seps}:
        res.stat("box_even" if k % 2 == 0 else "box_odd")
    res.stat("margin_" + ("default" if margin is None else "zero" if margin == 0 else
                          "scalar" if isinstance(margin, int) else "per_axis"))
    if facts is not None:
        n = facts["n_expected"]
        res.stat("black_image" if facts["black"] else "result_empty" if n == 0 else
                 "result_1-9" if n < 10 else "result_10-99" if n < 100 else "result_100+")
        if facts.get("dropped"):
            res.stat("precise_dropped_some")
        if facts.get("tie_pairs"):
            res.stat("precise_equal_brightness_close_pairs")
        res.nontrivial = n > 0 and (facts["above"] > n or facts.get("dropped", 0) > 0)
        if res.nontrivial and not res.viol and n <= 6 and len(inp["pixels"]) <= 64:
            res.sample = dict(input=inp, admissible=n, above_threshold=facts["above"],
                              dropped=facts.get("dropped", 0))
    return res


# ------------------------------------------------------------------------------------------
# where_close / drop_close directly

def run_wc_case(ctx, inp):
    import pandas as pd
    from trackpy.find import where_close, drop_close
    res = Result()
    nd = inp["ndim"]
    seps = [Fraction(s) for s in inp["sep"]]
    pos8 = [list(p) for p in inp["pos8"]]
    n = len(pos8)
    inten = inp.get("inten")
    pos = np.array(pos8, dtype=float).reshape(n, nd) / 8.0
    sep_arg = tuple(float(s) for s in seps)
    if len(set(seps)) == 1 and n % 2 == 0:
        sep_arg = float(seps[0])
    arg = pd.DataFrame(pos, columns=["z", "y", "x"][-nd:]) if inp.get("frame") == "dataframe" else pos
    iarg = None if inten is None else np.array(inten)
    d_impl = sorted(int(i) for i in where_close(arg, sep_arg, iarg))
    kept = drop_close(pos, sep_arg, iarg)
    res.stat("wc_cases")
    res.stat("wc_ndim_%d" % nd)
    res.stat("wc_intensity_none" if inten is None else "wc_intensity_given")
    seps8 = [s * 8 for s in seps]
    if any(s == 0 for s in seps):
        # find.py:23 - a zero separation switches the filter off; the model does the same
        res.stat("wc_zero_separation")
        feats = ";".join("%s:%d:0" % (",".join(str(c) for c in p), 0 if inten is None else inten[i])
                         for i, p in enumerate(pos8))
        m = common.kv(ctx.ask("WC %s | %s" % (",".join(rs(s) for s in seps8), feats)))
        if d_impl != [] or m.get("drop") not in (True, ""):
            res.violation("correspondence-break", "zero separation: code drops %s, model %r"
                          % (d_impl, m.get("drop")), impl=d_impl, model=str(m),
                          broken="Find.whereClose (zero separation)",
                          signature=dict(stream="wc", clause="zero-separation"))
        return res
    gap, fkeys = gap_and_keys([tuple(p) for p in pos8], inten, seps8, fpos=pos,
                              fsep=tuple(float(s) for s in seps))
    if gap:
        res.borderline = True
        res.stat("borderline_pair_in_1e-7_gap")
        return res
    if fkeys is not None:
        keys = fkeys
        res.stat("tiebreak_float_shadow")
    else:
        keys = [sum(Fraction(c) / s for c, s in zip(p, seps8)) for p in pos8]
        res.stat("wc_exact_keys")
    # ---- oracle: pairwise, from the statement
    Q, L = pair_matrix([tuple(p) for p in pos8], seps8)
    I = np.zeros(n, dtype=np.int64) if inten is None else np.asarray(inten)
    keep = np.ones(n, dtype=bool)
    ok_idx = all(0 <= i < n for i in d_impl)
    if not ok_idx:
        res.violation("property-violation", "where_close returned an index out of range",
                      impl=d_impl, signature=dict(stream="wc", clause="subset"))
        return res
    keep[d_impl] = False
    closeM = np.array(Q < L, dtype=bool)
    np.fill_diagonal(closeM, False)
    leM = np.array(Q <= L, dtype=bool)
    np.fill_diagonal(leM, False)
    npairs = int(np.triu(closeM, 1).sum())
    res.nontrivial = npairs > 0
    res.stat("wc_close_pairs_0" if npairs == 0 else "wc_close_pairs_1-5" if npairs <= 5 else
             "wc_close_pairs_6+")
    if int(np.triu(closeM & (I[:, None] == I[None, :]), 1).sum()):
        res.stat("wc_equal_intensity_close_pairs")
    msg = None
    if (closeM & keep[:, None] & keep[None, :]).any():
        i, j = [int(x) for x in np.argwhere(closeM & keep[:, None] & keep[None, :])[0]]
        msg = ("separated", "points %d and %d survive although closer than separation" % (i, j))
    else:
        just = (leM & (I[None, :] >= I[:, None])).any(axis=1)
        if ((~keep) & (~just)).any():
            i = int(np.argwhere((~keep) & (~just))[0][0])
            msg = ("justified", "point %d dropped without an at-least-as-bright neighbour within "
                   "separation" % i)
        elif len(kept) != int(keep.sum()) or rows(np.round(np.asarray(kept) * 8)) != sorted(
                tuple(p) for p, k in zip(pos8, keep) if k):
            msg = ("subset", "drop_close does not return the points where_close keeps")
    if msg is not None:
        res.violation("property-violation", "where_close/drop_close: " + msg[1], impl=d_impl,
                      signature=dict(stream="wc", clause="precise_" + msg[0]))
        return res
    feats = ";".join("%s:%d:%s" % (",".join(str(c) for c in p), 0 if inten is None else inten[i],
                                   rs(keys[i])) for i, p in enumerate(pos8))
    m = common.kv(ctx.ask("WC %s | %s" % (",".join(rs(s) for s in seps8), feats)))
    if "drop" not in m:
        res.violation("harness-error", "model rejected a generated case: %r" % (m,))
        return res
    d_model = [] if m["drop"] in (True, "") else [int(x) for x in m["drop"].split(",")]
    if d_model != d_impl:
        res.violation("correspondence-break", "model whereClose differs from the code although the "
                      "oracle accepts the code's answer (tie-break / pair rule)", impl=d_impl,
                      model=d_model, broken="Find.whereClose",
                      signature=dict(stream="wc", clause="precise", what="model"))
    elif res.nontrivial and n <= 5:
        res.sample = dict(input=inp, dropped=d_impl)
    return res


# ------------------------------------------------------------------------------------------
# exhaustive blocks

def run_exh_case(ctx, inp):
    res = Result()
    shape = tuple(inp["shape"])
    L = inp["levels"]
    npix = int(np.prod(shape))
    nd = len(shape)
    res.stat("exhaustive_family")
    for idx in range(inp["start"], inp["start"] + inp["count"]):
        digits = []
        x = idx
        for _ in range(npix):
            digits.append(x % L)
            x //= L
        image = np.array(digits, dtype=np.uint8).reshape(shape)
        for s in (1, 2):
            for pctF in (Fraction(0), Fraction(50)):
                facts = check_image(ctx, res, image, [Fraction(s)] * nd, s, pctF, 0, True,
                                    dict(stream="exh"), stats=False)
                res.stat("exh_images_x_params")
                if facts and facts["n_expected"] > 0 and (facts["above"] > facts["n_expected"]
                                                          or facts.get("dropped")):
                    res.nontrivial = True
        if res.viol:
            res.viol = res.viol[:1]
            # re-express the failing image as a stand-alone image case for the replay
            res.viol[0]["message"] += " [image %s of family %s]" % (digits, inp["family"])
            break
    return res


def run_case(ctx, inp):
    st = inp.get("stream")
    if st == "wc":
        return run_wc_case(ctx, inp)
    if st == "exh":
        return run_exh_case(ctx, inp)
    return run_image_case(ctx, inp)
