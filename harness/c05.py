"""C05 — locate finds every resolved blob exactly once with sub-pixel accuracy  (proof, PARTIAL).

Streams (all through the real `trackpy` of $VERIF_REPO):

  oracle   THE PROPERTY ITSELF as direct oracle on the real code — a SAMPLED TEST of the accuracy
           clause and of "for all blob images", labelled as supporting evidence (the Lean theorems
           cover the combinatorial clause on the model and exactness for symmetric pixel-centred
           blobs only).  A noise-free image of N in [1,12] Gaussian blobs is rendered by this file
           (own renderer, `render`), inside the CALIBRATED resolved regime (`REGIME`, `sigma_max`),
           and `tp.locate(image, diameter, minmass=<10 % of the lightest analytic blob mass>,
           preprocess=on/off)` must return exactly one feature within 1 px of every true centre, no
           other feature, and every centre error < 0.1 px (2-D) / 0.3 px (3-D, diameters >= 7).
           A failure is a concrete `property-violation`; replay = blob list + parameters.
  model    function mode: `tp.locate` (whole function) against `LocateFull.locateFull`
           (= `Locate.locateModel` + C08's de-duplication and mass cut; op C05LOC) on small blob
           images — integer dtype with preprocess=False, float dtype holding integers with
           preprocess=True; number of rows, positions, mass, raw_mass, signal at 1e-9; the work image
           (bandpass + convert_to_int) compared pixel by pixel; the decidable hypotheses and
           conclusions of the C05 theorems re-checked by the driver (`adm`, `sym` => `exact`) and, for
           symmetric pixel-centred blobs, the exact location re-checked on the code.
"""
import math
from fractions import Fraction

import numpy as np

from . import common
from .common import Result

PROP = "C05"

# ------------------------------------------------------------------------------------------
# the resolved regime (calibrated on the unchanged code, see ASSUMPTIONS and manifest.d/C05.json)

SIG_MIN = 0.6          # px; narrower blobs are not resolved by the pixel grid (pixelation error)
REGIME = {
    # ndim: bound, smallest diameter with / without preprocessing, largest diameter generated,
    #       kappa_eff (preprocess: sqrt(sigma^2 + noise_size^2) <= kappa_eff * diameter),
    #       kappa (no preprocess: sigma <= kappa * diameter), minimal centre distance in diameters
    2: dict(bound=0.1, dmin_pre=7, dmin_raw=5, dmax=15, kappa_eff=0.25, kappa_eff_aniso=0.23, kappa_raw=0.15,
            kappa_raw_d5=0.13, dist=2.0),
    3: dict(bound=0.3, dmin_pre=7, dmin_raw=7, dmax=11, kappa_eff=0.23, kappa_eff_aniso=0.23, kappa_raw=0.18,
            kappa_raw_d5=0.18, dist=2.0),
}
AMP_RATIO = {False: 1.5, True: 1.15}   # brightest / dimmest blob amplitude inside one image, by preprocess
MINMASS_FRAC = 0.10    # the mass cut, as a fraction of the lightest blob's analytic mass


def sigma_max(nd, d, pre, iso=True):
    """largest blob width (per axis, px) that 'suits' diameter d on that axis"""
    R = REGIME[nd]
    if pre:
        k = R["kappa_eff"] if iso else R["kappa_eff_aniso"]
        v = (k * d) ** 2 - 1.0      # noise_size = 1 widens the blob before the mask sees it
        return math.sqrt(v) if v > 0 else 0.0
    return (R["kappa_raw_d5"] if d == 5 else R["kappa_raw"]) * d


RULE = ("oracle: N in [1,12] Gaussian blobs A*exp(-sum((x-c)/sigma)^2/2), rendered noise-free (integer "
        "dtypes: rounded to nearest), 2-D shapes 40-200 px / 3-D 20-40 px per axis, sub-pixel centres "
        "(uniform; ~15 % of the coordinates on half / whole pixels; blobs at exactly the minimum distance "
        "from a border / from each other), every centre >= diameter from the border and >= 2 diameters "
        "(per-axis scaled distance) from every other centre; dtypes uint8 (amplitude 50-250), uint16 / int32 "
        "(250-60000), int16 (250-30000), float32/float64 (raw images also at overall scales 1e-12 … 1e9; a fifth of all scenes with length-one axes) (preprocess off: 1e-3..1e5, on: 0.2..1e4); odd diameters, isotropic and "
        "per axis: 2-D 7-15 with preprocess, 5-15 without; 3-D 7-11.  WITHOUT preprocess: per blob and per "
        "axis sigma in [0.6 px, 0.15*d] (0.13*d for d=5; 3-D 0.18*d), amplitudes within one image within a "
        "factor 1.5.  WITH preprocess (default): one width per image, sigma_a = kappa*d_a with one kappa "
        "for all axes, 0.6 px <= sigma_a and sqrt(sigma_a^2+1) <= 0.25*d_a (0.23*d_a for per-axis "
        "diameters and in 3-D), amplitudes within a factor 1.15.  minmass = 10 % of the lightest blob's "
        "analytic mass A*(2pi)^(n/2)*prod(sigma) (15 % of the cases: 0).  model: 2-D 20-40 px / 3-D "
        "12-18 px images of 1-4 blobs (any width 0.5..0.4*d, some closer than separation, some "
        "pixel-centred and symmetric), diameters 3-9.  Non-trivial = >= 2 blobs with at least one at a "
        "sub-pixel position (oracle); at least one feature compared (model).  distinct = distinct "
        "canonical input.")
ASSUMPTIONS = [
    "THE ACCURACY CLAUSE IS EXERCISED, NOT PROVED: the oracle stream samples blob images and checks the "
    "property statement on the real code; it is a test and is reported as supporting evidence only",
    "resolved regime ('width suits the chosen diameter'), calibrated on the unchanged code (single blobs: "
    ">= 40 sub-pixel offsets incl. 0.5 / 0.499 per cell of a grid diameter x sigma/diameter x dtype x "
    "preprocess; then 4 x 16000 multi-blob images of the generator, last 16000 in the final regime: 0 "
    "violations, worst error 2-D 0.072 px (bound 0.1), 3-D 0.212 px (bound 0.3)).  The centroid of a "
    "Gaussian truncated by the mask is biased towards the mask centre by a fraction of the sub-pixel "
    "offset that grows with sigma/diameter (documented: trackpy.subpx_bias 'try using a larger value for "
    "feature diameter'; diameter = 'the feature's extent ... when in doubt, round up').  Measured worst "
    "single-blob error (px), 2-D: preprocess=False sigma/d = 0.15 -> 0.061 (d>=7), 0.16 -> 0.087, 0.18 -> "
    "0.137 (excluded); d=5: 0.13 -> 0.069, 0.15 -> 0.111 (excluded); preprocess=True (noise_size 1 blurs "
    "the blob: sigma_eff = sqrt(sigma^2+1)): sigma_eff/d <= 0.265 -> <= 0.075, 0.29 -> 0.085-0.11 "
    "(excluded); d=5 with preprocess: sigma_eff >= 1.17 px = 0.23*d, error 0.09-0.13 at every width "
    "(excluded: diameters >= 7 with preprocess).  3-D (diameters >= 7): preprocess=False sigma/d = 0.18 -> "
    "0.223, 0.20 -> 0.296 (excluded); preprocess=True sigma_eff/d <= 0.23 -> <= 0.22, 0.246 -> 0.25-0.28 "
    "(excluded).  sigma < 0.6 px is excluded (a blob of sigma 0.4 px is 1-2 pixels: error 0.1-0.19).  "
    "With preprocess and per-axis diameters the blob must follow the diameters (sigma_a proportional to "
    "d_a): a 7x13 search for a blob of sigma (1.45, 0.9) gave 0.139 px (the 7x13 boxcar removes less "
    "background than a 7x7 one, so more of the blob is cut by the short mask axis).  The trackpy "
    "test-suite's own blobs (draw_feature size = diameter/2, i.e. sigma = 0.35*d in 2-D) are OUTSIDE this "
    "regime for sub-pixel centres (error up to 0.5 px); the suite only places them on integer pixels, where "
    "the error is 0 (theorem symmetric_blob_centroid_exact)",
    "blobs of one image are of comparable brightness: amplitudes within a factor 1.5 (preprocess off) / "
    "1.15 and one common width (preprocess on).  Reason = the documented percentile rule ('features must "
    "have a peak brighter than pixels in this percentile', default 64, of the NON-ZERO pixels): a "
    "noise-free image has no background pixels, so the percentile is taken over the blob cores themselves; "
    "after bandpass the core values are roughly uniform up to the peak, hence every blob whose band-passed "
    "peak is below ~0.64 (2-D) / ~0.5 (3-D) of the typical peak is discarded (observed: 165 'missed' in "
    "2600 images with amplitude ratio 5 and mixed widths, always the dimmest / narrowest blob, always "
    "preprocess=True; and 3 in 4300 with preprocess=False, float images, sigma 0.6, ratio 5, blob on a "
    "half pixel).  Judged documented behaviour of `percentile`, not a defect; reported in the final report",
    "'well-separated' = every two centres >= 2 diameters apart (per-axis scaled Euclidean distance), "
    "'clear of the border' = every centre >= diameter from every border; float images with "
    "preprocess=True need amplitude >> threshold 1/255: 0.2 and up",
    "the mass cut is 10 % of the lightest blob's analytic mass ('far below the blob mass'); 15 % of the "
    "cases use minmass=0 (no spurious feature was ever observed on noise-free images)",
    "a feature is attributed to a blob when it lies within 1 px of the true centre",
    "model stream: integer-dtype images with preprocess=True are NOT compared with the model: "
    "preprocessing.boxcar filters an integer image IN its integer dtype (truncating after every axis "
    "pass) and Bandpass.boxcarRaw models the float path (found by C09); the float64 image holding the "
    "same integers is compared instead (float32: boxcar runs in float32, 1e-7 noise, not compared).  "
    "Float-dtype images with preprocess=False (convert_to_int rescales the raw image) are outside "
    "locateModel and not compared.  threshold = 1/255 exact, shift_thresh = the exact value of the float "
    "0.6, kernel = 50-digit decimals (C10)",
    "model stream borderlines (skipped, counted): a bandpassed pixel within 1e-7 of the threshold or of an "
    "integer boundary after scaling, a percentile threshold within 1e-9 of a pixel value, an off-centre "
    "within 1e-9 of shift_thresh, a pair of rows within 1e-6 of separation, a full tie of where_close "
    "(equal mass and equal key at different positions), a mass within 1e-9 of minmass",
    "numba is absent: engine='auto' runs the python refinement; positions/mass/raw_mass/signal compared at "
    "1e-9 relative (positions: absolute on the scale of the image)",
]
MIN_NONTRIVIAL = 20
TOL = 1e-9
NAMES = ["z", "y", "x"]
DT = {"uint8": np.uint8, "uint16": np.uint16, "float32": np.float32, "float64": np.float64,
      "int16": np.int16, "int32": np.int32}


def init(ctx):
    common.setup_repo_path()


# ------------------------------------------------------------------------------------------
# renderer (own code, not trackpy.artificial)

def render(shape, blobs, dtype):
    """sum of A*exp(-sum(((x_a - c_a)/s_a)^2)/2); integer dtypes: rounded to nearest, clipped"""
    nd = len(shape)
    img = np.zeros(shape, dtype=np.float64)
    axes = [np.arange(n, dtype=np.float64) for n in shape]
    for b in blobs:
        e = 0.0
        for ax in range(nd):
            sh = [1] * nd
            sh[ax] = shape[ax]
            e = e + (-0.5 * ((axes[ax] - b["c"][ax]) / b["s"][ax]) ** 2).reshape(sh)
        img += b["a"] * np.exp(e)
    dt = np.dtype(DT[dtype])
    if dt.kind in "ui":
        img = np.clip(np.rint(img), 0, np.iinfo(dt).max)
    return img.astype(dt)


def analytic_mass(b):
    return b["a"] * (2 * math.pi) ** (len(b["s"]) / 2.0) * float(np.prod(b["s"]))


# ------------------------------------------------------------------------------------------
# generation

def _odd_between(rng, lo, hi):
    return rng.choice([d for d in range(lo, hi + 1) if d % 2 == 1])


def _place(rng, shape, n, diam, dist, border, snap_p=0.15):
    pts = []
    tries = 0
    nd = len(shape)
    while len(pts) < n and tries < 60 * n:
        tries += 1
        c = []
        for a in range(nd):
            lo, hi = border[a], shape[a] - 1 - border[a]
            v = rng.uniform(lo, hi)
            if rng.random() < snap_p:        # boundary sub-pixel positions: half / whole pixels
                v = min(max(math.floor(v) + rng.choice([0.0, 0.5]), lo), hi)
            c.append(round(v, 4))
        if all(sum(((c[a] - p[a]) / diam[a]) ** 2 for a in range(nd)) >= dist ** 2 for p in pts):
            pts.append(c)
    return pts


def _amplitudes(rng, dtype, pre, n):
    ratio = AMP_RATIO[pre]
    if dtype == "uint8":
        amax = rng.uniform(60, 250)
        lo = 50.0
    elif dtype in ("uint16", "int32"):
        amax = 10 ** rng.uniform(math.log10(300), math.log10(60000))
        lo = 250.0
    elif dtype == "int16":        # signed: half the gamut of uint16
        amax = 10 ** rng.uniform(math.log10(300), math.log10(30000))
        lo = 250.0
    else:
        amax = 10 ** (rng.uniform(math.log10(0.25), 4) if pre else rng.uniform(-3, 5))
        lo = 0.2 if pre else 0.0
    out = []
    for _ in range(n):
        a = amax * rng.uniform(1.0 / ratio, 1.0) if rng.random() < 0.8 else \
            amax * rng.choice([1.0 / ratio, 1.0])
        out.append(float("%.6g" % max(a, lo)))
    out[rng.randrange(n)] = float("%.6g" % amax)
    return out


def gen_oracle(rng, i):
    nd = 3 if rng.random() < 0.22 else 2
    R = REGIME[nd]
    pre = rng.random() < 0.55
    dtype = rng.choice(["uint8", "uint8", "uint16", "float32", "float64", "int16", "int32"])
    dlo = R["dmin_pre"] if pre else R["dmin_raw"]
    if rng.random() < 0.6:
        diam = [_odd_between(rng, dlo, R["dmax"])] * nd
    else:
        diam = [_odd_between(rng, dlo, R["dmax"]) for _ in range(nd)]
    if nd == 2:
        shape = [rng.randint(max(40, 3 * d + 2), 200) for d in diam]
        if rng.random() < 0.5:      # keep most images moderate: many blobs per area
            shape = [min(s, rng.randint(60, 110)) if s > 110 else s for s in shape]
    else:
        shape = [rng.randint(max(20, 3 * d + 2), 40) for d in diam]
    n = rng.randint(1, 12)
    dist = R["dist"] if rng.random() < 0.5 else R["dist"] + rng.uniform(0, 1.5)
    pts = _place(rng, shape, n, diam, dist, diam)
    if rng.random() < 0.25 and len(pts) >= 1:
        # boundary: a blob at the minimum allowed distance from a border / from another blob
        c = list(pts[0])
        a = rng.randrange(nd)
        c[a] = float(diam[a]) if rng.random() < 0.5 else float(shape[a] - 1 - diam[a])
        if all(sum(((c[k] - p[k]) / diam[k]) ** 2 for k in range(nd)) >= dist ** 2 for p in pts[1:]):
            pts[0] = c
    if rng.random() < 0.25 and len(pts) >= 2:
        # a pair exactly at the minimum distance along one axis
        a = rng.randrange(nd)
        c = list(pts[0])
        c[a] = round(c[a] + R["dist"] * diam[a], 4)
        if diam[a] <= c[a] <= shape[a] - 1 - diam[a] and \
                all(sum(((c[k] - p[k]) / diam[k]) ** 2 for k in range(nd)) >= R["dist"] ** 2 - 1e-9
                    for p in [pts[0]] + pts[2:]):
            pts[1] = c
    amps = _amplitudes(rng, dtype, pre, len(pts))
    smax = [sigma_max(nd, d, pre, len(set(diam)) == 1) for d in diam]
    same = pre or rng.random() < 0.4      # with preprocess: one common width per image (percentile rule)
    mode = rng.choice(["uniform", "uniform", "max", "min"])
    # with preprocess the blob shape follows the diameters: sigma_a = kappa * d_a, one kappa for all axes
    klo = max(SIG_MIN / d for d in diam)
    khi = min(sm / d for sm, d in zip(smax, diam))

    def widths(u):
        if pre:
            k = klo + (khi - klo) * u[0]
            return [round(k * d, 4) for d in diam]
        return [round(SIG_MIN + (smax[a] - SIG_MIN) * u[a], 4) for a in range(nd)]
    base = [rng.random() for _ in range(nd)] if rng.random() < 0.5 else [rng.random()] * nd
    blobs = []
    for c, a in zip(pts, amps):
        u = base if same else ([rng.random() for _ in range(nd)] if rng.random() < 0.5 else [rng.random()] * nd)
        if mode == "max":
            u = [1.0] * nd
        elif mode == "min":
            u = [0.0] * nd
        blobs.append(dict(c=c, a=a, s=widths(u)))
    out = dict(stream="oracle", nd=nd, shape=shape, dtype=dtype, diameter=diam, preprocess=pre,
               blobs=blobs, minmass0=rng.random() < 0.15)
    # the same scene as frames often arrive: with length-one axes (a 1-frame stack, a trailing channel
    # axis); locate squeezes them away
    lay = rng.random()
    if lay < 0.2:
        out["layout"] = rng.choice(["lead", "trail", "both"])
    # float images in physical units: the same scene at a very small or very large overall scale
    # (raw float images are rescaled to the integer gamut by their maximum, whatever it is)
    if dtype in ("float32", "float64") and not pre and rng.random() < 0.3:
        k = rng.choice([1e-12, 1e-10, 1e-9, 1e-6, 1e6, 1e9]) if dtype == "float64" else rng.choice([1e-9, 1e-6, 1e6])
        out["fscale"] = k
        for b in blobs:
            b["a"] = float("%.6g" % (b["a"] * k))
    return out


def gen_model(rng, i):
    nd = 3 if rng.random() < 0.15 else 2
    pre = rng.random() < (0.25 if nd == 3 else 0.5)
    dtype = "float64" if pre else rng.choice(["uint8", "uint8", "uint16"])
    dset = [3, 5, 7, 9] if nd == 2 else [3, 5]
    diam = [rng.choice(dset)] * nd if rng.random() < 0.6 else [rng.choice(dset) for _ in range(nd)]
    if nd == 2:
        shape = [rng.randint(max(20, 3 * d + 4), 40) for d in diam]
    else:
        shape = [rng.randint(max(12, 3 * d + 2), 18) for d in diam]
    n = rng.randint(1, 4)
    dist = rng.choice([2.0, 2.0, 1.5, 1.0, 0.6])
    border = [d // 2 + (rng.randint(0, 3) if rng.random() < 0.7 else 0) for d in diam]     # d//2 = locate's margin
    centred = rng.random() < 0.35
    pts = _place(rng, shape, n, diam, dist, border, snap_p=0.3)
    if centred:
        pts = [[float(round(v)) for v in c] for c in pts]
    amax = rng.uniform(60, 250) if dtype != "uint16" else rng.choice([250, 4000, 60000]) * rng.uniform(0.5, 1)
    blobs = []
    for c in pts:
        if rng.random() < 0.5:
            s = [round(rng.uniform(0.5, 0.4 * d), 3) for d in diam]
        else:
            k = rng.uniform(0.1, 0.4)
            s = [round(max(0.5, k * d), 3) for d in diam]
        blobs.append(dict(c=c, a=float("%.5g" % (amax * rng.uniform(0.2, 1.0))), s=s))
    return dict(stream="model", nd=nd, shape=shape, dtype=dtype, diameter=diam, preprocess=pre,
                blobs=blobs, minmass_q=rng.choice([None, None, 0.5]),
                max_iter=rng.choice([10, 10, 10, 3, 1]), pct=rng.choice([64, 64, 64, 30, 0]))


def gen_cases(ctx):
    for inp in ctx.corpus():
        yield inp
    no = ctx.n(4000, 60000)
    nm = ctx.n(400, 5000)
    for i in range(max(no, nm)):
        if i < nm:
            yield gen_model(ctx.rng("model", i), i)
        if i < no:
            yield gen_oracle(ctx.rng("oracle", i), i)


# ------------------------------------------------------------------------------------------
# the direct oracle (written from the property statement; independent of the Lean model)

def judge(P, blobs, bound):
    """P: located positions (n x nd).  Returns (verdict, detail, max error)."""
    used = set()
    errs = []
    for k, b in enumerate(blobs):
        if len(P) == 0:
            return "missed", dict(blob=k, nearest=None), None
        d = np.sqrt(((P - np.array(b["c"], dtype=float)) ** 2).sum(1))
        near = np.where(d < 1.0)[0]
        if len(near) == 0:
            return "missed", dict(blob=k, nearest=float(d.min())), None
        if len(near) > 1:
            return "doubled", dict(blob=k, features=[P[j].tolist() for j in near]), None
        used.add(int(near[0]))
        errs.append(float(d[near[0]]))
    if len(used) != len(P):
        extra = [P[j].tolist() for j in range(len(P)) if j not in used]
        return "extra", dict(features=extra[:5], count=len(extra)), max(errs)
    worst = max(errs)
    if worst >= bound:
        k = int(np.argmax(errs))
        return "inaccurate", dict(blob=k, error=worst), worst
    return "ok", None, worst


def in_regime(inp):
    """the generator's regime, re-checked on the input itself (corpus / replay files included)"""
    nd = inp["nd"]
    R = REGIME[nd]
    pre = inp["preprocess"]
    diam = inp["diameter"]
    dlo = R["dmin_pre"] if pre else R["dmin_raw"]
    if any(d < dlo or d % 2 == 0 for d in diam):
        return False
    bl = inp["blobs"]
    for b in bl:
        for a in range(nd):
            if not (SIG_MIN - 1e-9 <= b["s"][a] <= sigma_max(nd, diam[a], pre, len(set(diam)) == 1) + 1e-4):
                return False
            if not (diam[a] - 1e-9 <= b["c"][a] <= inp["shape"][a] - 1 - diam[a] + 1e-9):
                return False
    for i in range(len(bl)):
        for j in range(i):
            if sum(((bl[i]["c"][a] - bl[j]["c"][a]) / diam[a]) ** 2 for a in range(nd)) < R["dist"] ** 2 - 1e-9:
                return False
    amps = [b["a"] for b in bl]
    if pre and any(b["s"] != bl[0]["s"] for b in bl):
        return False
    if pre:
        ks = [bl[0]["s"][a] / diam[a] for a in range(nd)]
        if max(ks) - min(ks) > 2e-4:
            return False
    return max(amps) <= AMP_RATIO[pre] * min(amps) * (1 + 1e-4)     # amplitudes are rounded to 6 digits


def run_oracle(ctx, inp):
    import trackpy as tp
    res = Result()
    nd = inp["nd"]
    bound = REGIME[nd]["bound"]
    blobs = inp["blobs"]
    pre = inp["preprocess"]
    if not blobs or not in_regime(inp):
        res.stat("oracle_outside_regime")
        return res
    img = render(inp["shape"], blobs, inp["dtype"])
    cut = 0.0 if inp.get("minmass0") else MINMASS_FRAC * min(analytic_mass(b) for b in blobs)
    tag = "%dd_%s" % (nd, "pre" if pre else "raw")
    sig = dict(stream="oracle", nd=nd, preprocess=pre, dtype=inp["dtype"])
    res.stat("oracle_cases")
    res.stat("oracle_%s" % tag)
    res.stat("oracle_dtype_%s" % inp["dtype"])
    res.stat("oracle_blobs_%02d" % len(blobs))
    res.stat("oracle_%s" % ("isotropic" if len(set(inp["diameter"])) == 1 else "anisotropic"))
    res.stat("oracle_diam_min_%02d" % min(inp["diameter"]))
    if inp.get("minmass0"):
        res.stat("oracle_minmass0")
    for b in blobs:
        r = max(s / d for s, d in zip(b["s"], inp["diameter"]))
        res.stat("oracle_sigma_over_d_%.2f" % (math.floor(r * 50) / 50.0))
    if inp.get("layout"):
        res.stat("oracle_layout_" + inp["layout"])
        if inp["layout"] in ("lead", "both"):
            img = img[None]
        if inp["layout"] in ("trail", "both"):
            img = img[..., None]
    if inp.get("fscale"):
        res.stat("oracle_float_scale_%g" % inp["fscale"])
    # the same pixel values in another memory layout (Fortran order, transposed / strided / flipped view)
    from .c06 import memory_layout
    img, lay = memory_layout(img, int(img.size) + len(inp["diameter"]) + int(cut))
    res.stat("oracle_memory_" + lay)
    try:
        f = tp.locate(img, tuple(inp["diameter"]), minmass=cut, preprocess=pre)
    except Exception as e:       # locate has no documented reason to refuse such an image
        res.violation("property-violation", "locate raised %s: %s" % (type(e).__name__, str(e)[:200]),
                      signature=dict(sig, what="raised"))
        return res
    cols = NAMES[-nd:]
    P = f[cols].values.astype(float) if len(f) else np.zeros((0, nd))
    verdict, detail, worst = judge(P, blobs, bound)
    subpx = any(abs(v - round(v)) > 1e-9 for b in blobs for v in b["c"])
    res.nontrivial = len(blobs) >= 2 and subpx
    if worst is not None:
        frac_of_bound = worst / bound
        res.stat("oracle_%s_err_le_%s_of_bound" % (tag, "0.10" if frac_of_bound <= 0.1 else "0.25" if frac_of_bound <= 0.25
                                                    else "0.50" if frac_of_bound <= 0.5 else "0.75" if frac_of_bound <= 0.75
                                                    else "0.90" if frac_of_bound <= 0.9 else "1.00"))
    if verdict != "ok":
        res.violation("property-violation",
                      "locate on %d noise-free blob(s), %s, diameter %s, preprocess=%s: %s %s"
                      % (len(blobs), inp["dtype"], inp["diameter"], pre, verdict, detail),
                      impl=dict(features=P.tolist()[:30], n_features=len(P), minmass=cut),
                      model=dict(true_centres=[b["c"] for b in blobs]),
                      signature=dict(sig, what=verdict))
    elif ctx.rng("sample", 0).random() < 1.0:
        res.sample = dict(stream="oracle", nd=nd, dtype=inp["dtype"], diameter=inp["diameter"],
                          preprocess=pre, blobs=len(blobs), max_error_px=round(worst, 4), bound=bound)
    return res


# ------------------------------------------------------------------------------------------
# function mode: tp.locate against LocateFull.locateFull

def rs(x):
    return common.rat_str(Fraction(x))


def thr_borderline(img, pct):
    nz = np.sort(img[img != 0].ravel().astype(np.int64))
    if len(nz) == 0:
        return False
    pos = Fraction(len(nz) - 1) * Fraction(pct) / 100
    lo = int(pos)
    g = pos - lo
    a, b = int(nz[lo]), int(nz[min(lo + 1, len(nz) - 1)])
    thr = Fraction(a) + (Fraction(b) - a) * g
    vals = set(int(v) for v in nz)
    return any(v != thr and abs(Fraction(v) - thr) < Fraction(1, 10 ** 9) for v in vals) or \
        (thr.denominator != 1 and any(abs(Fraction(v) - thr) < Fraction(1, 10 ** 6) for v in vals))


def close(u, v, scale=0.0):
    return abs(u - v) <= TOL * max(scale, abs(u), abs(v))


def run_model(ctx, inp):
    import trackpy as tp
    from trackpy.preprocessing import bandpass, convert_to_int
    from .c10 import kernel_frac
    res = Result()
    nd = inp["nd"]
    shape = inp["shape"]
    diam = inp["diameter"]
    pre = inp["preprocess"]
    radius = [d // 2 for d in diam]
    sep = [d + 1 for d in diam]
    margin = [max(r, s // 2 - 1, d // 2) for r, s, d in zip(radius, sep, diam)]
    sig = dict(stream="model", nd=nd, preprocess=pre)
    res.stat("model_cases")
    res.stat("model_%dd_%s" % (nd, "pre" if pre else "raw"))
    # integer-valued image: rendered as uint16/uint8, then (preprocess) cast to the float dtype
    idt = "uint16" if inp["dtype"] == "uint16" else "uint8"
    ints = render(shape, inp["blobs"], idt)
    if not ints.any():
        res.stat("model_black")
        return res
    raw = ints.astype(DT[inp["dtype"]]) if pre else ints
    # the stages as locate calls them: work image and scale factor
    if pre:
        bp = bandpass(raw, 1, tuple(diam), 1 / 255.)
        mx = float(bp.max())
        if mx > 0:
            sc = bp.clip(min=0).astype(np.float64) * (255 / mx)
            fr = np.abs(sc - np.round(sc))
            if ((fr < 1e-7) & (np.round(sc) != sc) | ((fr < 1e-7) & (sc > 0) & (np.round(sc) == sc) & (sc != 255))).any():
                res.borderline = True
                return res
        if np.any((np.abs(bp - 1 / 255.) < 1e-7) & (bp != 0)):
            res.borderline = True
            return res
        scale, work = convert_to_int(bp, np.uint8)
    else:
        scale, work = 1.0, raw
    if thr_borderline(work, inp["pct"]):
        res.borderline = True
        return res
    kw = dict(preprocess=pre, percentile=inp["pct"], max_iterations=inp["max_iter"])
    from .c06 import memory_layout
    raw, lay = memory_layout(raw, int(raw.size) + int(inp["pct"]) + int(inp["max_iter"]))
    res.stat("memory_" + lay)
    try:
        f0 = tp.locate(raw, tuple(diam), minmass=0, **kw)
    except Exception as e:
        res.violation("correspondence-break", "locate raised %s: %s" % (type(e).__name__, str(e)[:200]),
                      broken="LocateFull.locateFull", signature=dict(sig, what="raised"))
        return res
    minmass = 0.0
    if inp.get("minmass_q") is not None and len(f0) >= 2:
        minmass = float(np.quantile(f0["mass"].values, inp["minmass_q"]))
        if np.any(np.abs(f0["mass"].values - minmass) <= 1e-9 * np.abs(minmass)):
            minmass = float(minmass * (1 + 1e-3))
    f = tp.locate(raw, tuple(diam), minmass=minmass, **kw) if minmass > 0 else f0
    kern = ",".join(common.rat_str(v) for v in kernel_frac(1.0, 4))
    r = ctx.ask("C05LOC %s | %d | %s | %s | %s | %s | %s | %s | %s | %s | %s | %d | %s | %s | %s" % (
        ",".join(map(str, shape)), 1 if pre else 0, ",".join(["1"] * nd), ";".join([kern] * nd),
        ",".join(map(str, diam)), "1/255" if pre else "d", ",".join(map(str, sep)), rs(inp["pct"]),
        ",".join(map(str, margin)), ",".join(map(str, radius)), rs(0.6), inp["max_iter"],
        rs(float(scale)), rs(minmass), ",".join(str(int(v)) for v in ints.ravel())))
    if r in ("reject", "bad-op"):
        res.violation("correspondence-break", "locateFull answers %s" % r, broken="LocateFull.locateFull",
                      signature=dict(sig, what=r))
        return res
    parts = r.split(" # ")
    head = common.kv(parts[0])
    wm = np.array([int(v) for v in head["work"].split(",")], dtype=np.int64)
    if not np.array_equal(wm, work.ravel().astype(np.int64)):
        res.violation("correspondence-break", "work image (bandpass + convert_to_int) differs in %d pixels"
                      % int(np.sum(wm != work.ravel())), broken="Locate.workImage", signature=dict(sig, what="work-image"))
        return res
    recs = [common.kv(p) for p in parts[1:]]
    # model self-checks: theorem hypotheses / conclusions evaluated by the driver
    if head["adm"] != "1":
        res.violation("correspondence-break", "driver: the maxima are not exactly the admissible pixels "
                      "(one_feature_per_peak contradicted)", broken="C05.one_feature_per_peak", signature=dict(sig, what="adm"))
        return res
    for d in recs:
        if d["sym"] == "1":
            res.stat("model_symmetric_peaks")
            if d["exact"] != "1" and Fraction(d["mass"]) != 0:
                res.violation("correspondence-break", "driver: symmetric neighbourhood but position != peak "
                              "(symmetric_blob_centroid_exact contradicted)", model=d,
                              broken="C05.symmetric_blob_centroid_exact", signature=dict(sig, what="sym-exact"))
                return res
    if head["sepok"] == "1":
        res.stat("model_peaks_separated")
    if head["far"] == "1":
        res.stat("model_rows_far_apart")
        if sum(1 for d in recs if d["kept"] == "1") != sum(
                1 for d in recs if Fraction(d["mass"]) / Fraction(float(scale)) > Fraction(minmass)):
            res.violation("correspondence-break", "driver: rows >= separation apart but de-duplication removed one "
                          "(locateFull_symmetric_peaks_exact / dedupe_eq_self contradicted)",
                          broken="LocateFull.dedupe_eq_self", signature=dict(sig, what="far-dedupe"))
            return res
    # float borderlines
    for d in recs:
        if d["mg"] != "none" and Fraction(d["mg"]) < Fraction(1, 10 ** 9):
            res.borderline = True
            return res
        m = Fraction(d["mass"]) / Fraction(float(scale))
        if minmass > 0 and abs(m - Fraction(minmass)) <= Fraction(1, 10 ** 9) * Fraction(minmass):
            res.borderline = True
            return res
    if head["dm"] != "none" and Fraction(head["dm"]) < Fraction(1, 10 ** 6):
        res.borderline = True
        return res
    if int(head["ties"]) > 0:
        res.stat("model_mass_ties")
        S = [Fraction(s) for s in sep]
        pos = [[Fraction(v) for v in d["pos"].split(",")] for d in recs]
        for i in range(len(recs)):
            for j in range(i):
                if Fraction(recs[i]["mass"]) == Fraction(recs[j]["mass"]) and pos[i] != pos[j] and \
                        sum(((a - b) / s) ** 2 for a, b, s in zip(pos[i], pos[j], S)) < 1 and \
                        sum(a / s for a, s in zip(pos[i], S)) == sum(b / s for b, s in zip(pos[j], S)):
                    res.borderline = True       # full tie at different positions: float rounding decides
                    return res
    kept = [d for d in recs if d["kept"] == "1"]
    res.stat("model_maxima", len(recs))
    res.stat("model_rows_removed_by_dedupe_or_mass", len(recs) - len(kept))
    if len(kept) != len(f):
        res.violation("correspondence-break", "locateFull keeps %d rows, tp.locate returns %d" % (len(kept), len(f)),
                      model=[d["pos"] for d in kept], impl=f[NAMES[-nd:]].values.tolist(),
                      broken="LocateFull.locateFull", signature=dict(sig, what="row-count"))
        return res
    if len(kept) == 0:
        return res
    cols = NAMES[-nd:]
    M = []
    for d in kept:
        p = [float(Fraction(v)) for v in d["pos"].split(",")]
        M.append(p + [float(Fraction(d["mass"]) / Fraction(float(scale))), float(Fraction(d["raw"])),
                      float(Fraction(d["signal"]) / Fraction(float(scale)))])
    M = np.array(M)
    C = np.column_stack([f[cols].values.astype(float), f["mass"].values, f["raw_mass"].values, f["signal"].values])

    def order(A):
        key = np.round(A[:, :nd], 6)
        return A[np.lexsort(tuple(key[:, j] for j in reversed(range(nd))))]
    M, C = order(M), order(C)
    for a, b in zip(M, C):
        bad = [j for j in range(len(a)) if not close(a[j], b[j], 1e-3 * max(shape) if j < nd else 0.0)]
        if bad:
            res.violation("correspondence-break", "feature differs in columns %s (order: %s, mass, raw_mass, signal)"
                          % (bad, cols), model=a.tolist(), impl=b.tolist(), broken="LocateFull.locateFull",
                          signature=dict(sig, what="feature"))
            return res
    # exact location of symmetric pixel-centred blobs, on the code
    for d in kept:
        if d["sym"] == "1" and d["exact"] == "1":
            p = np.array([float(v) for v in d["start"].split(",")])
            dd = np.abs(C[:, :nd] - p).max(1).min()
            res.stat("model_symmetric_exact_on_code")
            if dd > 1e-9 * max(shape):
                res.violation("property-violation", "pixel-centred symmetric blob at %s located %.3g px away"
                              % (p.tolist(), dd), impl=C[:, :nd].tolist(), signature=dict(sig, what="symmetric-not-exact"))
                return res
    res.stat("model_features_compared", len(kept))
    res.nontrivial = True
    if len(kept) >= 2:
        res.stat("model_multi_feature")
    return res


def run_case(ctx, inp):
    s = inp.get("stream")
    if s == "oracle":
        return run_oracle(ctx, inp)
    if s == "model":
        return run_model(ctx, inp)
    raise ValueError("unknown stream %r" % s)
