"""C03 — all linking strategies, entry points and coordinate scalings agree.

For each movie the REFERENCE is link_iter with link_strategy='recursive'.  Variants:
  strategies  recursive / nonrecursive / numba / hybrid / auto / drop   (via link_iter)
  entries     link (table, rows shuffled), link_df_iter
  prediv      per-axis search_range  vs  coordinates pre-divided by it with search_range = 1
  uniform     coordinates and search_range multiplied by a common power of two
  legacy      trackpy.linking.legacy.link_iter on an iterator of PointND levels (labels read at
              yield time: the legacy linker later appends remembered points to the yielded list),
              for neighbor_strategy 'KDTree' and 'BTree' (the hash grid; box_size default /
              range/2 / range / 1.5 range / 3 range / one odd ratio, hash_size = the data's extent),
              link_strategy recursive / nonrecursive / auto / drop, and through the deprecated
              entry point legacy.link (list of levels + hash_generator, returns Track objects)
Every variant's labelled output is judged by the monitor (`LRUN`; Props/C02 step_optimal,
Props/C03 strategies_same_cost, drop_unlinks_contested, scale_invariant) and its partition is
compared with the reference: equal when every step of the reference has a unique optimum, else
only acceptance (equal cost) is required.  'drop' is judged with the monitor's drop rule.
"""
import numpy as np

from . import common, linkcommon
from .common import Result

PROP = "C03"
RULE = ("C01 movie stream + a stream of sparse movies with long steps in arbitrary directions (range "
        "4..16 lattice units); every movie is run through 6 strategies, 3 entry points, shuffled rows, "
        "per-axis vs pre-divided coordinates, a uniform power-of-two rescaling and the legacy linker "
        "(KDTree; BTree hash grid with 6 box sizes, the movie translated into the grid; 4 link "
        "strategies; legacy.link_iter and legacy.link).  Non-trivial = the reference run has at least "
        "one contested sub-net or memory re-link; distinct = distinct canonical movie.")
ASSUMPTIONS = [
    "integer lattice positions; pre-division uses the same float operation (x / search_range) as "
    "Linker.to_eucl, uniform rescaling uses powers of two: both exact",
    "numba paths run interpreted; sources with more than 8 real candidates make the numba "
    "strategies raise (documented cap): such movies are compared only where each variant returns",
    "legacy DataFrame wrappers (legacy.link_df / link_df_iter) return NaN labels under pandas 3 "
    "copy-on-write and are not used as observation points (environment incompatibility)",
    "legacy code is not modelled: it is tied by this differential run only",
    "legacy neighbor_strategy='BTree' is run only where the unchanged code accepts the request: 2-D / "
    "3-D (get_region raises NotImplementedError otherwise), scalar search_range (Linker raises "
    "ValueError for per-axis ranges), coordinates inside [0, hash_size) (Out_of_hash_excpt otherwise: "
    "the movie is translated by an exactly representable vector, which does not change the partition). "
    "BTree takes candidates with d < search_range (strict) and has no 10-neighbour cap: a pair at "
    "exactly search_range costs what not linking costs, so this only moves a run between tied optima",
    "legacy link_strategy='numba' does not exist without numba (ValueError) and is not run",
]
MIN_NONTRIVIAL = 20
# legacy hash grid: box_size as a multiple of search_range (None = the default, which is search_range);
# every movie gets the five BOXES and one of ODD_BOXES (box_size is documented as a performance knob:
# "no matter what the box size" the candidates are the features within search_range)
BOXES = [("default", None), ("half", 0.5), ("range", 1.0), ("1p5", 1.5), ("3", 3.0)]
ODD_BOXES = [("third", 1.0 / 3.0), ("0p75", 0.75), ("2p25", 2.25), ("5", 5.0)]
LEGACY_STRATS = ["recursive", "nonrecursive", "auto"]
MAX_HASH_CELLS = 1500000      # boxes allocated per legacy BTree run (a fresh grid per level)
STRATS = ["nonrecursive", "numba", "hybrid", "auto", "drop"]


def init(ctx):
    common.setup_repo_path()


def gen_cases(ctx):
    for inp in ctx.corpus():
        yield inp
    n = ctx.n(150, 1200)
    for i in range(n):
        rng = ctx.rng("movie", i)
        mv = linkcommon.gen_movie(rng, thorough=ctx.thorough, plant_history=(i % 2 == 0))
        mv["stream"] = "agree"
        mv["shuffle_seed"] = rng.randrange(10 ** 6)
        yield mv
    for i in range(ctx.n(40, 300)):
        yield gen_long_steps(ctx.rng("long-steps", i))


def gen_long_steps(rng):
    """A few features taking LONG steps in arbitrary directions, on a lattice that is fine against the
    range (search_range 4..16 lattice units; steps of 0.3..1.15 ranges): the candidates that a
    neighbour search structure (k-d tree, hash grid of any box size) has to find far from the
    feature's own cell, in every direction.  Sparse, so that exact ties are rare and the partitions
    themselves are compared."""
    import math
    dim = rng.choice([2, 2, 3])
    R = rng.randint(4, 16)
    npart = rng.randint(2, 8)
    nfr = rng.randint(2, 6)
    side = R * rng.choice([3, 5, 8])
    pos = [[rng.randrange(side) for _ in range(dim)] for _ in range(npart)]
    frames = []
    for k in range(nfr):
        pts = [list(p) for p in pos if rng.random() < 0.9]
        rng.shuffle(pts)
        frames.append(pts)
        for p in pos:
            v = [rng.gauss(0, 1) for _ in range(dim)]
            if rng.random() < 0.4:        # along a diagonal of the lattice
                v = [rng.choice([-1.0, 1.0]) for _ in range(dim)]
            nv = math.sqrt(sum(c * c for c in v)) or 1.0
            L = R * rng.uniform(0.3, 1.15)
            for i in range(dim):
                p[i] += int(round(L * v[i] / nv))
    return dict(dim=dim, frames=frames, t0=rng.choice([0, 0, 3, -2]), sr=[4 * R] * dim, iso=True,
                scale_pow=rng.choice([0, 0, 0, -8, 10]), default_cols=(rng.random() < 0.3),
                memory=rng.choice([0, 0, 1, 2]), strategy="recursive", entry="link_iter", missing=[],
                stream="long-steps", shuffle_seed=rng.randrange(10 ** 6))


def partition(levels):
    """partition by (level, position multiset index): positions may repeat, so use sorted order"""
    d = {}
    for k, (t, pts, labels) in enumerate(levels):
        order = sorted(range(len(pts)), key=lambda i: (pts[i], i))
        # duplicates are interchangeable: canonicalise by position + rank among equal positions
        seen = {}
        for i in order:
            key = tuple(pts[i])
            r = seen.get(key, 0)
            seen[key] = r + 1
            d.setdefault(labels[i], []).append((t, key))
    return frozenset(tuple(sorted(v)) for v in d.values())


class LegacySkip(Exception):
    """the request is outside what the (unchanged) legacy code accepts, or too large to run"""


def btree_layout(inp, box_factor):
    """Where the movie is put for the legacy hash grid: HashTable needs 0 <= pos < hash_size on every
    axis (Out_of_hash_excpt otherwise), the movies walk to negative coordinates.  Returns (shift in
    lattice units, hash_size in data units, box_size in data units or None).  The shift is a multiple
    of a quarter lattice unit (exact in float64 together with the power-of-two scale) and differs per
    movie and box size, so that box boundaries fall at varying places relative to the features."""
    import random
    dim = inp["dim"]
    f = linkcommon.scale_of(inp)
    unit = inp.get("fine", 1)
    rr = random.Random(inp.get("shuffle_seed", 0) * 31 + int(1000 * (box_factor or 0)))
    allc = [p for pts in inp["frames"] for p in pts] or [[0] * dim]
    lo = [min(p[i] for p in allc) for i in range(dim)]
    hi = [max(p[i] for p in allc) for i in range(dim)]
    shift = [-lo[i] + unit * rr.randrange(0, 48) / 4.0 for i in range(dim)]
    pad = unit * rr.choice([0.25, 1.0, 7.5])
    hash_size = [(hi[i] + shift[i] + pad) * f for i in range(dim)]
    # (3-D grids need not be cubic: the strides of the legacy hash table were repaired in /repo)
    hash_size = tuple(hash_size)
    rng_data = inp["sr"][0] / 4.0 * f
    box = None if box_factor is None else rng_data * box_factor
    cells = 1.0
    for h in hash_size:
        cells *= np.ceil(h / (box if box is not None else rng_data))
    if cells * max(1, len(inp["frames"])) > MAX_HASH_CELLS:
        raise LegacySkip("grid")
    return shift, hash_size, box


def run_legacy(inp, neighbor="KDTree", strategy="recursive", box=None, entry="link_iter",
               hash_gen=False):
    """legacy linker.  neighbor 'BTree': box = box_size / search_range (None: not given); hash_gen:
    the grid is handed over as `hash_generator` instead of hash_size + box_size; entry 'link' is
    the deprecated legacy.link (list of levels in, Track objects out)."""
    from trackpy.linking import legacy
    from trackpy.linking.utils import SubnetOversizeException
    dim = inp["dim"]
    f = linkcommon.scale_of(inp)
    legacy.PointND.reset_counter()
    sr = linkcommon.search_range_arg(inp)
    if not isinstance(sr, tuple):
        sr = (sr,) * dim
    kw = dict(memory=inp["memory"], neighbor_strategy=neighbor, link_strategy=strategy)
    shift = [0.0] * dim
    hgen = None
    if neighbor == "BTree":
        if dim not in (2, 3) or not inp.get("iso", True):
            raise LegacySkip("request")      # NotImplementedError / ValueError in the unchanged code
        shift, hash_size, box_size = btree_layout(inp, box)
        if hash_gen or entry == "link":
            bs = box_size if box_size is not None else sr[0]
            hgen = lambda: legacy.HashTable(hash_size, bs)
        else:
            kw["hash_size"] = hash_size
            if box_size is not None:
                kw["box_size"] = box_size
    t0 = inp["t0"]

    def level(k, pts):
        return [legacy.PointND(t0 + k, (np.array(p, dtype=float) + shift) * f, id=i)
                for i, p in enumerate(pts)]
    levels = []
    if entry == "link":
        lv = [level(k, pts) for k, pts in enumerate(inp["frames"])]
        try:
            tracks = legacy.link(lv, sr, hgen, **kw)
        except SubnetOversizeException:
            return "oversize"
        lab = {}
        for tr in tracks:
            for p in tr.points:
                lab.setdefault((p.t, p.id), []).append(int(tr.indx))
        for k, pts in enumerate(inp["frames"]):
            got = [(i, l) for i in range(len(pts)) for l in lab.get((t0 + k, i), [])]
            levels.append((t0 + k, [pts[i] for i, _ in got], [l for _, l in got]))
        return levels

    def it():
        for k, pts in enumerate(inp["frames"]):
            yield level(k, pts)
    if hgen is not None:
        kw["hash_generator"] = hgen
    try:
        for k, lvl in enumerate(legacy.link_iter(it(), sr, **kw)):
            cur = [p for p in lvl if p.t == t0 + k]
            levels.append((t0 + k, [inp["frames"][k][p.id] for p in cur],
                           [int(p.track.id) for p in cur]))
    except SubnetOversizeException:
        levels.append((t0 + len(levels), inp["frames"][len(levels)], None))
    return levels


def exact_range_pair(inp):
    """is some pair of features of levels at most memory + 1 apart at EXACTLY search_range?  (the
    legacy hash grid takes d < search_range, everything else d <= search_range)"""
    w, B = linkcommon.weights(inp["sr"])
    fr = inp["frames"]
    for k in range(len(fr)):
        for kk in range(k + 1, min(len(fr), k + inp["memory"] + 2)):
            for p in fr[k]:
                for q in fr[kk]:
                    if sum(wi * (a - b) ** 2 for wi, a, b in zip(w, p, q)) == B:
                        return True
    return False


def drop_oracle(inp, levels):
    """the 'drop' clause of the statement, directly on a labelled output: a trajectory is continued
    only inside an uncontested group (one source, one feature, within search_range of each other and
    of nothing else).  Returns None or a message."""
    w, B = linkcommon.weights(inp["sr"])
    last = {}
    for k, (t, pts, labels) in enumerate(levels):
        if labels is None:
            return None
        srcs = [(l, p0) for l, (kk, p0) in last.items() if k - kk <= inp["memory"] + 1]
        near = [[i for i, (_, p0) in enumerate(srcs)
                 if sum(wi * (a - b) ** 2 for wi, a, b in zip(w, p0, p)) <= B] for p in pts]
        nfeat = {}
        for ns in near:
            for i in ns:
                nfeat[i] = nfeat.get(i, 0) + 1
        for j, (p, l) in enumerate(zip(pts, labels)):
            for i in near[j]:
                if srcs[i][0] == l and (len(near[j]) > 1 or nfeat[i] > 1):
                    return ("level %d: trajectory %d is continued although %d trajectories are within "
                            "search_range of the feature and %d features within search_range of the "
                            "trajectory's last position (link_strategy='drop' leaves contested groups "
                            "unlinked)" % (k, l, len(near[j]), nfeat[i]))
        for p, l in zip(pts, labels):
            last[l] = (k, p)
    return None


def run_prediv(inp):
    """pre-divided coordinates, search_range 1 — positions mapped back to the lattice"""
    import trackpy as tp
    from trackpy.linking.utils import SubnetOversizeException
    dim = inp["dim"]
    s = np.array([a / 4.0 for a in inp["sr"]])
    levels = []

    def it():
        for k, pts in enumerate(inp["frames"]):
            yield inp["t0"] + k, np.array(pts, dtype=float).reshape(len(pts), dim) / s
    gen = tp.link_iter(it(), 1.0, memory=inp["memory"], link_strategy="recursive")
    k = 0
    while True:
        try:
            t, ids = next(gen)
        except StopIteration:
            break
        except SubnetOversizeException:
            levels.append((inp["t0"] + k, inp["frames"][k], None))
            break
        levels.append((int(t), inp["frames"][k], [int(i) for i in ids]))
        k += 1
    return levels


def run_uniform(inp, factor):
    mv = dict(inp)
    mv["frames"] = [[[c * factor for c in p] for p in pts] for pts in inp["frames"]]
    mv["sr"] = [a * factor for a in inp["sr"]]
    lv = linkcommon.run_impl(mv)
    return [(t, [[c // factor for c in p] for p in pts], labels) for t, pts, labels in lv]


def run_shuffled_table(inp):
    mv = dict(inp)
    import random
    rr = random.Random(inp["shuffle_seed"])
    mv["frames"] = [rr.sample(pts, len(pts)) for pts in inp["frames"]]
    mv["entry"] = "link"
    return linkcommon.run_impl(mv)


def run_case(ctx, inp):
    res = Result()
    ref_inp = dict(inp, entry="link_iter", strategy="recursive")
    ref = linkcommon.run_impl(ref_inp)
    m = common.kv(ctx.ask(linkcommon.lrun_line(ref_inp, ref)))
    res.stat("movies")
    res.stat("stream_" + str(inp.get("stream", "agree")))
    if m.get("verdict") not in ("ok", "capped", "expect-oversize"):
        reason = str(m.get("reason")).replace("_", " ")
        omsg = linkcommon.oracle_levels(ref_inp, ref)
        if omsg is not None:
            res.violation("property-violation", "link_iter/recursive: %s [monitor: %s]" % (omsg, reason),
                          impl=ref, model=m, signature=dict(what=reason, variant="reference"))
        else:
            res.violation("correspondence-break", "reference run rejected by the monitor: %s" % m,
                          impl=ref, model=m, broken="Linker.stepCheck",
                          signature=dict(what="reference-rejected"))
        return res
    ref_raised = any(l[2] is None for l in ref)
    unique = m.get("ties") == "0" and m.get("verdict") == "ok" and m.get("capped") == "0"
    res.nontrivial = int(m.get("contested", 0)) + int(m.get("relinks", 0)) > 0
    res.stat("reference_unique_optimum" if unique else "reference_tied_or_capped")
    many_cands = False
    variants = []
    for s in STRATS:
        variants.append(("strategy:" + s, dict(inp, entry="link_iter", strategy=s), None))
    variants.append(("entry:link_df_iter", dict(inp, entry="link_df_iter", strategy="recursive"), None))
    variants.append(("entry:link+shuffled-rows", None, run_shuffled_table))
    if not inp.get("iso", True):
        variants.append(("prediv", None, run_prediv))
    variants.append(("uniform-x4", None, lambda i: run_uniform(dict(i, entry="link_iter", strategy="recursive"), 4)))
    variants.append(("legacy", None, run_legacy))
    # the other configurations of the legacy linker ("neighbor_strategy available" x link_strategy x
    # entry point), each judged like "legacy".  Which link strategy / which way of describing the grid
    # goes with which box size rotates with the movie.
    h = inp.get("shuffle_seed", 0)
    legacy_meta = {"legacy": dict(stats=["legacy_kdtree_recursive"], btree=False)}

    def add_legacy(name, stats, **kw):
        variants.append((name, None, lambda i, kw=kw: run_legacy(i, **kw)))
        legacy_meta[name] = dict(stats=stats, btree=kw.get("neighbor") == "BTree")
    for st in ("nonrecursive", "auto", "drop"):
        add_legacy("legacy:KDTree/" + st, ["legacy_kdtree_" + st], strategy=st)
    st = LEGACY_STRATS[h % 3]
    add_legacy("legacy:KDTree/%s+link-entry" % st, ["legacy_kdtree_" + st, "legacy_entry_link"],
               strategy=st, entry="link")
    if inp["dim"] in (2, 3) and inp.get("iso", True):
        # (1-D and per-axis ranges: the unchanged hash grid refuses them, see ASSUMPTIONS)
        if exact_range_pair(inp):
            res.stat("legacy_btree_movies_with_pair_at_exact_range")
        for j, (bn, bf) in enumerate(BOXES + [ODD_BOXES[h % len(ODD_BOXES)]]):
            st = LEGACY_STRATS[(h + j) % 3]
            mode = 0 if bf is None else (h // 3 + j) % 4
            stats = ["legacy_btree_box_" + bn, "legacy_btree_" + st]
            kw = dict(neighbor="BTree", strategy=st, box=bf)
            suffix = ""
            if mode == 2:
                kw["hash_gen"], suffix = True, "+hash_generator"
                stats.append("legacy_btree_hash_generator")
            elif mode == 3:
                kw["entry"], suffix = "link", "+link-entry"
                stats.append("legacy_entry_link")
            add_legacy("legacy:BTree(box=%s)/%s%s" % (bn, st, suffix), stats, **kw)
    else:
        res.stat("legacy_btree_not_applicable_1d_or_per_axis")
    for name, vinp, fn in variants:
        try:
            lv = linkcommon.run_impl(vinp) if fn is None else fn(inp)
        except LegacySkip as e:
            res.stat("variant_legacy_btree_skipped_" + str(e))
            continue
        except Exception as e:   # an entry point that crashes on an input others accept
            res.violation("property-violation", "%s raised %s: %s" % (name, type(e).__name__, str(e)[:200]),
                          signature=dict(what="variant-crashed", variant=name,
                                         first_level_empty=(len(inp["frames"][0]) == 0)))
            continue
        if lv is None or lv == "oversize":
            res.stat("variant_skipped")
            continue
        res.stat("variant_" + name.split(":")[0])
        for st in legacy_meta.get(name, {}).get("stats", []):
            res.stat("variant_" + st)
        btree = legacy_meta.get(name, {}).get("btree", False)
        raised = any(l[2] is None for l in lv)
        drop = name in ("strategy:drop", "legacy:KDTree/drop")
        numba = name in ("strategy:numba", "strategy:hybrid", "strategy:auto")
        if raised != ref_raised:
            if numba and raised:
                res.stat("numba_cap_raise")     # documented 9-candidate cap
                continue
            if name.startswith("entry:link+") or drop:
                res.stat("raise_not_comparable")
                continue
            if btree and ((raised and not unique and not ref_raised)
                          or (ref_raised and exact_range_pair(inp))):
                # the hash grid has no 10-neighbour cap (its sub-nets can be larger) and does not
                # take pairs at exactly search_range (its sub-nets can be smaller)
                res.stat("btree_raise_not_comparable")
                continue
            res.violation("property-violation", "%s %s SubnetOversizeException but the reference %s"
                          % (name, "raised" if raised else "did not raise",
                             "raised" if ref_raised else "did not"),
                          impl=dict(reference=ref, variant=lv),
                          signature=dict(what="raise-differs", variant=name))
            continue
        mv = common.kv(ctx.ask(linkcommon.lrun_line(ref_inp, lv, drop=drop)))
        if mv.get("verdict") not in ("ok", "capped", "expect-oversize"):
            reason = str(mv.get("reason")).replace("_", " ")
            omsg = linkcommon.oracle_levels(ref_inp, lv, check_optimal=not drop)
            if omsg is None and drop:
                omsg = drop_oracle(ref_inp, lv)
            if omsg is not None:
                res.violation("property-violation", "%s: %s" % (name, omsg), impl=lv, model=mv,
                              signature=dict(what=reason, variant=name))
            else:
                res.violation("correspondence-break", "%s: monitor rejects (%s), oracle accepts"
                              % (name, reason), impl=lv, model=mv, broken="Linker.stepCheck",
                              signature=dict(what=reason, variant=name))
            continue
        if drop or raised or ref_raised:
            continue
        if partition(lv) != partition(ref):
            if unique:
                res.violation("property-violation",
                              "%s partitions the features differently from link_iter/recursive although "
                              "every step has a unique optimum" % name,
                              impl=dict(reference=ref, variant=lv),
                              signature=dict(what="partition-differs", variant=name))
            else:
                res.stat("tie_partition_differs")
        else:
            res.stat("partition_equal")
    if res.nontrivial and len(ref) <= 4 and not res.viol:
        res.sample = dict(input=inp, reference_labels=[l[2] for l in ref], monitor=m)
    return res
