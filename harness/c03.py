"""C03 — all linking strategies, entry points and coordinate scalings agree.

For each movie the REFERENCE is link_iter with link_strategy='recursive'.  Variants:
  strategies  recursive / nonrecursive / numba / hybrid / auto / drop   (via link_iter)
  entries     link (table, rows shuffled), link_df_iter
  prediv      per-axis search_range  vs  coordinates pre-divided by it with search_range = 1
  uniform     coordinates and search_range multiplied by a common power of two
  legacy      trackpy.linking.legacy.link_iter on an iterator of PointND levels (labels read at
              yield time: the legacy linker later appends remembered points to the yielded list)
Every variant's labelled output is judged by the monitor (`LRUN`; Props/C02 step_optimal,
Props/C03 strategies_same_cost, drop_unlinks_contested, scale_invariant) and its partition is
compared with the reference: equal when every step of the reference has a unique optimum, else
only acceptance (equal cost) is required.  'drop' is judged with the monitor's drop rule.
"""
import numpy as np

from . import common, linkcommon
from .common import Result

PROP = "C03"
RULE = ("C01 movie stream; every movie is run through 6 strategies, 3 entry points, shuffled rows, "
        "per-axis vs pre-divided coordinates, a uniform power-of-two rescaling and the legacy "
        "linker.  Non-trivial = the reference run has at least one contested sub-net or memory "
        "re-link; distinct = distinct canonical movie.")
ASSUMPTIONS = [
    "integer lattice positions; pre-division uses the same float operation (x / search_range) as "
    "Linker.to_eucl, uniform rescaling uses powers of two: both exact",
    "numba paths run interpreted; sources with more than 8 real candidates make the numba "
    "strategies raise (documented cap): such movies are compared only where each variant returns",
    "legacy DataFrame wrappers (legacy.link_df / link_df_iter) return NaN labels under pandas 3 "
    "copy-on-write and are not used as observation points (environment incompatibility)",
    "legacy code is not modelled: it is tied by this differential run only",
]
MIN_NONTRIVIAL = 20
STRATS = ["nonrecursive", "numba", "hybrid", "auto", "drop"]


def init(ctx):
    common.setup_repo_path()


def gen_cases(ctx):
    for inp in ctx.corpus():
        yield inp
    n = ctx.n(150, 1200)
    for i in range(n):
        rng = ctx.rng("movie", i)
        mv = linkcommon.gen_movie(rng, thorough=ctx.thorough, plant_history=(i % 2 == 0))
        mv["stream"] = "agree"
        mv["shuffle_seed"] = rng.randrange(10 ** 6)
        yield mv


def partition(levels):
    """partition by (level, position multiset index): positions may repeat, so use sorted order"""
    d = {}
    for k, (t, pts, labels) in enumerate(levels):
        order = sorted(range(len(pts)), key=lambda i: (pts[i], i))
        # duplicates are interchangeable: canonicalise by position + rank among equal positions
        seen = {}
        for i in order:
            key = tuple(pts[i])
            r = seen.get(key, 0)
            seen[key] = r + 1
            d.setdefault(labels[i], []).append((t, key))
    return frozenset(tuple(sorted(v)) for v in d.values())


def run_legacy(inp):
    from trackpy.linking import legacy
    from trackpy.linking.utils import SubnetOversizeException
    dim = inp["dim"]
    legacy.PointND.reset_counter()
    sr = linkcommon.search_range_arg(inp)
    if not isinstance(sr, tuple):
        sr = (sr,) * dim

    def it():
        for k, pts in enumerate(inp["frames"]):
            yield [legacy.PointND(inp["t0"] + k, np.array(p, dtype=float) * linkcommon.scale_of(inp))
                   for p in pts]
    levels = []
    try:
        for k, lvl in enumerate(legacy.link_iter(it(), sr, memory=inp["memory"],
                                                 link_strategy="recursive")):
            cur = [p for p in lvl if p.t == inp["t0"] + k]
            levels.append((inp["t0"] + k,
                           [[int(round(v / linkcommon.scale_of(inp))) for v in p.pos] for p in cur],
                           [int(p.track.id) for p in cur]))
    except SubnetOversizeException:
        levels.append((inp["t0"] + len(levels), inp["frames"][len(levels)], None))
    return levels


def run_prediv(inp):
    """pre-divided coordinates, search_range 1 — positions mapped back to the lattice"""
    import trackpy as tp
    from trackpy.linking.utils import SubnetOversizeException
    dim = inp["dim"]
    s = np.array([a / 4.0 for a in inp["sr"]])
    levels = []

    def it():
        for k, pts in enumerate(inp["frames"]):
            yield inp["t0"] + k, np.array(pts, dtype=float).reshape(len(pts), dim) / s
    gen = tp.link_iter(it(), 1.0, memory=inp["memory"], link_strategy="recursive")
    k = 0
    while True:
        try:
            t, ids = next(gen)
        except StopIteration:
            break
        except SubnetOversizeException:
            levels.append((inp["t0"] + k, inp["frames"][k], None))
            break
        levels.append((int(t), inp["frames"][k], [int(i) for i in ids]))
        k += 1
    return levels


def run_uniform(inp, factor):
    mv = dict(inp)
    mv["frames"] = [[[c * factor for c in p] for p in pts] for pts in inp["frames"]]
    mv["sr"] = [a * factor for a in inp["sr"]]
    lv = linkcommon.run_impl(mv)
    return [(t, [[c // factor for c in p] for p in pts], labels) for t, pts, labels in lv]


def run_shuffled_table(inp):
    mv = dict(inp)
    import random
    rr = random.Random(inp["shuffle_seed"])
    mv["frames"] = [rr.sample(pts, len(pts)) for pts in inp["frames"]]
    mv["entry"] = "link"
    return linkcommon.run_impl(mv)


def run_case(ctx, inp):
    res = Result()
    ref_inp = dict(inp, entry="link_iter", strategy="recursive")
    ref = linkcommon.run_impl(ref_inp)
    m = common.kv(ctx.ask(linkcommon.lrun_line(ref_inp, ref)))
    res.stat("movies")
    if m.get("verdict") not in ("ok", "capped", "expect-oversize"):
        res.violation("correspondence-break", "reference run rejected by the monitor: %s" % m,
                      impl=ref, model=m, broken="Linker.stepCheck",
                      signature=dict(what="reference-rejected"))
        return res
    ref_raised = any(l[2] is None for l in ref)
    unique = m.get("ties") == "0" and m.get("verdict") == "ok" and m.get("capped") == "0"
    res.nontrivial = int(m.get("contested", 0)) + int(m.get("relinks", 0)) > 0
    res.stat("reference_unique_optimum" if unique else "reference_tied_or_capped")
    many_cands = False
    variants = []
    for s in STRATS:
        variants.append(("strategy:" + s, dict(inp, entry="link_iter", strategy=s), None))
    variants.append(("entry:link_df_iter", dict(inp, entry="link_df_iter", strategy="recursive"), None))
    variants.append(("entry:link+shuffled-rows", None, run_shuffled_table))
    if not inp.get("iso", True):
        variants.append(("prediv", None, run_prediv))
    variants.append(("uniform-x4", None, lambda i: run_uniform(dict(i, entry="link_iter", strategy="recursive"), 4)))
    variants.append(("legacy", None, run_legacy))
    for name, vinp, fn in variants:
        try:
            lv = linkcommon.run_impl(vinp) if fn is None else fn(inp)
        except Exception as e:   # an entry point that crashes on an input others accept
            res.violation("property-violation", "%s raised %s: %s" % (name, type(e).__name__, str(e)[:200]),
                          signature=dict(what="variant-crashed", variant=name,
                                         first_level_empty=(len(inp["frames"][0]) == 0)))
            continue
        if lv is None or lv == "oversize":
            res.stat("variant_skipped")
            continue
        res.stat("variant_" + name.split(":")[0])
        raised = any(l[2] is None for l in lv)
        drop = name == "strategy:drop"
        numba = name in ("strategy:numba", "strategy:hybrid", "strategy:auto")
        if raised != ref_raised:
            if numba and raised:
                res.stat("numba_cap_raise")     # documented 9-candidate cap
                continue
            if name.startswith("entry:link+") or drop:
                res.stat("raise_not_comparable")
                continue
            res.violation("property-violation", "%s %s SubnetOversizeException but the reference %s"
                          % (name, "raised" if raised else "did not raise",
                             "raised" if ref_raised else "did not"),
                          impl=dict(reference=ref, variant=lv),
                          signature=dict(what="raise-differs", variant=name))
            continue
        mv = common.kv(ctx.ask(linkcommon.lrun_line(ref_inp, lv, drop=drop)))
        if mv.get("verdict") not in ("ok", "capped", "expect-oversize"):
            reason = str(mv.get("reason")).replace("_", " ")
            omsg = linkcommon.oracle_levels(ref_inp, lv, check_optimal=not drop)
            if omsg is not None:
                res.violation("property-violation", "%s: %s" % (name, omsg), impl=lv, model=mv,
                              signature=dict(what=reason, variant=name))
            else:
                res.violation("correspondence-break", "%s: monitor rejects (%s), oracle accepts"
                              % (name, reason), impl=lv, model=mv, broken="Linker.stepCheck",
                              signature=dict(what=reason, variant=name))
            continue
        if drop or raised or ref_raised:
            continue
        if partition(lv) != partition(ref):
            if unique:
                res.violation("property-violation",
                              "%s partitions the features differently from link_iter/recursive although "
                              "every step has a unique optimum" % name,
                              impl=dict(reference=ref, variant=lv),
                              signature=dict(what="partition-differs", variant=name))
            else:
                res.stat("tie_partition_differs")
        else:
            res.stat("partition_equal")
    if res.nontrivial and len(ref) <= 4 and not res.viol:
        res.sample = dict(input=inp, reference_labels=[l[2] for l in ref], monitor=m)
    return res
