"""C19 — static structure measures match their geometric definitions (trackpy/static.py).

Streams
  cluster  : multi-frame tables (2-D/3-D, k/8 grid, scalar or per-axis separation, duplicates,
             shuffled rows, odd indexes) through `trackpy.static.cluster`.  The order in which the
             implementation feeds `Clusters.from_pairs` is captured by wrapping that classmethod
             from the harness; the model (`CLUSTER`) replays `from_pairs` on exactly that order
             (function mode: ids and sizes must be EQUAL) and reports whether the captured pairs
             are exactly the model's pairs (hypothesis `hE` of `cluster_iff_connected`); the
             model's own order is compared up to renaming.
  boundary : the same with pairs planted at EXACTLY `separation` along an axis (float-exact),
             reported separately.
  prox     : `trackpy.static.proximity` vs `PROX` (squared distances, exact) .
  pcorr    : `pair_correlation_2d/3d` (explicit boundary, fraction=1) vs the model `PCORR` with
             the code's own edge-correction values plugged in; permutation / translation
             invariance checked directly on the code.
  clusterbig / proxbig : the same runners on crowded frames of 45-110 (cluster) / 33-500 (proximity:
             the other kd-tree leaf sizes) rows, frame numbers of either sign, any DataFrame index;
             large proximity frames are judged by the direct oracle only.
  gr       : the PUBLIC signatures of `pair_correlation_2d/3d` on inhomogeneous point sets (aggregate
             in a dilute background, two clusters of different density, dense line, jittered
             lattice, uniform) with the rarely varied options (boundary automatic / given / wider /
             cutting particles off, ndensity, max_rel_ndensity, fraction=1, p_indices, handle_edge,
             dr not dividing the cutoff or wider than it, cutoff larger than the box, odd DataFrame
             index).  Whenever a g(r) is RETURNED every judged bin must equal the brute-force
             definition over ALL pairs within the cutoff; the documented RuntimeError "too many
             particle pairs" is accepted when some particle really fills its max_p_count slots and
             is answered by doubling max_rel_ndensity; permutation / translation invariance.
             Direct oracle only (no model).
  arc      : `arclen_2d_bounded` vs exact angle-interval arithmetic, `area_3d_bounded` vs
             numerical quadrature (supporting evidence for 3-D).
  arcfn    : `circle_cap_arclen`, `circle_corner_arclen`, `arclen_2d_bounded` in function mode vs the
             Lean model Model/Arc.lean executed at Float (`ARCCAP/ARCCORNER/ARC2D`, 1e-12) and vs
             angle-interval arithmetic (1e-6); the model at the reals is what Props/C19Arc proves
             to be the arc length inside the box.
Direct oracles (independent of the Lean model): union-find on the exact strict adjacency, brute
force nearest neighbour, brute-force g(r), interval arithmetic / quadrature.
"""
import math
from fractions import Fraction

import numpy as np

from . import common
from .common import Result

PROP = "C19"
RULE = ("cluster/boundary streams: 1-4 frames x 1-30 points on a k/8 grid sized near the "
        "percolation threshold of the separation, 2-D/3-D, scalar or per-axis separation m/8, "
        "planted duplicates and (boundary stream) planted pairs at exactly the separation; "
        "non-trivial = some frame has a cluster of >= 3 rows and >= 2 clusters.  prox: 1-30 points, "
        "non-trivial = >= 3 rows.  pcorr: 4-40 points in a box, dyadic cutoff/dr, non-trivial = "
        ">= 1 edge-corrected pair and >= 2 non-empty bins.  arc: random (pos, r, box) incl. centres "
        "on edges/corners and r larger than the box, non-trivial = >= 1 side cut.  arcfn: 1-6 "
        "(centre, r) per box, grid / generic doubles / radii on and one ulp around the mask "
        "thresholds (h = r, h1^2+h2^2 = r^2), r up to 2x the box and down to 1e-6 of it, "
        "non-trivial = >= 1 side cut.  gr: 8-150 particles on a 1/1024 grid in 5 point-set classes "
        "(uniform, aggregate + dilute background, two clusters, dense line, jittered lattice), "
        "boundary automatic or given (exact / wider / cutting particles off / particles in corners), "
        "all keyword options of the public signature except fraction < 1 (random subset), cutoff "
        "from a fraction of the dense structure to 1.3 box diagonals, 1-60 bins; non-trivial = >= 2 "
        "judged non-empty bins.  clusterbig / proxbig: crowded frames of 45-110 / 33-500 rows.  "
        "distinct = distinct canonical input.")
ASSUMPTIONS = [
    "coordinates and separations are k/8: every rescaled squared distance is an exact rational "
    "whose distance from 1 is 0 or >= 1e-6, so float64 decides every non-tie as the model does",
    "an exact tie (rescaled distance == 1) is compared only when it is float-exact (the float "
    "quotients coords/separation differ by exactly 1 along one axis); other exact ties are "
    "float noise in the implementation and are counted as borderline and skipped",
    "cKDTree.query_pairs / query are modelled by brute force",
    "Python set iteration order of the pair set is observed (wrapped from_pairs), not modelled",
    "pair correlation: model computes on squared distances in exact rationals; the code's own "
    "arclen/area values (float) are plugged in as the abstract `arc`; sums compared at 1e-9 rel.",
    "gr stream: coordinates, boundaries and translations are integers/1024 (float-exact); distances, "
    "arc lengths and sums are float64; a bin is not judged when a pair distance lies within 1e-9 "
    "of one of its edges or of the cutoff, or when a pair's arc inside the box is between 1e-6 and "
    "1e-3 of its radius (the code's undefined-weight threshold is 1e-5); g compared at 1e-6; in "
    "3-D the code's own area_3d_bounded supplies the weights (checked by the arc stream); "
    "fraction < 1 (random subset) is not generated; samples so sparse that max_p_count <= 1 are "
    "skipped and counted (the unchanged tree raises ValueError / IndexError there: reported)",
    "3-D edge correction is compared with numerical quadrature only (tolerance 1e-4): supporting "
    "evidence, not covered by a theorem",
    "2-D edge correction: the Lean definitions proved exact over the reals are executed at IEEE "
    "double (libm acos/asin) and compared with numpy's evaluation at 1e-12 of the full circle "
    "(caps: 1e-12 relative); the NaN guard is compared except within 1e-12 of its threshold "
    "(counted as arcfn_guard_borderline); rounding error itself is not modelled",
]
MIN_NONTRIVIAL = 20

F = Fraction


def init(ctx):
    common.setup_repo_path()


def fr(s):
    return Fraction(s)


def rs(x):
    return common.rat_str(x)


# ------------------------------------------------------------------------------------------
# generation: clusters

def _inexact_tie(p, q, sep, dim):
    """exact tie (rescaled distance == 1) that float64 does not see as exactly 1"""
    s = sum(F(p[k] - q[k], sep[k]) ** 2 for k in range(dim))
    if s != 1:
        return False
    cf = lambda v: [F((v[k] / 8.0) / (sep[k] / 8.0)) for k in range(dim)]  # noqa
    a, b = cf(p), cf(q)
    return sum((a[k] - b[k]) ** 2 for k in range(dim)) != 1


def _repair_inexact_ties(rng, pts, sep, dim):
    """move points (by 1/8) until no pair of the frame is a float-inexact tie: such pairs are
    decided by rounding noise in the implementation and would only be skipped as borderline"""
    for _ in range(40):
        hit = None
        for a in range(len(pts)):
            for b in range(a + 1, len(pts)):
                if _inexact_tie(pts[a], pts[b], sep, dim):
                    hit = b
                    break
            if hit is not None:
                break
        if hit is None:
            return
        pts[hit][rng.randrange(dim)] += rng.choice([-1, 1])


def gen_cluster(rng, boundary, big=False):
    dim = rng.choice([2, 2, 3])
    per_axis = rng.random() < 0.4
    if boundary:
        # separations whose quotients are float-exact for axis-aligned planted ties
        pool = [2, 4, 8, 16, 3, 5, 6, 12]
    else:
        pool = [2, 3, 4, 5, 6, 7, 8, 10, 12, 16]
    sep = [rng.choice(pool) for _ in range(dim)] if per_axis else [rng.choice(pool)] * dim
    nframes = rng.choice([1, 1, 2, 3, 4])
    frame_nos = sorted(rng.sample(range(0, 12), nframes))
    if big:                                   # few, crowded frames; frame numbers of either sign
        nframes = rng.choice([1, 2])
        frame_nos = sorted(rng.sample(range(-5, 40), nframes))
    rows = []
    for fno in frame_nos:
        n = rng.choice([1, 2, 3, 5, 8, 12, 20, 30]) if rng.random() < 0.8 else rng.randint(1, 30)
        if big:
            n = rng.choice([45, 70, 110])
        # box so that the mean number of neighbours within the separation is ~ 1-3
        dens = rng.choice([0.6, 1.0, 1.5, 2.5])
        vol_sep = (math.pi if dim == 2 else 4.19) * np.prod([s / 8.0 for s in sep])
        side = (max(n, 2) * vol_sep / dens) ** (1.0 / dim)
        ext = [max(1, int(round(side * 8 * (s / max(sep))))) for s in sep]
        pts = []
        for _ in range(n):
            r = rng.random()
            if pts and r < 0.10:                       # duplicate
                p = list(rng.choice(pts))
            elif pts and boundary and r < 0.55:        # exactly `separation` away along one axis
                q = rng.choice(pts)
                ax = rng.randrange(dim)
                p = list(q)
                p[ax] = q[ax] + rng.choice([-1, 1]) * sep[ax]
            elif pts and r < 0.25:                     # a near neighbour, on either side of the bound
                q = rng.choice(pts)
                p = [q[a] + rng.randint(-sep[a], sep[a]) for a in range(dim)]
            else:
                p = [rng.randint(0, ext[a]) for a in range(dim)]
            pts.append(p)
        _repair_inexact_ties(rng, pts, sep, dim)
        rows += [[fno] + p for p in pts]
    rng.shuffle(rows)
    index = rng.choice(["range", "shuffled", "offset"])
    n = len(rows)
    if index == "range":
        idx = list(range(n))
    elif index == "offset":
        idx = list(range(100, 100 + n))
    else:
        idx = rng.sample(range(0, 3 * n + 5), n)
    return dict(stream=("clusterbig" if big else "boundary" if boundary else "cluster"), dim=dim,
                sep=["%d/8" % s for s in sep], scalar_sep=(not per_axis) and rng.random() < 0.8,
                rows=[[r[0]] + ["%d/8" % v for v in r[1:]] for r in rows], index=idx,
                t_column=rng.choice(["frame", "frame", "t"]),
                drop_frame=(nframes == 1 and rng.random() < 0.3),
                explicit_pos=rng.random() < 0.5, extra_col=rng.random() < 0.5)


def gen_cluster_chain(rng):
    """large frames (40-120 features) in which a cluster hangs together by SINGLE links a little
    shorter than the separation (0.95 ... 0.999 of it): a string of close beads along one axis with
    such gaps, and short rods of features beside each gap (not connected to the string) - an
    approximate or pruned neighbour search loses exactly these links"""
    dim = rng.choice([2, 2, 3])
    S = rng.choice([32, 64, 128, 256])                # separation in units of 1/8 (quotients float-exact)
    ax = rng.randrange(dim)                           # the string runs along this axis
    ay = (ax + 1) % dim
    h = rng.choice([S // 4, S // 2, (3 * S) // 4])
    pts = []
    x = 0
    segs = rng.randint(3, 6)
    for sgi in range(segs):
        for _ in range(rng.randint(6, 20)):
            p = [0] * dim
            p[ax] = x
            p[ay] = rng.choice([0, 0, 1, -1]) * (S // 16)
            pts.append(p)
            x += h
        x -= h
        if sgi < segs - 1:
            g = S - rng.randint(1, max(1, (S * 3) // 64))          # 0.953 ... 0.997 of the separation
            # a rod BESIDE the gap (1.5 separations away from the string), parallel to the string or
            # across it: its features have coordinates between those of the two ends of the link
            for side in ([1], [-1], [1, -1])[rng.randrange(3)]:
                k = rng.randint(4, 14)
                along = rng.random() < 0.7
                for j in range(k):
                    q = [0] * dim
                    if along:
                        q[ax] = x + 1 + (j * (g - 2)) // max(1, k - 1)
                        q[ay] = side * (3 * S) // 2
                    else:
                        q[ax] = x + g // 2 + rng.choice([-1, 0, 1])
                        q[ay] = side * ((3 * S) // 2 + j * (S // 2))
                    pts.append(q)
                if rng.random() < 0.6:
                    # two stacks of features just inside the two ends of the link (so that a space
                    # partition puts a cut right behind each end)
                    for xs in (x + 1 + rng.randint(0, 1), x + g - 1 - rng.randint(0, 1)):
                        for j in range(rng.randint(8, 18)):
                            q = [0] * dim
                            q[ax] = xs
                            q[ay] = side * ((3 * S) // 2 + (j * 3 * S) // 8)
                            pts.append(q)
            x += g
    fno = rng.choice([0, 3, 17])
    rows = [[fno] + p for p in pts]
    rng.shuffle(rows)
    n = len(rows)
    return dict(stream="clusterbig", dim=dim, sep=["%d/8" % S] * dim, scalar_sep=rng.random() < 0.8,
                rows=[[r[0]] + ["%d/8" % v for v in r[1:]] for r in rows],
                index=rng.choice([list(range(n)), rng.sample(range(0, 3 * n + 5), n)]),
                t_column="frame", drop_frame=rng.random() < 0.3,
                explicit_pos=rng.random() < 0.5, extra_col=False)


def gen_prox(rng):
    dim = rng.choice([2, 2, 3])
    n = rng.choice([1, 2, 3, 5, 9, 17, 30])
    ext = rng.choice([4, 16, 64])
    pts = []
    for _ in range(n):
        if pts and rng.random() < 0.15:
            pts.append(list(rng.choice(pts)))
        else:
            pts.append([rng.randint(0, ext) for _ in range(dim)])
    return dict(stream="prox", dim=dim, pts=[["%d/8" % v for v in p] for p in pts],
                particle=rng.random() < 0.5, perm=rng.randint(0, 10 ** 6))


def gen_prox_big(rng):
    """frames large enough for the other leaf sizes of proximity's kd-tree (round(log10(n)) = 2, 3),
    crowded enough for coincident points and equidistant neighbours, any DataFrame index"""
    dim = rng.choice([2, 2, 3])
    n = rng.choice([33, 60, 150, 320, 500])
    ext = rng.choice([8, 40, 400])
    pts = []
    for _ in range(n):
        if pts and rng.random() < 0.05:
            pts.append(list(rng.choice(pts)))
        else:
            pts.append([rng.randint(0, ext) for _ in range(dim)])
    return dict(stream="proxbig", dim=dim, pts=[["%d/8" % v for v in p] for p in pts],
                particle=rng.random() < 0.5, perm=rng.randint(0, 10 ** 6),
                index=rng.choice(["range", "offset", "shuffled"]), extra_col=rng.random() < 0.5)


def gen_cases(ctx):
    for inp in ctx.corpus():
        yield inp
    for i in range(ctx.n(500, 9000)):
        yield gen_cluster(ctx.rng("cluster", i), boundary=False)
    for i in range(ctx.n(300, 5000)):
        yield gen_cluster(ctx.rng("boundary", i), boundary=True)
    for i in range(ctx.n(40, 500)):
        yield gen_cluster(ctx.rng("clusterbig", i), boundary=i % 3 == 0, big=True)
    for i in range(ctx.n(80, 800)):
        yield gen_cluster_chain(ctx.rng("clusterchain", i))
    for i in range(ctx.n(200, 3000)):
        yield gen_prox(ctx.rng("prox", i))
    for i in range(ctx.n(60, 800)):
        yield gen_prox_big(ctx.rng("proxbig", i))
    from . import c19_pcorr
    for inp in c19_pcorr.gen_cases(ctx):
        yield inp


# ------------------------------------------------------------------------------------------
# clusters: implementation runner, oracle, model

POSCOLS = {2: ["y", "x"], 3: ["z", "y", "x"]}


def components(n, adj):
    parent = list(range(n))

    def find(a):
        while parent[a] != a:
            parent[a] = parent[parent[a]]
            a = parent[a]
        return a
    for a, b in adj:
        ra, rb = find(a), find(b)
        if ra != rb:
            parent[rb] = ra
    return [find(i) for i in range(n)]


def canon_partition(labels):
    seen = {}
    return [seen.setdefault(l, len(seen)) for l in labels]


def run_cluster_impl(inp):
    """-> (frames: list of (frame_no, [row positions in input order]), labels/sizes by input row,
           captured pair orders per from_pairs call) or ('raise', exc)"""
    import pandas as pd
    from trackpy import static
    dim = inp["dim"]
    cols = POSCOLS[dim]
    rows = inp["rows"]
    tcol = inp["t_column"]
    data = {c: [float(fr(r[1 + k])) for r in rows] for k, c in enumerate(cols)}
    if not inp["drop_frame"]:
        data[tcol] = [r[0] for r in rows]
    if inp["extra_col"]:
        data["mass"] = [float(i) for i in range(len(rows))]
    f = pd.DataFrame(data, index=inp["index"])
    sep = [float(fr(s)) for s in inp["sep"]]
    sep_arg = sep[0] if inp["scalar_sep"] else tuple(sep)
    captured = []
    orig = static.Clusters.__dict__["from_pairs"].__func__

    def wrapped(cls, pairs, *args, **kwargs):               # extra parameters are passed through
        pairs = list(pairs)
        captured.append([(int(a), int(b)) for a, b in pairs])
        return orig(cls, pairs, *args, **kwargs)
    static.Clusters.from_pairs = classmethod(wrapped)
    try:
        kw = {}
        if inp["explicit_pos"]:
            kw["pos_columns"] = cols
        if tcol != "frame":
            kw["t_column"] = tcol
        before = f.copy()
        out = static.cluster(f, sep_arg, **kw)
    except Exception as e:  # noqa - judged by the caller
        return ("raises", repr(e))
    finally:
        static.Clusters.from_pairs = classmethod(orig)
    if not before.equals(f):
        return ("mutated-input", None)
    if sorted(out.index) != sorted(inp["index"]):
        return ("index-changed", list(out.index))
    # the same table with its position columns called otherwise (pos_columns=new names)
    if inp["explicit_pos"] and (len(f) + len(cols)) % 3 == 0:
        new = [["x0", "x1", "x2"], ["xc", "yc", "zc"], ["x_um", "y_um", "z_um"], ["col", "row", "plane"]
               ][len(f) % 4][:len(cols)]
        try:
            out2 = static.cluster(f.rename(columns=dict(zip(cols, new))), sep_arg,
                                  **dict(kw, pos_columns=new))
        except Exception as e:  # noqa
            return ("raises-with-renamed-position-columns", repr(e))
        if list(out2.index) != list(out.index) or \
                list(out2["cluster"].values) != list(out["cluster"].values) or \
                list(out2["cluster_size"].values) != list(out["cluster_size"].values):
            return ("renamed-position-columns-change-the-clusters", None)
    lab = out["cluster"].reindex(inp["index"])
    siz = out["cluster_size"].reindex(inp["index"])
    return ("ok", [int(v) for v in lab.values], [int(v) for v in siz.values], captured)


def run_cluster_case(ctx, inp):
    res = Result()
    dim = inp["dim"]
    sep = [fr(s) for s in inp["sep"]]
    rows = inp["rows"]
    stream = inp["stream"]
    res.stat(stream + "_cases")
    # group rows by frame, ascending (what groupby does), keeping input order inside a frame
    fnos = sorted({r[0] for r in rows})
    groups = [[i for i, r in enumerate(rows) if r[0] == fno] for fno in fnos]
    pts = [[fr(v) for v in r[1:]] for r in rows]

    # ---- exact geometry (oracle side) ------------------------------------------------------
    sepf = np.array([float(s) for s in sep])
    ties_total = 0
    inexact_tie = False
    strict_adj, incl_adj = [], []
    for g in groups:
        sa, ia = [], []
        cf = [np.array([float(v) for v in pts[i]]) / sepf for i in g]
        for a in range(len(g)):
            for b in range(a + 1, len(g)):
                s = sum(((pts[g[a]][k] - pts[g[b]][k]) / sep[k]) ** 2 for k in range(dim))
                if s < 1:
                    sa.append((a, b))
                    ia.append((a, b))
                elif s == 1:
                    ia.append((a, b))
                    ties_total += 1
                    sfl = sum((F(float(cf[a][k])) - F(float(cf[b][k]))) ** 2 for k in range(dim))
                    if sfl != 1:
                        inexact_tie = True
                elif abs(float(s) - 1) < 1e-9:
                    inexact_tie = True
        strict_adj.append(sa)
        incl_adj.append(ia)
    res.stat("frames", len(groups))
    res.stat("rows", len(rows))
    res.stat("exact_ties", ties_total)
    if ties_total:
        res.stat("cases_with_exact_tie")
    if inexact_tie:
        res.borderline = True
        res.stat("borderline_inexact_tie")
        return res

    out = run_cluster_impl(inp)
    if out[0] != "ok":
        res.violation("property-violation", "cluster(): %s" % out[0], impl=out[1],
                      signature=dict(stream="cluster", what=out[0]))
        return res
    _, labels, sizes, captured = out

    def judge(adjs):
        """compare the implementation with the component structure of the given adjacency"""
        bad = []
        for g, adj in zip(groups, adjs):
            comp = components(len(g), adj)
            lab = [labels[i] for i in g]
            if canon_partition(comp) != canon_partition(lab):
                bad.append("partition")
            csize = {c: comp.count(c) for c in set(comp)}
            if [csize[c] for c in comp] != [sizes[i] for i in g]:
                bad.append("size")
        return bad

    bad = judge(strict_adj)
    idsets = [set(labels[i] for i in g) for g in groups]
    reuse = any(idsets[a] & idsets[b] for a in range(len(groups)) for b in range(a + 1, len(groups)))
    oracle_failed = False
    if reuse:
        oracle_failed = True
        res.violation("property-violation", "a cluster id is used in two frames",
                      impl=dict(labels=labels), signature=dict(stream="cluster", what="id-reused"))
    if bad:
        oracle_failed = True
        if ties_total and not judge(incl_adj):
            res.violation("property-violation",
                          "features at a distance of exactly `separation` are clustered together "
                          "(the property says: closer than separation); %d exact tie(s)" % ties_total,
                          impl=dict(labels=labels, sizes=sizes),
                          signature=dict(stream="cluster", what="pair-distance-equals-separation"))
        else:
            res.violation("property-violation",
                          "cluster labels/sizes are not the connected components of the "
                          "'closer than separation' graph (%s)" % ",".join(sorted(set(bad))),
                          impl=dict(labels=labels, sizes=sizes),
                          signature=dict(stream="cluster", what="cluster-" + sorted(set(bad))[0]))

    # ---- model ---------------------------------------------------------------------------------
    frames_s = " ; ".join(" ".join(",".join(rs(v) for v in pts[i]) for i in g) for g in groups)
    sep_s = ",".join(rs(s) for s in sep)

    def ord_s(o):
        return "." if not o else " ".join("%d-%d" % p for p in o)
    m_own = common.kv(ctx.ask("CLUSTER %s # %s # %s" % (sep_s, frames_s,
                                                      " ; ".join("*" for _ in groups))))
    res.model_calls += 1
    if "ids" not in m_own:
        res.violation("harness-error", "model returned %r" % m_own)
        return res
    own_ids = [int(x) for part in m_own["ids"].split(";") for x in part.split(",")]
    own_sizes = [int(x) for part in m_own["sizes"].split(";") for x in part.split(",")]
    flat = [i for g in groups for i in g]
    impl_ids = [labels[i] for i in flat]
    impl_sizes = [sizes[i] for i in flat]
    npairs = sum(int(x) for x in m_own["npairs"].split(";"))
    res.stat("model_pairs", npairs)
    if not oracle_failed:
        # model's own order: equal up to renaming inside each frame, sizes equal
        off = 0
        for g in groups:
            a = canon_partition(own_ids[off:off + len(g)])
            b = canon_partition(impl_ids[off:off + len(g)])
            if a != b or own_sizes[off:off + len(g)] != impl_sizes[off:off + len(g)]:
                res.violation("correspondence-break", "model (own pair order) and implementation "
                              "differ although the oracle accepts", impl=dict(ids=impl_ids, sizes=impl_sizes),
                              model=m_own, broken="Clusters.fromCoords / cluster_iff_connected",
                              signature=dict(stream="cluster", what="model-partition"))
                break
            off += len(g)
        if len(captured) == len(groups):
            m = common.kv(ctx.ask("CLUSTER %s # %s # %s" % (sep_s, frames_s,
                                                          " ; ".join(ord_s(o) for o in captured))))
            res.model_calls += 1
            ids = [int(x) for part in m["ids"].split(";") for x in part.split(",")]
            szs = [int(x) for part in m["sizes"].split(";") for x in part.split(",")]
            tie_only = all(set(o) == set(ia) for o, ia in zip(captured, incl_adj))
            if m.get("orderok") != "1" and ties_total and tie_only:
                # same root cause as the boundary finding, invisible in the partition here
                res.stat("tie_pair_fed_partition_unaffected")
                res.violation("correspondence-break", "from_pairs is fed a pair at a distance of "
                              "exactly `separation` (partition unaffected in this case)",
                              impl=captured, model=m, broken="pairs (hypothesis hE)",
                              signature=dict(stream="cluster",
                                             what="pair-distance-equals-separation"))
            elif m.get("orderok") != "1":
                res.violation("correspondence-break", "the pairs fed to from_pairs are not the "
                              "model's pairs", impl=captured, model=m,
                              broken="pairs (hypothesis hE)",
                              signature=dict(stream="cluster", what="pair-set"))
            elif ids != impl_ids or szs != impl_sizes:
                res.violation("correspondence-break", "replaying from_pairs on the implementation's "
                              "own pair order gives other ids/sizes",
                              impl=dict(ids=impl_ids, sizes=impl_sizes), model=m,
                              broken="Clusters.add / clusterIterFrom (function mode)",
                              signature=dict(stream="cluster", what="exact-ids"))
            else:
                res.stat("exact_id_matches")
        else:
            res.stat("order_not_captured")
    big = False
    for g, adj in zip(groups, strict_adj):
        comp = components(len(g), adj)
        cnt = [comp.count(c) for c in set(comp)]
        if max(cnt) >= 3 and len(cnt) >= 2:
            big = True
        res.stat("clusters", len(cnt))
        res.stat("clusters_ge3", sum(1 for c in cnt if c >= 3))
    res.nontrivial = big
    if len(groups) > 1:
        res.stat("multi_frame_cases")
    if inp["scalar_sep"]:
        res.stat("scalar_separation")
    else:
        res.stat("tuple_separation")
    if dim == 3:
        res.stat("cases_3d")
    if big and not res.viol and ties_total:
        res.sample = dict(stream=stream, sep=inp["sep"], frames=len(groups), rows=len(rows),
                          exact_ties=ties_total, model=m_own)
    return res


# ------------------------------------------------------------------------------------------
# proximity

def run_prox_case(ctx, inp):
    import pandas as pd
    import random
    from trackpy import static
    res = Result()
    res.stat("prox_cases")
    if inp["stream"] != "prox":
        res.stat(inp["stream"] + "_cases")
    dim = inp["dim"]
    pts = [[fr(v) for v in p] for p in inp["pts"]]
    n = len(pts)
    cols = ["x", "y", "z"][:dim]
    data = {c: [float(p[k]) for p in pts] for k, c in enumerate(cols)}
    labels = list(range(n))
    if inp["particle"]:
        random.Random(inp["perm"]).shuffle(labels)
        data["particle"] = labels
    if inp.get("extra_col"):
        data["mass"] = [float(i) for i in range(n)]
    index = inp.get("index", "range")
    if index == "offset":
        idx = list(range(100, 100 + n))
    elif index == "shuffled":
        idx = random.Random(inp["perm"] + 1).sample(range(3 * n + 5), n)
    else:
        idx = list(range(n))
    res.stat("prox_index_" + index)
    f = pd.DataFrame(data, index=idx)
    kw = {} if dim == 2 else dict(pos_columns=cols)
    try:
        out = static.proximity(f, **kw)
    except Exception as e:  # noqa
        res.violation("property-violation", "proximity raised %r" % e,
                      signature=dict(stream="prox", what="raises"))
        return res
    if len(out) != n:
        res.violation("property-violation", "proximity returns %d rows for %d features" % (len(out), n),
                      signature=dict(stream="prox", what="rows"))
        return res
    got = [float(v) for v in out["proximity"].values]
    if inp["particle"] and list(out.index) != labels:
        res.violation("property-violation", "proximity: index is not the particle column",
                      impl=list(out.index), signature=dict(stream="prox", what="index"))
    # oracle: brute force, exact (integer arithmetic on the numerators of the k/8 coordinates)
    den = 1
    for p in pts:
        for v in p:
            den = den * v.denominator // math.gcd(den, v.denominator)
    ip = np.array([[int(v * den) for v in p] for p in pts], dtype=np.int64).reshape(n, dim)
    d2 = ((ip[:, None, :] - ip[None, :, :]) ** 2).sum(-1)
    np.fill_diagonal(d2, np.iinfo(np.int64).max)
    want = [F(int(v), den * den) for v in d2.min(axis=1)] if n > 1 else [None]
    if n <= 40:
        m = common.kv(ctx.ask("PROX " + " ".join(",".join(rs(v) for v in p) for p in pts)))
        res.model_calls += 1
        model = [None if t == "n" else fr(t) for t in m["d2"].split(",")]
    else:                                  # large frames: direct oracle only
        res.stat("prox_large_oracle_only")
        m, model = None, want

    def close(g, w):
        if w is None:
            return math.isinf(g) or math.isnan(g)
        return abs(g * g - float(w)) <= 1e-9 * max(1.0, float(w))
    bad_o = [i for i in range(n) if not close(got[i], want[i])]
    if bad_o:
        i = bad_o[0]
        res.violation("property-violation", "proximity[%d] = %r, nearest other feature is at "
                      "sqrt(%s)" % (i, got[i], want[i]), impl=got,
                      model=m, signature=dict(stream="prox", what="not-nearest"))
    elif model != want:
        res.violation("correspondence-break", "model proximity differs from brute force",
                      impl=got, model=m, broken="proximity_is_min",
                      signature=dict(stream="prox", what="model"))
    res.stat("prox_rows", n)
    res.stat("prox_zero", sum(1 for w in want if w == 0))
    res.stat("prox_inf", sum(1 for w in want if w is None))
    res.nontrivial = n >= 3
    return res


def run_case(ctx, inp):
    s = inp.get("stream")
    if s in ("cluster", "boundary", "clusterbig"):
        return run_cluster_case(ctx, inp)
    if s in ("prox", "proxbig"):
        return run_prox_case(ctx, inp)
    from . import c19_pcorr
    return c19_pcorr.run_case(ctx, inp)
