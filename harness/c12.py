"""C12 — adaptive search only ever shrinks the range of oversize groups.

Dense integer-lattice movies are linked with `adaptive_stop` / `adaptive_step` while
`Linker.MAX_SUB_NET_SIZE_ADAPTIVE` is patched to 2..6 (and left at 15 for some), so that oversize
groups, repeated reductions, splits into sub-groups, orphaned sources and the raise condition all
occur.  The labelled output is judged step by step by the adaptive monitor (`ARUN`,
Model/Adaptive.lean: plan = mirror of adaptive_link_wrap + split_subnet; Props/C12).
Function mode: when the monitor accepts and the optimum of every final group is unique (`ties=0`,
no capped step), the implementation's partition must equal the one of the deterministic adaptive
algorithm `AdaptiveAlgo.algoLabelsA` (`AALGO`; Props/C12Algo `algoA_accepted` proves the monitor
accepts that algorithm on every reachable state).
Independent oracle: a Python re-statement of the property (union-find groups, exact Fractions,
Hungarian optimum per finally solved group).
"""
from fractions import Fraction

import numpy as np

from . import common, linkcommon
from .common import Result

PROP = "C12"
RULE = ("dense movies (rings, blobs of points, chains; 3-14 features per frame within range of "
        "each other), adaptive size limit 2-6 or the default 15, adaptive_step in {1/2,3/4,7/8}, "
        "adaptive_stop chosen so that 0-6 reductions are possible, scalar and per-axis ranges, "
        "strategies recursive / nonrecursive / numba / hybrid; plus a stream of 1-3 tracks facing 9-16 new "
        "features within range (numba_link's 9-candidate cap inside the adaptive recursion).  Non-trivial = at least one group needed a "
        "range reduction, or the run raised at adaptive_stop; distinct = distinct canonical input.")
ASSUMPTIONS = [
    "adaptive_step is a dyadic rational and ranges are multiples of 1/4 and 1/8: the reduced "
    "ranges and every comparison dist <= new_range are exact in float64 (at most 6 reductions)",
    "MAX_SUB_NET_SIZE_ADAPTIVE is patched on the Linker class from the harness (class attribute, "
    "as the property's quantifier names it)",
    "the numba / hybrid strategies' extra 9-candidate cap also raises SubnetOversizeException and "
    "thereby triggers a reduction: judged by the monitor stepCheckAN (Model/AdaptiveNumba.lean, token "
    "nmode=1|2), whose plans apply that cap exactly where subnet_linker_numba dispatches to numba_link; "
    "the deterministic algorithm model (function mode) follows the cap-free plan and is only compared "
    "on movies where the cap changed no plan (ndiff=0)",
]
MIN_NONTRIVIAL = 20


def init(ctx):
    common.setup_repo_path()


def gen_dense(rng, thorough):
    dim = rng.choice([2, 2, 3, 1])
    nfr = rng.randint(2, 5)
    iso = rng.random() < 0.75 or dim == 1
    if iso:
        r = rng.choice([8, 10, 12, 16])
        sr = [r] * dim
    else:
        sr = [rng.choice([8, 12, 16]) for _ in range(dim)]
        if all(a == sr[0] for a in sr):
            sr[0] = 8 if sr[0] != 8 else 16
    R = min(sr) / 4.0
    npart = rng.randint(3, 14 if not thorough else 20)
    shape = rng.choice(["blob", "chain", "ring", "two-blobs"])
    pts = []
    for i in range(npart):
        if shape == "blob":
            p = [rng.randint(0, int(2 * R)) for _ in range(dim)]
        elif shape == "chain":
            p = [i * max(1, int(R * 0.6))] + [rng.randint(0, 1) for _ in range(dim - 1)]
        elif shape == "ring" and dim >= 2:
            import math
            ang = 2 * math.pi * i / npart
            rad = max(2.0, npart * R * 0.5 / math.pi)
            p = [int(round(rad * math.cos(ang))), int(round(rad * math.sin(ang)))] + [0] * (dim - 2)
        else:
            off = 0 if i % 2 == 0 else int(3 * R)
            p = [off + rng.randint(0, int(R))] + [rng.randint(0, int(R)) for _ in range(dim - 1)]
        pts.append(p)
    frames = []
    step = max(1, int(R / 2))
    for k in range(nfr):
        cur = [list(p) for p in pts if rng.random() < 0.92]
        rng.shuffle(cur)
        frames.append(cur)
        for p in pts:
            for i in range(dim):
                p[i] += rng.randint(-step, step)
    memory = rng.choice([0, 0, 1, 2])
    maxa = rng.choice([2, 3, 4, 5, 6, 15])
    if maxa == 15 and npart > 9 and (shape in ("blob", "two-blobs") or dim == 1):
        # an all-to-all group of 10-15 sources is legal for the unpatched limit but takes the
        # branch and bound (the code's and the model's) minutes: keep the unpatched limit for
        # chains / rings and small blobs
        maxa = 6
    pq = rng.choice([(1, 2), (3, 4), (7, 8)])
    # stop as sigma/8 with rho = stop / min range in [0.35, 1.05]
    rmin = min(sr)                     # quarters
    sigma = rng.randint(max(1, int(0.35 * 2 * rmin)), int(1.05 * 2 * rmin))
    return dict(stream="adaptive", dim=dim, frames=frames, t0=rng.choice([0, 3]), sr=sr, iso=iso,
                memory=memory, strategy=rng.choice(["recursive", "nonrecursive", "numba", "hybrid"]),
                entry=rng.choice(["link_iter", "link_iter", "link_df_iter"]), maxa=maxa,
                step=list(pq), stop8=sigma)


def gen_numbacap(rng, thorough):
    """few tracks, 9-13 new features within range of them: the groups are within the size limit but a
    source has >= 9 real candidates -> numba_link's candidate cap (numba always, hybrid unless the
    group has a single source), which adaptive_link_wrap treats like an oversize group"""
    import itertools
    dim = rng.choice([2, 2, 3])
    r = rng.choice([12, 16, 20])            # quarters: range 3, 4, 5
    sr = [r] * dim
    R = r // 4
    c = [20] * dim
    ns = rng.choice([1, 1, 2, 2, 3])
    near = [list(p) for p in itertools.product(range(-1, 2), repeat=dim)]
    srcs = [[ci + d for ci, d in zip(c, off)] for off in rng.sample(near, ns)]
    ball = [list(p) for p in itertools.product(range(-R, R + 1), repeat=dim)
            if sum(x * x for x in p) <= (R - 1) * (R - 1) + 1]
    nd = rng.randint(9, min(13 if not thorough else 16, len(ball)))
    dests = [[ci + d for ci, d in zip(c, off)] for off in rng.sample(ball, nd)]
    frames = [srcs, dests]
    if rng.random() < 0.5:
        frames.append([list(p) for p in rng.sample(dests, rng.randint(1, 3))])
    if rng.random() < 0.3:
        frames.insert(0, [list(p) for p in srcs])
    rmin = r
    sigma = rng.randint(max(1, int(0.2 * 2 * rmin)), int(1.05 * 2 * rmin))
    return dict(stream="numbacap", dim=dim, frames=frames, t0=rng.choice([0, 3]), sr=sr, iso=True,
                memory=rng.choice([0, 0, 1]), strategy=rng.choice(["numba", "hybrid", "numba", "hybrid", "recursive"]),
                entry=rng.choice(["link_iter", "link_iter", "link_df_iter"]), maxa=rng.choice([3, 4, 6, 15]),
                step=list(rng.choice([(1, 2), (3, 4), (7, 8)])), stop8=sigma)


def gen_deep(rng):
    """an oversize chain that only falls apart after MANY range reductions: a step close to 1 (31/32),
    neighbours at 3/16 of the range, adaptive_stop lower still — about 53 reductions are needed before
    every sub-group fits ("repeatedly ... until every sub-group fits"), far more than any other case"""
    dim = rng.choice([1, 2, 2])
    R = 64                                  # search range in lattice units (sr is given in quarters)
    gap = rng.choice([11, 12, 13])          # neighbour distance: the chain dissolves below ~gap
    n = rng.randint(4, 9)
    maxa = rng.randint(2, n - 1)
    base = [rng.randint(-20, 20) for _ in range(dim)]
    pts = [[base[0] + i * gap] + [base[a] for a in range(1, dim)] for i in range(n)]
    nfr = rng.choice([2, 2, 3])
    frames = []
    for k in range(nfr):
        cur = [[p[0] + (k % 2)] + [p[a] + (k if a == 1 else 0) for a in range(1, dim)] for p in pts]
        rng.shuffle(cur)
        frames.append(cur)
    # stop below the range at which the chain dissolves (gap ~ 0.19 R), sometimes far below
    stop8 = rng.choice([8 * 6, 8 * 8, 77, 8 * 3])
    return dict(stream="adaptive", dim=dim, frames=frames, t0=rng.choice([0, 3]), sr=[4 * R] * dim, iso=True,
                memory=rng.choice([0, 0, 1]), strategy=rng.choice(["recursive", "nonrecursive", "hybrid"]),
                entry=rng.choice(["link_iter", "link_df_iter"]), maxa=maxa, step=[31, 32], stop8=stop8,
                deep=True)


def gen_cases(ctx):
    for inp in ctx.corpus():
        yield inp
    for i in range(ctx.n(10, 120)):
        yield gen_deep(ctx.rng("deep", i))
    n = ctx.n(400, 5000)
    for i in range(n):
        rng = ctx.rng("dense", i)
        inp = gen_dense(rng, ctx.thorough)
        if i % 3 == 2 and inp.get("entry") == "link_iter":
            # a Linker object driven directly (init_level / next_level), half of them a SUBCLASS on which
            # the size limit is configured while Linker itself keeps its default
            inp["linker_reuse"] = True
        yield inp
    for i in range(ctx.n(80, 1000)):
        yield gen_numbacap(ctx.rng("numbacap", i), ctx.thorough)


def acfg_tokens(inp):
    p, q = inp["step"]
    rmin = min(inp["sr"])
    return "p=%d q=%d sn=%d sd=%d maxa=%d" % (p, q, inp["stop8"] ** 2, 4 * rmin * rmin, inp["maxa"])


def run_adaptive_impl(inp, adaptive=True):
    with linkcommon.size_limits(inp, MAX_SUB_NET_SIZE_ADAPTIVE=inp["maxa"]):
        extra = dict(adaptive_stop=inp["stop8"] / 8.0, adaptive_step=inp["step"][0] / inp["step"][1]) \
            if adaptive else None
        return linkcommon.run_impl(inp, extra_kwargs=extra)


# ---------------------------------------------------------------------------------------------
# independent oracle (Python, exact Fractions)

def oracle_adaptive(inp, levels):
    from scipy.optimize import linear_sum_assignment
    w, B = linkcommon.weights(inp["sr"])
    memory, maxa = inp["memory"], inp["maxa"]
    s2 = Fraction(inp["step"][0], inp["step"][1]) ** 2
    rmin = min(inp["sr"])
    rho2 = Fraction(inp["stop8"] ** 2, 4 * rmin * rmin)

    def d2(p, q):
        return sum(wi * (a - b) ** 2 for wi, a, b in zip(w, p, q))

    last = {}
    for k, (t, pts, labels) in enumerate(levels):
        srcs = {l: p0 for l, (kk, p0) in last.items() if k - kk <= memory + 1}
        keys = sorted(srcs)
        if labels is not None and len(set(labels)) != len(labels):
            return "level %d: label used twice" % k
        if k > 0:
            # candidate graph
            cand = {l: {j: d2(srcs[l], p) for j, p in enumerate(pts) if d2(srcs[l], p) <= B}
                    for l in keys}
            if any(sum(1 for l in keys if j in cand[l]) > 10 for j in range(len(pts))):
                return None     # neighbour cap: outside the quantifier
            must_raise = [False]
            finals = []     # (sources, {l: {j: c}}, range2)

            def comps(ls, js, cd):
                parent = {("s", l): ("s", l) for l in ls}
                parent.update({("d", j): ("d", j) for j in js})

                def find(a):
                    while parent[a] != a:
                        parent[a] = parent[parent[a]]
                        a = parent[a]
                    return a
                for l in ls:
                    for j in cd[l]:
                        parent[find(("s", l))] = find(("d", j))
                groups = {}
                for l in ls:
                    if cd[l]:
                        groups.setdefault(find(("s", l)), ([], []))[0].append(l)
                for j in js:
                    groups.setdefault(find(("d", j)), ([], []))[1].append(j)
                return list(groups.values())

            def treat(ls, js, cd, rng2):
                nontrivial = not ((len(ls) == 1 and len(js) == 1) or (len(ls) == 0) or
                                  (len(ls) == 1 and len(js) == 0))
                if not nontrivial or len(ls) <= maxa:
                    finals.append((ls, {l: cd[l] for l in ls}, rng2))
                    return
                if rng2 <= rho2 * B:
                    must_raise[0] = True
                    return
                new2 = rng2 * s2
                cd2 = {l: {j: c for j, c in cd[l].items() if c <= new2} for l in ls}
                for gl, gj in comps(ls, js, cd2):
                    treat(gl, gj, cd2, new2)

            for gl, gj in comps(keys, list(range(len(pts))), cand):
                treat(gl, gj, cand, Fraction(B))
            if must_raise[0]:
                if labels is not None:
                    return "level %d: an oversize group reached adaptive_stop but no exception" % k
                return None
            if labels is None:
                return "level %d: SubnetOversizeException although every group can be reduced to fit" % k
            lab2j = {l: j for j, l in enumerate(labels)}
            in_final = set()
            for ls, cd, rng2 in finals:
                in_final.update(ls)
                if not ls:
                    continue
                js = sorted({j for l in ls for j in cd[l]})
                ns, nd = len(ls), len(js)
                BIG = Fraction(10 ** 12)
                M = [[BIG] * (nd + ns) for _ in range(ns)]
                for i, l in enumerate(ls):
                    for j, c in cd[l].items():
                        M[i][js.index(j)] = Fraction(c)
                    M[i][nd + i] = rng2
                den = 1
                for row in M:
                    for x in row:
                        den = den * x.denominator // np.gcd(den, x.denominator)
                Mi = np.array([[int(x * den) for x in row] for row in M], dtype=object).astype(np.float64)
                r, c = linear_sum_assignment(Mi)
                opt = sum(M[i][j] for i, j in zip(r, c))
                actual = Fraction(0)
                for i, l in enumerate(ls):
                    j = lab2j.get(l)
                    if j is None:
                        actual += rng2
                    elif j in cd[l]:
                        actual += cd[l][j]
                    else:
                        return "level %d: trajectory %d linked over a distance beyond the range in force" % (k, l)
                if actual != opt:
                    return "level %d: a (sub-)group is linked with cost %s, optimum %s" % (k, actual, opt)
            for l in keys:
                if l not in in_final and l in lab2j:
                    return "level %d: trajectory %d has no candidate in force but was linked" % (k, l)
            for p, l in zip(pts, labels):
                if l in last and l not in srcs:
                    return "level %d: label %d re-used after too long a gap" % (k, l)
        if labels is None:
            return None
        for p, l in zip(pts, labels):
            last[l] = (k, p)
    return None


def run_case(ctx, inp):
    res = Result()
    levels = run_adaptive_impl(inp)
    if levels is None or levels == "oversize":
        res.stat("no_output")
        return res
    # numba / hybrid: the 9-candidate cap of numba_link is part of the adaptive plan (stepCheckAN)
    nmode = {"numba": 1, "hybrid": 2}.get(inp["strategy"], 0)
    line = "ARUN " + acfg_tokens(inp) + (" nmode=%d " % nmode if nmode else " ") + \
        linkcommon.lrun_line(inp, levels)[len("LRUN "):]
    m = common.kv(ctx.ask(line))
    res.stat("movies")
    res.stat("stream_" + inp.get("stream", "adaptive"))
    res.stat("maxa_%d" % inp["maxa"])
    res.stat("strategy_" + inp["strategy"])
    v = m.get("verdict")
    raised = any(l[2] is None for l in levels)
    if v in ("ok", "expect-oversize", "capped"):
        red = int(m.get("reduced", 0))
        res.stat("groups_reduced", red)
        res.stat("final_groups", int(m.get("finals", 0)))
        if v == "expect-oversize":
            res.stat("raised_at_stop")
        if v == "capped":
            res.stat("capped")
        res.nontrivial = red > 0 or v == "expect-oversize"
        ndiff = int(m.get("ndiff", 0))
        if ndiff:
            res.stat("numba_cap_changed_plan_steps", ndiff)
            res.stat("numba_cap_movies")
        # function mode: the monitor accepted the output and the optimum of every final group of
        # every step is unique (and no step was beyond a cap) -> the implementation's partition
        # must be the one of the deterministic adaptive algorithm (Props/C12Algo algoA_accepted)
        if v == "ok" and not raised and m.get("ties") == "0" and m.get("capsteps") == "0" and ndiff == 0:
            a = ctx.ask("AALGO" + line[len("ARUN"):])
            res.stat("function_mode_asked")
            if a.startswith("ok"):
                alab = [[int(x) for x in part.split(",") if x != ""] for part in a[3:].split("|")]
                if len(alab) == len(levels) and all(len(x) == len(l[2]) for x, l in zip(alab, levels)):
                    def lpart(labs):
                        d = {}
                        for k, ls in enumerate(labs):
                            for i, l in enumerate(ls):
                                d.setdefault(l, []).append((k, i))
                        return frozenset(tuple(x) for x in d.values())
                    res.stat("function_mode_compared")
                    if red > 0:
                        res.stat("function_mode_compared_reduced")
                    if lpart(alab) != lpart([l[2] for l in levels]):
                        res.violation("correspondence-break",
                                      "unique optimum in every final group of every step, yet the "
                                      "implementation's partition differs from the deterministic "
                                      "adaptive algorithm model",
                                      impl=[l[2] for l in levels], model=alab,
                                      broken="AdaptiveAlgo.algoLabelsA",
                                      signature=dict(what="adaptive-function-mode-differs"))
                else:
                    res.violation("correspondence-break",
                                  "the deterministic adaptive algorithm model returns labels of another "
                                  "shape than the implementation", impl=[l[2] for l in levels], model=a,
                                  broken="AdaptiveAlgo.algoLabelsA",
                                  signature=dict(what="adaptive-function-mode-shape"))
            else:
                # the monitor accepted labels for every step, so by algoA_accepted's `none` branch
                # (monitor expects the raise exactly when the algorithm raises) this cannot happen
                res.violation("correspondence-break",
                              "the adaptive monitor accepts the implementation's labels but the "
                              "deterministic adaptive algorithm model raises / fails: %s" % a,
                              impl=[l[2] for l in levels], model=a, broken="AdaptiveAlgo.algoLabelsA",
                              signature=dict(what="adaptive-function-mode-raises"))
        # adaptive == plain when nothing was reduced and nothing raised
        if v == "ok" and red == 0 and not raised:
            plain = None
            try:
                with linkcommon.size_limits(inp, MAX_SUB_NET_SIZE=inp["maxa"]):
                    plain = linkcommon.run_impl(inp)
            except Exception:
                plain = None
            if plain and not any(l[2] is None for l in plain):
                mp = common.kv(ctx.ask(linkcommon.lrun_line(inp, plain, maxsize=inp["maxa"])))
                res.stat("plain_compared")
                if mp.get("verdict") == "ok" and mp.get("ties") == "0":
                    def part(lv):
                        d = {}
                        for (t, pts, labels) in lv:
                            for p, l in zip(pts, labels):
                                d.setdefault(l, []).append((t, tuple(p)))
                        return frozenset(tuple(sorted(x)) for x in d.values())
                    if part(plain) != part(levels):
                        res.violation("property-violation",
                                      "no group exceeds the adaptive limit, yet adaptive linking "
                                      "differs from plain linking", impl=dict(adaptive=levels, plain=plain),
                                      signature=dict(what="adaptive-differs-from-plain"))
        if res.nontrivial and len(levels) <= 3 and not res.viol:
            res.sample = dict(input=inp, levels=levels, monitor=m)
        return res
    reason = str(m.get("reason")).replace("_", " ")
    omsg = oracle_adaptive(inp, levels)
    if omsg is not None:
        res.violation("property-violation", omsg + " [monitor: %s]" % reason, impl=levels, model=m,
                      signature=dict(what=reason))
    else:
        res.violation("correspondence-break", "adaptive monitor rejects (%s at step %s), oracle accepts"
                      % (reason, m.get("step")), impl=levels, model=m, broken="Adaptive.stepCheckA",
                      signature=dict(what=reason))
    return res
