"""Runs ONE linking job alone in a fresh interpreter (no other trackpy call has happened in this
process) and prints its labelled levels as JSON: the history-free reference for C04's clause
"having run other jobs earlier in the process never changes its partition".
usage: python -m harness.c04_fresh < job.json"""
import json
import sys

from . import common


def main():
    common.setup_repo_path()
    from . import c04
    from trackpy.linking.utils import SubnetOversizeException
    import trackpy as tp
    tp.quiet()
    jb = json.load(sys.stdin)
    out = []
    try:
        for pts, labels in c04.make_gen(jb):
            out.append([pts, labels])
        print(json.dumps(dict(levels=out, raised=False)))
    except SubnetOversizeException:
        print(json.dumps(dict(levels=out, raised=True)))


if __name__ == "__main__":
    main()
