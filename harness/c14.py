"""C14 — find_link re-finds lost features and emits only admissible ones.

Streams
  movie : synthetic movies (own Gaussian renderer, uint8, 32-64 px, minimal pims-free reader) through
          the real `trackpy.find_link`, with a `before_link` callback that withholds a seeded subset
          of the detections in every frame after the first (none / one / all / random 30 % / 50 %).
          regime "sep"  : 1-6 well-separated blobs moving less than search_range per frame, away
                          from the border -> admissibility + complete-trajectory recovery + equality
                          with detect-then-link when nothing is withheld;
          regime "adv"  : crowded / approaching / appearing / vanishing blobs, blobs in the margin
                          (all four edges), heavy noise, search_range >= separation/2 (two lost
                          features in one sub-net), explicit diameter smaller / larger than
                          separation, fractional separation / search_range, anisotropic ranges
                          -> admissibility only.
          Every `FindLinker.get_relocate_candidates` call of the run is recorded (method wrapped from
          here, /repo untouched) and a few of them are replayed through the model op `RELOC`
          (lean/TrackpyV/Model/Relocate.lean — the definitions Props/C14.lean is about): background
          query, ordered candidate list and masses are compared (function mode).  The labelled
          output goes through `FLRUN` (linker monitor, validity only + "an added feature continues a
          source"), and every `next_level` is compared with the model `FindLink.flAlgoStep` (op
          `FLSTEP`: state rebuilt from the implementation's own labelled levels, relocation oracle :=
          the recorded return values of this run): emitted positions, added features, sub-nets with
          a shortage, and - when the optimum is unique - the links.  The same op judges the
          implementation's labelled level by `flStep` in OPTIMALITY mode (field `implopt`): where the
          side condition of Props/C14Opt.flAlgo_accepted_opt_partial holds (field `local`: every added
          feature is seen by the sources of one sub-net only) the links must be a minimum-cost
          assignment on the emitted level; where it does not, a non-optimal level is counted
          (`flstep_nonlocal_nonoptimal`), not flagged - C14 does not claim optimality
          (design-notes/c14_opt_witness.py).  Movies whose every step keeps the side condition also go
          through `FLRUN` with opt=1.
  cam   : raw movies as cameras produce them - a smooth background (linear gradient in 8 directions,
          bright region / vignette, one dark corner, sigmoid edge of an out-of-focus region, constant
          offset) under slow illumination drift between frames (gain and / or additive), uint8 or
          float frames, 44-88 px - through `find_link(preprocess=True)`: the band-pass is what removes
          such a background, and both the first pass and the relocation of lost features have to work
          on the cleaned frame.  Mostly regime "sep" (same premise as above, blobs of the brightness
          of the background variation); the generator states the premise on ITS OWN band-pass (scipy
          only): nothing but the blobs is left of the cleaned frame (the clipping `threshold` is
          chosen accordingly, as a user would), every blob is a clear maximum of it above the
          percentile threshold, minmass stays below the band-passed mass of the dimmest blob.  Also
          varies what the movie stream keeps fixed: percentile, noise_size, smoothing_size, threshold,
          diameter a little below / above the separation, a do-nothing `after_link` hook, list vs
          reader object.  One fifth are the adversarial layouts of the movie stream on such a
          background (admissibility only).
  call  : `FindLinker.get_relocate_candidates` driven directly on tie-heavy small images (2-D and
          3-D) with planted sources / background features at exact-boundary distances; same
          comparison, plus the call-level oracle.

Direct oracle (written from the property statement, independent of the Lean model; exact integer /
rational arithmetic): per frame unique labels; every two features of a frame satisfy
sum((d_i/separation_i)^2) >= 1; every feature that was not among the detections handed in lies
within search_range (ellipsoid, edge included) of a feature of one of the previous memory+1 output
frames; every feature keeps the margin radius_i <= c_i <= shape_i - radius_i - 1; mass finite and
>= minmass.  Call level: the same clauses for the returned candidates against the sources and the
current hash.  Recovery clause (regime sep, every handed / emitted feature is a rendered blob): every
blob carries one label through all frames, labels differ between blobs; a withheld detection of a blob
that the first pass would have kept (mass of the feature mask on the frame handed to find_link >=
minmass) is in the output AT ITS OWN PIXEL (the complete trajectories are those of the complete
detections); nothing withheld -> the partition equals detect-then-link.
"""
import collections
import contextlib
import math
from fractions import Fraction

import numpy as np

from . import common, linkcommon
from .common import Result

PROP = "C14"
RULE = ("movie stream: 2-D uint8 movies 32-64 px, 3-6 frames, 1-6 Gaussian blobs (sigma 1.2-2, "
        "amplitude 90-250) + noise texture (none / uniform / salt / offset; per-frame background "
        "flicker), search_range and "
        "separation on a 1/4 grid (scalar, per-axis, fractional), diameter default or explicit, "
        "memory 0-1, preprocess on/off, fault pattern none/one/all/random; regimes sep (recovery "
        "asserted) and adv (admissibility only; margins, approaching pairs, shortage 2).  call "
        "stream: direct get_relocate_candidates on palette images 12-28 px (3-D 8-12 px) with "
        "sources/background at exact-boundary distances.  cam stream: raw camera movies 44-88 px "
        "(background gradient / vignette / dark corner / sigmoid edge / offset up to 200 grey levels, "
        "gain 0.9-1.08 and additive drift between frames, uint8 or float64 frames, blobs of amplitude "
        "30-100) with preprocess=True, percentile 30-75, noise_size 0.8-1.5, smoothing_size default or "
        "explicit, threshold default or explicit, after_link no-op hook, list or reader object; 4/5 in "
        "regime sep with the premise checked on the generator's own band-pass.  Non-trivial = at least one relocation "
        "call returned a candidate (movie: and it was emitted) ; distinct = distinct canonical "
        "input.")
ASSUMPTIONS = [
    "integer images and integer positions (refine=False, no predictor); preprocess=True images "
    "(float64 bandpass output) are replayed exactly by scaling every pixel by a common power of two",
    "np.percentile is modelled as exact linear interpolation: a call where some pixel compares "
    "differently with the float threshold and the exact one is borderline (skipped)",
    "the elliptical masks (slice mask <= 1, background mask < 1, binary_mask <= 1) and the "
    "search-range test are modelled exactly; a call where the float evaluation of the code classifies "
    "some non-zero pixel differently from the exact one (lattice points exactly on an ellipse, e.g. "
    "(3,4) for radius 5) is borderline (skipped) - the direct oracle still judges its output",
    "where_close ties between equally bright close candidates with equal exact key sums are decided "
    "by float sums in the code: such calls (driver flag tiekey) are compared as borderline",
    "np.argsort on equal masses: order unspecified - calls with equal masses (driver flag tiemass) "
    "are compared as sets",
    "masses of float (preprocessed) images are compared with relative tolerance 1e-9; a mass within "
    "1e-9 (relative) of minmass is borderline",
    "recovery / detect-then-link equality are asserted only in the 'sep' regime (blobs farther "
    "apart than separation + 2*search_range + diameter, farther than radius + search_range + 3 "
    "from the border, displacement <= search_range - 1.5 px, noise mass below minmass)",
    "trajectories are compared as partitions (label values are unspecified)",
    "cam stream, regime sep: the premise 'the first pass finds exactly the rendered blobs' is stated by "
    "the generator on its own band-pass (scipy Gaussian minus rolling average, clipped); the code's "
    "rolling average of an integer frame is computed in integer arithmetic and may leave up to 2 grey "
    "levels more, so the clipping threshold handed to find_link is chosen >= residue + 2.25 for uint8 "
    "frames (draws that would need a threshold above 10, or whose dimmest blob is not 1.2 x above the "
    "percentile threshold, are discarded); minmass <= 0.8 x the band-passed mass of the dimmest blob",
    "with preprocess=True find_link applies minmass to the RAW-frame mass in the first pass and to the "
    "band-passed mass in the relocation: a minmass between the two (a blob the first pass keeps but the "
    "relocation refuses) is kept out of the generators - reported as an observation on the unchanged "
    "tree, not asserted",
    "FLSTEP (model of one next_level): the state is rebuilt from the implementation's own labelled "
    "levels; the relocation oracle is the table of this run's get_relocate_candidates return values "
    "keyed by the SET of source positions; steps beyond the neighbour cap / sub-net size limit are "
    "skipped; links are compared only when the optimum of every sub-net is unique (driver flag "
    "tied), positions / added features / sub-nets with a shortage always; masses cross the protocol "
    "rounded (they do not influence the labelling)",
    "optimality of the links on the emitted level is judged (flStep with noOpt=false, per step and - "
    "when every step qualifies - FLRUN opt=1 on the movie) only for steps that pass the FLSTEP "
    "comparison, stay within the neighbour cap / size limit and keep the side condition addedLocalB "
    "of Props/C14Opt.flAlgo_accepted_opt_partial; other steps are counted, not judged",
]
MIN_NONTRIVIAL = 20


def init(ctx):
    common.setup_repo_path()


# ------------------------------------------------------------------------------------------
# small helpers

class Img(np.ndarray):
    """minimal pims-free frame: an ndarray with `frame_no`"""
    def __new__(cls, arr, frame_no):
        obj = np.asarray(arr).view(cls)
        obj.frame_no = frame_no
        return obj

    def __array_finalize__(self, obj):
        self.frame_no = getattr(obj, "frame_no", None)


def F(x):
    return Fraction(x)


def ell2(d, rad):
    """exact sum((d_i/rad_i)^2)"""
    return sum((Fraction(int(a)) / r) ** 2 for a, r in zip(d, rad))


def diff(p, q):
    return [int(a) - int(b) for a, b in zip(p, q)]


def tup(v, iso):
    """what is handed to trackpy: scalar when `iso`, tuple otherwise"""
    vals = [float(Fraction(x)) for x in v]
    if iso:
        return vals[0]
    return tuple(vals)


def radius_of(inp):
    """int(d // 2) per axis, d = diameter or separation (find_link_iter:181)"""
    d = inp["diameter"] if inp.get("diameter") else inp["sep"]
    return [int(float(Fraction(x)) // 2) for x in d]


def cam_background(shape, cam):
    """smooth raw-camera background (float field, before gain / drift): what the band-pass of
    find_link (preprocess=True) is there to remove.  kinds: offset (constant), gradient (linear, 8
    directions), vignette (bright region around `centre`, quadratic fall-off), corner (one dark
    corner), step (bright out-of-focus region with a sigmoid edge)"""
    H, W = shape
    yy, xx = np.mgrid[0:H, 0:W].astype(np.float64)
    lo, hi = float(cam["lo"]), float(cam["hi"])
    kind = cam["kind"]
    if kind == "offset":
        return np.full(shape, hi)
    if kind in ("gradient", "step"):
        a = cam["angle"] * math.pi / 4
        u = yy * math.sin(a) + xx * math.cos(a)
        if kind == "gradient":
            u = (u - u.min()) / (u.max() - u.min())
            return lo + (hi - lo) * u
        u0 = u.min() + cam["pos"] * (u.max() - u.min())
        return lo + (hi - lo) / (1.0 + np.exp(-(u - u0) / cam["width"]))
    if kind == "vignette":
        cy, cx = cam["centre"][0] * (H - 1), cam["centre"][1] * (W - 1)
        r2 = (yy - cy) ** 2 + (xx - cx) ** 2
        return hi - (hi - lo) * r2 / r2.max()
    if kind == "corner":
        cy, cx = cam["centre"][0] * (H - 1), cam["centre"][1] * (W - 1)
        r2 = ((yy - cy) ** 2 + (xx - cx) ** 2) / (cam["reach"] * math.hypot(H, W)) ** 2
        return hi - (hi - lo) * np.exp(-r2)
    raise ValueError(kind)


def render(shape, blobs, noise, offset=0, cam=None, k=0):
    img = np.zeros(shape, dtype=np.float64) + offset
    yy, xx = np.mgrid[0:shape[0], 0:shape[1]]
    for (y, x, amp, sig) in blobs:
        img += amp * np.exp(-((yy - y) ** 2 + (xx - x) ** 2) / (2.0 * sig * sig))
    if cam is not None:
        # illumination: frame k = gain_k * (background + blobs) + drift_k
        img = (img + cam_background(shape, cam)) * cam["gain"][k] + cam["drift"][k]
    kind = noise.get("kind", "none")
    if kind != "none":
        nr = np.random.default_rng(noise["seed"])
        L = noise["level"]
        if kind == "uniform":
            img += nr.integers(0, L + 1, size=shape)
        elif kind == "salt":
            m = nr.random(shape) < 0.04
            img += m * nr.integers(1, L + 1, size=shape)
        elif kind == "offset":
            img += L
    return np.clip(np.floor(img + 0.5), 0, 255).astype(np.uint8)


def own_bandpass(img, noise_size, smoothing, threshold=1.0):
    """the band-pass the documentation of find_link describes (Gaussian of `noise_size` minus a
    rolling average of box `smoothing`, values below the threshold -> 0), written with scipy only:
    used by the GENERATOR to state the premise of the recovery clause (every rendered blob is a
    clear maximum of the cleaned frame, nothing else is left) and to choose minmass"""
    from scipy import ndimage
    f = np.asarray(img, dtype=np.float64)
    out = ndimage.gaussian_filter(f, noise_size, mode="constant", truncate=4.0) \
        - ndimage.uniform_filter(f, smoothing, mode="nearest")
    return np.where(out >= threshold, out, 0.0)


def disc_mass(img, p, rad):
    """sum of the pixels with sum(((x_i - p_i)/rad_i)^2) <= 1 (the feature mask); None when the
    mask does not fit in the image"""
    sl = []
    for c, r, sh in zip(p, rad, img.shape):
        if c - r < 0 or c + r + 1 > sh:
            return None
        sl.append(slice(c - r, c + r + 1))
    sub = np.asarray(img)[tuple(sl)]
    g = np.indices(sub.shape)
    prod = 1
    for r in rad:
        prod *= r * r
    lhs = sum((g[i] - r) ** 2 * (prod // (r * r)) for i, r in enumerate(rad))
    m = lhs <= prod
    if np.issubdtype(sub.dtype, np.integer):
        return int(sub[m].astype(np.int64).sum())
    return float(sub[m].sum())


class Reader:
    """minimal pims-like sequence (no list): a fresh frame object on every access"""
    def __init__(self, frames):
        self._frames = frames

    def __len__(self):
        return len(self._frames)

    def __getitem__(self, k):
        return Img(np.array(self._frames[k]), self._frames[k].frame_no)

    def __iter__(self):
        return (self[k] for k in range(len(self._frames)))


# ------------------------------------------------------------------------------------------
# recording FindLinker.get_relocate_candidates

@contextlib.contextmanager
def recorded_calls(store, linked=None):
    """records every get_relocate_candidates call in `store`; with `linked` (a dict) also the
    coordinates every next_level received (after find_link_iter's own minmass filter)"""
    from trackpy.linking.find_link import FindLinker
    orig = FindLinker.get_relocate_candidates
    orig_next = FindLinker.next_level

    def next_wrapper(self, coords, t, *args, **kwargs):
        if linked is not None:
            linked[int(t)] = [tuple(int(round(float(c))) for c in p) for p in np.asarray(coords)]
        return orig_next(self, coords, t, *args, **kwargs)
    FindLinker.next_level = next_wrapper

    def wrapper(self, pos, *args, **kwargs):      # (a refactoring may add parameters: passed through)
        posa = np.atleast_2d(pos)
        hashc = np.array(self.hash.coords) if len(self.hash.points) else np.empty((0, posa.shape[1]))
        bg = self.hash.query_points(posa, self.bg_radius)
        out = orig(self, pos, *args, **kwargs)
        coords, extra = out
        store.append(dict(t=self.curr_t, image=np.array(self.image), pos=np.array(posa),
                          hash=hashc, bg=None if bg is None else np.array(bg),
                          coords=None if coords is None else np.array(coords),
                          mass=None if coords is None else np.array(extra["mass"], dtype=float),
                          radius=tuple(self.radius), slice_radius=tuple(self.slice_radius),
                          bg_radius=float(self.bg_radius)))
        return out
    FindLinker.get_relocate_candidates = wrapper
    try:
        yield
    finally:
        FindLinker.get_relocate_candidates = orig
        FindLinker.next_level = orig_next


# ------------------------------------------------------------------------------------------
# exact / float mask comparison (borderline detection)

def exact_ell(shape, origin, p, rad, strict):
    """exact classification of every pixel of the slice: sum(((x_i - p_i)/rad_i)^2) <= 1 (< 1)"""
    rr = [Fraction(r) ** 2 for r in rad]
    den = 1
    for r in rr:
        den = den * r.denominator // math.gcd(den, r.denominator)
    rri = [int(r * den) for r in rr]           # integers proportional to r_i^2
    prod = 1
    for v in rri:
        prod *= v
    idx = np.indices(shape)
    lhs = np.zeros(shape, dtype=object)
    for i in range(len(shape)):
        d = idx[i].astype(object) + int(origin[i]) - int(p[i])
        lhs = lhs + d * d * (prod // rri[i])
    return ((lhs < prod) if strict else (lhs <= prod)).astype(bool)


def _mask_mismatch(shape, origin, centres, rad, strict, relevant):
    """does the float formula of masks.get_mask classify a relevant pixel differently from the exact
    one?  (centres in image coordinates, pixel grid = the slice)"""
    radf = np.array([float(r) for r in rad])
    idx = np.indices(shape)
    for p in centres:
        pl = np.array([float(a) - o for a, o in zip(p, origin)])
        fl = np.sum(((idx.T - pl) / radf) ** 2, -1).T
        flm = (fl < 1) if strict else (fl <= 1)
        if ((flm != exact_ell(shape, origin, p, rad, strict)) & relevant).any():
            return True
    return False


def _range_mismatch(shape, origin, pos, sr, iso, relevant):
    """the code's own search-range formula (find_link.py:417-423) in float vs the exact ellipsoid"""
    srf = np.array([float(s) for s in sr])
    idx = np.indices(shape)
    coords = np.stack([idx[i] + origin[i] for i in range(len(shape))], axis=-1).astype(float)
    for p in pos:
        pf = np.array([float(c) for c in p])
        if iso:
            d = np.sqrt(np.sum((coords - pf) ** 2, axis=-1)) <= srf[0]
        else:
            d = np.sqrt(np.sum((coords / srf - pf / srf) ** 2, axis=-1)) <= 1.0
        if ((d != exact_ell(shape, origin, p, sr, False)) & relevant).any():
            return True
    return False


def binary_mask_mismatch(radius):
    from trackpy.masks import binary_mask
    nd = len(radius)
    bm = binary_mask(tuple(radius), nd)
    rng = [range(-r, r + 1) for r in radius]
    grid = np.indices([2 * r + 1 for r in radius])
    prod = 1
    for r in radius:
        prod *= r * r
    lhs = np.zeros(bm.shape, dtype=object)
    for i, r in enumerate(radius):
        d = grid[i].astype(object) - r
        lhs = lhs + d * d * (prod // (r * r))
    return bool((bm != (lhs <= prod).astype(bool)).any())


# ------------------------------------------------------------------------------------------
# replay of one recorded call through the model

def scale_image(image):
    """integer pixel values (and the common factor) of an image: uint -> itself; float -> x * 2^K"""
    if np.issubdtype(image.dtype, np.integer):
        if (image < 0).any():
            return None, None
        return [int(v) for v in image.ravel()], 1
    flat = [Fraction(float(v)) for v in image.ravel()]
    if any(v < 0 for v in flat):
        return None, None
    K = 1
    for v in flat:
        if v.denominator > K:
            K = v.denominator
    return [int(v * K) for v in flat], K


def get_slice_py(shape, rad, pos):
    """independent re-statement of masks.get_slice for the mismatch test: (origin, shape)"""
    kept = [p for p in pos if all(-r <= c < sh + r for c, r, sh in zip(p, rad, shape))]
    if not kept:
        return None
    org, shp = [], []
    for i, (sh, r) in enumerate(zip(shape, rad)):
        lo = max(0, min(p[i] for p in kept) - r)
        hi = min(sh, max(p[i] for p in kept) + r + 1)
        org.append(lo)
        shp.append(hi - lo)
    return org, shp


def replay_call(ctx, res, rec, par, tag):
    """par: dict(sep=[Fraction], sr=[Fraction], pct=Fraction, minmass=Fraction).  Returns
    'ok' | 'borderline' | 'skipped' | 'mismatch' (violations are added to res)."""
    image = rec["image"]
    shape = list(image.shape)
    pix, K = scale_image(image)
    if pix is None:
        res.stat("replay_skipped_negative_pixels")
        return "skipped"
    pos = [[int(round(float(c))) for c in p] for p in rec["pos"]]
    if any(abs(float(c) - round(float(c))) > 0 for p in rec["pos"] for c in p):
        res.stat("replay_skipped_noninteger_pos")
        return "skipped"
    hashc = [[int(round(float(c))) for c in p] for p in rec["hash"]]
    radius = [int(r) for r in rec["radius"]]
    sep, sr = par["sep"], par["sr"]
    minmass = par["minmass"] * K
    line = "RELOC %s | %s | %s | %s | %s | %s | %s | %s | - | %s" % (
        ",".join(map(str, shape)), ",".join(map(str, radius)),
        ",".join(common.rat_str(s) for s in sep), ",".join(common.rat_str(s) for s in sr),
        common.rat_str(par["pct"]), common.rat_str(minmass),
        ";".join(",".join(map(str, p)) for p in pos),
        ";".join(",".join(map(str, p)) for p in hashc),
        ",".join(map(str, pix)))
    resp = ctx.ask(line)
    res.model_calls += 1
    if resp == "reject":
        res.stat("replay_model_reject")
        return "skipped"
    m = common.kv(resp)
    if "ok" not in m:
        res.violation("correspondence-break", "driver answered %r" % resp[:200], broken="RELOC",
                      signature=dict(what="driver"))
        return "mismatch"
    res.stat("replayed_calls")
    res.stat("replay_raw_candidates", int(m["nraw"]))
    # ---- borderline tests (float evaluation of the code vs exact model)
    border = None
    nz = image[np.nonzero(image)]
    if m["thr"] != "nan" and len(nz):
        thr_f = Fraction(float(np.percentile(nz, float(par["pct"]))))
        thr_e = Fraction(m["thr"]) / K
        for v in np.unique(image):
            fv = Fraction(float(v))
            if (fv > thr_f) != (fv > thr_e):
                border = "percentile"
                break
    sl = get_slice_py(shape, [int(r) for r in rec["slice_radius"]], pos)
    if border is None and sl is not None:
        org, shp = sl
        sub = np.asarray(image)[tuple(slice(o, o + s) for o, s in zip(org, shp))]
        relevant = sub != 0
        if _mask_mismatch(shp, org, pos, [Fraction(int(r)) for r in rec["slice_radius"]], False,
                          relevant):
            border = "slice-mask-edge"
        elif rec["bg"] is not None and _mask_mismatch(
                shp, org, [[int(c) for c in b] for b in rec["bg"]], sep, True, relevant):
            border = "background-mask-edge"
        elif _range_mismatch(shp, org, pos, sr, par["iso_sr"], relevant):
            border = "search-range-edge"
    if border is None and binary_mask_mismatch(radius):
        border = "binary-mask-edge"
    if border is None:
        # a current-frame feature exactly on the query ball (float rounding of to_eucl decides)
        R = rec["bg_radius"]
        scale = [Fraction(1)] * len(shape) if par["iso_sr"] else sr
        for hq in hashc:
            for p in pos:
                d = math.sqrt(float(ell2(diff(hq, p), scale)))
                if abs(d - R) <= 1e-9 * max(1.0, R):
                    border = "background-query-edge"
    if border is None and m.get("tiekey") == "1":
        border = "tiekey"
    # ---- compare
    impl_bg = sorted(tuple(int(c) for c in b) for b in rec["bg"]) if rec["bg"] is not None else []
    model_bg = sorted(tuple(int(c) for c in b.split(",")) for b in m["bgq"].split(";") if b)
    impl_pts = [] if rec["coords"] is None else [tuple(int(c) for c in p) for p in rec["coords"]]
    impl_mass = [] if rec["coords"] is None else [float(v) for v in rec["mass"]]
    model_pts = [tuple(int(c) for c in p.split(",")) for p in m["pts"].split(";") if p]
    model_mass = [Fraction(int(v), K) for v in m["mass"].split(",") if v]
    ok = True
    why = None
    if impl_bg != model_bg:
        ok, why = False, "background query differs"
    elif m.get("tiemass") == "1":
        if sorted(impl_pts) != sorted(model_pts):
            ok, why = False, "candidate sets differ"
        res.stat("replay_tiemass")
    elif impl_pts != model_pts:
        ok, why = False, "candidate lists differ"
    if ok and sorted(impl_pts) == sorted(model_pts):
        mm = dict(zip(model_pts, model_mass))
        for p, v in zip(impl_pts, impl_mass):
            e = mm[p]
            if not math.isfinite(v) or abs(Fraction(v) - e) > Fraction(1, 10 ** 9) * max(1, abs(e)):
                ok, why = False, "mass differs at %s: %r vs %s" % (p, v, float(e))
                break
    if ok:
        if int(m["uncovered"]) > 0:
            res.stat("replay_uncovered_background")
        if impl_pts:
            res.stat("replay_calls_with_candidates")
        return "ok"
    if border is not None:
        res.stat("replay_borderline_" + border)
        return "borderline"
    # float masses next to minmass
    if K != 1 and rec["coords"] is not None:
        for v in impl_mass:
            if math.isfinite(v) and abs(v - float(par["minmass"])) <= 1e-9 * max(1.0, abs(v)):
                res.stat("replay_borderline_minmass")
                return "borderline"
    return dict(why=why, impl=dict(bg=impl_bg, pts=impl_pts, mass=impl_mass),
                model=dict(bg=model_bg, pts=model_pts, mass=[float(v) for v in model_mass],
                           resp=resp[:300]))


# ------------------------------------------------------------------------------------------
# oracles

def oracle_call(rec, par, shape):
    """call-level statement (FindLinker docstring + property): returns (msg, signature) or None"""
    if rec["coords"] is None:
        return None
    radius = [int(r) for r in rec["radius"]]
    sep, sr = par["sep"], par["sr"]
    pts = [[int(c) for c in p] for p in rec["coords"]]
    mass = [float(v) for v in rec["mass"]]
    pos = [[int(round(float(c))) for c in p] for p in rec["pos"]]
    hashc = [[int(round(float(c))) for c in p] for p in rec["hash"]]
    for c, v in zip(pts, mass):
        for i, (ci, r, sh) in enumerate(zip(c, radius, shape)):
            if ci < r or ci > sh - r - 1:
                return ("relocation candidate %s lies inside the margin (radius %s, shape %s)"
                        % (c, radius, shape),
                        dict(what="inside-margin", level="call",
                             edge="upper" if ci > sh - r - 1 else "lower"))
        if not math.isfinite(v) or Fraction(v) < par["minmass"]:
            return ("relocation candidate %s has mass %r (minmass %s)" % (c, v, float(par["minmass"])),
                    dict(what="mass-not-finite" if not math.isfinite(v) else "mass-below-minmass",
                         level="call"))
        if not any(ell2(diff(c, p), sr) <= 1 for p in pos):
            return ("relocation candidate %s is farther than search_range from every source %s"
                    % (c, pos), dict(what="beyond-search-range", level="call"))
        for b in hashc:
            if ell2(diff(c, b), sep) < 1:
                return ("relocation candidate %s is closer than separation to the current-frame "
                        "feature %s" % (c, b),
                        dict(what="closer-than-separation", pair="candidate-hash", level="call"))
    for i in range(len(pts)):
        for j in range(i + 1, len(pts)):
            if ell2(diff(pts[i], pts[j]), sep) < 1:
                return ("relocation candidates %s and %s are closer than separation"
                        % (pts[i], pts[j]),
                        dict(what="closer-than-separation", pair="candidate-candidate",
                             level="call"))
    return None


def oracle_movie(inp, out_levels, handed, shape):
    """out_levels: [(t, pts, labels, masses)], handed: {t: set of tuples}.
    Returns (msg, signature) or None."""
    radius = radius_of(inp)
    sep = [F(s) for s in inp["sep"]]
    sr = [F(s) / 4 for s in inp["sr"]]
    minmass = F(inp["minmass"])
    mem = inp["memory"]
    for k, (t, pts, labels, masses) in enumerate(out_levels):
        if len(set(labels)) != len(labels):
            return ("frame %d: a label is used twice: %s" % (t, labels),
                    dict(what="duplicate-label"))
        for i in range(len(pts)):
            for j in range(i + 1, len(pts)):
                if ell2(diff(pts[i], pts[j]), sep) < 1:
                    ai = tuple(pts[i]) not in handed.get(t, set())
                    aj = tuple(pts[j]) not in handed.get(t, set())
                    pair = "added-added" if ai and aj else ("added-detected" if ai or aj
                                                            else "detected-detected")
                    return ("frame %d: features %s and %s are closer than separation %s"
                            % (t, pts[i], pts[j], inp["sep"]),
                            dict(what="closer-than-separation", pair=pair))
        for p, v in zip(pts, masses):
            for ci, r, sh in zip(p, radius, shape):
                if ci < r or ci > sh - r - 1:
                    return ("frame %d: feature %s lies inside the margin (radius %s)" % (t, p, radius),
                            dict(what="inside-margin", edge="upper" if ci > sh - r - 1 else "lower"))
            if not math.isfinite(v):
                return ("frame %d: feature %s has mass %r" % (t, p, v), dict(what="mass-not-finite"))
            if Fraction(v) < minmass:
                return ("frame %d: feature %s has mass %r < minmass %s" % (t, p, v, inp["minmass"]),
                        dict(what="mass-below-minmass"))
            if k > 0 and tuple(p) not in handed.get(t, set()):
                prev = [q for (t2, pts2, _, _) in out_levels[max(0, k - 1 - mem):k] for q in pts2]
                if not any(ell2(diff(p, q), sr) <= 1 for q in prev):
                    return ("frame %d: added feature %s is farther than search_range from every "
                            "feature of the previous %d frame(s)" % (t, p, mem + 1),
                            dict(what="added-without-source"))
            if k == 0 and tuple(p) not in handed.get(t, set()):
                return ("frame %d: feature %s of the first frame was not detected" % (t, p),
                        dict(what="added-in-first-frame"))
    return None


# ------------------------------------------------------------------------------------------
# generation

def _quarters(x):
    return int(round(float(Fraction(x)) * 4))


def gen_params(rng, regime):
    mode = rng.random()
    if mode < 0.55:
        s = rng.choice([5, 7, 9, 5, 7, 6, 8])
        sep = [str(s), str(s)]
        sep_iso = True
    elif mode < 0.75:
        a, b = rng.choice([(5, 7), (7, 5), (5, 9), (6, 8), (9, 7)])
        sep = [str(a), str(b)]
        sep_iso = False
    else:
        s = rng.choice(["11/2", "23/4", "13/2", "27/4", "9/2"])
        sep = [s, s]
        sep_iso = True
    smax = max(float(Fraction(x)) for x in sep)
    mode = rng.random()
    if mode < 0.55:
        q = rng.choice([8, 10, 12, 14, 16, 20, 24])
        sr = [q, q]
        sr_iso = True
    elif mode < 0.8:
        a, b = rng.choice([(8, 14), (14, 8), (12, 20), (20, 12), (10, 16), (16, 24)])
        sr = [a, b]
        sr_iso = False
    else:
        q = rng.choice([15, 13, 11, 17, 19, 9])     # 3.75, 3.25, 2.75, ...
        sr = [q, q]
        sr_iso = True
    if regime == "adv" and rng.random() < 0.35:
        # search_range >= separation/2 : two relocated features can sit in one sub-net
        q = int(4 * smax * rng.choice([0.5, 0.75, 1.0]))
        sr = [q, q]
        sr_iso = True
    diameter = None
    if rng.random() < (0.45 if regime == "adv" else 0.25):
        d = rng.choice([3, 5, 7, 9, 11])
        diameter = [str(d), str(d)]
    return dict(sep=sep, sep_iso=sep_iso, sr=sr, iso=sr_iso, diameter=diameter)


def place_sep(rng, H, W, n, nfr, sep, sr, rad, sig, amp=(130, 250)):
    """the premise of the recovery clause: up to n blobs farther apart than separation +
    2*search_range + diameter (+3), farther than radius + search_range + 3 from the border, every
    step inside the search ellipse shrunk by 1.5 px.  Returns the per-frame blob lists or None."""
    blobs = []
    dmin = max(sep) + 2 * max(sr) + 2 * max(rad) + 3
    bord = [r + s + 3 for r, s in zip(rad, sr)]
    tries = 0
    while len(blobs) < n and tries < 300:
        tries += 1
        lo0, hi0 = int(math.ceil(bord[0])), int(H - 1 - math.ceil(bord[0]))
        lo1, hi1 = int(math.ceil(bord[1])), int(W - 1 - math.ceil(bord[1]))
        if hi0 < lo0 or hi1 < lo1:
            break
        p = [rng.randint(lo0, hi0), rng.randint(lo1, hi1)]
        if all(math.hypot(p[0] - q[0], p[1] - q[1]) >= dmin for q in blobs):
            blobs.append(p + [rng.randint(amp[0], amp[1]), sig])
    if not blobs:
        return None
    frames = []
    cur = [list(b) for b in blobs]
    for k in range(nfr):
        frames.append([list(b) for b in cur])
        nxt = []
        for i, b in enumerate(cur):
            moved = b
            for _ in range(8):
                dy = rng.randint(-int(sr[0]), int(sr[0]))
                dx = rng.randint(-int(sr[1]), int(sr[1]))
                lim0, lim1 = max(sr[0] - 1.5, 0.01), max(sr[1] - 1.5, 0.01)
                if (dy / lim0) ** 2 + (dx / lim1) ** 2 > 1:
                    continue
                c = [b[0] + dy, b[1] + dx]
                if not (bord[0] <= c[0] <= H - 1 - bord[0] and bord[1] <= c[1] <= W - 1 - bord[1]):
                    continue
                others = nxt + cur[i + 1:]
                if all(math.hypot(c[0] - q[0], c[1] - q[1]) >= dmin for q in others):
                    moved = c + b[2:]
                    break
            nxt.append(moved)
        cur = nxt
    return frames


def gen_movie(rng, regime):
    par = gen_params(rng, regime)
    sep = [float(Fraction(x)) for x in par["sep"]]
    sr = [q / 4.0 for q in par["sr"]]
    rad = [int(float(Fraction(x)) // 2) for x in (par["diameter"] or par["sep"])]
    H, W = rng.randint(32, 64), rng.randint(32, 64)
    nfr = rng.randint(3, 6)
    preprocess = rng.random() < 0.3
    if regime == "sep":
        # blobs narrower than the separation (the bandpass of find_link uses a boxcar of that size)
        smax = max(0.8, min(2.0, (min(sep) - 1) / 4.0))
        sig = rng.choice([smax, round(0.8 * smax, 2)])
    else:
        sig = rng.choice([1.2, 1.5, 2.0])
    noise_kind = rng.choice(["none", "none", "uniform", "salt", "offset"])
    if regime == "sep":
        level = rng.randint(1, 4 if preprocess else 8)
    else:
        level = rng.randint(1, 40)
    nmask = 1
    for r in rad:
        nmask *= (2 * r + 1)
    if regime == "sep":
        if preprocess and min(sep) < 7:
            preprocess = False       # find_link's boxcar (size ~ separation) would eat the blobs
        # the noise inside a feature mask must stay well below the mass of the dimmest blob
        blob_mass = 2 * math.pi * sig * sig * 130 * 0.7
        level = min(level, int((blob_mass / 2 - 30) // nmask))
        if level < 1:
            noise_kind, level = "none", 1
    noise = dict(kind=noise_kind, level=level)
    if regime == "sep":
        if preprocess:
            minmass = rng.choice([0, 30])
        else:
            minmass = (nmask * level + 30) if noise_kind != "none" else rng.choice([0, 30, 100])
    else:
        minmass = rng.choice([0, 0, 50, 200, 600])
        if noise_kind in ("uniform", "salt") and level > 10:
            # strong noise with no mass cut turns every noise maximum into a feature: hundreds of
            # features in one sub-net, minutes of branch and bound and nothing learnt
            minmass = max(minmass, nmask * level)
    n = rng.randint(1, 6)
    if regime == "sep":
        frames = place_sep(rng, H, W, n, nfr, sep, sr, rad, sig)
        if frames is None:
            return None
    else:
        # adversarial: anywhere, close pairs, margins, appearing / vanishing blobs
        frames = []
        cur = []
        for _ in range(n):
            kind = rng.random()
            if kind < 0.3 and cur:
                q = rng.choice(cur)
                d = rng.uniform(max(sep) - 3, max(sep) + 3)
                a = rng.uniform(0, 2 * math.pi)
                p = [int(round(q[0] + d * math.sin(a))), int(round(q[1] + d * math.cos(a)))]
            elif kind < 0.55:
                # near an edge (inside or just outside the margin)
                e = rng.choice(["t", "b", "l", "r"])
                off = rng.randint(0, max(rad) + 3)
                p = [rng.randint(0, H - 1), rng.randint(0, W - 1)]
                if e == "t":
                    p[0] = off
                elif e == "b":
                    p[0] = H - 1 - off
                elif e == "l":
                    p[1] = off
                else:
                    p[1] = W - 1 - off
            else:
                p = [rng.randint(0, H - 1), rng.randint(0, W - 1)]
            cur.append(p + [rng.randint(90, 250), sig, rng.randint(0, 1), rng.randint(nfr - 2, nfr + 3)])
        vel = [[rng.randint(-int(sr[0]), int(sr[0])), rng.randint(-int(sr[1]), int(sr[1]))]
               for _ in cur]
        for k in range(nfr):
            frames.append([b[:4] for b in cur if b[4] <= k < b[4] + b[5]])
            for b, v in zip(cur, vel):
                if rng.random() < 0.7:
                    b[0] += v[0]
                    b[1] += v[1]
                else:
                    b[0] += rng.randint(-int(sr[0]), int(sr[0]))
                    b[1] += rng.randint(-int(sr[1]), int(sr[1]))
    flicker = None
    if regime == "adv" and rng.random() < 0.4:
        # the background level changes from frame to frame (the threshold is per frame)
        flicker = [rng.choice([0, 0, 3, 10, 25]) for _ in range(nfr)]
    inp = dict(stream="movie", regime=regime, shape=[H, W], frames=frames, flicker=flicker,
               noise=dict(noise, seed=rng.randrange(10 ** 6)), memory=rng.choice([0, 0, 1]),
               minmass=minmass, preprocess=preprocess, pct=64,
               withhold=dict(mode=rng.choice(["none", "one", "one", "all", "random30", "random30",
                                              "random50"]),
                             seed=rng.randrange(10 ** 6)), dim=2)
    inp.update(par)
    if regime == "sep" and not preprocess and rng.random() < 0.3:
        # dark-frame subtracted float frames: the background is NEGATIVE (level -dark), the blobs are
        # what is left above it.  dark is chosen so that the mass inside a feature mask stays well
        # above minmass while the sum over the (larger) relocation window may well be negative.
        dark = min(4.0, 0.6 * (2 * math.pi * sig * sig * 130) / nmask)
        if dark >= 1.0:
            inp["dark"] = round(dark * rng.choice([0.5, 0.8, 1.0]), 2)
            inp["dtype"] = "float64"
            inp["noise"] = dict(inp["noise"], kind="none")
            inp["minmass"] = rng.choice([0, 30])
    return inp


CAM_SEPS = [(["7", "7"], True), (["8", "8"], True), (["9", "9"], True), (["9", "9"], True),
            (["10", "10"], True), (["11", "11"], True), (["7", "9"], False), (["9", "7"], False),
            (["9", "11"], False), (["15/2", "15/2"], True), (["17/2", "17/2"], True)]


def draw_cam(rng, nfr, amp_hi):
    """a raw-camera illumination: background field + slow gain / additive drift between frames;
    (hi + brightest blob) * largest gain + drift stays below the uint8 ceiling"""
    kind = rng.choice(["gradient", "gradient", "vignette", "corner", "step", "offset", "none"])
    gmode = rng.choice(["flat", "flat", "gain", "drift", "both"])
    gain, drift = [1.0] * nfr, [0] * nfr
    if gmode in ("gain", "both"):
        g = 1.0
        for k in range(1, nfr):
            g = min(1.08, max(0.9, g + rng.choice([-0.04, -0.02, 0.02, 0.04])))
            gain[k] = round(g, 2)
    if gmode in ("drift", "both"):
        d = 0
        for k in range(1, nfr):
            d = max(0, d + rng.choice([-3, -1, 1, 2, 3, 5]))
            drift[k] = d
    top = int((250 - max(drift)) / max(gain)) - amp_hi
    if kind == "none":
        lo = hi = 0
    elif kind == "offset":
        lo = hi = rng.randint(5, max(5, min(150, top)))
    else:
        hi = rng.randint(min(70, top), max(min(70, top), min(200, top)))
        lo = rng.randint(0, max(0, min(30, hi - 50)))
    cam = dict(kind="offset" if kind == "none" else kind, lo=lo, hi=hi, gain=gain, drift=drift)
    if kind in ("gradient", "step"):
        cam["angle"] = rng.randint(0, 7)
    if kind == "step":
        cam["pos"] = rng.choice([0.3, 0.4, 0.5, 0.6, 0.7])
        cam["width"] = rng.choice([6, 8, 10, 14])
    if kind == "vignette":
        cam["centre"] = [rng.choice([0.2, 0.5, 0.5, 0.8]), rng.choice([0.2, 0.5, 0.5, 0.8])]
    if kind == "corner":
        cam["centre"] = [rng.choice([0.0, 1.0]), rng.choice([0.0, 1.0])]
        cam["reach"] = rng.choice([0.3, 0.4, 0.55])
    return cam


_REJECTS = collections.Counter()      # why the generator discarded a draw (development aid)


def gen_cam_movie(rng):
    """stream "cam": raw movies as cameras produce them (uneven illumination, offset, slow drift)
    with preprocess=True, mostly in the sep regime; also varies the options the movie stream keeps
    fixed: percentile, noise_size, smoothing_size, a do-nothing after_link hook, list / reader."""
    if rng.random() < 0.2:
        # admissibility only: the adversarial layouts of the movie stream on an uneven background
        inp = gen_movie(rng, "adv")
        if inp is None:
            return None
        nfr = len(inp["frames"])
        amp_hi = max([b[2] for fr in inp["frames"] for b in fr] + [90])
        if amp_hi > 160:
            for fr in inp["frames"]:
                for b in fr:
                    b[2] = int(b[2] * 0.6)
            amp_hi = int(amp_hi * 0.6)
        inp["cam"] = draw_cam(rng, nfr, amp_hi)
        inp["flicker"] = None
        inp["preprocess"] = rng.random() < 0.8
        inp["stream"] = "cam"
        inp["after_link"] = rng.random() < 0.3
        inp["reader"] = rng.choice(["list", "reader"])
        inp["dtype"] = rng.choice(["uint8", "uint8", "float64"])
        inp["threshold"] = rng.choice([None, None, 1, 3, 5])
        return inp
    par = gen_params(rng, "sep")
    par["sep"], par["sep_iso"] = rng.choice(CAM_SEPS)
    par["sep"] = list(par["sep"])
    sep = [float(Fraction(x)) for x in par["sep"]]
    sr = [q / 4.0 for q in par["sr"]]
    if par["diameter"] is not None and rng.random() < 0.5:
        # diameter relative to the separation: a little smaller / equal / larger (odd or even)
        d = max(3, int(min(sep)) + rng.choice([-2, -1, 0, 1, 2]))
        par["diameter"] = [str(d), str(d)]
    rad = [int(float(Fraction(x)) // 2) for x in (par["diameter"] or par["sep"])]
    H, W = rng.randint(44, 88), rng.randint(44, 88)
    nfr = rng.randint(3, 6)
    smax = max(0.8, min(2.0, (min(sep) - 1) / 4.0))
    sig = rng.choice([smax, round(0.8 * smax, 2)])
    noise_size = rng.choice([1, 1, 1, 0.8, 1.5])
    smoothing = None
    if rng.random() < 0.3:
        smoothing = int(max(sep)) + rng.choice([0, 2, 3, 4])
    box = [int((v - 1) / 2) * 2 + 1 for v in ([smoothing] * 2 if smoothing else sep)]
    pct = rng.choice([64, 64, 64, 50, 30, 75])
    # blobs of the brightness of the background variation, not far above it (uint8 ceiling)
    amp_lo = rng.randint(30, 70)
    amp = (amp_lo, amp_lo + rng.randint(0, 30))
    frames = place_sep(rng, H, W, rng.randint(1, 7), nfr, sep, sr, rad, sig, amp=amp)
    if frames is None:
        _REJECTS["no_room"] += 1
        return None
    noise = dict(kind=rng.choice(["none", "none", "none", "uniform"]), level=rng.randint(1, 2),
                 seed=rng.randrange(10 ** 6))
    dtype = rng.choice(["uint8", "uint8", "float64"])
    # what the band-pass of the code may leave above the ideal one: its rolling average of an integer
    # frame is computed in integer arithmetic (truncation, once per axis)
    slack = 2.0 if dtype == "uint8" else 0.0
    t_default = 1.0 if dtype == "uint8" else 1 / 255.
    inp = None
    for attempt in range(4):
        cam = draw_cam(rng, nfr, amp[1])
        # ---- the premise, stated on the generator's own band-pass: nothing but the blobs is left of
        # the cleaned frame (the clipping threshold is chosen accordingly, as a user would), every
        # rendered blob is a clear maximum of it at its rendered centre
        bps, resid = [], 0.0
        r0 = int(math.ceil(3 * sig + noise_size + 2))
        for k, fr in enumerate(frames):
            raw = render((H, W), fr, dict(noise, seed=noise["seed"] + k), 0, cam, k)
            bp = own_bandpass(raw, noise_size, box, threshold=-1e9)
            rest = bp.copy()
            for b in fr:
                rest[max(0, b[0] - r0):b[0] + r0 + 1, max(0, b[1] - r0):b[1] + r0 + 1] = 0
            resid = max(resid, float(rest.max()))
            bps.append(bp)
        t_min = resid + slack + 0.25
        if t_default > t_min:
            threshold = rng.choice([None, None, None, int(math.ceil(t_min)) + 1, int(math.ceil(t_min)) + 3])
        else:
            threshold = int(math.ceil(t_min)) + rng.choice([0, 0, 1, 2])
        t_eff = t_default if threshold is None else threshold
        ok, mass_min = t_eff <= 10, None
        if not ok:
            _REJECTS["residue_%s" % cam["kind"]] += 1
        for k, fr in enumerate(frames):
            if not ok:
                break
            cl = np.where(bps[k] >= t_eff, bps[k], 0.0)
            nz = cl[cl > 0]
            if len(nz) == 0:
                ok = False
                _REJECTS["empty"] += 1
                break
            thr = float(np.percentile(nz, pct))
            for b in fr:
                y, x = b[0], b[1]
                win = cl[y - 1:y + 2, x - 1:x + 2]
                if cl[y, x] < win.max() or cl[y, x] < 1.2 * thr + 1 + slack:
                    if ok:
                        _REJECTS["peak_offcentre" if cl[y, x] < win.max() else "peak_low_pct%d" % pct] += 1
                    ok = False
                m = disc_mass(cl, (y, x), rad)
                mass_min = m if mass_min is None else min(mass_min, m)
        if ok:
            # minmass stays BELOW the band-passed mass of the dimmest blob.  Kept out on purpose: a
            # minmass between the band-passed mass and the raw-frame mass of a blob.  The unchanged
            # tree fails the recovery clause there: find_link_iter filters the first pass on
            # characterize(coords, image) of the RAW frame, FindLinker.get_relocate_candidates on the
            # mass in the band-passed frame, so a blob that the first pass keeps is refused when it has
            # to be re-found.  E.g. one blob (amplitude 60, sigma 1.5) on a 48x56 black frame,
            # separation 9, search_range 4, preprocess=True, minmass 400: raw mass 824, band-passed
            # mass 381 -> found in frame 0, withheld in frames 1-2, never re-found (reported).
            minmass = rng.choice([0, 30, int(0.5 * mass_min), int(0.8 * mass_min)])
            inp = dict(stream="cam", regime="sep", shape=[H, W], frames=frames, flicker=None,
                       noise=noise, memory=rng.choice([0, 0, 1]), minmass=minmass, preprocess=True,
                       pct=pct, noise_size=noise_size, smoothing_size=smoothing, threshold=threshold,
                       dtype=dtype, cam=cam,
                       after_link=rng.random() < 0.3, reader=rng.choice(["list", "reader"]),
                       premise=dict(attempt=attempt, residue=round(resid, 2),
                                    clean_mass_min=round(float(mass_min), 1)),
                       withhold=dict(mode=rng.choice(["none", "one", "one", "all", "random30",
                                                      "random30", "random50"]),
                                     seed=rng.randrange(10 ** 6)), dim=2)
            break
        if attempt == 1:
            noise = dict(noise, kind="none")
    if inp is None:
        return None
    inp.update(par)
    return inp


PALETTES = [[0, 1], [0, 1, 2], [0, 3, 7, 7], [1, 2, 3, 4, 5], [0, 0, 0, 9], [0, 10, 200, 255]]


def gen_call(rng, dim=2):
    par = gen_params(rng, "adv")
    if dim == 3:
        s = rng.choice([3, 4, 5])
        par = dict(sep=[str(s)] * 3, sep_iso=True, sr=[rng.choice([8, 10, 12])] * 3, iso=True,
                   diameter=None)
        if rng.random() < 0.4:
            par["sr"] = [8, 12, 10]
            par["iso"] = False
        shape = [rng.randint(8, 12) for _ in range(3)]
    else:
        shape = [rng.randint(12, 28), rng.randint(12, 28)]
    pal = rng.choice(PALETTES)
    npix = 1
    for s in shape:
        npix *= s
    kind = rng.choice(["palette", "palette", "spikes", "blobs"])
    if kind == "palette":
        pix = [rng.choice(pal) for _ in range(npix)]
    elif kind == "spikes":
        pix = [rng.choice([0, 1, 1, 2]) for _ in range(npix)]
        for _ in range(rng.randint(2, 10)):
            pix[rng.randrange(npix)] = rng.choice([5, 9, 9, 20])
    else:
        arr = np.zeros(shape)
        grids = np.indices(shape)
        for _ in range(rng.randint(1, 5)):
            c = [rng.randint(0, s - 1) for s in shape]
            arr += rng.randint(5, 60) * np.exp(-sum((g - ci) ** 2 for g, ci in zip(grids, c)) / 4.0)
        pix = [int(v) for v in np.floor(arr).ravel()]
    npos = rng.choice([1, 1, 2, 3])
    pos = [[rng.randint(0, s - 1) for s in shape] for _ in range(npos)]
    pair = None
    if dim == 3 and rng.random() < 0.4:
        # two maxima of different brightness a little MORE than the separation apart, off the axes
        # (legal neighbours; a relocation box that pokes outside the separation ellipsoid along the
        # diagonals would let the brighter one hide the other)
        sepv = float(par["sep"][0])
        offs = [(a, b, c) for a in range(-6, 7) for b in range(-6, 7) for c in range(-6, 7)
                if sepv * sepv < a * a + b * b + c * c <= 1.5 * sepv * sepv and min(abs(a), abs(b), abs(c)) >= 1]
        c0 = [rng.randint(2, sh - 3) for sh in shape]
        rng.shuffle(offs)
        offs.sort(key=lambda o: max(abs(v) for v in o))     # the most diagonal ones first
        for o in offs:
            c1 = [c0[i] + o[i] for i in range(3)]
            if all(1 <= c1[i] < shape[i] - 1 for i in range(3)):
                pair = (c0, c1)
                break
        if pair:
            arr3 = np.array(pix, dtype=np.int64).reshape(shape)
            arr3[tuple(pair[0])] = rng.choice([40, 90, 200])
            arr3[tuple(pair[1])] = int(arr3[tuple(pair[0])]) - rng.choice([1, 5, 20])
            pix = [int(v) for v in arr3.ravel()]
            pos = [list(pair[0]), list(pair[1])]
    if npos > 1 and pair is None and rng.random() < 0.6:
        for p in pos[1:]:
            for i in range(len(shape)):
                p[i] = min(shape[i] - 1, max(0, pos[0][i] + rng.randint(-6, 6)))
    nh = rng.randint(0, 5)
    hashc = [[rng.randint(0, s - 1) for s in shape] for _ in range(nh)]
    return dict(stream="call", shape=shape, pixels=pix, pos=pos, hash=hashc, pct=rng.choice([0, 30, 64, 64, 90]),
                minmass=rng.choice([0, 0, 5, 20, 60]), dim=dim, **par)


def gen_cases(ctx):
    for inp in ctx.corpus():
        yield inp
    nm = ctx.n(700, 5000)
    for i in range(nm):
        rng = ctx.rng("movie", i)
        regime = "sep" if rng.random() < 0.5 else "adv"
        inp = gen_movie(rng, regime)
        if inp is not None:
            yield inp
    ncam = ctx.n(260, 2500)
    for i in range(ncam):
        inp = gen_cam_movie(ctx.rng("cam", i))
        if inp is not None:
            yield inp
    nc = ctx.n(1200, 12000)
    for i in range(nc):
        rng = ctx.rng("call", i)
        yield gen_call(rng, dim=3 if rng.random() < 0.25 else 2)


# ------------------------------------------------------------------------------------------
# running

def params_of(inp):
    sep = [F(s) for s in inp["sep"]]
    sr = [F(q) / 4 for q in inp["sr"]]
    return dict(sep=sep, sr=sr, pct=F(inp["pct"]), minmass=F(inp["minmass"]), iso_sr=bool(inp["iso"]))


def fl_kwargs(inp):
    kw = dict(search_range=tup([F(q) / 4 for q in inp["sr"]], inp["iso"]),
              separation=tup(inp["sep"], inp.get("sep_iso", True)),
              memory=inp.get("memory", 0), minmass=inp["minmass"], percentile=inp["pct"])
    if inp.get("diameter"):
        kw["diameter"] = tup(inp["diameter"], True)
    return kw


def judge_call(ctx, res, rec, par, shape, level_tag, replay=True):
    """oracle first; then the model replay.  Returns True if a violation was recorded."""
    o = oracle_call(rec, par, shape)
    if o is not None:
        msg, sig = o
        sig = dict(sig, bg_radius_short=bool(_bg_short(rec, par)))
        res.violation("property-violation", msg,
                      impl=dict(pos=rec["pos"].tolist(), hash=rec["hash"].tolist(),
                                coords=rec["coords"].tolist(), mass=[float(v) for v in rec["mass"]],
                                bg_radius=rec["bg_radius"]),
                      signature=sig)
        return True
    if not replay:
        return False
    r = replay_call(ctx, res, rec, par, level_tag)
    if isinstance(r, dict):
        res.violation("correspondence-break",
                      "get_relocate_candidates differs from Relocate.relocateCandidates (%s); the "
                      "call-level oracle accepts the output" % r["why"],
                      impl=r["impl"], model=r["model"], broken="Relocate.relocateCandidates",
                      signature=dict(what="relocate-candidates-differ", detail=r["why"].split(" at ")[0]))
        return True
    if r == "borderline":
        res.borderline = True
    return False


def _bg_short(rec, par):
    """is the background radius of this linker smaller than what covers every feature that can
    be closer than separation to an in-range candidate (search_range + separation per axis)?"""
    need = max(float(a + b) for a, b in zip(par["sr"], par["sep"]))
    if par["iso_sr"]:
        return rec["bg_radius"] < need - 1e-12
    need = 1 + max(float(b / a) for a, b in zip(par["sr"], par["sep"]))
    return rec["bg_radius"] < need - 1e-12


def run_call_case(ctx, inp):
    from trackpy.linking.find_link import FindLinker
    from trackpy.linking.subnet import HashKDTree
    from trackpy.linking.utils import points_from_arr
    res = Result()
    par = params_of(inp)
    shape = inp["shape"]
    nd = len(shape)
    image = np.array(inp["pixels"], dtype=np.uint8 if max(inp["pixels"]) < 256 else np.uint16).reshape(shape)
    sr_t = tuple(float(s) for s in par["sr"])
    sep_t = tuple(float(s) for s in par["sep"])
    dia = tuple(float(F(d)) for d in inp["diameter"]) if inp.get("diameter") else None
    if dia is not None and len(dia) != nd:
        dia = (dia[0],) * nd
    try:
        linker = FindLinker(sr_t, sep_t, dia, float(par["minmass"]), float(par["pct"]))
    except Exception as e:      # parameter combination the constructor rejects
        res.stat("call_ctor_rejects")
        return res
    rad = tuple(linker.radius)
    if any(r < 1 for r in rad) or any(s <= 2 * r for s, r in zip(shape, rad)):
        res.stat("call_outside_model")
        return res
    linker.init_level(np.array(inp["pos"], dtype=float).reshape(-1, nd), 0)
    linker.image = image
    linker.curr_t = 1
    hashc = np.array(inp["hash"], dtype=float).reshape(-1, nd)
    linker.hash = HashKDTree(points_from_arr(hashc, 1, None, linker.point_cls), ndim=nd,
                             to_eucl=linker.to_eucl)
    store = []
    with recorded_calls(store):
        linker.get_relocate_candidates(np.array(inp["pos"], dtype=float))
    rec = store[0]
    res.stat("calls")
    res.stat("call_dim_%d" % nd)
    res.stat("call_sr_" + ("iso" if inp["iso"] else "aniso"))
    n = 0 if rec["coords"] is None else len(rec["coords"])
    res.stat("call_candidates", n)
    if rec["coords"] is None:
        res.stat("call_returned_none")
    judge_call(ctx, res, rec, par, shape, "call")
    res.nontrivial = n > 0
    if n > 0 and not res.viol and len(inp["pixels"]) <= 200:
        res.sample = dict(input=inp, candidates=rec["coords"].tolist(), mass=rec["mass"].tolist())
    return res


def run_find_link(inp, store, log):
    """runs trackpy.find_link on the movie; returns the output DataFrame or None"""
    import random as _random
    import trackpy as tp
    shape = tuple(inp["shape"])
    flicker = inp.get("flicker") or [0] * len(inp["frames"])
    reader = [Img(render(shape, fr, dict(inp["noise"], seed=inp["noise"]["seed"] + k), flicker[k],
                         inp.get("cam"), k), k)
              for k, fr in enumerate(inp["frames"])]
    if inp.get("dtype", "uint8") != "uint8":
        reader = [Img(np.asarray(f).astype(inp["dtype"]) - inp.get("dark", 0), f.frame_no) for f in reader]
    if inp.get("reader") == "reader":
        reader = Reader(reader)
    wh = inp["withhold"]

    def before_link(coords, image, **kw):
        t = image.frame_no
        coords = np.asarray(coords)
        log["detected"][t] = [tuple(int(c) for c in p) for p in coords]
        if kw.get("image_proc") is not None:
            log.setdefault("proc", {})[t] = np.array(kw["image_proc"], dtype=np.float64)
            log.setdefault("raw", {})[t] = np.array(image, dtype=np.float64)
        keep = list(range(len(coords)))
        if t > 0 and len(coords):
            r = _random.Random(wh["seed"] * 1000 + t)
            mode = wh["mode"]
            if mode == "one":
                keep.remove(r.randrange(len(coords)))
            elif mode == "all":
                keep = []
            elif mode.startswith("random"):
                frac = int(mode[6:]) / 100.0
                keep = [i for i in keep if r.random() >= frac]
        log["handed"][t] = [tuple(int(c) for c in coords[i]) for i in keep]
        return coords[keep].reshape(len(keep), coords.shape[1] if coords.ndim == 2 else len(shape))

    from trackpy.linking.utils import SubnetOversizeException
    kw = fl_kwargs(inp)
    if inp.get("noise_size") is not None:
        kw["noise_size"] = inp["noise_size"]
    if inp.get("smoothing_size") is not None:
        kw["smoothing_size"] = inp["smoothing_size"]
    if inp.get("threshold") is not None:
        kw["threshold"] = inp["threshold"]
    if inp.get("after_link"):
        # a hook that does nothing (find_link writes its return value back into the linker)
        def after_link(features, **kwargs):
            log["after_link_calls"] = log.get("after_link_calls", 0) + 1
            return features
        kw["after_link"] = after_link
    with recorded_calls(store, log.setdefault("linked", {})):
        try:
            out = tp.find_link(reader, preprocess=inp["preprocess"], before_link=before_link, **kw)
        except ValueError as e:
            if "No objects to concatenate" in str(e):
                return None, reader
            raise
        except SubnetOversizeException:
            return "oversize", reader      # documented way out of crowded sub-nets
    return out, reader


def levels_of(out, nframes):
    lv = []
    for t in range(nframes):
        if out is None:
            lv.append((t, [], [], []))
            continue
        sub = out[out["frame"] == t]
        lv.append((t, [[int(round(v)) for v in row] for row in sub[["y", "x"]].values],
                   [int(v) for v in sub["particle"].values], [float(v) for v in sub["mass"].values]))
    return lv


def partition(levels):
    d = {}
    for (t, pts, labels, *_rest) in levels:
        for p, l in zip(pts, labels):
            d.setdefault(l, set()).add((t, tuple(p)))
    return frozenset(frozenset(v) for v in d.values())


def detect_then_link(inp, reader, log):
    """grey_dilation detections (as handed to the callback) -> characterize / minmass -> tp.link"""
    import pandas as pd
    import trackpy as tp
    from trackpy.feature import characterize
    radius = tuple(radius_of(inp))
    rows = []
    for t, img in enumerate(reader):
        det = np.array(log["detected"].get(t, []), dtype=float).reshape(-1, 2)
        if len(det) == 0:
            continue
        mass = characterize(det, img, radius)["mass"]
        for p, v in zip(det, mass):
            if v >= inp["minmass"]:
                rows.append([p[0], p[1], t])
    if not rows:
        return frozenset()
    df = pd.DataFrame(rows, columns=["y", "x", "frame"])
    df["frame"] = df["frame"].astype(int)
    kw = fl_kwargs(inp)
    lk = tp.link(df, kw["search_range"], pos_columns=["y", "x"], memory=kw["memory"])
    d = {}
    for y, x, t, l in lk[["y", "x", "frame", "particle"]].values:
        d.setdefault(int(l), set()).add((int(t), (int(y), int(x))))
    return frozenset(frozenset(v) for v in d.values())


def flstep_compare(ctx, res, inp, levels, log, store):
    """One FindLinker.next_level at a time against the model Model/FindLinkAlgo.lean (op FLSTEP):
    the state is rebuilt from the implementation's own labelled levels, the relocation oracle is
    instantiated with what get_relocate_candidates returned in this run.  Compared: the emitted
    positions, which of them were added, and (when the optimum is unique) which trajectory every
    feature continues; then the implementation's level is judged by flStep in optimality mode where
    the hypotheses of Props/C14Opt.flAlgo_accepted_opt_partial hold.  Returns (violation recorded,
    every step of the movie was compared and keeps those hypotheses).""" 
    cfg = linkcommon.cfg_tokens(dict(sr=inp["sr"], memory=inp["memory"]), opt=False)

    def pts_s(pts):
        return " ".join(",".join(str(int(c)) for c in p) for p in pts)

    used = set()
    all_opt = True
    for k, (t, pts, labels, _) in enumerate(levels):
        if k == 0:
            used |= set(labels)
            continue
        if t not in log["linked"]:
            # frame never reached next_level
            used |= set(labels)
            all_opt = False
            continue
        handed = log["linked"][t]
        line = ["FLSTEP " + cfg]
        for (t2, p2, l2, _) in levels[:k]:
            line.append("t=%d | %s | %s" % (t2, pts_s(p2), " ".join(map(str, l2))))
        line.append("CUR t=%d | %s" % (t, pts_s(handed)))
        for rec in store:
            if rec["t"] != t:
                continue
            cands = [] if rec["coords"] is None else rec["coords"].tolist()
            ms = [] if rec["coords"] is None else [max(0, int(round(float(v)))) for v in rec["mass"]]
            line.append("ORC %s | %s | %s" % (pts_s(np.rint(rec["pos"]).astype(int).tolist()),
                                               pts_s(cands), " ".join(map(str, ms))))
        hset = set(tuple(h) for h in handed)
        line.append("OUT t=%d | %s | %s | %s" % (
            t, pts_s(pts), " ".join(map(str, labels)),
            " ".join(str(i) for i, p in enumerate(pts) if tuple(p) not in hset)))
        resp = ctx.ask(" ; ".join(line))
        if not resp.startswith("ok"):
            raise RuntimeError("FLSTEP: " + resp)
        m = common.kv(resp)
        res.stat("flstep_steps")
        if m["capped"] == "1" or m["oversize"] == "1":
            res.stat("flstep_capped_or_oversize")
            used |= set(labels)
            all_opt = False
            continue
        mp = [tuple(int(c) for c in q.split(",")) for q in m["dsts"].split(";") if q]
        ml = [int(x) for x in m["labels"].split(",") if x]
        madd = {mp[int(i)] for i in m["added"].split(",") if i}
        fresh = int(m["fresh"])
        rp = [tuple(p) for p in pts]
        hs = set(tuple(h) for h in handed)
        radd = {p for p in rp if p not in hs}
        res.stat("flstep_merged_subnets", int(m["merged"]))
        res.stat("flstep_short_subnets", int(m["short"]))
        why = None
        if m["miss"] != "0" or m["unused"] != "0":
            why = ("sub-nets with a shortage differ: %s relocation call(s) of the model were never made "
                   "by the code, %s of the code's never by the model" % (m["miss"], m["unused"]))
        elif sorted(mp) != sorted(rp):
            why = "emitted positions differ"
        elif madd != radd:
            why = "added features differ"
        elif m["tied"] == "1":
            res.stat("flstep_tied")
        else:
            real = {p: (l if l in used else "new") for p, l in zip(rp, labels)}
            mod = {p: (l if l < fresh else "new") for p, l in zip(mp, ml)}
            if real != mod:
                why = "links differ although the optimum is unique"
            else:
                res.stat("flstep_links_compared")
                if radd:
                    res.stat("flstep_with_added")
        if why is not None:
            res.violation("correspondence-break",
                          "find_link level t=%d differs from FindLink.flAlgoStep (%s); the direct "
                          "oracle accepts the output" % (t, why),
                          impl=dict(points=rp, labels=labels, added=sorted(radd)),
                          model=dict(points=mp, labels=ml, added=sorted(madd), resp=resp),
                          broken="FindLinkAlgo.flAlgoStep",
                          signature=dict(what="flstep-differs", detail=why.split(":")[0]))
            return True, False
        # ---- optimality of the implementation's links on the emitted level (Props/C14Opt.lean)
        if m["implopt"] not in ("ok", "bad"):
            raise RuntimeError("FLSTEP implopt: " + resp)
        res.stat("flstep_local", int(m["local"]))
        res.stat("flstep_lostonly", int(m["lostonly"]))
        if radd:
            res.stat("flstep_local_with_added", int(m["local"]))
        if m["local"] == "1":
            res.stat("flstep_opt_judged")
            if m["implopt"] == "bad":
                res.violation("correspondence-break",
                              "find_link level t=%d: the links are not a minimum-cost assignment on "
                              "the emitted level although every added feature is seen by the sources "
                              "of one sub-net only (flAlgo_accepted_opt_partial: the model's are); "
                              "the direct oracle accepts the output" % t,
                              impl=dict(points=rp, labels=labels, added=sorted(radd)),
                              model=dict(points=mp, labels=ml, added=sorted(madd), resp=resp),
                              broken="Relocate.flStep (opt)",
                              signature=dict(what="flstep-opt-rejects"))
                return True, False
        else:
            all_opt = False
            res.stat("flstep_nonlocal")
            if m["implopt"] == "bad":
                # the witness of Props/C14Opt.flAlgo_opt_witness in the wild: not a C14 violation
                res.stat("flstep_nonlocal_nonoptimal")
        used |= set(labels)
    return False, all_opt


def run_movie_case(ctx, inp):
    res = Result()
    par = params_of(inp)
    shape = inp["shape"]
    radius = radius_of(inp)
    if any(r < 1 for r in radius) or any(s <= 2 * r for s, r in zip(shape, radius)):
        res.stat("movie_outside_model")
        return res
    store = []
    log = dict(detected={}, handed={})
    out, reader = run_find_link(inp, store, log)
    nfr = len(inp["frames"])
    if isinstance(out, str):
        res.stat("movie_subnet_oversize")
        return res
    levels = levels_of(out, nfr)
    handed = {t: set(v) for t, v in log["handed"].items()}
    res.stat("movies")
    res.stat("regime_" + inp["regime"])
    res.stat("withhold_" + inp["withhold"]["mode"])
    res.stat("memory_%d" % inp["memory"])
    res.stat("preprocess_%d" % int(inp["preprocess"]))
    res.stat("sr_" + ("iso" if inp["iso"] else "aniso"))
    res.stat("diameter_" + ("explicit" if inp.get("diameter") else "default"))
    if inp.get("stream") == "cam":
        cam = inp["cam"]
        res.stat("cam_movies")
        res.stat("cam_regime_" + inp["regime"])
        res.stat("cam_bg_" + ("none" if cam["hi"] == 0 else cam["kind"]))
        res.stat("cam_illumination_" + ("steady" if len(set(cam["gain"])) == 1 and
                                        len(set(cam["drift"])) == 1 else "drifting"))
        res.stat("cam_pct_%s" % inp["pct"])
        res.stat("cam_noise_size_%s" % inp.get("noise_size", 1))
        res.stat("cam_smoothing_" + ("explicit" if inp.get("smoothing_size") else "default"))
        res.stat("cam_after_link_%d" % int(bool(inp.get("after_link"))))
        res.stat("cam_dtype_" + inp.get("dtype", "uint8"))
        res.stat("cam_threshold_" + ("default" if inp.get("threshold") is None else "explicit"))
        res.stat("cam_reader_" + inp.get("reader", "list"))
        res.stat("cam_minmass_" + ("0" if inp["minmass"] == 0 else "positive"))
        if inp.get("after_link") and log.get("after_link_calls", 0) == 0 and out is not None:
            res.violation("property-violation", "the after_link hook was never called",
                          signature=dict(what="after-link-not-called"))
            return res
    res.stat("relocate_calls", len(store))
    withheld = sum(len(log["detected"].get(t, [])) - len(log["handed"].get(t, [])) for t in range(nfr))
    res.stat("detections_withheld", withheld)
    added = sum(1 for (t, pts, _, _) in levels for p in pts if tuple(p) not in handed.get(t, set()))
    res.stat("features_added", added)
    res.stat("calls_shortage2", sum(1 for r in store if len(r["pos"]) >= 2))
    res.stat("calls_with_candidates", sum(1 for r in store if r["coords"] is not None and len(r["coords"])))
    res.nontrivial = added > 0
    # ---- 1. the direct oracle on the output
    o = oracle_movie(inp, levels, handed, shape)
    if o is not None:
        msg, sig = o
        short = any(_bg_short(r, par) for r in store) if store else None
        res.violation("property-violation", msg,
                      impl=dict(levels=[(t, p, l) for (t, p, l, _) in levels],
                                handed={str(t): sorted(v) for t, v in handed.items()}),
                      signature=dict(sig, bg_radius_short=short, level="movie"))
        return res
    # ---- 2. the labelling monitor
    line = ["FLRUN " + linkcommon.cfg_tokens(dict(sr=inp["sr"], memory=inp["memory"]), opt=False)]
    for (t, pts, labels, _) in levels:
        ad = [str(i) for i, p in enumerate(pts) if tuple(p) not in handed.get(t, set())]
        line.append("t=%d | %s | %s | %s" % (t, " ".join(",".join(map(str, p)) for p in pts),
                                             " ".join(map(str, labels)), " ".join(ad)))
    m = common.kv(ctx.ask(" ; ".join(line)))
    if m.get("verdict") != "ok":
        res.violation("correspondence-break", "the labelling monitor (FLRUN) rejects the output at "
                      "level %s although the direct oracle accepts it" % m.get("step"),
                      impl=[(t, p, l) for (t, p, l, _) in levels], model=m, broken="Relocate.flStep",
                      signature=dict(what="monitor-rejects"))
        return res
    # ---- 2b. function mode for the labelling: every next_level against FindLink.flAlgoStep
    viol, all_opt = flstep_compare(ctx, res, inp, levels, log, store)
    if viol:
        return res
    # ---- 2c. the monitor in optimality mode on the whole movie, where the hypotheses of
    #          Props/C14Opt.flAlgo_run_accepted_opt_partial hold at every step
    if all_opt and nfr > 1:
        line[0] = "FLRUN " + linkcommon.cfg_tokens(dict(sr=inp["sr"], memory=inp["memory"]), opt=True)
        m = common.kv(ctx.ask(" ; ".join(line)))
        res.stat("flrun_opt_movies")
        if m.get("verdict") != "ok":
            res.violation("correspondence-break", "the labelling monitor in optimality mode (FLRUN "
                          "opt=1) rejects the output at level %s although every step keeps the side "
                          "condition of flAlgo_run_accepted_opt_partial; the direct oracle accepts it"
                          % m.get("step"),
                          impl=[(t, p, l) for (t, p, l, _) in levels], model=m,
                          broken="Relocate.flStep (opt)", signature=dict(what="monitor-opt-rejects"))
            return res
    # ---- 3. recovery / detect-then-link (sep regime only)
    spurious = False
    if inp["regime"] == "sep":
        # the recovery clause is asserted for well-separated blobs ONLY: a spurious feature (noise
        # maximum that passes minmass) anywhere in the movie can legitimately take over a trajectory
        # whose detection was withheld, so such movies are outside the regime
        for t in range(nfr):
            for p in list(levels[t][1]) + [list(q) for q in handed.get(levels[t][0], ())]:
                if not any(abs(p[0] - b[0]) <= 2 and abs(p[1] - b[1]) <= 2 for b in inp["frames"][t]):
                    spurious = True
        if spurious:
            res.stat("recovery_skipped_spurious_features")
    if inp["regime"] == "sep" and not spurious:
        truth = inp["frames"]
        nb = len(truth[0])
        lab = []
        failed = None
        for b in range(nb):
            ls = []
            for t in range(nfr):
                y, x = truth[t][b][0], truth[t][b][1]
                hit = [l for p, l in zip(levels[t][1], levels[t][2])
                       if abs(p[0] - y) <= 2 and abs(p[1] - x) <= 2]
                ls.append(hit[0] if len(hit) == 1 else None)
            lab.append(ls)
            if None in ls or len(set(ls)) != 1:
                failed = (b, ls)
        if failed is None and len(set(l[0] for l in lab)) != nb:
            failed = ("labels shared", [l[0] for l in lab])
        if failed is not None:
            # one known cause (recorded finding): with preprocess=True the first pass applies minmass to
            # the mass on the RAW frame, the relocation to the mass on the band-passed frame; a blob
            # whose minmass lies between the two is detected but can never be re-found
            cause = None
            if inp.get("preprocess") and isinstance(failed[0], int) and log.get("proc"):
                rad_ = [int(r) for r in radius_of(inp)]
                for t in range(1, nfr):
                    if failed[1][t] is None and t in log["proc"]:
                        p_ = (truth[t][failed[0]][0], truth[t][failed[0]][1])
                        mr, mp = disc_mass(log["raw"][t], p_, rad_), disc_mass(log["proc"][t], p_, rad_)
                        if mr is not None and mp is not None and mp < float(inp["minmass"]) <= mr:
                            cause = "minmass-between-raw-and-bandpassed-mass"
            res.violation("property-violation",
                          "well-separated blobs moving less than search_range: trajectory of blob "
                          "%s is not recovered completely (labels per frame %s; withheld pattern %s)"
                          % (failed[0], failed[1], inp["withhold"]["mode"]),
                          impl=dict(levels=[(t, p, l) for (t, p, l, _) in levels],
                                    handed={str(t): sorted(v) for t, v in handed.items()},
                                    truth=truth),
                          signature=dict(what="recovery-failed", sr_iso=bool(inp["iso"]),
                                         withheld=withheld > 0, cause=cause))
            return res
        # first pass / relocation consistency: the complete trajectories are those of the complete
        # detections, so a withheld detection that the first pass would have kept (mass of the
        # feature mask on the frame handed to find_link >= minmass) comes back AT ITS OWN PIXEL
        rawf = [np.asarray(img) for img in reader]
        for t in range(1, nfr):
            outset = set(tuple(p) for p in levels[t][1])
            hs = handed.get(t, set())
            for p in log["detected"].get(t, []):
                if p in hs or not any(abs(p[0] - b[0]) <= 2 and abs(p[1] - b[1]) <= 2
                                      for b in truth[t]):
                    continue
                m0 = disc_mass(rawf[t], p, radius)
                if m0 is None or m0 < inp["minmass"]:
                    res.stat("withheld_below_minmass")
                    continue
                res.stat("withheld_checked_same_pixel")
                if p not in outset:
                    near = [q for q in outset if abs(q[0] - p[0]) <= 2 and abs(q[1] - p[1]) <= 2]
                    res.violation("property-violation",
                                  "frame %d: the detection %s (mass %s >= minmass %s) was withheld and "
                                  "came back at %s instead of its own pixel" % (t, p, m0, inp["minmass"],
                                                                               near),
                                  impl=dict(levels=[(t2, p2, l2) for (t2, p2, l2, _) in levels],
                                            detected={str(k): v for k, v in log["detected"].items()},
                                            handed={str(k): sorted(v) for k, v in handed.items()}),
                                  signature=dict(what="withheld-detection-moved",
                                                 preprocess=bool(inp["preprocess"])))
                    return res
        res.stat("recovered_movies")
        res.stat("recovered_withheld_detections", withheld)
        if inp.get("stream") == "cam":
            res.stat("cam_inside_recovery_clause")
            if withheld:
                res.stat("cam_recovered_with_withheld")
        if withheld == 0 and all(len(log["detected"].get(t, [])) == nb for t in range(nfr)):
            dtl = detect_then_link(inp, reader, log)
            if dtl != partition(levels):
                res.violation("property-violation", "nothing withheld, but find_link's trajectories "
                              "differ from detect-then-link",
                              impl=dict(find_link=sorted(map(sorted, partition(levels))),
                                        detect_then_link=sorted(map(sorted, dtl))),
                              signature=dict(what="differs-from-detect-then-link"))
                return res
            res.stat("equal_detect_then_link")
    # ---- 4. correspondence: replay some of the recorded calls
    limit = 3 if not ctx.thorough else 6
    pick = [r for r in store if r["coords"] is not None and len(r["coords"])][:limit]
    pick += [r for r in store if r["coords"] is None][:1]
    for rec in store:
        replay = any(rec is r for r in pick)
        if judge_call(ctx, res, rec, par, shape, "movie", replay=replay):
            break
    if res.nontrivial and not res.viol and nfr <= 4 and len(inp["frames"][0]) <= 2:
        res.sample = dict(params={k: inp[k] for k in ("sep", "sr", "diameter", "memory", "minmass",
                                                      "preprocess", "withhold", "regime")},
                          detected={str(t): v for t, v in log["detected"].items()},
                          handed={str(t): v for t, v in log["handed"].items()},
                          output=[(t, p, l) for (t, p, l, _) in levels])
    return res


def run_case(ctx, inp):
    if inp.get("stream") == "call":
        return run_call_case(ctx, inp)
    return run_movie_case(ctx, inp)
