"""C02 — every frame-to-frame assignment is the global optimum.

Three streams:
  iter   : FUNCTION MODE for the three solver loops.  The real `SubnetLinker(list)`,
           `nonrecursive_link(list)` and `numba_link(list)` (+ the kernel `_numba_subnet_norecur`
           it calls) are run on Python LISTS of real Point objects (deterministic order) and
           compared with the models `solve` (`RECUR`), `nonrecFuel` (`NONREC`), `numbaLoop`
           (`NUMBA`) of Model/AssignIter.lean: same source order after the stable sort, same
           ASSIGNMENT (ties included), same number of loop iterations (`loopcount` of the kernel;
           reads of `cur_sum_stack[-1]` for `nonrecursive_link`).  The models are PROVED equal to /
           cost-equal with the proven-optimal `solveOrdered` (Props/C02Iter).
  solver : random candidate graphs (exact ties frequent) through the real
           `subnet_linker_recursive/_nonrecursive/_numba(hybrid on/off)`; the model (`SOLVE`,
           proven optimal: Props/C02 `solveOrdered_optimal`) gives the optimum, the driver's proven
           admissibility test (`ADM`, `admissibleB_iff`) is applied to the implementation's
           output; raise/no-raise is compared with `#sources > max_size` (oversize_iff).
  step   : whole movies through `link_iter` checked step by step by the shadow relation of the
           linker model (`LSTEP`, see harness/linkcommon.py) including per-sub-net optimality.
Oracle for the failing-input search: exhaustive enumeration / Hungarian algorithm in Python,
independent of the Lean model.
"""
import itertools

import numpy as np

from . import common
from .common import Result

PROP = "C02"
RULE = ("iter stream: the same random graphs as the solver stream given as LISTS in a random order "
        "(plus the exhaustive family <=3 sources x 3 destinations x distances {1,2}, and rows of 9-10 "
        "candidates around the numba cap); non-trivial = contested; "
        "solver stream: 1-8 sources x 1-8 destinations, 1-5 candidates per source, distances k/8 "
        "from a small range (ties frequent), max_size swept around the sub-net size; step stream: "
        "integer-lattice movies with planted disappear/reappear histories.  Non-trivial = "
        "contested (>=2 sources and >=2 candidates somewhere) for the solver stream, >=1 contested "
        "sub-net or memory re-link for the step stream; distinct = distinct canonical input.")
ASSUMPTIONS = [
    "iter stream: the number of iterations of nonrecursive_link's while-loop is observed by "
    "substituting a counting subclass for `deque` in the module namespace (one read of "
    "cur_sum_stack[-1] per iteration); the kernel's loopcount is its own return value, captured by "
    "wrapping the module attribute; best_sum = 1e23 of the kernel is +infinity in the model "
    "(total cost < 1e23)",
    "costs are exact: distances are k/8 so dist**2 is exact in float64; float accumulation error "
    "in cur_sum (~1e-13) cannot reorder assignments whose exact costs differ by >= 1/64",
    "numba kernels run interpreted (numba is not installed); sources with > 8 real candidates are "
    "excluded for the numba strategies (documented 9-candidate cap)",
    "KD-tree candidate discovery is modelled by brute force (inclusive d <= R) and tied by the "
    "step stream only",
]
MIN_NONTRIVIAL = 20

STRATS = ["recursive", "nonrecursive", "numba", "hybrid"]


def init(ctx):
    common.setup_repo_path()


def _linker(name):
    import functools
    from trackpy.linking import subnetlinker as sl
    return {"recursive": sl.subnet_linker_recursive,
            "nonrecursive": sl.subnet_linker_nonrecursive,
            "hybrid": sl.subnet_linker_numba,
            "numba": functools.partial(sl.subnet_linker_numba, hybrid=False)}[name]


# ------------------------------------------------------------------------------------------
# generation

def gen_graph(rng, big=False):
    ns = rng.randint(1, 8 if not big else 12)
    nd = rng.randint(1, 8 if not big else 12)
    R = rng.choice([4, 6, 8, 10, 16])          # search range in units of 1/8
    lo = rng.choice([1, 1, R // 2, max(1, R - 2)])
    srcs = []
    for _ in range(ns):
        k = rng.randint(1, min(5, nd))
        ds = rng.sample(range(nd), k)
        cands = sorted(((rng.randint(lo, R), d) for d in ds))
        srcs.append([[d, dist] for dist, d in cands])
    used = {d for s in srcs for d, _ in s}
    # every destination of a sub-net has at least one source candidate: drop unused ones
    remap = {d: i for i, d in enumerate(sorted(used))}
    srcs = [[[remap[d], dist] for d, dist in s] for s in srcs]
    return dict(stream="solver", srcs=srcs, R=R, ndest=len(used))


def exh_opts():
    opts = []
    for r in range(1, 4):
        for ds in itertools.combinations(range(3), r):
            for dist in itertools.product([1, 2], repeat=r):
                opts.append(sorted(zip(dist, ds)))
    return opts


def lattice_graph(kx, ky):
    """HARD instance for a branch-and-bound search that is well within MAX_SUB_NET_SIZE: the kx*ky
    nodes of a square lattice are sources, the (kx-1)*(ky-1) cell centres are destinations (all at
    the same distance 7/8, massive ties), plus one source Z whose only candidate X = centre (0,0)
    is 9/8 away with R = 10/8: leaving Z unlinked is cheaper by (100 + 49) - (81 + 100) = -32/64,
    but the search tries Z -> X first."""
    cen = [(i, j) for i in range(kx - 1) for j in range(ky - 1)]
    cid = {c: k for k, c in enumerate(cen)}
    srcs = [[[cid[(0, 0)], 9]]]
    for i in range(kx):
        for j in range(ky):
            srcs.append([[cid[c], 7] for c in ((i - 1, j - 1), (i - 1, j), (i, j - 1), (i, j))
                         if c in cid])
    return srcs


def gen_heavy_cases(ctx):
    """long searches (10^5 .. 3*10^7 loop iterations) that the random stream never reaches and that
    `MAX_ITERS` would skip: a search that gives up after N steps returns its best-so-far"""
    yield dict(stream="iter", srcs=lattice_graph(4, 4), R=10, family="heavy",
               only=["recursive", "nonrecursive", "numba"])
    yield dict(stream="iter", srcs=lattice_graph(4, 5), R=10, family="heavy",
               only=["recursive", "nonrecursive"] if ctx.thorough else ["recursive"])


def gen_iter_cases(ctx):
    for inp in gen_heavy_cases(ctx):
        yield inp
    # exhaustive family: <=2 sources always, 3 sources in the thorough tier
    opts = exh_opts()
    for ns in ((1, 2, 3) if ctx.thorough else (1, 2)):
        for combo in itertools.product(opts, repeat=ns):
            yield dict(stream="iter", srcs=[[[d, dist] for dist, d in c] for c in combo], R=2,
                       family="exh3")
    n = ctx.n(1500, 30000)
    for i in range(n):
        rng = ctx.rng("iter", i)
        if i % 25 == 24:
            # rows of 8..10 entries (incl. null) around the kernel's 9-candidate cap
            ns = rng.randint(1, 3)
            R = rng.choice([4, 8])
            srcs = []
            for j in range(ns):
                k = rng.choice([7, 8, 9]) if j == 0 else rng.randint(1, 4)
                ds = rng.sample(range(10), k)
                srcs.append([[d, dist] for dist, d in sorted((rng.randint(1, R), d) for d in ds)])
            rng.shuffle(srcs)
            yield dict(stream="iter", srcs=srcs, R=R, family="cap")
            continue
        g = gen_graph(rng, big=(i % 10 == 9))
        g["stream"] = "iter"
        rng.shuffle(g["srcs"])
        yield g


def gen_cases(ctx):
    for inp in ctx.corpus():
        yield inp
    for inp in gen_iter_cases(ctx):
        yield inp
    # exhaustive family (thorough): <=3 sources, destinations {0,1,2}, each source's candidate set
    # any non-empty subset with distances in {1,2} (units 1/8), R = 2
    if ctx.thorough:
        opts = []
        for r in range(1, 4):
            for ds in itertools.combinations(range(3), r):
                for dist in itertools.product([1, 2], repeat=r):
                    opts.append(sorted(zip(dist, ds)))
        for ns in (1, 2, 3):
            for combo in itertools.product(opts, repeat=ns):
                srcs = [[[d, dist] for dist, d in c] for c in combo]
                yield dict(stream="solver", srcs=srcs, R=2, ndest=3, family="exh3",
                           strategies=["recursive", "nonrecursive"] if ns == 3 else STRATS)
    n = ctx.n(1500, 30000)
    for i in range(n):
        rng = ctx.rng("solver", i)
        g = gen_graph(rng, big=(i % 10 == 9))
        g["max_size_delta"] = rng.choice([None, None, None, -1, 0, 1])
        g["shuffle"] = rng.randint(0, 10 ** 6)
        # uniform power-of-two rescaling of all distances (exact): the optimum does not change
        # (Props/C03 scale_invariant); tiny magnitudes expose absolute tolerances
        g["scale_pow"] = rng.choice([0, 0, 0, 0, -30, -20, -10, 10, 30])
        yield g
    from . import linkcommon
    m = ctx.n(300, 2500)
    for i in range(m):
        rng = ctx.rng("step", i)
        mv = linkcommon.gen_movie(rng, thorough=ctx.thorough, plant_history=True)
        mv["stream"] = "step"
        mv["strategy"] = rng.choice(["recursive", "nonrecursive", "numba", "hybrid", "auto"])
        yield mv


# ------------------------------------------------------------------------------------------
# implementation runner (solver level)

def run_solver_impl(inp, strategy, max_size):
    """returns ('ok', [chosen dest or None per source], births) or ('oversize',) or ('error', msg)"""
    import random
    from trackpy.linking.utils import Point, SubnetOversizeException
    Point.reset_counter()
    srcs, R8 = inp["srcs"], inp["R"]
    nd = 1 + max([d for s in srcs for d, _ in s], default=-1)
    dps = [Point(1, np.array([float(i), 0.0])) for i in range(nd)]
    sps = [Point(0, np.array([float(i), 1.0])) for i in range(len(srcs))]
    for sp, s in zip(sps, srcs):
        sp.forward_cands = [(dps[d], dist / 8.0 * 2.0 ** inp.get("scale_pow", 0)) for d, dist in s]
    order = list(range(len(sps)))
    random.Random(inp.get("shuffle", 0)).shuffle(order)
    # sets iterate in hash order; insertion order varies with the shuffle
    source_set = set(sps[i] for i in order)
    dest_set = set(dps)
    idx_s = {id(p): i for i, p in enumerate(sps)}
    idx_d = {id(p): i for i, p in enumerate(dps)}
    try:
        spl, dpl = _linker(strategy)(source_set, dest_set, R8 / 8.0 * 2.0 ** inp.get("scale_pow", 0),
                                     max_size=max_size)
    except SubnetOversizeException:
        return ("oversize",)
    chosen = {}
    births = []
    for sp, dp in zip(spl, dpl):
        if sp is None:
            births.append(idx_d[id(dp)])
        else:
            i = idx_s[id(sp)]
            if i in chosen:
                return ("error", "source %d returned twice" % i)
            chosen[i] = None if dp is None else idx_d[id(dp)]
    if len(chosen) != len(sps):
        return ("error", "sources missing from result: %s" % sorted(set(range(len(sps))) - set(chosen)))
    return ("ok", [chosen[i] for i in range(len(sps))], sorted(births))


def oracle_opt_cost(srcs, R):
    """independent optimum: Hungarian algorithm on the augmented matrix (exact ints)"""
    from scipy.optimize import linear_sum_assignment
    ns = len(srcs)
    nd = 1 + max([d for s in srcs for d, _ in s], default=-1)
    BIG = 10 ** 9
    M = np.full((ns, nd + ns), BIG, dtype=np.int64)
    for i, s in enumerate(srcs):
        for d, dist in s:
            M[i, d] = dist * dist
        M[i, nd + i] = R * R
    r, c = linear_sum_assignment(M)
    return int(M[r, c].sum())


def src_line(srcs, R):
    return " | ".join(" ".join(["%d:%d" % (d, dist * dist) for d, dist in s] + ["n:%d" % (R * R)])
                      for s in srcs)


def run_solver_case(ctx, inp):
    res = Result()
    srcs, R = inp["srcs"], inp["R"]
    ns = len(srcs)
    nd = 1 + max([d for s in srcs for d, _ in s], default=-1)
    contested = ns >= 2 and any(len(s) >= 2 for s in srcs)
    res.nontrivial = contested
    line = src_line(srcs, R)
    m = common.kv(ctx.ask("SOLVE " + line))
    if "cost" not in m:
        res.violation("harness-error", "model returned %r" % m)
        return res
    mcost = int(m["cost"])
    res.stat("solver_cases")
    res.stat("solver_unique" if m.get("unique") == "1" else "solver_tied")
    if inp.get("family"):
        res.stat("exhaustive_family")
    delta = inp.get("max_size_delta")
    max_size = 30 if delta is None else max(0, ns + delta)
    shortcut = (ns == 0 and nd == 1) or (ns == 1 and nd == 1)
    for strat in inp.get("strategies", STRATS):
        if strat in ("numba", "hybrid") and any(len(s) > 8 for s in srcs):
            continue
        out = run_solver_impl(inp, strat, max_size)
        expect_oversize = (ns > max_size) and not shortcut
        if out[0] == "oversize":
            res.stat("oversize_raised")
            if not expect_oversize:
                res.violation("property-violation",
                              "%s raised SubnetOversizeException with %d sources <= max_size %d"
                              % (strat, ns, max_size), impl="oversize", model="cost=%d" % mcost,
                              signature=dict(stream="solver", what="spurious-oversize"))
            continue
        if out[0] == "error":
            res.violation("property-violation", "%s: %s" % (strat, out[1]), impl=out,
                          signature=dict(stream="solver", what="malformed-result"))
            continue
        if expect_oversize:
            res.violation("property-violation",
                          "%s returned an answer for %d sources > max_size %d" % (strat, ns, max_size),
                          impl=out, signature=dict(stream="solver", what="missing-oversize"))
            continue
        chosen = out[1]
        dist_of = [dict((d, dist) for d, dist in s) for s in srcs]
        toks = []
        bad = None
        for i, d in enumerate(chosen):
            if d is None:
                toks.append("n:%d" % (R * R))
            elif d in dist_of[i]:
                toks.append("%d:%d" % (d, dist_of[i][d] ** 2))
            else:
                bad = "source %d linked to non-candidate %d" % (i, d)
        if bad is None:
            a = common.kv(ctx.ask("ADM " + line + " # " + " ".join(toks)))
            if a.get("adm") != "1":
                bad = "assignment not admissible (destination used twice)"
            elif int(a["cost"]) != mcost:
                bad = "cost %s/64 but optimum is %d/64" % (a["cost"], mcost)
        # births must be exactly the unclaimed destinations
        if bad is None:
            claimed = {d for d in chosen if d is not None}
            if sorted(set(range(nd)) - claimed) != out[2]:
                bad = "births %s != unclaimed destinations" % (out[2],)
        if bad is not None:
            # independent confirmation (oracle): is it really non-optimal / inadmissible?
            ocost = oracle_opt_cost(srcs, R)
            kind = "property-violation"
            res.violation(kind, "%s: %s (independent optimum %d/64)" % (strat, bad, ocost),
                          impl=dict(chosen=chosen, births=out[2]), model=m,
                          signature=dict(stream="solver", what="non-optimal", strategy=strat))
        elif m.get("unique") == "1":
            massign = [None if t == "n" else int(t) for t in m["assign"].split(",")]
            if massign != chosen:
                res.violation("correspondence-break",
                              "%s: unique optimum but assignment differs" % strat,
                              impl=chosen, model=massign, broken="function-mode solver",
                              signature=dict(stream="solver", what="unique-differs"))
    # the model itself against the independent oracle (guards the harness encoding)
    if res.stats["solver_cases"] and (ns <= 6 or ctx.thorough):
        oc = oracle_opt_cost(srcs, R)
        if oc != mcost:
            res.violation("harness-error", "model optimum %d != independent optimum %d" % (mcost, oc))
    if contested and not res.viol:
        res.sample = dict(input=dict(srcs=srcs, R=R), model=m)
    return res


# ------------------------------------------------------------------------------------------
# iter stream: the three loops in function mode

class _Timeout(Exception):
    pass


MAX_ITERS = {"numba": 20000, "nonrecursive": 50000, "recursive": 50000}   # see run_iter_case


def _guarded(fn, seconds=120):
    """run fn() with an alarm (a mutated loop may not terminate); nests inside the per-case alarm of
    common._run_one: that timer is suspended and re-armed with what is left of it"""
    import signal
    import time

    def _h(signum, frame):
        raise _Timeout()
    try:
        outer_left = signal.getitimer(signal.ITIMER_REAL)[0]
        old = signal.signal(signal.SIGALRM, _h)
        signal.setitimer(signal.ITIMER_REAL, seconds)
    except (ValueError, AttributeError):
        return fn()
    t0 = time.time()
    try:
        return fn()
    finally:
        signal.setitimer(signal.ITIMER_REAL, 0)
        signal.signal(signal.SIGALRM, old)
        if outer_left > 0:
            signal.setitimer(signal.ITIMER_REAL, max(outer_left - (time.time() - t0), 0.01))


def run_iter_impls(inp, skip=(), seconds=120):
    """-> dict name -> ('ok', order, chosen, iters|None) | ('oversize',) | ('exception', repr)
    order = input indices of the sources in the order the function uses/returns them,
    chosen = destination index or None per entry of `order`."""
    import collections
    from trackpy.linking import subnetlinker as sl
    from trackpy.linking.utils import Point, SubnetOversizeException
    if hasattr(Point, "reset_counter"):
        Point.reset_counter()
    srcs, R8 = inp["srcs"], inp["R"]
    nd = 1 + max([d for s in srcs for d, _ in s], default=-1)
    dps = [Point(1, np.array([float(i), 0.0])) for i in range(nd)]
    sps = [Point(0, np.array([float(i), 1.0])) for i in range(len(srcs))]
    for sp, s in zip(sps, srcs):
        sp.forward_cands = [(dps[d], dist / 8.0) for d, dist in s] + [(None, R8 / 8.0)]
    idx_s = {id(p): i for i, p in enumerate(sps)}
    idx_d = {id(p): i for i, p in enumerate(dps)}
    dd = lambda d: None if d is None else idx_d[id(d)]
    out = {}

    def call(name, fn):
        try:
            out[name] = _guarded(fn, seconds)
        except SubnetOversizeException:
            out[name] = ("oversize",)
        except _Timeout:
            out[name] = ("exception", "no termination within the time limit although the model needs "
                                      "a bounded number of loop iterations")
        except Exception as e:                                  # judged by the caller
            out[name] = ("exception", "%s: %s" % (type(e).__name__, e))

    def recur():
        snl = sl.SubnetLinker(list(sps), nd, R8 / 8.0, max_size=30)
        if snl.best_pairs is None:
            return ("ok", [idx_s[id(p)] for p in snl.s_lst], None, None)
        return ("ok", [idx_s[id(p)] for p, _ in snl.best_pairs],
                [dd(d) for _, d in snl.best_pairs], None)

    def nonrec():
        made = []

        class CountDeque(collections.deque):
            def __init__(self, *a):
                super().__init__(*a)
                self.n_get = 0
                made.append(self)

            def __getitem__(self, i):
                self.n_get += 1
                return super().__getitem__(i)
        orig = sl.deque
        sl.deque = CountDeque
        try:
            spl, back = sl.nonrecursive_link(list(sps), nd, R8 / 8.0, max_size=30)
        finally:
            sl.deque = orig
        iters = made[2].n_get if len(made) == 3 else None       # k_stack, cur_back, cur_sum_stack
        return ("ok", [idx_s[id(p)] for p in spl], None if back is None else [dd(d) for d in back],
                iters)

    def numba():
        counts = []
        orig = sl._numba_subnet_norecur

        def wrapped(*a):
            r = orig(*a)
            counts.append(int(r))
            return r
        sl._numba_subnet_norecur = wrapped
        try:
            spl, dpl = sl.numba_link(list(sps), nd, R8 / 8.0, max_size=30)
        finally:
            sl._numba_subnet_norecur = orig
        return ("ok", [idx_s[id(p)] for p in spl], [dd(d) for d in dpl],
                counts[0] if len(counts) == 1 else None)

    for name, fn in (("recursive", recur), ("nonrecursive", nonrec), ("numba", numba)):
        if name in skip:
            out[name] = ("skipped",)
        else:
            call(name, fn)
    return out


def py_judge(srcs, R, order, chosen):
    """independent judgement of an implementation's answer: None if admissible, else a message;
    and its exact cost"""
    if chosen is None:
        return "no assignment returned", None
    if sorted(order) != list(range(len(srcs))) or len(chosen) != len(order):
        return "sources missing or repeated", None
    cost, used = 0, set()
    for i, d in zip(order, chosen):
        if d is None:
            cost += R * R
            continue
        dist = dict((dd, di) for dd, di in srcs[i]).get(d)
        if dist is None:
            return "source %d linked to non-candidate %d" % (i, d), None
        if d in used:
            return "destination %d used twice" % d, None
        used.add(d)
        cost += dist * dist
    return None, cost


def run_iter_case(ctx, inp):
    res = Result()
    srcs, R = inp["srcs"], inp["R"]
    ns = len(srcs)
    res.nontrivial = ns >= 2 and any(len(s) >= 2 for s in srcs)
    line = src_line(srcs, R)
    res.stat("iter_cases")
    if inp.get("family"):
        res.stat("iter_family_" + inp["family"])
    only = inp.get("only")
    ops = {"recursive": "RECUR ", "nonrecursive": "NONREC ", "numba": "NUMBA "}
    models = {k: (ctx.ask(op + line) if only is None or k in only else "skipped")
              for k, op in ops.items()}
    # the interpreted loops cost 5-50 us per iteration: inputs on which the (native) model needs
    # more than MAX_ITERS iterations are not run through that loop (counted, never judged)
    skip = set(ops) - set(only) if only is not None else set()
    for name, mname in (("numba", "numba"), ("nonrecursive", "nonrecursive"),
                        ("recursive", "nonrecursive")):
        if only is not None:
            break                       # heavy family: run exactly the loops asked for
        it = common.kv(models[mname]).get("iters")
        if it is not None and int(it) > MAX_ITERS[name]:
            skip.add(name)
            res.stat("iter_skipped_long_" + name)
    impl = run_iter_impls(inp, skip, seconds=900 if only is not None else 120)
    ocost = None
    first_assign = {}
    for name in ("recursive", "nonrecursive", "numba"):
        mraw = models[name]
        out = impl[name]
        if out[0] == "skipped":
            continue
        if mraw in ("bad-op", "bad-perm", "nofuel", "none") or mraw.startswith("none"):
            res.violation("harness-error", "%s model answered %r" % (name, mraw))
            continue
        if mraw == "oversize":
            res.stat("iter_numba_cap")
            if out[0] != "oversize":
                res.violation("correspondence-break",
                              "numba_link: model says >9 candidates (oversize), implementation %r"
                              % (out,), impl=out, model=mraw, broken="numbaCapOK",
                              signature=dict(stream="iter", what="cap", solver=name))
            continue
        m = common.kv(mraw)
        massign = [None if t == "n" else int(t) for t in m["assign"].split(",")]
        morder = [int(t) for t in m["perm"].split(",")] if "perm" in m else list(range(ns))
        miters = int(m["iters"]) if "iters" in m else None
        mcost = int(m["cost"])
        if out[0] != "ok":
            res.violation("property-violation",
                          "%s returned no assignment (%s); the optimum has cost %d/64"
                          % (name, out[1] if len(out) > 1 else out[0], mcost), impl=out, model=m,
                          signature=dict(stream="iter", what="no-answer", solver=name))
            continue
        _, order, chosen, iters = out
        if order == morder and chosen == massign and (iters == miters or miters is None
                                                      or iters is None):
            res.stat("iter_agree_" + name)
            first_assign[name] = dict(zip(order, chosen))
            if miters is not None and iters is not None:
                res.stat("iter_loopcount_compared")
                res.stat("iter_loop_iterations", iters)
            continue
        # disagreement: first the direct oracle (independent of the Lean model)
        if ocost is None:
            ocost = oracle_opt_cost(srcs, R)
        bad, cost = py_judge(srcs, R, order, chosen)
        if bad is not None or cost != ocost:
            res.violation("property-violation",
                          "%s: %s (independent optimum %d/64)"
                          % (name, bad or ("cost %d/64 is not optimal" % cost), ocost),
                          impl=dict(order=order, chosen=chosen), model=m,
                          signature=dict(stream="iter", what="non-optimal", solver=name))
            continue
        what = ("order" if order != morder else
                "tie-choice" if chosen != massign else "iterations")
        res.violation("correspondence-break",
                      "%s: optimal, but %s differs from the model (impl order=%s chosen=%s iters=%s)"
                      % (name, what, order, chosen, iters),
                      impl=dict(order=order, chosen=chosen, iters=iters), model=m,
                      broken={"recursive": "solve", "nonrecursive": "nonrecFuel / nonrec_eq_solve",
                              "numba": "numbaLoop / numba_eq_solveL"}[name],
                      signature=dict(stream="iter", what=what, solver=name))
    if "recursive" in first_assign and "numba" in first_assign:
        res.stat("iter_numba_tie_choice_differs"
                 if first_assign["recursive"] != first_assign["numba"] else "iter_numba_same_as_recur")
    if "recursive" in first_assign and "nonrecursive" in first_assign \
            and first_assign["recursive"] != first_assign["nonrecursive"]:
        # nonrec_eq_solve says this cannot happen when both agree with their models
        res.violation("harness-error", "recursive and nonrecursive models disagree")
    if res.nontrivial and not res.viol:
        res.sample = dict(input=dict(srcs=srcs, R=R), model=models)
    return res


def run_case(ctx, inp):
    if inp.get("stream") == "solver":
        return run_solver_case(ctx, inp)
    if inp.get("stream") == "iter":
        return run_iter_case(ctx, inp)
    from . import linkcommon
    return linkcommon.run_movie_case(ctx, inp, want=("valid", "optimal"), prop="C02")
